From Coq Require Import Reals Lra.
From Interval Require Import Tactic.
From RV Require Import IR.Model IR.Proofs.
Open Scope R_scope.
Lemma r_A02_28 : rio_reads A02_c A02_e A02_lo A02_hi floor_volts ctol (Build_rio (Fin (3246626956972881 / 295147905179352825856)) (Fin (5 / 1)) (Fin (3 / 1)) (Fin (6 / 1)) (Fin (12 / 1)) true true true ((Fin (0 / 1)) :: (Fin (0 / 1)) :: (Fin (0 / 1)) :: (Fin (0 / 1)) :: (Fin (27 / 4)) :: (Fin (45 / 1)) :: nil)) (145 / 1).
Proof. apply (A02_rio_fin _ (3246626956972881 / 295147905179352825856)); [reflexivity | apply (A02_q_hi 3246626956972881 295147905179352825856 145 1); [vm_compute; reflexivity | unfold fr, ctol, A02_hi, A02_c, A02_e; interval with (i_prec 80)]]. Qed.
Lemma r_A02_46 : rio_reads A02_c A02_e A02_lo A02_hi floor_volts ctol (Build_rio (Fin (1037521050473793 / 2251799813685248)) (Fin (5 / 1)) (Fin (3715469692580659 / 1125899906842624)) (Fin (6 / 1)) (Fin (12 / 1)) true true true ((Fin (0 / 1)) :: (Fin (1 / 2)) :: (Fin (0 / 1)) :: (Fin (0 / 1)) :: (Fin (27 / 4)) :: (Fin (45 / 1)) :: nil)) (145 / 1).
Proof. apply (A02_rio_fin _ (1037521050473793 / 2251799813685248)); [reflexivity | apply (A02_q_hi 1037521050473793 2251799813685248 145 1); [vm_compute; reflexivity | unfold fr, ctol, A02_hi, A02_c, A02_e; interval with (i_prec 80)]]. Qed.
Lemma r_A02_62 : rio_reads A02_c A02_e A02_lo A02_hi floor_volts ctol (Build_rio (Fin (10405 / 4096)) PInf PInf PInf PInf true true true ((Fin (0 / 1)) :: (Fin (0 / 1)) :: (Fin (0 / 1)) :: (Fin (0 / 1)) :: (Fin (27 / 4)) :: (Fin (45 / 1)) :: nil)) (6333694367004719 / 281474976710656).
Proof. apply (A02_rio_fin _ (10405 / 4096)); [reflexivity | apply (A02_q_mid 10405 4096 6333694367004719 281474976710656); [vm_compute; reflexivity | unfold fr, close, ctol, A02_c, A02_e; interval with (i_prec 80)]]. Qed.
Lemma r_A02_78 : rio_reads A02_c A02_e A02_lo A02_hi floor_volts ctol (Build_rio (Fin (55 / 256)) (Fin (5251 / 1024)) (Fin (4227 / 1024)) (Fin (673 / 128)) (Fin (4569 / 1024)) true true true ((Fin (351 / 128)) :: (Fin (365 / 512)) :: (Fin (433 / 1024)) :: (Fin (16365 / 256)) :: (Fin (6185 / 1024)) :: (Fin (271 / 128)) :: nil)) (145 / 1).
Proof. apply (A02_rio_fin _ (55 / 256)); [reflexivity | apply (A02_q_hi 55 256 145 1); [vm_compute; reflexivity | unfold fr, ctol, A02_hi, A02_c, A02_e; interval with (i_prec 80)]]. Qed.
Lemma r_A02_94 : rio_reads A02_c A02_e A02_lo A02_hi floor_volts ctol (Build_rio (Fin (135 / 256)) (Fin (691 / 128)) (Fin (3715469692580659 / 1125899906842624)) (Fin (6 / 1)) (Fin (5711 / 512)) true true true ((Fin (21 / 128)) :: (Fin (1509 / 1024)) :: (Fin (1997 / 1024)) :: (Fin (14559 / 128)) :: (Fin (9101 / 1024)) :: (Fin (11033 / 512)) :: nil)) (8814587055832997 / 70368744177664).
Proof. apply (A02_rio_fin _ (135 / 256)); [reflexivity | apply (A02_q_mid 135 256 8814587055832997 70368744177664); [vm_compute; reflexivity | unfold fr, close, ctol, A02_c, A02_e; interval with (i_prec 80)]]. Qed.
Lemma r_A02_110 : rio_reads A02_c A02_e A02_lo A02_hi floor_volts ctol (Build_rio (Fin (215 / 256)) (Fin (4789 / 1024)) (Fin (3219 / 1024)) (Fin (6 / 1)) (Fin (10761 / 1024)) false true true ((Fin (13 / 8)) :: (Fin (491 / 512)) :: (Fin (2027 / 1024)) :: (Fin (27349 / 256)) :: (Fin (3963 / 1024)) :: (Fin (12739 / 512)) :: nil)) (2651390236307245 / 35184372088832).
Proof. apply (A02_rio_fin _ (215 / 256)); [reflexivity | apply (A02_q_mid 215 256 2651390236307245 35184372088832); [vm_compute; reflexivity | unfold fr, close, ctol, A02_c, A02_e; interval with (i_prec 80)]]. Qed.
Lemma r_A02_126 : rio_reads A02_c A02_e A02_lo A02_hi floor_volts ctol (Build_rio (Fin (295 / 256)) (Fin (4573 / 1024)) (Fin (2903 / 1024)) (Fin (2955 / 512)) (Fin (619 / 64)) true true true ((Fin (149 / 512)) :: (Fin (1699 / 1024)) :: (Fin (243 / 1024)) :: (Fin (41839 / 512)) :: (Fin (4521 / 1024)) :: (Fin (975 / 1024)) :: nil)) (7507767254833345 / 140737488355328).
Proof. apply (A02_rio_fin _ (295 / 256)); [reflexivity | apply (A02_q_mid 295 256 7507767254833345 140737488355328); [vm_compute; reflexivity | unfold fr, close, ctol, A02_c, A02_e; interval with (i_prec 80)]]. Qed.
Lemma r_A02_142 : rio_reads A02_c A02_e A02_lo A02_hi floor_volts ctol (Build_rio (Fin (375 / 256)) (Fin (4555 / 1024)) (Fin (1795 / 512)) (Fin (6 / 1)) (Fin (11621 / 1024)) true true true ((Fin (1227 / 1024)) :: (Fin (353 / 512)) :: (Fin (465 / 1024)) :: (Fin (73941 / 512)) :: (Fin (6151 / 1024)) :: (Fin ((-1341) / 1024)) :: nil)) (2888579349875837 / 70368744177664).
Proof. apply (A02_rio_fin _ (375 / 256)); [reflexivity | apply (A02_q_mid 375 256 2888579349875837 70368744177664); [vm_compute; reflexivity | unfold fr, close, ctol, A02_c, A02_e; interval with (i_prec 80)]]. Qed.
Lemma r_A02_158 : rio_reads A02_c A02_e A02_lo A02_hi floor_volts ctol (Build_rio (Fin (455 / 256)) (Fin (2321 / 512)) (Fin (5145 / 512)) (Fin (6371 / 1024)) (Fin (13025 / 1024)) true false false ((Fin (705 / 512)) :: (Fin (171 / 512)) :: (Fin (335 / 128)) :: (Fin (42967 / 1024)) :: (Fin (1067 / 256)) :: (Fin (35429 / 1024)) :: nil)) (584679692768863 / 17592186044416).
Proof. apply (A02_rio_fin _ (455 / 256)); [reflexivity | apply (A02_q_mid 455 256 584679692768863 17592186044416); [vm_compute; reflexivity | unfold fr, close, ctol, A02_c, A02_e; interval with (i_prec 80)]]. Qed.
Lemma r_A02_174 : rio_reads A02_c A02_e A02_lo A02_hi floor_volts ctol (Build_rio (Fin (535 / 256)) (Fin (73 / 16)) (Fin (55 / 16)) (Fin (6277 / 1024)) (Fin (10417 / 1024)) true true true ((Fin (1185 / 1024)) :: (Fin (73 / 256)) :: (Fin (101 / 64)) :: (Fin (71351 / 512)) :: (Fin (9171 / 1024)) :: (Fin (40613 / 1024)) :: nil)) (7838340183763975 / 281474976710656).
Proof. apply (A02_rio_fin _ (535 / 256)); [reflexivity | apply (A02_q_mid 535 256 7838340183763975 281474976710656); [vm_compute; reflexivity | unfold fr, close, ctol, A02_c, A02_e; interval with (i_prec 80)]]. Qed.
Lemma r_A02_190 : rio_reads A02_c A02_e A02_lo A02_hi floor_volts ctol (Build_rio (Fin (615 / 256)) (Fin (1 / 1)) (Fin (3257 / 1024)) (Fin (3109 / 512)) NInf true false true ((Fin (677 / 1024)) :: (Fin (387 / 256)) :: (Fin (429 / 256)) :: (Fin (1113 / 8)) :: (Fin (4005 / 1024)) :: (Fin (22059 / 256)) :: nil)) (6731855906656093 / 281474976710656).
Proof. apply (A02_rio_fin _ (615 / 256)); [reflexivity | apply (A02_q_mid 615 256 6731855906656093 281474976710656); [vm_compute; reflexivity | unfold fr, close, ctol, A02_c, A02_e; interval with (i_prec 80)]]. Qed.
Lemma r_A02_206 : rio_reads A02_c A02_e A02_lo A02_hi floor_volts ctol (Build_rio (Fin (175 / 64)) (Fin (5419 / 1024)) (Fin (1689 / 512)) (Fin (14735 / 1024)) (Fin (5123 / 512)) false true true ((Fin (2761 / 1024)) :: (Fin (189 / 512)) :: (Fin (107 / 256)) :: (Fin (121557 / 1024)) :: (Fin (477 / 128)) :: (Fin (48427 / 512)) :: nil)) (45 / 2).
Proof. apply (A02_rio_fin _ (175 / 64)); [reflexivity | apply (A02_q_lo 175 64 45 2); [vm_compute; reflexivity | unfold fr, ctol, A02_lo, A02_c, A02_e; interval with (i_prec 80)]]. Qed.
Lemma r_A02_222 : rio_reads A02_c A02_e A02_lo A02_hi floor_volts ctol (Build_rio (Fin (195 / 64)) (Fin (1245 / 256)) (Fin (1683 / 512)) (Fin (6167 / 1024)) (Fin (5902958103587057 / 590295810358705651712)) true true true ((Fin (249 / 1024)) :: (Fin (7 / 1024)) :: (Fin (151 / 64)) :: (Fin (53587 / 1024)) :: (Fin (4469 / 1024)) :: (Fin (45293 / 512)) :: nil)) (45 / 2).
Proof. apply (A02_rio_fin _ (195 / 64)); [reflexivity | apply (A02_q_lo 195 64 45 2); [vm_compute; reflexivity | unfold fr, ctol, A02_lo, A02_c, A02_e; interval with (i_prec 80)]]. Qed.
Lemma r_A02_238 : rio_reads A02_c A02_e A02_lo A02_hi floor_volts ctol (Build_rio (Fin (215 / 64)) (Fin (5207 / 1024)) (Fin (1607 / 512)) (Fin ((-1) / 1)) (Fin (11031 / 1024)) true true true ((Fin (1711 / 1024)) :: (Fin (1291 / 1024)) :: (Fin (1539 / 1024)) :: (Fin (3629 / 128)) :: (Fin (3741 / 512)) :: (Fin (583 / 256)) :: nil)) (45 / 2).
Proof. apply (A02_rio_fin _ (215 / 64)); [reflexivity | apply (A02_q_lo 215 64 45 2); [vm_compute; reflexivity | unfold fr, ctol, A02_lo, A02_c, A02_e; interval with (i_prec 80)]]. Qed.
Lemma r_A02_254 : rio_reads A02_c A02_e A02_lo A02_hi floor_volts ctol (Build_rio (Fin (235 / 64)) (Fin (100000000000000001097906362944045541740492309677311846336810682903157585404911491537163328978494688899061249669721172515611590283743140088328307009198146046031271664502933027185697489699588559043338384466165001178426897626212945177628091195786707458122783970171784415105291802893207873272974885715430223118336 / 1)) (Fin (1429 / 512)) (Fin (153 / 1024)) (Fin (9851 / 1024)) true true true ((Fin (2127 / 1024)) :: (Fin (289 / 512)) :: (Fin (199 / 256)) :: (Fin (35465 / 256)) :: (Fin (8929 / 1024)) :: (Fin (100473 / 1024)) :: nil)) (45 / 2).
Proof. apply (A02_rio_fin _ (235 / 64)); [reflexivity | apply (A02_q_lo 235 64 45 2); [vm_compute; reflexivity | unfold fr, ctol, A02_lo, A02_c, A02_e; interval with (i_prec 80)]]. Qed.
Lemma r_A02_270 : rio_reads A02_c A02_e A02_lo A02_hi floor_volts ctol (Build_rio (Fin (255 / 64)) (Fin (5 / 1)) (Fin (2809 / 1024)) (Fin (5649 / 1024)) (Fin (5067 / 512)) true true false ((Fin (1311 / 1024)) :: (Fin (499 / 1024)) :: (Fin (473 / 1024)) :: (Fin (111881 / 1024)) :: (Fin (4123 / 512)) :: (Fin ((-16117) / 1024)) :: nil)) (45 / 2).
Proof. apply (A02_rio_fin _ (255 / 64)); [reflexivity | apply (A02_q_lo 255 64 45 2); [vm_compute; reflexivity | unfold fr, ctol, A02_lo, A02_c, A02_e; interval with (i_prec 80)]]. Qed.
Lemma r_A02_286 : rio_reads A02_c A02_e A02_lo A02_hi floor_volts ctol (Build_rio (Fin (275 / 64)) (Fin (9999 / 1024)) (Fin (3165 / 1024)) (Fin (5027 / 1024)) (Fin (11645 / 1024)) true true true ((Fin (2197 / 1024)) :: (Fin (1649 / 1024)) :: (Fin (819 / 1024)) :: (Fin (85009 / 512)) :: (Fin (131 / 32)) :: (Fin (42525 / 512)) :: nil)) (45 / 2).
Proof. apply (A02_rio_fin _ (275 / 64)); [reflexivity | apply (A02_q_lo 275 64 45 2); [vm_compute; reflexivity | unfold fr, ctol, A02_lo, A02_c, A02_e; interval with (i_prec 80)]]. Qed.
Lemma r_A02_302 : rio_reads A02_c A02_e A02_lo A02_hi floor_volts ctol (Build_rio (Fin (295 / 64)) (Fin (4217 / 1024)) (Fin (2769 / 1024)) (Fin (2745 / 512)) (Fin (12 / 1)) true false false ((Fin (1475 / 1024)) :: (Fin (707 / 1024)) :: (Fin (971 / 1024)) :: (Fin (11079 / 128)) :: (Fin (2159 / 512)) :: (Fin (64749 / 1024)) :: nil)) (45 / 2).
Proof. apply (A02_rio_fin _ (295 / 64)); [reflexivity | apply (A02_q_lo 295 64 45 2); [vm_compute; reflexivity | unfold fr, ctol, A02_lo, A02_c, A02_e; interval with (i_prec 80)]]. Qed.
Lemma r_A02_318 : rio_reads A02_c A02_e A02_lo A02_hi floor_volts ctol (Build_rio (Fin (315 / 64)) (Fin (5 / 1)) (Fin (6645 / 1024)) (Fin (825 / 128)) (Fin (5871 / 512)) true true false ((Fin (435 / 512)) :: (Fin (351 / 512)) :: (Fin (1475 / 1024)) :: (Fin (30617 / 512)) :: (Fin (207 / 64)) :: (Fin ((-339) / 512)) :: nil)) (45 / 2).
Proof. apply (A02_rio_fin _ (315 / 64)); [reflexivity | apply (A02_q_lo 315 64 45 2); [vm_compute; reflexivity | unfold fr, ctol, A02_lo, A02_c, A02_e; interval with (i_prec 80)]]. Qed.
Lemma r_A02_334 : rio_reads A02_c A02_e A02_lo A02_hi floor_volts ctol (Build_rio (Fin (9924280323701 / 8796093022208)) (Fin (5287 / 1024)) (Fin (787 / 256)) (Fin (6653 / 512)) (Fin (10859 / 1024)) false true true ((Fin (147 / 512)) :: (Fin (13 / 1024)) :: (Fin (99 / 128)) :: (Fin (188919 / 1024)) :: (Fin (1589 / 256)) :: (Fin (95795 / 1024)) :: nil)) (960367725224943 / 17592186044416).
Proof. apply (A02_rio_fin _ (9924280323701 / 8796093022208)); [reflexivity | apply (A02_q_mid 9924280323701 8796093022208 960367725224943 17592186044416); [vm_compute; reflexivity | unfold fr, close, ctol, A02_c, A02_e; interval with (i_prec 80)]]. Qed.
Lemma r_A02_350 : rio_reads A02_c A02_e A02_lo A02_hi floor_volts ctol (Build_rio (Fin (432687652033365 / 140737488355328)) (Fin (5133 / 1024)) (Fin (705 / 256)) (Fin (3331 / 512)) (Fin (12 / 1)) true true true ((Fin (2899 / 1024)) :: (Fin (161 / 1024)) :: (Fin (971 / 512)) :: (Fin (55197 / 1024)) :: (Fin (4123 / 512)) :: (Fin (6255 / 512)) :: nil)) (45 / 2).
Proof. apply (A02_rio_fin _ (432687652033365 / 140737488355328)); [reflexivity | apply (A02_q_lo 432687652033365 140737488355328 45 2); [vm_compute; reflexivity | unfold fr, ctol, A02_lo, A02_c, A02_e; interval with (i_prec 80)]]. Qed.
Lemma r_A02_366 : rio_reads A02_c A02_e A02_lo A02_hi floor_volts ctol (Build_rio (Fin (569493187360961 / 140737488355328)) (Fin (10131 / 1024)) (Fin (2881 / 1024)) (Fin (1193 / 512)) (Fin (5037 / 512)) true true true ((Fin (2649 / 1024)) :: (Fin (627 / 512)) :: (Fin (1033 / 512)) :: (Fin (13471 / 512)) :: (Fin (4447 / 1024)) :: (Fin ((-9157) / 512)) :: nil)) (45 / 2).
Proof. apply (A02_rio_fin _ (569493187360961 / 140737488355328)); [reflexivity | apply (A02_q_lo 569493187360961 140737488355328 45 2); [vm_compute; reflexivity | unfold fr, ctol, A02_lo, A02_c, A02_e; interval with (i_prec 80)]]. Qed.
Lemma r_A02_383 : rio_reads A02_c A02_e A02_lo A02_hi floor_volts ctol (Build_rio (Fin (2767296366870483 / 1152921504606846976)) (Fin (5 / 1)) (Fin (3715469692580659 / 1125899906842624)) (Fin (6 / 1)) (Fin (12 / 1)) true true true ((Fin (0 / 1)) :: (Fin (0 / 1)) :: (Fin (0 / 1)) :: (Fin (0 / 1)) :: (Fin (27 / 4)) :: (Fin (45 / 1)) :: nil)) (145 / 1).
Proof. apply (A02_rio_fin _ (2767296366870483 / 1152921504606846976)); [reflexivity | apply (A02_q_hi 2767296366870483 1152921504606846976 145 1); [vm_compute; reflexivity | unfold fr, ctol, A02_hi, A02_c, A02_e; interval with (i_prec 80)]]. Qed.
Lemma r_A02_401 : rio_reads A02_c A02_e A02_lo A02_hi floor_volts ctol (Build_rio (Fin (5651381681196261 / 2305843009213693952)) (Fin (5 / 1)) (Fin (3715469692580659 / 1125899906842624)) (Fin (6 / 1)) (Fin (12 / 1)) true true true ((Fin (0 / 1)) :: (Fin (0 / 1)) :: (Fin (0 / 1)) :: (Fin (0 / 1)) :: (Fin (27 / 4)) :: (Fin (45 / 1)) :: nil)) (145 / 1).
Proof. apply (A02_rio_fin _ (5651381681196261 / 2305843009213693952)); [reflexivity | apply (A02_q_hi 5651381681196261 2305843009213693952 145 1); [vm_compute; reflexivity | unfold fr, ctol, A02_hi, A02_c, A02_e; interval with (i_prec 80)]]. Qed.
Lemma r_A02_420 : rio_reads A02_c A02_e A02_lo A02_hi floor_volts ctol (Build_rio (Fin (4674485156130227 / 1152921504606846976)) (Fin (2181 / 512)) (Fin (100000000000000001097906362944045541740492309677311846336810682903157585404911491537163328978494688899061249669721172515611590283743140088328307009198146046031271664502933027185697489699588559043338384466165001178426897626212945177628091195786707458122783970171784415105291802893207873272974885715430223118336 / 1)) (Fin (2743 / 256)) (Fin (11011 / 1024)) true false false ((Fin (603 / 512)) :: (Fin (491 / 256)) :: (Fin (521 / 512)) :: (Fin (56243 / 1024)) :: (Fin (6557 / 1024)) :: (Fin (4679 / 256)) :: nil)) (145 / 1).
Proof. apply (A02_rio_fin _ (4674485156130227 / 1152921504606846976)); [reflexivity | apply (A02_q_hi 4674485156130227 1152921504606846976 145 1); [vm_compute; reflexivity | unfold fr, ctol, A02_hi, A02_c, A02_e; interval with (i_prec 80)]]. Qed.
Lemma d_A02_8u : close ctol (4395730056459969 / 2251799813685248) (volts_A02 (30 / 1)).
Proof. apply (A02_q_volts_mid 30 1 4395730056459969 2251799813685248); [vm_compute; reflexivity | unfold fr, close, ctol, A02_lo, A02_hi, A02_c, A02_e; interval with (i_prec 80)]. Qed.
Lemma d_A02_16u : close ctol (7634039911027491 / 4503599627370496) (volts_A02 (35 / 1)).
Proof. apply (A02_q_volts_mid 35 1 7634039911027491 4503599627370496); [vm_compute; reflexivity | unfold fr, close, ctol, A02_lo, A02_hi, A02_c, A02_e; interval with (i_prec 80)]. Qed.
Lemma d_A02_24u : close ctol (357539307115111 / 140737488355328) (volts_A02 ((-100000000000000001097906362944045541740492309677311846336810682903157585404911491537163328978494688899061249669721172515611590283743140088328307009198146046031271664502933027185697489699588559043338384466165001178426897626212945177628091195786707458122783970171784415105291802893207873272974885715430223118336) / 1)).
Proof. apply (A02_q_volts_lo (-100000000000000001097906362944045541740492309677311846336810682903157585404911491537163328978494688899061249669721172515611590283743140088328307009198146046031271664502933027185697489699588559043338384466165001178426897626212945177628091195786707458122783970171784415105291802893207873272974885715430223118336) 1 357539307115111 140737488355328); [vm_compute; reflexivity | unfold fr, close, ctol, A02_lo, A02_hi, A02_c, A02_e; interval with (i_prec 80)]. Qed.
Lemma d_A02_32u : close ctol (4395730056459969 / 2251799813685248) (volts_A02 (30 / 1)).
Proof. apply (A02_q_volts_mid 30 1 4395730056459969 2251799813685248); [vm_compute; reflexivity | unfold fr, close, ctol, A02_lo, A02_hi, A02_c, A02_e; interval with (i_prec 80)]. Qed.
Lemma d_A02_40u : close ctol (8308476880671015 / 18014398509481984) (volts_A02 (179769313486231570814527423731704356798070567525844996598917476803157260780028538760589558632766878171540458953514382464234321326889464182768467546703537516986049910576551282076245490090389328944075868508455133942304583236903222948165808559332123348274797826204144723168738177180919299881250404026184124858368 / 1)).
Proof. apply (A02_q_volts_hi 179769313486231570814527423731704356798070567525844996598917476803157260780028538760589558632766878171540458953514382464234321326889464182768467546703537516986049910576551282076245490090389328944075868508455133942304583236903222948165808559332123348274797826204144723168738177180919299881250404026184124858368 1 8308476880671015 18014398509481984); [vm_compute; reflexivity | unfold fr, close, ctol, A02_lo, A02_hi, A02_c, A02_e; interval with (i_prec 80)]. Qed.
Lemma d_A02_48u : close ctol (8308476880671015 / 18014398509481984) (volts_A02 (5101733952880641 / 35184372088832)).
Proof. apply (A02_q_volts_hi 5101733952880641 35184372088832 8308476880671015 18014398509481984); [vm_compute; reflexivity | unfold fr, close, ctol, A02_lo, A02_hi, A02_c, A02_e; interval with (i_prec 80)]. Qed.
Lemma d_A02_56u : close ctol (5606639639729965 / 2251799813685248) (volts_A02 (23 / 1)).
Proof. apply (A02_q_volts_mid 23 1 5606639639729965 2251799813685248); [vm_compute; reflexivity | unfold fr, close, ctol, A02_lo, A02_hi, A02_c, A02_e; interval with (i_prec 80)]. Qed.
Lemma d_A02_68u : close ctol (8050652297167593 / 9007199254740992) (volts_A02 (2477096406231263 / 35184372088832)).
Proof. apply (A02_q_volts_mid 2477096406231263 35184372088832 8050652297167593 9007199254740992); [vm_compute; reflexivity | unfold fr, close, ctol, A02_lo, A02_hi, A02_c, A02_e; interval with (i_prec 80)]. Qed.
Lemma d_A02_80r : rio_reads A02_c A02_e A02_lo A02_hi floor_volts ctol (Build_rio (Fin (8039878645789809 / 9007199254740992)) (Fin (6973 / 1024)) (Fin (3715469692580659 / 1125899906842624)) (Fin (6721 / 1024)) (Fin (12 / 1)) true true true ((Fin (803 / 1024)) :: (Fin (997 / 512)) :: (Fin (151 / 256)) :: (Fin (50103 / 512)) :: (Fin (4349 / 512)) :: (Fin (39129 / 1024)) :: nil)) (4961442774403035 / 70368744177664).
Proof. apply (A02_rio_fin _ (8039878645789809 / 9007199254740992)); [reflexivity | apply (A02_q_mid 8039878645789809 9007199254740992 4961442774403035 70368744177664); [vm_compute; reflexivity | unfold fr, close, ctol, A02_c, A02_e; interval with (i_prec 80)]]. Qed.
Lemma d_A02_93u : close ctol (2313676108886189 / 1125899906842624) (volts_A02 (3991882648203779 / 140737488355328)).
Proof. apply (A02_q_volts_mid 3991882648203779 140737488355328 2313676108886189 1125899906842624); [vm_compute; reflexivity | unfold fr, close, ctol, A02_lo, A02_hi, A02_c, A02_e; interval with (i_prec 80)]. Qed.
Lemma d_A02_106u : close ctol (7243370064531839 / 9007199254740992) (volts_A02 (2780066739491461 / 35184372088832)).
Proof. apply (A02_q_volts_mid 2780066739491461 35184372088832 7243370064531839 9007199254740992); [vm_compute; reflexivity | unfold fr, close, ctol, A02_lo, A02_hi, A02_c, A02_e; interval with (i_prec 80)]. Qed.
Lemma d_A02_119u : close ctol (7517574356844929 / 4503599627370496) (volts_A02 (5009204823141593 / 140737488355328)).
Proof. apply (A02_q_volts_mid 5009204823141593 140737488355328 7517574356844929 4503599627370496); [vm_compute; reflexivity | unfold fr, close, ctol, A02_lo, A02_hi, A02_c, A02_e; interval with (i_prec 80)]. Qed.
Lemma d_A02_132u : close ctol (288990001783659 / 140737488355328) (volts_A02 (998798472092913 / 35184372088832)).
Proof. apply (A02_q_volts_mid 998798472092913 35184372088832 288990001783659 140737488355328); [vm_compute; reflexivity | unfold fr, close, ctol, A02_lo, A02_hi, A02_c, A02_e; interval with (i_prec 80)]. Qed.
Lemma d_A02_144r : rio_reads A02_c A02_e A02_lo A02_hi floor_volts ctol (Build_rio (Fin (8420324095709951 / 18014398509481984)) (Fin (1159 / 256)) (Fin (57 / 16)) (Fin (6335 / 1024)) (Fin (12013 / 1024)) true true true ((Fin (2893 / 1024)) :: (Fin (757 / 512)) :: (Fin (55 / 32)) :: (Fin (2881 / 64)) :: (Fin (423 / 128)) :: (Fin (102003 / 1024)) :: nil)) (2513889241963051 / 17592186044416).
Proof. apply (A02_rio_fin _ (8420324095709951 / 18014398509481984)); [reflexivity | apply (A02_q_mid 8420324095709951 18014398509481984 2513889241963051 17592186044416); [vm_compute; reflexivity | unfold fr, close, ctol, A02_c, A02_e; interval with (i_prec 80)]]. Qed.
Lemma d_A02_157u : close ctol (357539307115111 / 140737488355328) (volts_A02 (636093302123197 / 140737488355328)).
Proof. apply (A02_q_volts_lo 636093302123197 140737488355328 357539307115111 140737488355328); [vm_compute; reflexivity | unfold fr, close, ctol, A02_lo, A02_hi, A02_c, A02_e; interval with (i_prec 80)]. Qed.
Lemma d_A02_170u : close ctol (4416338961589545 / 2251799813685248) (volts_A02 (8401228069763423 / 281474976710656)).
Proof. apply (A02_q_volts_mid 8401228069763423 281474976710656 4416338961589545 2251799813685248); [vm_compute; reflexivity | unfold fr, close, ctol, A02_lo, A02_hi, A02_c, A02_e; interval with (i_prec 80)]. Qed.
Lemma d_A02_183u : close ctol (7378855861764897 / 9007199254740992) (volts_A02 (1362186038506895 / 17592186044416)).
Proof. apply (A02_q_volts_mid 1362186038506895 17592186044416 7378855861764897 9007199254740992); [vm_compute; reflexivity | unfold fr, close, ctol, A02_lo, A02_hi, A02_c, A02_e; interval with (i_prec 80)]. Qed.
Lemma d_A02_196u : close ctol (5384225900464779 / 4503599627370496) (volts_A02 (3606027748196001 / 70368744177664)).
Proof. apply (A02_q_volts_mid 3606027748196001 70368744177664 5384225900464779 4503599627370496); [vm_compute; reflexivity | unfold fr, close, ctol, A02_lo, A02_hi, A02_c, A02_e; interval with (i_prec 80)]. Qed.
Lemma d_A02_208r : rio_reads A02_c A02_e A02_lo A02_hi floor_volts ctol (Build_rio (Fin (4950078891506421 / 9007199254740992)) (Fin (0 / 1)) (Fin (873 / 256)) (Fin (729 / 128)) (Fin (12247 / 1024)) false true true ((Fin (441 / 512)) :: (Fin (323 / 256)) :: (Fin (2721 / 1024)) :: (Fin (14231 / 128)) :: (Fin (9037 / 1024)) :: (Fin (8433 / 1024)) :: nil)) (8426049340010823 / 70368744177664).
Proof. apply (A02_rio_fin _ (4950078891506421 / 9007199254740992)); [reflexivity | apply (A02_q_mid 4950078891506421 9007199254740992 8426049340010823 70368744177664); [vm_compute; reflexivity | unfold fr, close, ctol, A02_c, A02_e; interval with (i_prec 80)]]. Qed.
Lemma d_A02_221u : close ctol (2091204566195331 / 2251799813685248) (volts_A02 (2375679931777185 / 35184372088832)).
Proof. apply (A02_q_volts_mid 2375679931777185 35184372088832 2091204566195331 2251799813685248); [vm_compute; reflexivity | unfold fr, close, ctol, A02_lo, A02_hi, A02_c, A02_e; interval with (i_prec 80)]. Qed.
Lemma d_A02_234u : close ctol (3697033087157275 / 2251799813685248) (volts_A02 (637580589919941 / 17592186044416)).
Proof. apply (A02_q_volts_mid 637580589919941 17592186044416 3697033087157275 2251799813685248); [vm_compute; reflexivity | unfold fr, close, ctol, A02_lo, A02_hi, A02_c, A02_e; interval with (i_prec 80)]. Qed.
Lemma d_A02_247u : close ctol (6039344821965931 / 4503599627370496) (volts_A02 (6362162874473619 / 140737488355328)).
Proof. apply (A02_q_volts_mid 6362162874473619 140737488355328 6039344821965931 4503599627370496); [vm_compute; reflexivity | unfold fr, close, ctol, A02_lo, A02_hi, A02_c, A02_e; interval with (i_prec 80)]. Qed.
Lemma d_A02_260u : close ctol (357539307115111 / 140737488355328) (volts_A02 (2198868325044687 / 562949953421312)).
Proof. apply (A02_q_volts_lo 2198868325044687 562949953421312 357539307115111 140737488355328); [vm_compute; reflexivity | unfold fr, close, ctol, A02_lo, A02_hi, A02_c, A02_e; interval with (i_prec 80)]. Qed.
Lemma d_A02_272r : rio_reads A02_c A02_e A02_lo A02_hi floor_volts ctol (Build_rio (Fin (8308476880671015 / 18014398509481984)) (Fin (4189 / 1024)) (Fin (3715469692580659 / 1125899906842624)) (Fin (5303 / 1024)) (Fin (12 / 1)) false true true ((Fin (155 / 512)) :: (Fin (1823 / 1024)) :: (Fin (1151 / 1024)) :: (Fin (7093 / 512)) :: (Fin (5597 / 1024)) :: (Fin ((-4185) / 1024)) :: nil)) (145 / 1).
Proof. apply (A02_rio_fin _ (8308476880671015 / 18014398509481984)); [reflexivity | apply (A02_q_hi 8308476880671015 18014398509481984 145 1); [vm_compute; reflexivity | unfold fr, ctol, A02_hi, A02_c, A02_e; interval with (i_prec 80)]]. Qed.
Lemma d_A02_285u : close ctol (357539307115111 / 140737488355328) (volts_A02 ((-211919469381421) / 281474976710656)).
Proof. apply (A02_q_volts_lo (-211919469381421) 281474976710656 357539307115111 140737488355328); [vm_compute; reflexivity | unfold fr, close, ctol, A02_lo, A02_hi, A02_c, A02_e; interval with (i_prec 80)]. Qed.
Lemma d_A02_298u : close ctol (5599589812490545 / 9007199254740992) (volts_A02 (7364679419600887 / 70368744177664)).
Proof. apply (A02_q_volts_mid 7364679419600887 70368744177664 5599589812490545 9007199254740992); [vm_compute; reflexivity | unfold fr, close, ctol, A02_lo, A02_hi, A02_c, A02_e; interval with (i_prec 80)]. Qed.
Lemma d_A02_311u : close ctol (6752882684194409 / 9007199254740992) (volts_A02 (1500645915137791 / 17592186044416)).
Proof. apply (A02_q_volts_mid 1500645915137791 17592186044416 6752882684194409 9007199254740992); [vm_compute; reflexivity | unfold fr, close, ctol, A02_lo, A02_hi, A02_c, A02_e; interval with (i_prec 80)]. Qed.
Lemma d_A02_324u : close ctol (4538791041204361 / 9007199254740992) (volts_A02 (4631607531504743 / 35184372088832)).
Proof. apply (A02_q_volts_mid 4631607531504743 35184372088832 4538791041204361 9007199254740992); [vm_compute; reflexivity | unfold fr, close, ctol, A02_lo, A02_hi, A02_c, A02_e; interval with (i_prec 80)]. Qed.
Lemma d_A02_336r : rio_reads A02_c A02_e A02_lo A02_hi floor_volts ctol (Build_rio (Fin (2270549504527277 / 1125899906842624)) (Fin (5469 / 1024)) (Fin (3331 / 1024)) (Fin (381 / 64)) (Fin (6541 / 512)) false true true ((Fin (501 / 1024)) :: (Fin (1025 / 1024)) :: (Fin (2833 / 1024)) :: (Fin (184171 / 1024)) :: (Fin (6399 / 1024)) :: (Fin (205 / 128)) :: nil)) (8149503190022013 / 281474976710656).
Proof. apply (A02_rio_fin _ (2270549504527277 / 1125899906842624)); [reflexivity | apply (A02_q_mid 2270549504527277 1125899906842624 8149503190022013 281474976710656); [vm_compute; reflexivity | unfold fr, close, ctol, A02_c, A02_e; interval with (i_prec 80)]]. Qed.
Lemma d_A02_349u : close ctol (357539307115111 / 140737488355328) (volts_A02 ((-113369583416119) / 35184372088832)).
Proof. apply (A02_q_volts_lo (-113369583416119) 35184372088832 357539307115111 140737488355328); [vm_compute; reflexivity | unfold fr, close, ctol, A02_lo, A02_hi, A02_c, A02_e; interval with (i_prec 80)]. Qed.
Lemma d_A02_362u : close ctol (8308476880671015 / 18014398509481984) (volts_A02 (8422313043535949 / 35184372088832)).
Proof. apply (A02_q_volts_hi 8422313043535949 35184372088832 8308476880671015 18014398509481984); [vm_compute; reflexivity | unfold fr, close, ctol, A02_lo, A02_hi, A02_c, A02_e; interval with (i_prec 80)]. Qed.
Lemma d_A02_375u : close ctol (8308476880671015 / 18014398509481984) (volts_A02 (5708130247241151 / 137438953472)).
Proof. apply (A02_q_volts_hi 5708130247241151 137438953472 8308476880671015 18014398509481984); [vm_compute; reflexivity | unfold fr, close, ctol, A02_lo, A02_hi, A02_c, A02_e; interval with (i_prec 80)]. Qed.
Lemma d_A02_388u : close ctol (6338405690065527 / 9007199254740992) (volts_A02 (6432476935739605 / 70368744177664)).
Proof. apply (A02_q_volts_mid 6432476935739605 70368744177664 6338405690065527 9007199254740992); [vm_compute; reflexivity | unfold fr, close, ctol, A02_lo, A02_hi, A02_c, A02_e; interval with (i_prec 80)]. Qed.
Lemma d_A02_400r : rio_reads A02_c A02_e A02_lo A02_hi floor_volts ctol (Build_rio (Fin (2778103840483363 / 4503599627370496)) (Fin (2455 / 512)) (Fin (100000000000000001097906362944045541740492309677311846336810682903157585404911491537163328978494688899061249669721172515611590283743140088328307009198146046031271664502933027185697489699588559043338384466165001178426897626212945177628091195786707458122783970171784415105291802893207873272974885715430223118336 / 1)) (Fin (709 / 64)) (Fin (7595 / 512)) false true true ((Fin (1383 / 1024)) :: (Fin (333 / 256)) :: (Fin (1691 / 1024)) :: (Fin (69091 / 512)) :: (Fin (739 / 128)) :: (Fin (639 / 16)) :: nil)) (1856873645555497 / 17592186044416).
Proof. apply (A02_rio_fin _ (2778103840483363 / 4503599627370496)); [reflexivity | apply (A02_q_mid 2778103840483363 4503599627370496 1856873645555497 17592186044416); [vm_compute; reflexivity | unfold fr, close, ctol, A02_c, A02_e; interval with (i_prec 80)]]. Qed.
Lemma d_A02_413u : close ctol (357539307115111 / 140737488355328) (volts_A02 (3852431448881297 / 562949953421312)).
Proof. apply (A02_q_volts_lo 3852431448881297 562949953421312 357539307115111 140737488355328); [vm_compute; reflexivity | unfold fr, close, ctol, A02_lo, A02_hi, A02_c, A02_e; interval with (i_prec 80)]. Qed.
Lemma d_A02_426u : close ctol (5681653696597699 / 4503599627370496) (volts_A02 (3400393997820701 / 70368744177664)).
Proof. apply (A02_q_volts_mid 3400393997820701 70368744177664 5681653696597699 4503599627370496); [vm_compute; reflexivity | unfold fr, close, ctol, A02_lo, A02_hi, A02_c, A02_e; interval with (i_prec 80)]. Qed.
Lemma d_A02_439u : close ctol (837352717640925 / 1125899906842624) (volts_A02 (1513875519791021 / 17592186044416)).
Proof. apply (A02_q_volts_mid 1513875519791021 17592186044416 837352717640925 1125899906842624); [vm_compute; reflexivity | unfold fr, close, ctol, A02_lo, A02_hi, A02_c, A02_e; interval with (i_prec 80)]. Qed.
Lemma d_A02_452u : close ctol (8308476880671015 / 18014398509481984) (volts_A02 (1202903891064861 / 4398046511104)).
Proof. apply (A02_q_volts_hi 1202903891064861 4398046511104 8308476880671015 18014398509481984); [vm_compute; reflexivity | unfold fr, close, ctol, A02_lo, A02_hi, A02_c, A02_e; interval with (i_prec 80)]. Qed.
Lemma d_A02_464r : rio_reads A02_c A02_e A02_lo A02_hi floor_volts ctol (Build_rio (Fin (4610028369652061 / 4503599627370496)) (Fin ((-12) / 1)) (Fin (71 / 1024)) (Fin (6 / 1)) (Fin (5357 / 512)) true false true ((Fin (1967 / 1024)) :: (Fin (889 / 512)) :: (Fin (145 / 256)) :: (Fin (80799 / 512)) :: (Fin (423 / 64)) :: (Fin ((-6203) / 512)) :: nil)) (8544395544200499 / 140737488355328).
Proof. apply (A02_rio_fin _ (4610028369652061 / 4503599627370496)); [reflexivity | apply (A02_q_mid 4610028369652061 4503599627370496 8544395544200499 140737488355328); [vm_compute; reflexivity | unfold fr, close, ctol, A02_c, A02_e; interval with (i_prec 80)]]. Qed.
Lemma d_A02_477u : close ctol (2301522180910015 / 4503599627370496) (volts_A02 (142532907501569 / 1099511627776)).
Proof. apply (A02_q_volts_mid 142532907501569 1099511627776 2301522180910015 4503599627370496); [vm_compute; reflexivity | unfold fr, close, ctol, A02_lo, A02_hi, A02_c, A02_e; interval with (i_prec 80)]. Qed.
Lemma d_A02_490u : close ctol (8654195801716109 / 4503599627370496) (volts_A02 (4295305904719359 / 140737488355328)).
Proof. apply (A02_q_volts_mid 4295305904719359 140737488355328 8654195801716109 4503599627370496); [vm_compute; reflexivity | unfold fr, close, ctol, A02_lo, A02_hi, A02_c, A02_e; interval with (i_prec 80)]. Qed.
Lemma d_A02_503u : close ctol (4840138861824437 / 9007199254740992) (volts_A02 (8635265448218605 / 70368744177664)).
Proof. apply (A02_q_volts_mid 8635265448218605 70368744177664 4840138861824437 9007199254740992); [vm_compute; reflexivity | unfold fr, close, ctol, A02_lo, A02_hi, A02_c, A02_e; interval with (i_prec 80)]. Qed.
Lemma d_A02_516u : close ctol (8308476880671015 / 18014398509481984) (volts_A02 (5411737279895663 / 35184372088832)).
Proof. apply (A02_q_volts_hi 5411737279895663 35184372088832 8308476880671015 18014398509481984); [vm_compute; reflexivity | unfold fr, close, ctol, A02_lo, A02_hi, A02_c, A02_e; interval with (i_prec 80)]. Qed.
Lemma d_A02_528r : rio_reads A02_c A02_e A02_lo A02_hi floor_volts ctol (Build_rio (Fin (357539307115111 / 140737488355328)) (Fin (5 / 1)) (Fin (3573 / 1024)) (Fin (5421 / 1024)) (Fin (1335 / 128)) true true true ((Fin (737 / 1024)) :: (Fin (1435 / 1024)) :: (Fin (2375 / 1024)) :: (Fin (74197 / 1024)) :: (Fin (6233 / 1024)) :: (Fin (453 / 128)) :: nil)) (45 / 2).
Proof. apply (A02_rio_fin _ (357539307115111 / 140737488355328)); [reflexivity | apply (A02_q_lo 357539307115111 140737488355328 45 2); [vm_compute; reflexivity | unfold fr, ctol, A02_lo, A02_c, A02_e; interval with (i_prec 80)]]. Qed.
Lemma d_A02_541u : close ctol (8367585052909445 / 18014398509481984) (volts_A02 (5062392862372767 / 35184372088832)).
Proof. apply (A02_q_volts_mid 5062392862372767 35184372088832 8367585052909445 18014398509481984); [vm_compute; reflexivity | unfold fr, close, ctol, A02_lo, A02_hi, A02_c, A02_e; interval with (i_prec 80)]. Qed.
Lemma d_A02_554u : close ctol (8308476880671015 / 18014398509481984) (volts_A02 (217 / 1)).
Proof. apply (A02_q_volts_hi 217 1 8308476880671015 18014398509481984); [vm_compute; reflexivity | unfold fr, close, ctol, A02_lo, A02_hi, A02_c, A02_e; interval with (i_prec 80)]. Qed.
Lemma d_A02_567u : close ctol (357539307115111 / 140737488355328) (volts_A02 (3574971453875097 / 281474976710656)).
Proof. apply (A02_q_volts_lo 3574971453875097 281474976710656 357539307115111 140737488355328); [vm_compute; reflexivity | unfold fr, close, ctol, A02_lo, A02_hi, A02_c, A02_e; interval with (i_prec 80)]. Qed.
Lemma d_A02_580u : close ctol (8308476880671015 / 18014398509481984) (volts_A02 (169 / 1)).
Proof. apply (A02_q_volts_hi 169 1 8308476880671015 18014398509481984); [vm_compute; reflexivity | unfold fr, close, ctol, A02_lo, A02_hi, A02_c, A02_e; interval with (i_prec 80)]. Qed.
Lemma d_A02_592r : rio_reads A02_c A02_e A02_lo A02_hi floor_volts ctol (Build_rio (Fin (6815497783977311 / 9007199254740992)) (Fin (5902958103587057 / 590295810358705651712)) (Fin (897 / 256)) (Fin (5673 / 1024)) (Fin (12 / 1)) true true true ((Fin (2611 / 1024)) :: (Fin (419 / 1024)) :: (Fin (575 / 1024)) :: (Fin (86149 / 1024)) :: (Fin (3165 / 1024)) :: (Fin (97123 / 1024)) :: nil)) (742798619840089 / 8796093022208).
Proof. apply (A02_rio_fin _ (6815497783977311 / 9007199254740992)); [reflexivity | apply (A02_q_mid 6815497783977311 9007199254740992 742798619840089 8796093022208); [vm_compute; reflexivity | unfold fr, close, ctol, A02_c, A02_e; interval with (i_prec 80)]]. Qed.
Lemma d_A02_605u : close ctol (8308476880671015 / 18014398509481984) (volts_A02 (193 / 1)).
Proof. apply (A02_q_volts_hi 193 1 8308476880671015 18014398509481984); [vm_compute; reflexivity | unfold fr, close, ctol, A02_lo, A02_hi, A02_c, A02_e; interval with (i_prec 80)]. Qed.
Lemma d_A02_618u : close ctol (5070649944013483 / 9007199254740992) (volts_A02 (8207501103679153 / 70368744177664)).
Proof. apply (A02_q_volts_mid 8207501103679153 70368744177664 5070649944013483 9007199254740992); [vm_compute; reflexivity | unfold fr, close, ctol, A02_lo, A02_hi, A02_c, A02_e; interval with (i_prec 80)]. Qed.
Lemma d_A02_631u : close ctol (8368396820943185 / 18014398509481984) (volts_A02 (2530928306853169 / 17592186044416)).
Proof. apply (A02_q_volts_mid 2530928306853169 17592186044416 8368396820943185 18014398509481984); [vm_compute; reflexivity | unfold fr, close, ctol, A02_lo, A02_hi, A02_c, A02_e; interval with (i_prec 80)]. Qed.
Lemma d_A02_644u : close ctol (8308476880671015 / 18014398509481984) (volts_A02 (5825263639319385 / 35184372088832)).
Proof. apply (A02_q_volts_hi 5825263639319385 35184372088832 8308476880671015 18014398509481984); [vm_compute; reflexivity | unfold fr, close, ctol, A02_lo, A02_hi, A02_c, A02_e; interval with (i_prec 80)]. Qed.
Lemma d_A02_656r : rio_reads A02_c A02_e A02_lo A02_hi floor_volts ctol (Build_rio (Fin (6867892336296229 / 4503599627370496)) (Fin (4441 / 1024)) (Fin (3715469692580659 / 1125899906842624)) (Fin (5865 / 1024)) (Fin (0 / 1)) false true true ((Fin (1761 / 1024)) :: (Fin (1495 / 1024)) :: (Fin (83 / 512)) :: (Fin (116995 / 1024)) :: (Fin (3997 / 1024)) :: (Fin (31969 / 1024)) :: nil)) (1382211316022975 / 35184372088832).
Proof. apply (A02_rio_fin _ (6867892336296229 / 4503599627370496)); [reflexivity | apply (A02_q_mid 6867892336296229 4503599627370496 1382211316022975 35184372088832); [vm_compute; reflexivity | unfold fr, close, ctol, A02_c, A02_e; interval with (i_prec 80)]]. Qed.
Lemma r_A21_427 : rio_reads A21_c A21_e A21_lo A21_hi floor_volts ctol (Build_rio (Fin (1 / 2)) NInf NInf NInf NInf false true true ((Fin (0 / 1)) :: (Fin (0 / 1)) :: (Fin (0 / 1)) :: (Fin (0 / 1)) :: (Fin (27 / 4)) :: (Fin (45 / 1)) :: nil)) (8707266310566945 / 140737488355328).
Proof. apply (A21_rio_fin _ (1 / 2)); [reflexivity | apply (A21_q_mid 1 2 8707266310566945 140737488355328); [vm_compute; reflexivity | unfold fr, close, ctol, A21_c, A21_e; interval with (i_prec 80)]]. Qed.
Lemma r_A21_458 : rio_reads A21_c A21_e A21_lo A21_hi floor_volts ctol (Build_rio (Fin (10000000000000000159028911097599180468360808563945281389781327557747838772170381060813469985856815104 / 1)) (Fin (5 / 1)) (Fin (8106479329266893 / 2251799813685248)) (Fin (6 / 1)) (Fin (12 / 1)) true true true ((Fin (0 / 1)) :: (Fin (0 / 1)) :: (Fin (0 / 1)) :: (Fin (0 / 1)) :: (Fin (27 / 4)) :: (Fin (45 / 1)) :: nil)) (10 / 1).
Proof. apply (A21_rio_fin _ (10000000000000000159028911097599180468360808563945281389781327557747838772170381060813469985856815104 / 1)); [reflexivity | apply (A21_q_lo 10000000000000000159028911097599180468360808563945281389781327557747838772170381060813469985856815104 1 10 1); [vm_compute; reflexivity | unfold fr, ctol, A21_lo, A21_c, A21_e; interval with (i_prec 80)]]. Qed.
Lemma r_A21_476 : rio_reads A21_c A21_e A21_lo A21_hi floor_volts ctol (Build_rio (Fin (4983178911975169 / 2251799813685248)) (Fin (5 / 1)) (Fin (3715469692580659 / 1125899906842624)) (Fin (6 / 1)) (Fin (12 / 1)) true true true ((Fin (0 / 1)) :: (Fin (0 / 1)) :: (Fin (2476979795053773 / 1125899906842624)) :: (Fin (0 / 1)) :: (Fin (27 / 4)) :: (Fin (45 / 1)) :: nil)) (10 / 1).
Proof. apply (A21_rio_fin _ (4983178911975169 / 2251799813685248)); [reflexivity | apply (A21_q_lo 4983178911975169 2251799813685248 10 1); [vm_compute; reflexivity | unfold fr, ctol, A21_lo, A21_c, A21_e; interval with (i_prec 80)]]. Qed.
Lemma r_A21_492 : rio_reads A21_c A21_e A21_lo A21_hi floor_volts ctol (Build_rio (Fin (5 / 128)) (Fin (4755 / 1024)) (Fin (1365 / 512)) (Fin (6 / 1)) (Fin (12873 / 1024)) false false true ((Fin (347 / 1024)) :: (Fin (17 / 256)) :: (Fin (263 / 256)) :: (Fin (24037 / 1024)) :: (Fin (4601 / 1024)) :: (Fin (3435 / 512)) :: nil)) (80 / 1).
Proof. apply (A21_rio_fin _ (5 / 128)); [reflexivity | apply (A21_q_hi 5 128 80 1); [vm_compute; reflexivity | unfold fr, ctol, A21_hi, A21_c, A21_e; interval with (i_prec 80)]]. Qed.
Lemma r_A21_508 : rio_reads A21_c A21_e A21_lo A21_hi floor_volts ctol (Build_rio (Fin (45 / 128)) (Fin (1121 / 256)) (Fin (3309 / 1024)) (Fin (4663 / 512)) (Fin (7295 / 512)) true false false ((Fin (151 / 512)) :: (Fin (1187 / 1024)) :: (Fin (2399 / 1024)) :: (Fin (46375 / 512)) :: (Fin (8143 / 1024)) :: (Fin ((-17097) / 1024)) :: nil)) (80 / 1).
Proof. apply (A21_rio_fin _ (45 / 128)); [reflexivity | apply (A21_q_hi 45 128 80 1); [vm_compute; reflexivity | unfold fr, ctol, A21_hi, A21_c, A21_e; interval with (i_prec 80)]]. Qed.
Lemma r_A21_524 : rio_reads A21_c A21_e A21_lo A21_hi floor_volts ctol (Build_rio (Fin (85 / 128)) (Fin (12927 / 1024)) (Fin (1395 / 512)) (Fin (6649 / 1024)) (Fin (6449 / 512)) true false false ((Fin (395 / 1024)) :: (Fin (565 / 1024)) :: (Fin (649 / 512)) :: (Fin (152067 / 1024)) :: (Fin (8173 / 1024)) :: (Fin (8823 / 256)) :: nil)) (6148807157778335 / 140737488355328).
Proof. apply (A21_rio_fin _ (85 / 128)); [reflexivity | apply (A21_q_mid 85 128 6148807157778335 140737488355328); [vm_compute; reflexivity | unfold fr, close, ctol, A21_c, A21_e; interval with (i_prec 80)]]. Qed.
Lemma r_A21_540 : rio_reads A21_c A21_e A21_lo A21_hi floor_volts ctol (Build_rio (Fin (125 / 128)) (Fin (4649 / 1024)) NInf (Fin (5939 / 1024)) NInf true false true ((Fin (757 / 256)) :: (Fin (27 / 32)) :: (Fin (2849 / 1024)) :: (Fin (167799 / 1024)) :: (Fin (4021 / 512)) :: (Fin (28447 / 512)) :: nil)) (7664375877353317 / 281474976710656).
Proof. apply (A21_rio_fin _ (125 / 128)); [reflexivity | apply (A21_q_mid 125 128 7664375877353317 281474976710656); [vm_compute; reflexivity | unfold fr, close, ctol, A21_c, A21_e; interval with (i_prec 80)]]. Qed.
Lemma r_A21_556 : rio_reads A21_c A21_e A21_lo A21_hi floor_volts ctol (Build_rio (Fin (165 / 128)) (Fin (2169 / 512)) (Fin (831 / 256)) (Fin (11351 / 1024)) (Fin (9889 / 1024)) true true true ((Fin (1607 / 1024)) :: (Fin (213 / 256)) :: (Fin (717 / 1024)) :: (Fin (99149 / 1024)) :: (Fin (4917 / 1024)) :: (Fin (82207 / 1024)) :: nil)) (5453221717992603 / 281474976710656).
Proof. apply (A21_rio_fin _ (165 / 128)); [reflexivity | apply (A21_q_mid 165 128 5453221717992603 281474976710656); [vm_compute; reflexivity | unfold fr, close, ctol, A21_c, A21_e; interval with (i_prec 80)]]. Qed.
Lemma r_A21_572 : rio_reads A21_c A21_e A21_lo A21_hi floor_volts ctol (Build_rio (Fin (205 / 128)) (Fin (5507 / 1024)) (Fin (3715469692580659 / 1125899906842624)) (Fin (171 / 32)) (Fin (3719 / 1024)) false true false ((Fin (1175 / 512)) :: (Fin (885 / 512)) :: (Fin (593 / 1024)) :: (Fin (58567 / 1024)) :: (Fin (2675 / 512)) :: (Fin (5727 / 1024)) :: nil)) (1044764112629413 / 70368744177664).
Proof. apply (A21_rio_fin _ (205 / 128)); [reflexivity | apply (A21_q_mid 205 128 1044764112629413 70368744177664); [vm_compute; reflexivity | unfold fr, close, ctol, A21_c, A21_e; interval with (i_prec 80)]]. Qed.
Lemma r_A21_588 : rio_reads A21_c A21_e A21_lo A21_hi floor_volts ctol (Build_rio (Fin (245 / 128)) (Fin (0 / 1)) (Fin (3715469692580659 / 1125899906842624)) (Fin (1595 / 256)) (Fin (12 / 1)) true true true ((Fin (2883 / 1024)) :: (Fin (1403 / 1024)) :: (Fin (659 / 1024)) :: (Fin (156099 / 1024)) :: (Fin (3833 / 1024)) :: (Fin (25587 / 1024)) :: nil)) (52479643703845 / 4398046511104).
Proof. apply (A21_rio_fin _ (245 / 128)); [reflexivity | apply (A21_q_mid 245 128 52479643703845 4398046511104); [vm_compute; reflexivity | unfold fr, close, ctol, A21_c, A21_e; interval with (i_prec 80)]]. Qed.
Lemma r_A21_604 : rio_reads A21_c A21_e A21_lo A21_hi floor_volts ctol (Build_rio (Fin (285 / 128)) (Fin (2055 / 512)) (Fin (865 / 256)) (Fin (1669 / 256)) (Fin (6147 / 512)) true true true ((Fin (541 / 512)) :: (Fin (811 / 1024)) :: (Fin (2275 / 1024)) :: (Fin (12449 / 128)) :: (Fin (4447 / 1024)) :: (Fin (757 / 8)) :: nil)) (10 / 1).
Proof. apply (A21_rio_fin _ (285 / 128)); [reflexivity | apply (A21_q_lo 285 128 10 1); [vm_compute; reflexivity | unfold fr, ctol, A21_lo, A21_c, A21_e; interval with (i_prec 80)]]. Qed.
Lemma r_A21_620 : rio_reads A21_c A21_e A21_lo A21_hi floor_volts ctol (Build_rio (Fin (325 / 128)) (Fin (139 / 32)) NInf (Fin (2719 / 512)) (Fin (12867 / 1024)) true true true ((Fin (2649 / 1024)) :: (Fin (1801 / 1024)) :: (Fin (241 / 128)) :: (Fin (32325 / 256)) :: (Fin (4231 / 1024)) :: (Fin ((-735) / 64)) :: nil)) (10 / 1).
Proof. apply (A21_rio_fin _ (325 / 128)); [reflexivity | apply (A21_q_lo 325 128 10 1); [vm_compute; reflexivity | unfold fr, ctol, A21_lo, A21_c, A21_e; interval with (i_prec 80)]]. Qed.
Lemma r_A21_636 : rio_reads A21_c A21_e A21_lo A21_hi floor_volts ctol (Build_rio (Fin (365 / 128)) (Fin (5 / 1)) (Fin ((-1) / 1)) (Fin (209 / 32)) (Fin (353 / 32)) true true false ((Fin (401 / 1024)) :: (Fin (27 / 32)) :: (Fin (2749 / 1024)) :: (Fin (193527 / 1024)) :: (Fin (1413 / 256)) :: (Fin (33813 / 512)) :: nil)) (10 / 1).
Proof. apply (A21_rio_fin _ (365 / 128)); [reflexivity | apply (A21_q_lo 365 128 10 1); [vm_compute; reflexivity | unfold fr, ctol, A21_lo, A21_c, A21_e; interval with (i_prec 80)]]. Qed.
Lemma r_A21_652 : rio_reads A21_c A21_e A21_lo A21_hi floor_volts ctol (Build_rio (Fin (405 / 128)) (Fin (5 / 1)) (Fin (1911 / 1024)) (Fin (5902958103587057 / 590295810358705651712)) (Fin (12171 / 1024)) true true true ((Fin (1371 / 1024)) :: (Fin (125 / 128)) :: (Fin (235 / 128)) :: (Fin (58273 / 512)) :: (Fin (8831 / 1024)) :: (Fin (42995 / 512)) :: nil)) (10 / 1).
Proof. apply (A21_rio_fin _ (405 / 128)); [reflexivity | apply (A21_q_lo 405 128 10 1); [vm_compute; reflexivity | unfold fr, ctol, A21_lo, A21_c, A21_e; interval with (i_prec 80)]]. Qed.
Lemma r_A21_668 : rio_reads A21_c A21_e A21_lo A21_hi floor_volts ctol (Build_rio (Fin (445 / 128)) (Fin (4541 / 1024)) NInf (Fin (13 / 512)) (Fin ((-1) / 1)) true true true ((Fin (2753 / 1024)) :: (Fin (1235 / 1024)) :: (Fin (1169 / 1024)) :: (Fin (11693 / 512)) :: (Fin (2297 / 256)) :: (Fin (1171 / 16)) :: nil)) (10 / 1).
Proof. apply (A21_rio_fin _ (445 / 128)); [reflexivity | apply (A21_q_lo 445 128 10 1); [vm_compute; reflexivity | unfold fr, ctol, A21_lo, A21_c, A21_e; interval with (i_prec 80)]]. Qed.
Lemma r_A21_684 : rio_reads A21_c A21_e A21_lo A21_hi floor_volts ctol (Build_rio (Fin (485 / 128)) (Fin (5929 / 512)) (Fin (421 / 32)) (Fin (5627 / 1024)) (Fin (2513 / 256)) false true true ((Fin (1701 / 1024)) :: (Fin (55 / 1024)) :: (Fin (1699 / 1024)) :: (Fin (17691 / 256)) :: (Fin (1005 / 256)) :: (Fin (22183 / 256)) :: nil)) (10 / 1).
Proof. apply (A21_rio_fin _ (485 / 128)); [reflexivity | apply (A21_q_lo 485 128 10 1); [vm_compute; reflexivity | unfold fr, ctol, A21_lo, A21_c, A21_e; interval with (i_prec 80)]]. Qed.
Lemma r_A21_700 : rio_reads A21_c A21_e A21_lo A21_hi floor_volts ctol (Build_rio (Fin (525 / 128)) (Fin (4907 / 1024)) (Fin (3715469692580659 / 1125899906842624)) (Fin (6 / 1)) (Fin (3357 / 256)) false true false ((Fin (251 / 1024)) :: (Fin (277 / 512)) :: (Fin (429 / 1024)) :: (Fin (96313 / 1024)) :: (Fin (4291 / 512)) :: (Fin (35671 / 512)) :: nil)) (10 / 1).
Proof. apply (A21_rio_fin _ (525 / 128)); [reflexivity | apply (A21_q_lo 525 128 10 1); [vm_compute; reflexivity | unfold fr, ctol, A21_lo, A21_c, A21_e; interval with (i_prec 80)]]. Qed.
Lemma r_A21_716 : rio_reads A21_c A21_e A21_lo A21_hi floor_volts ctol (Build_rio (Fin (565 / 128)) (Fin (1393 / 256)) (Fin (3715469692580659 / 1125899906842624)) PInf (Fin (12 / 1)) true true true ((Fin (241 / 256)) :: (Fin (61 / 512)) :: (Fin (7 / 8)) :: (Fin (154073 / 1024)) :: (Fin (7307 / 1024)) :: (Fin (95505 / 1024)) :: nil)) (10 / 1).
Proof. apply (A21_rio_fin _ (565 / 128)); [reflexivity | apply (A21_q_lo 565 128 10 1); [vm_compute; reflexivity | unfold fr, ctol, A21_lo, A21_c, A21_e; interval with (i_prec 80)]]. Qed.
Lemma r_A21_732 : rio_reads A21_c A21_e A21_lo A21_hi floor_volts ctol (Build_rio (Fin (605 / 128)) (Fin (5 / 1)) (Fin (685 / 256)) (Fin (6 / 1)) (Fin (12 / 1)) true true true ((Fin (2793 / 1024)) :: (Fin (1685 / 1024)) :: (Fin (2471 / 1024)) :: (Fin (13145 / 256)) :: (Fin (1877 / 256)) :: (Fin ((-3805) / 512)) :: nil)) (10 / 1).
Proof. apply (A21_rio_fin _ (605 / 128)); [reflexivity | apply (A21_q_lo 605 128 10 1); [vm_compute; reflexivity | unfold fr, ctol, A21_lo, A21_c, A21_e; interval with (i_prec 80)]]. Qed.
Lemma r_A21_748 : rio_reads A21_c A21_e A21_lo A21_hi floor_volts ctol (Build_rio (Fin (1246755752486737 / 562949953421312)) (Fin (5195 / 1024)) (Fin (13703 / 1024)) (Fin (2541 / 512)) (Fin (12393 / 1024)) false true true ((Fin (59 / 128)) :: (Fin (853 / 512)) :: (Fin (155 / 512)) :: (Fin (94809 / 1024)) :: (Fin (6185 / 1024)) :: (Fin (100395 / 1024)) :: nil)) (10 / 1).
Proof. apply (A21_rio_fin _ (1246755752486737 / 562949953421312)); [reflexivity | apply (A21_q_lo 1246755752486737 562949953421312 10 1); [vm_compute; reflexivity | unfold fr, ctol, A21_lo, A21_c, A21_e; interval with (i_prec 80)]]. Qed.
Lemma r_A21_764 : rio_reads A21_c A21_e A21_lo A21_hi floor_volts ctol (Build_rio (Fin (560515848248585 / 1125899906842624)) (Fin (2073 / 512)) (Fin (100000000000000001097906362944045541740492309677311846336810682903157585404911491537163328978494688899061249669721172515611590283743140088328307009198146046031271664502933027185697489699588559043338384466165001178426897626212945177628091195786707458122783970171784415105291802893207873272974885715430223118336 / 1)) (Fin (25 / 4)) (Fin (10245 / 1024)) true true true ((Fin (291 / 128)) :: (Fin (1869 / 1024)) :: (Fin (1253 / 512)) :: (Fin (156513 / 1024)) :: (Fin (771 / 256)) :: (Fin (22673 / 1024)) :: nil)) (2188411733048159 / 35184372088832).
Proof. apply (A21_rio_fin _ (560515848248585 / 1125899906842624)); [reflexivity | apply (A21_q_mid 560515848248585 1125899906842624 2188411733048159 35184372088832); [vm_compute; reflexivity | unfold fr, close, ctol, A21_c, A21_e; interval with (i_prec 80)]]. Qed.
Lemma r_A21_780 : rio_reads A21_c A21_e A21_lo A21_hi floor_volts ctol (Build_rio (Fin (3320475880198005 / 9007199254740992)) (Fin (2493 / 512)) (Fin (2901 / 1024)) (Fin (4983 / 1024)) (Fin (12 / 1)) true true true ((Fin (2857 / 1024)) :: (Fin (1591 / 1024)) :: (Fin (45 / 16)) :: (Fin (9427 / 128)) :: (Fin (4283 / 1024)) :: (Fin ((-10195) / 512)) :: nil)) (80 / 1).
Proof. apply (A21_rio_fin _ (3320475880198005 / 9007199254740992)); [reflexivity | apply (A21_q_hi 3320475880198005 9007199254740992 80 1); [vm_compute; reflexivity | unfold fr, ctol, A21_hi, A21_c, A21_e; interval with (i_prec 80)]]. Qed.
Lemma r_A21_796 : rio_reads A21_c A21_e A21_lo A21_hi floor_volts ctol (Build_rio (Fin (2801810656160421 / 1125899906842624)) (Fin (5049 / 1024)) (Fin (391 / 128)) (Fin (1687 / 256)) (Fin (85 / 64)) true false true ((Fin (1637 / 1024)) :: (Fin (1849 / 1024)) :: (Fin (669 / 256)) :: (Fin (134383 / 1024)) :: (Fin (3725 / 1024)) :: (Fin (10319 / 256)) :: nil)) (10 / 1).
Proof. apply (A21_rio_fin _ (2801810656160421 / 1125899906842624)); [reflexivity | apply (A21_q_lo 2801810656160421 1125899906842624 10 1); [vm_compute; reflexivity | unfold fr, ctol, A21_lo, A21_c, A21_e; interval with (i_prec 80)]]. Qed.
Lemma r_A21_812 : rio_reads A21_c A21_e A21_lo A21_hi floor_volts ctol (Build_rio (Fin (5395949568646695 / 9007199254740992)) (Fin (4147 / 1024)) (Fin (1479 / 512)) (Fin (2799 / 512)) (Fin (6619 / 512)) true false false ((Fin (427 / 512)) :: (Fin (189 / 512)) :: (Fin (1023 / 512)) :: (Fin (45545 / 1024)) :: (Fin (349 / 64)) :: (Fin (59491 / 1024)) :: nil)) (6976392197450817 / 140737488355328).
Proof. apply (A21_rio_fin _ (5395949568646695 / 9007199254740992)); [reflexivity | apply (A21_q_mid 5395949568646695 9007199254740992 6976392197450817 140737488355328); [vm_compute; reflexivity | unfold fr, close, ctol, A21_c, A21_e; interval with (i_prec 80)]]. Qed.
Lemma r_A21_836 : rio_reads A21_c A21_e A21_lo A21_hi floor_volts ctol (Build_rio (Fin (6866842319666839 / 562949953421312)) (Fin (5 / 1)) (Fin ((-12) / 1)) (Fin ((-1) / 1)) (Fin (10651 / 1024)) true true true ((Fin (1415 / 1024)) :: (Fin (971 / 512)) :: (Fin (2831 / 1024)) :: (Fin (58649 / 1024)) :: (Fin (6149 / 1024)) :: (Fin ((-3841) / 512)) :: nil)) (10 / 1).
Proof. apply (A21_rio_fin _ (6866842319666839 / 562949953421312)); [reflexivity | apply (A21_q_lo 6866842319666839 562949953421312 10 1); [vm_compute; reflexivity | unfold fr, ctol, A21_lo, A21_c, A21_e; interval with (i_prec 80)]]. Qed.
Lemma d_A21_670r : rio_reads A21_c A21_e A21_lo A21_hi floor_volts ctol (Build_rio (Fin (7303775102731699 / 18014398509481984)) NInf NInf NInf NInf false true true ((Fin (0 / 1)) :: (Fin (0 / 1)) :: (Fin (0 / 1)) :: (Fin (0 / 1)) :: (Fin (27 / 4)) :: (Fin (45 / 1)) :: nil)) (80 / 1).
Proof. apply (A21_rio_fin _ (7303775102731699 / 18014398509481984)); [reflexivity | apply (A21_q_hi 7303775102731699 18014398509481984 80 1); [vm_compute; reflexivity | unfold fr, ctol, A21_hi, A21_c, A21_e; interval with (i_prec 80)]]. Qed.
Lemma d_A21_678r : rio_reads A21_c A21_e A21_lo A21_hi floor_volts ctol (Build_rio (Fin (7303775102731699 / 18014398509481984)) (Fin (5 / 2)) (Fin (3715469692580659 / 1125899906842624)) (Fin (6 / 1)) (Fin (12 / 1)) true true true ((Fin (0 / 1)) :: (Fin (0 / 1)) :: (Fin (0 / 1)) :: (Fin (0 / 1)) :: (Fin (27 / 4)) :: (Fin (45 / 1)) :: nil)) (80 / 1).
Proof. apply (A21_rio_fin _ (7303775102731699 / 18014398509481984)); [reflexivity | apply (A21_q_hi 7303775102731699 18014398509481984 80 1); [vm_compute; reflexivity | unfold fr, ctol, A21_hi, A21_c, A21_e; interval with (i_prec 80)]]. Qed.
Lemma d_A21_686r : rio_reads A21_c A21_e A21_lo A21_hi floor_volts ctol (Build_rio (Fin (2489100355631953 / 1125899906842624)) (Fin (1 / 202402253307310618352495346718917307049556649764142118356901358027430339567995346891960383701437124495187077864316811911389808737385793476867013399940738509921517424276566361364466907742093216341239767678472745068562007483424692698618103355649159556340810056512358769552333414615230502532186327508646006263307707741093494784)) (Fin (3715469692580659 / 1125899906842624)) (Fin (6 / 1)) (Fin (12 / 1)) true true true ((Fin (0 / 1)) :: (Fin (0 / 1)) :: (Fin (0 / 1)) :: (Fin (0 / 1)) :: (Fin (27 / 4)) :: (Fin (45 / 1)) :: nil)) (10 / 1).
Proof. apply (A21_rio_fin _ (2489100355631953 / 1125899906842624)); [reflexivity | apply (A21_q_lo 2489100355631953 1125899906842624 10 1); [vm_compute; reflexivity | unfold fr, ctol, A21_lo, A21_c, A21_e; interval with (i_prec 80)]]. Qed.
Lemma d_A21_694r : rio_reads A21_c A21_e A21_lo A21_hi floor_volts ctol (Build_rio (Fin (2489100355631953 / 1125899906842624)) (Fin (5 / 1)) (Fin (3715469692580659 / 1125899906842624)) (Fin (6 / 1)) (Fin (5 / 1)) true true true ((Fin (0 / 1)) :: (Fin (0 / 1)) :: (Fin (0 / 1)) :: (Fin (0 / 1)) :: (Fin (27 / 4)) :: (Fin (45 / 1)) :: nil)) (10 / 1).
Proof. apply (A21_rio_fin _ (2489100355631953 / 1125899906842624)); [reflexivity | apply (A21_q_lo 2489100355631953 1125899906842624 10 1); [vm_compute; reflexivity | unfold fr, ctol, A21_lo, A21_c, A21_e; interval with (i_prec 80)]]. Qed.
Lemma d_A21_702r : rio_reads A21_c A21_e A21_lo A21_hi floor_volts ctol (Build_rio (Fin (7303775102731699 / 18014398509481984)) (Fin (5 / 1)) (Fin (5 / 1)) (Fin (6 / 1)) (Fin (12 / 1)) true true true ((Fin (0 / 1)) :: (Fin (0 / 1)) :: (Fin (0 / 1)) :: (Fin (0 / 1)) :: (Fin (27 / 4)) :: (Fin (45 / 1)) :: nil)) (80 / 1).
Proof. apply (A21_rio_fin _ (7303775102731699 / 18014398509481984)); [reflexivity | apply (A21_q_hi 7303775102731699 18014398509481984 80 1); [vm_compute; reflexivity | unfold fr, ctol, A21_hi, A21_c, A21_e; interval with (i_prec 80)]]. Qed.
Lemma d_A21_710r : rio_reads A21_c A21_e A21_lo A21_hi floor_volts ctol (Build_rio (Fin (7303775102731699 / 18014398509481984)) (Fin (5 / 1)) (Fin (3715469692580659 / 1125899906842624)) (Fin ((-1) / 1)) (Fin (12 / 1)) true true true ((Fin (0 / 1)) :: (Fin (0 / 1)) :: (Fin (0 / 1)) :: (Fin (0 / 1)) :: (Fin (27 / 4)) :: (Fin (45 / 1)) :: nil)) (80 / 1).
Proof. apply (A21_rio_fin _ (7303775102731699 / 18014398509481984)); [reflexivity | apply (A21_q_hi 7303775102731699 18014398509481984 80 1); [vm_compute; reflexivity | unfold fr, ctol, A21_hi, A21_c, A21_e; interval with (i_prec 80)]]. Qed.
Lemma d_A21_718r : rio_reads A21_c A21_e A21_lo A21_hi floor_volts ctol (Build_rio (Fin (7303775102731699 / 18014398509481984)) (Fin (5 / 1)) (Fin (3715469692580659 / 1125899906842624)) (Fin (6 / 1)) (Fin (12 / 1)) true true true ((Fin (0 / 1)) :: (Fin (1 / 2)) :: (Fin (0 / 1)) :: (Fin (0 / 1)) :: (Fin (27 / 4)) :: (Fin (45 / 1)) :: nil)) (80 / 1).
Proof. apply (A21_rio_fin _ (7303775102731699 / 18014398509481984)); [reflexivity | apply (A21_q_hi 7303775102731699 18014398509481984 80 1); [vm_compute; reflexivity | unfold fr, ctol, A21_hi, A21_c, A21_e; interval with (i_prec 80)]]. Qed.
Lemma d_A21_728u : close ctol (7303775102731699 / 18014398509481984) (volts_A21 (7741728042605739 / 70368744177664)).
Proof. apply (A21_q_volts_hi 7741728042605739 70368744177664 7303775102731699 18014398509481984); [vm_compute; reflexivity | unfold fr, close, ctol, A21_lo, A21_hi, A21_c, A21_e; interval with (i_prec 80)]. Qed.
Lemma d_A21_740r : rio_reads A21_c A21_e A21_lo A21_hi floor_volts ctol (Build_rio (Fin (500340411251335 / 1125899906842624)) (Fin (5453 / 1024)) (Fin (10457 / 1024)) (Fin (5902958103587057 / 590295810358705651712)) (Fin (12487 / 1024)) true true false ((Fin (241 / 1024)) :: (Fin (987 / 1024)) :: (Fin (2933 / 1024)) :: (Fin (29851 / 1024)) :: (Fin (3207 / 1024)) :: (Fin (26027 / 512)) :: nil)) (1257674332130461 / 17592186044416).
Proof. apply (A21_rio_fin _ (500340411251335 / 1125899906842624)); [reflexivity | apply (A21_q_mid 500340411251335 1125899906842624 1257674332130461 17592186044416); [vm_compute; reflexivity | unfold fr, close, ctol, A21_c, A21_e; interval with (i_prec 80)]]. Qed.
Lemma d_A21_753u : close ctol (4613225086435145 / 9007199254740992) (volts_A21 (8454275892454961 / 140737488355328)).
Proof. apply (A21_q_volts_mid 8454275892454961 140737488355328 4613225086435145 9007199254740992); [vm_compute; reflexivity | unfold fr, close, ctol, A21_lo, A21_hi, A21_c, A21_e; interval with (i_prec 80)]. Qed.
Lemma d_A21_766u : close ctol (7572261511594627 / 9007199254740992) (volts_A21 (575606293107967 / 17592186044416)).
Proof. apply (A21_q_volts_mid 575606293107967 17592186044416 7572261511594627 9007199254740992); [vm_compute; reflexivity | unfold fr, close, ctol, A21_lo, A21_hi, A21_c, A21_e; interval with (i_prec 80)]. Qed.
Lemma d_A21_779u : close ctol (5936325828895827 / 9007199254740992) (volts_A21 (6206022901320445 / 140737488355328)).
Proof. apply (A21_q_volts_mid 6206022901320445 140737488355328 5936325828895827 9007199254740992); [vm_compute; reflexivity | unfold fr, close, ctol, A21_lo, A21_hi, A21_c, A21_e; interval with (i_prec 80)]. Qed.
Lemma d_A21_792u : close ctol (5898397611701453 / 4503599627370496) (volts_A21 (19 / 1)).
Proof. apply (A21_q_volts_mid 19 1 5898397611701453 4503599627370496); [vm_compute; reflexivity | unfold fr, close, ctol, A21_lo, A21_hi, A21_c, A21_e; interval with (i_prec 80)]. Qed.
Lemma d_A21_804r : rio_reads A21_c A21_e A21_lo A21_hi floor_volts ctol (Build_rio (Fin (4767703828088425 / 9007199254740992)) (Fin (4461 / 1024)) (Fin (3715469692580659 / 1125899906842624)) (Fin (2619 / 512)) (Fin (100000000000000001097906362944045541740492309677311846336810682903157585404911491537163328978494688899061249669721172515611590283743140088328307009198146046031271664502933027185697489699588559043338384466165001178426897626212945177628091195786707458122783970171784415105291802893207873272974885715430223118336 / 1)) false true true ((Fin (1155 / 1024)) :: (Fin (303 / 256)) :: (Fin (101 / 256)) :: (Fin (59229 / 1024)) :: (Fin (7865 / 1024)) :: (Fin (63559 / 1024)) :: nil)) (8119680624926601 / 140737488355328).
Proof. apply (A21_rio_fin _ (4767703828088425 / 9007199254740992)); [reflexivity | apply (A21_q_mid 4767703828088425 9007199254740992 8119680624926601 140737488355328); [vm_compute; reflexivity | unfold fr, close, ctol, A21_c, A21_e; interval with (i_prec 80)]]. Qed.
Lemma d_A21_817u : close ctol (2052529620430267 / 4503599627370496) (volts_A21 (2438689452546753 / 35184372088832)).
Proof. apply (A21_q_volts_mid 2438689452546753 35184372088832 2052529620430267 4503599627370496); [vm_compute; reflexivity | unfold fr, close, ctol, A21_lo, A21_hi, A21_c, A21_e; interval with (i_prec 80)]. Qed.
Lemma d_A21_830u : close ctol (7920128570584151 / 9007199254740992) (volts_A21 (8716264298455349 / 281474976710656)).
Proof. apply (A21_q_volts_mid 8716264298455349 281474976710656 7920128570584151 9007199254740992); [vm_compute; reflexivity | unfold fr, close, ctol, A21_lo, A21_hi, A21_c, A21_e; interval with (i_prec 80)]. Qed.
Lemma d_A21_843u : close ctol (2489100355631953 / 1125899906842624) (volts_A21 (7926225971080611 / 1125899906842624)).
Proof. apply (A21_q_volts_lo 7926225971080611 1125899906842624 2489100355631953 1125899906842624); [vm_compute; reflexivity | unfold fr, close, ctol, A21_lo, A21_hi, A21_c, A21_e; interval with (i_prec 80)]. Qed.
Lemma d_A21_856u : close ctol (546287574741675 / 562949953421312) (volts_A21 (7724074721788083 / 281474976710656)).
Proof. apply (A21_q_volts_mid 7724074721788083 281474976710656 546287574741675 562949953421312); [vm_compute; reflexivity | unfold fr, close, ctol, A21_lo, A21_hi, A21_c, A21_e; interval with (i_prec 80)]. Qed.
Lemma d_A21_868r : rio_reads A21_c A21_e A21_lo A21_hi floor_volts ctol (Build_rio (Fin (8483156921384239 / 9007199254740992)) (Fin (187 / 16)) (Fin (100000000000000001097906362944045541740492309677311846336810682903157585404911491537163328978494688899061249669721172515611590283743140088328307009198146046031271664502933027185697489699588559043338384466165001178426897626212945177628091195786707458122783970171784415105291802893207873272974885715430223118336 / 1)) (Fin (5637 / 1024)) (Fin (12 / 1)) true true true ((Fin (107 / 512)) :: (Fin (343 / 512)) :: (Fin (343 / 256)) :: (Fin (188493 / 1024)) :: (Fin (3093 / 512)) :: (Fin (40647 / 512)) :: nil)) (4006218344610119 / 140737488355328).
Proof. apply (A21_rio_fin _ (8483156921384239 / 9007199254740992)); [reflexivity | apply (A21_q_mid 8483156921384239 9007199254740992 4006218344610119 140737488355328); [vm_compute; reflexivity | unfold fr, close, ctol, A21_c, A21_e; interval with (i_prec 80)]]. Qed.
Lemma d_A21_881u : close ctol (4882414186960923 / 9007199254740992) (volts_A21 (3943211508346049 / 70368744177664)).
Proof. apply (A21_q_volts_mid 3943211508346049 70368744177664 4882414186960923 9007199254740992); [vm_compute; reflexivity | unfold fr, close, ctol, A21_lo, A21_hi, A21_c, A21_e; interval with (i_prec 80)]. Qed.
Lemma d_A21_894u : close ctol (591816904882399 / 1125899906842624) (volts_A21 (511842204460235 / 8796093022208)).
Proof. apply (A21_q_volts_mid 511842204460235 8796093022208 591816904882399 1125899906842624); [vm_compute; reflexivity | unfold fr, close, ctol, A21_lo, A21_hi, A21_c, A21_e; interval with (i_prec 80)]. Qed.
Lemma d_A21_907u : close ctol (7303775102731699 / 18014398509481984) (volts_A21 (2324777365778969 / 17592186044416)).
Proof. apply (A21_q_volts_hi 2324777365778969 17592186044416 7303775102731699 18014398509481984); [vm_compute; reflexivity | unfold fr, close, ctol, A21_lo, A21_hi, A21_c, A21_e; interval with (i_prec 80)]. Qed.
Lemma d_A21_920u : close ctol (2489100355631953 / 1125899906842624) (volts_A21 ((-6762075422127779) / 2251799813685248)).
Proof. apply (A21_q_volts_lo (-6762075422127779) 2251799813685248 2489100355631953 1125899906842624); [vm_compute; reflexivity | unfold fr, close, ctol, A21_lo, A21_hi, A21_c, A21_e; interval with (i_prec 80)]. Qed.
Lemma d_A21_932r : rio_reads A21_c A21_e A21_lo A21_hi floor_volts ctol (Build_rio (Fin (5580235745793773 / 9007199254740992)) (Fin (5902958103587057 / 590295810358705651712)) (Fin (3195 / 1024)) (Fin (7353 / 512)) (Fin (1 / 1)) true false true ((Fin (845 / 1024)) :: (Fin (957 / 512)) :: (Fin (143 / 128)) :: (Fin (84641 / 512)) :: (Fin (3975 / 1024)) :: (Fin (29845 / 1024)) :: nil)) (6694992405813845 / 140737488355328).
Proof. apply (A21_rio_fin _ (5580235745793773 / 9007199254740992)); [reflexivity | apply (A21_q_mid 5580235745793773 9007199254740992 6694992405813845 140737488355328); [vm_compute; reflexivity | unfold fr, close, ctol, A21_c, A21_e; interval with (i_prec 80)]]. Qed.
Lemma d_A21_945u : close ctol (8609131267751249 / 9007199254740992) (volts_A21 (7868935190651477 / 281474976710656)).
Proof. apply (A21_q_volts_mid 7868935190651477 281474976710656 8609131267751249 9007199254740992); [vm_compute; reflexivity | unfold fr, close, ctol, A21_lo, A21_hi, A21_c, A21_e; interval with (i_prec 80)]. Qed.
Lemma d_A21_958u : close ctol (2430929247605659 / 2251799813685248) (volts_A21 (847234646740707 / 35184372088832)).
Proof. apply (A21_q_volts_mid 847234646740707 35184372088832 2430929247605659 2251799813685248); [vm_compute; reflexivity | unfold fr, close, ctol, A21_lo, A21_hi, A21_c, A21_e; interval with (i_prec 80)]. Qed.
Lemma d_A21_971u : close ctol (6062797555880263 / 9007199254740992) (volts_A21 (6047681779075541 / 140737488355328)).
Proof. apply (A21_q_volts_mid 6047681779075541 140737488355328 6062797555880263 9007199254740992); [vm_compute; reflexivity | unfold fr, close, ctol, A21_lo, A21_hi, A21_c, A21_e; interval with (i_prec 80)]. Qed.
Lemma d_A21_984u : close ctol (3516877838221165 / 4503599627370496) (volts_A21 (2520371219991577 / 70368744177664)).
Proof. apply (A21_q_volts_mid 2520371219991577 70368744177664 3516877838221165 4503599627370496); [vm_compute; reflexivity | unfold fr, close, ctol, A21_lo, A21_hi, A21_c, A21_e; interval with (i_prec 80)]. Qed.
Lemma d_A21_996r : rio_reads A21_c A21_e A21_lo A21_hi floor_volts ctol (Build_rio (Fin (995660197950891 / 2251799813685248)) (Fin (537 / 128)) (Fin (1451 / 512)) (Fin (6189 / 1024)) (Fin (119 / 1024)) true true true ((Fin (879 / 512)) :: (Fin (885 / 1024)) :: (Fin (101 / 512)) :: (Fin (180039 / 1024)) :: (Fin (3237 / 1024)) :: (Fin (29569 / 1024)) :: nil)) (2530907687645025 / 35184372088832).
Proof. apply (A21_rio_fin _ (995660197950891 / 2251799813685248)); [reflexivity | apply (A21_q_mid 995660197950891 2251799813685248 2530907687645025 35184372088832); [vm_compute; reflexivity | unfold fr, close, ctol, A21_c, A21_e; interval with (i_prec 80)]]. Qed.
Lemma d_A21_1009u : close ctol (7303775102731699 / 18014398509481984) (volts_A21 (117 / 1)).
Proof. apply (A21_q_volts_hi 117 1 7303775102731699 18014398509481984); [vm_compute; reflexivity | unfold fr, close, ctol, A21_lo, A21_hi, A21_c, A21_e; interval with (i_prec 80)]. Qed.
Lemma d_A21_1022u : close ctol (3304932269278249 / 4503599627370496) (volts_A21 (5439888942177601 / 140737488355328)).
Proof. apply (A21_q_volts_mid 5439888942177601 140737488355328 3304932269278249 4503599627370496); [vm_compute; reflexivity | unfold fr, close, ctol, A21_lo, A21_hi, A21_c, A21_e; interval with (i_prec 80)]. Qed.
Lemma d_A21_1035u : close ctol (9004934744355481 / 18014398509481984) (volts_A21 (2177487725785479 / 35184372088832)).
Proof. apply (A21_q_volts_mid 2177487725785479 35184372088832 9004934744355481 18014398509481984); [vm_compute; reflexivity | unfold fr, close, ctol, A21_lo, A21_hi, A21_c, A21_e; interval with (i_prec 80)]. Qed.
Lemma d_A21_1048u : close ctol (8331134381461563 / 18014398509481984) (volts_A21 (2395331463557251 / 35184372088832)).
Proof. apply (A21_q_volts_mid 2395331463557251 35184372088832 8331134381461563 18014398509481984); [vm_compute; reflexivity | unfold fr, close, ctol, A21_lo, A21_hi, A21_c, A21_e; interval with (i_prec 80)]. Qed.
Lemma d_A21_1060r : rio_reads A21_c A21_e A21_lo A21_hi floor_volts ctol (Build_rio (Fin (2489100355631953 / 1125899906842624)) (Fin (5 / 1)) (Fin (3715469692580659 / 1125899906842624)) (Fin (6413 / 1024)) (Fin (5799 / 512)) true true true ((Fin (2461 / 1024)) :: (Fin (291 / 256)) :: (Fin (297 / 1024)) :: (Fin (31161 / 512)) :: (Fin (8843 / 1024)) :: (Fin ((-10589) / 1024)) :: nil)) (10 / 1).
Proof. apply (A21_rio_fin _ (2489100355631953 / 1125899906842624)); [reflexivity | apply (A21_q_lo 2489100355631953 1125899906842624 10 1); [vm_compute; reflexivity | unfold fr, ctol, A21_lo, A21_c, A21_e; interval with (i_prec 80)]]. Qed.
Lemma d_A21_1073u : close ctol (2489100355631953 / 1125899906842624) (volts_A21 (1076005550198161 / 140737488355328)).
Proof. apply (A21_q_volts_lo 1076005550198161 140737488355328 2489100355631953 1125899906842624); [vm_compute; reflexivity | unfold fr, close, ctol, A21_lo, A21_hi, A21_c, A21_e; interval with (i_prec 80)]. Qed.
Lemma d_A21_1086u : close ctol (7303775102731699 / 18014398509481984) (volts_A21 (2427880223777011 / 17592186044416)).
Proof. apply (A21_q_volts_hi 2427880223777011 17592186044416 7303775102731699 18014398509481984); [vm_compute; reflexivity | unfold fr, close, ctol, A21_lo, A21_hi, A21_c, A21_e; interval with (i_prec 80)]. Qed.
Lemma d_A21_1099u : close ctol (1357067121557863 / 2251799813685248) (volts_A21 (6925503174689909 / 140737488355328)).
Proof. apply (A21_q_volts_mid 6925503174689909 140737488355328 1357067121557863 2251799813685248); [vm_compute; reflexivity | unfold fr, close, ctol, A21_lo, A21_hi, A21_c, A21_e; interval with (i_prec 80)]. Qed.
Lemma d_A21_1112u : close ctol (7303775102731699 / 18014398509481984) (volts_A21 (136 / 1)).
Proof. apply (A21_q_volts_hi 136 1 7303775102731699 18014398509481984); [vm_compute; reflexivity | unfold fr, close, ctol, A21_lo, A21_hi, A21_c, A21_e; interval with (i_prec 80)]. Qed.
Lemma d_A21_1124r : rio_reads A21_c A21_e A21_lo A21_hi floor_volts ctol (Build_rio (Fin (2339660407175537 / 4503599627370496)) (Fin (5 / 1)) (Fin (433 / 128)) (Fin (6463 / 1024)) (Fin (12 / 1)) false true true ((Fin (127 / 256)) :: (Fin (629 / 1024)) :: (Fin (991 / 1024)) :: (Fin (188107 / 1024)) :: (Fin (5505 / 1024)) :: (Fin (98327 / 1024)) :: nil)) (8308104910937071 / 140737488355328).
Proof. apply (A21_rio_fin _ (2339660407175537 / 4503599627370496)); [reflexivity | apply (A21_q_mid 2339660407175537 4503599627370496 8308104910937071 140737488355328); [vm_compute; reflexivity | unfold fr, close, ctol, A21_c, A21_e; interval with (i_prec 80)]]. Qed.
Lemma d_A21_1137u : close ctol (2489100355631953 / 1125899906842624) (volts_A21 (1060517379752297 / 140737488355328)).
Proof. apply (A21_q_volts_lo 1060517379752297 140737488355328 2489100355631953 1125899906842624); [vm_compute; reflexivity | unfold fr, close, ctol, A21_lo, A21_hi, A21_c, A21_e; interval with (i_prec 80)]. Qed.
Lemma d_A21_1150u : close ctol (4814541304161463 / 4503599627370496) (volts_A21 (3429817471237177 / 140737488355328)).
Proof. apply (A21_q_volts_mid 3429817471237177 140737488355328 4814541304161463 4503599627370496); [vm_compute; reflexivity | unfold fr, close, ctol, A21_lo, A21_hi, A21_c, A21_e; interval with (i_prec 80)]. Qed.
Lemma d_A21_1163u : close ctol (1443514351266279 / 2251799813685248) (volts_A21 (6420521222124363 / 140737488355328)).
Proof. apply (A21_q_volts_mid 6420521222124363 140737488355328 1443514351266279 2251799813685248); [vm_compute; reflexivity | unfold fr, close, ctol, A21_lo, A21_hi, A21_c, A21_e; interval with (i_prec 80)]. Qed.
Lemma d_A21_1176u : close ctol (8302126700547053 / 4503599627370496) (volts_A21 (3517119953331037 / 281474976710656)).
Proof. apply (A21_q_volts_mid 3517119953331037 281474976710656 8302126700547053 4503599627370496); [vm_compute; reflexivity | unfold fr, close, ctol, A21_lo, A21_hi, A21_c, A21_e; interval with (i_prec 80)]. Qed.
Lemma d_A21_1188r : rio_reads A21_c A21_e A21_lo A21_hi floor_volts ctol (Build_rio (Fin (425082773678957 / 562949953421312)) (Fin (5902958103587057 / 590295810358705651712)) (Fin (3589 / 1024)) (Fin (5283 / 1024)) (Fin (5979 / 1024)) false true true ((Fin (2325 / 1024)) :: (Fin (507 / 256)) :: (Fin (523 / 256)) :: (Fin (1237 / 1024)) :: (Fin (1609 / 512)) :: (Fin (36813 / 1024)) :: nil)) (656593391555807 / 17592186044416).
Proof. apply (A21_rio_fin _ (425082773678957 / 562949953421312)); [reflexivity | apply (A21_q_mid 425082773678957 562949953421312 656593391555807 17592186044416); [vm_compute; reflexivity | unfold fr, close, ctol, A21_c, A21_e; interval with (i_prec 80)]]. Qed.
Lemma d_A21_1201u : close ctol (8497655123870867 / 4503599627370496) (volts_A21 (6836323874712017 / 562949953421312)).
Proof. apply (A21_q_volts_mid 6836323874712017 562949953421312 8497655123870867 4503599627370496); [vm_compute; reflexivity | unfold fr, close, ctol, A21_lo, A21_hi, A21_c, A21_e; interval with (i_prec 80)]. Qed.
Lemma d_A21_1214u : close ctol (7303775102731699 / 18014398509481984) (volts_A21 (6871839039503575 / 70368744177664)).
Proof. apply (A21_q_volts_hi 6871839039503575 70368744177664 7303775102731699 18014398509481984); [vm_compute; reflexivity | unfold fr, close, ctol, A21_lo, A21_hi, A21_c, A21_e; interval with (i_prec 80)]. Qed.
Lemma d_A21_1227u : close ctol (1335554351772897 / 2251799813685248) (volts_A21 (7062516587267811 / 140737488355328)).
Proof. apply (A21_q_volts_mid 7062516587267811 140737488355328 1335554351772897 2251799813685248); [vm_compute; reflexivity | unfold fr, close, ctol, A21_lo, A21_hi, A21_c, A21_e; interval with (i_prec 80)]. Qed.
Lemma d_A21_1240u : close ctol (587285254308667 / 281474976710656) (volts_A21 (47214268653967 / 4398046511104)).
Proof. apply (A21_q_volts_mid 47214268653967 4398046511104 587285254308667 281474976710656); [vm_compute; reflexivity | unfold fr, close, ctol, A21_lo, A21_hi, A21_c, A21_e; interval with (i_prec 80)]. Qed.
Lemma d_A21_1252r : rio_reads A21_c A21_e A21_lo A21_hi floor_volts ctol (Build_rio (Fin (2489100355631953 / 1125899906842624)) (Fin (139 / 32)) (Fin (6549 / 512)) (Fin (5902958103587057 / 590295810358705651712)) (Fin (15205 / 1024)) false true true ((Fin (2561 / 1024)) :: (Fin (1863 / 1024)) :: (Fin (663 / 512)) :: (Fin (17799 / 256)) :: (Fin (951 / 256)) :: (Fin ((-1057) / 1024)) :: nil)) (10 / 1).
Proof. apply (A21_rio_fin _ (2489100355631953 / 1125899906842624)); [reflexivity | apply (A21_q_lo 2489100355631953 1125899906842624 10 1); [vm_compute; reflexivity | unfold fr, ctol, A21_lo, A21_c, A21_e; interval with (i_prec 80)]]. Qed.
Lemma d_A21_1265u : close ctol (4101805987875551 / 4503599627370496) (volts_A21 (8348449825454567 / 281474976710656)).
Proof. apply (A21_q_volts_mid 8348449825454567 281474976710656 4101805987875551 4503599627370496); [vm_compute; reflexivity | unfold fr, close, ctol, A21_lo, A21_hi, A21_c, A21_e; interval with (i_prec 80)]. Qed.
Lemma d_A21_1278u : close ctol (4966540902735323 / 9007199254740992) (volts_A21 (7722961802051641 / 140737488355328)).
Proof. apply (A21_q_volts_mid 7722961802051641 140737488355328 4966540902735323 9007199254740992); [vm_compute; reflexivity | unfold fr, close, ctol, A21_lo, A21_hi, A21_c, A21_e; interval with (i_prec 80)]. Qed.
Lemma d_A21_1291u : close ctol (6162917338974455 / 9007199254740992) (volts_A21 (2963726062079627 / 70368744177664)).
Proof. apply (A21_q_volts_mid 2963726062079627 70368744177664 6162917338974455 9007199254740992); [vm_compute; reflexivity | unfold fr, close, ctol, A21_lo, A21_hi, A21_c, A21_e; interval with (i_prec 80)]. Qed.
Lemma d_A21_1304u : close ctol (2489100355631953 / 1125899906842624) (volts_A21 (109261895889923 / 562949953421312)).
Proof. apply (A21_q_volts_lo 109261895889923 562949953421312 2489100355631953 1125899906842624); [vm_compute; reflexivity | unfold fr, close, ctol, A21_lo, A21_hi, A21_c, A21_e; interval with (i_prec 80)]. Qed.
Lemma d_A21_1316r : rio_reads A21_c A21_e A21_lo A21_hi floor_volts ctol (Build_rio (Fin (7303775102731699 / 18014398509481984)) (Fin (2951 / 1024)) (Fin (3419 / 1024)) (Fin (425 / 1024)) (Fin (12269 / 1024)) true true true ((Fin (901 / 512)) :: (Fin (1823 / 1024)) :: (Fin (353 / 128)) :: (Fin (28671 / 256)) :: (Fin (831 / 256)) :: (Fin (9843 / 1024)) :: nil)) (80 / 1).
Proof. apply (A21_rio_fin _ (7303775102731699 / 18014398509481984)); [reflexivity | apply (A21_q_hi 7303775102731699 18014398509481984 80 1); [vm_compute; reflexivity | unfold fr, ctol, A21_hi, A21_c, A21_e; interval with (i_prec 80)]]. Qed.
Lemma d_A21_1329u : close ctol (6056587114738765 / 9007199254740992) (volts_A21 (6055285465335671 / 140737488355328)).
Proof. apply (A21_q_volts_mid 6055285465335671 140737488355328 6056587114738765 9007199254740992); [vm_compute; reflexivity | unfold fr, close, ctol, A21_lo, A21_hi, A21_c, A21_e; interval with (i_prec 80)]. Qed.
Lemma r_A41_874 : rio_reads A41_c A41_e A41_lo A41_hi floor_volts ctol (Build_rio (Fin (7378697629483821 / 73786976294838206464)) (Fin (100000000000000001097906362944045541740492309677311846336810682903157585404911491537163328978494688899061249669721172515611590283743140088328307009198146046031271664502933027185697489699588559043338384466165001178426897626212945177628091195786707458122783970171784415105291802893207873272974885715430223118336 / 1)) (Fin (3715469692580659 / 1125899906842624)) (Fin (6 / 1)) (Fin (12 / 1)) true true true ((Fin (0 / 1)) :: (Fin (0 / 1)) :: (Fin (0 / 1)) :: (Fin (0 / 1)) :: (Fin (27 / 4)) :: (Fin (45 / 1)) :: nil)) (35 / 1).
Proof. apply (A41_rio_fin _ (7378697629483821 / 73786976294838206464)); [reflexivity | apply (A41_q_hi 7378697629483821 73786976294838206464 35 1); [vm_compute; reflexivity | unfold fr, ctol, A41_hi, A41_c, A41_e; interval with (i_prec 80)]]. Qed.
Lemma r_A41_892 : rio_reads A41_c A41_e A41_lo A41_hi floor_volts ctol (Build_rio (Fin (6484553266890667 / 18014398509481984)) (Fin (5 / 1)) PInf (Fin (6 / 1)) (Fin (12 / 1)) true true true ((Fin (0 / 1)) :: (Fin (0 / 1)) :: (Fin (0 / 1)) :: (Fin (0 / 1)) :: (Fin (27 / 4)) :: (Fin (45 / 1)) :: nil)) (35 / 1).
Proof. apply (A41_rio_fin _ (6484553266890667 / 18014398509481984)); [reflexivity | apply (A41_q_hi 6484553266890667 18014398509481984 35 1); [vm_compute; reflexivity | unfold fr, ctol, A41_hi, A41_c, A41_e; interval with (i_prec 80)]]. Qed.
Lemma r_A41_908 : rio_reads A41_c A41_e A41_lo A41_hi floor_volts ctol (Build_rio (Fin (2975 / 1024)) (Fin (5 / 1)) (Fin (3715469692580659 / 1125899906842624)) (Fin (6 / 1)) (Fin (12 / 1)) true true true ((Fin (0 / 1)) :: (Fin (0 / 1)) :: (Fin (0 / 1)) :: (Fin (180 / 1)) :: (Fin (27 / 4)) :: (Fin (45 / 1)) :: nil)) (2535127984183351 / 562949953421312).
Proof. apply (A41_rio_fin _ (2975 / 1024)); [reflexivity | apply (A41_q_mid 2975 1024 2535127984183351 562949953421312); [vm_compute; reflexivity | unfold fr, close, ctol, A41_c, A41_e; interval with (i_prec 80)]]. Qed.
Lemma r_A41_924 : rio_reads A41_c A41_e A41_lo A41_hi floor_volts ctol (Build_rio (Fin (25 / 128)) (Fin (2247 / 512)) (Fin (3715469692580659 / 1125899906842624)) (Fin (2287 / 1024)) (Fin (695 / 64)) true true true ((Fin (2731 / 1024)) :: (Fin (1361 / 1024)) :: (Fin (55 / 512)) :: (Fin (8677 / 512)) :: (Fin (4489 / 1024)) :: (Fin ((-8615) / 1024)) :: nil)) (35 / 1).
Proof. apply (A41_rio_fin _ (25 / 128)); [reflexivity | apply (A41_q_hi 25 128 35 1); [vm_compute; reflexivity | unfold fr, ctol, A41_hi, A41_c, A41_e; interval with (i_prec 80)]]. Qed.
Lemma r_A41_940 : rio_reads A41_c A41_e A41_lo A41_hi floor_volts ctol (Build_rio (Fin (65 / 128)) (Fin (100000000000000001097906362944045541740492309677311846336810682903157585404911491537163328978494688899061249669721172515611590283743140088328307009198146046031271664502933027185697489699588559043338384466165001178426897626212945177628091195786707458122783970171784415105291802893207873272974885715430223118336 / 1)) (Fin (3023 / 1024)) (Fin (2963 / 256)) (Fin (129 / 64)) false true true ((Fin (2865 / 1024)) :: (Fin (959 / 1024)) :: (Fin (299 / 128)) :: (Fin (23163 / 256)) :: (Fin (2587 / 512)) :: (Fin (20613 / 1024)) :: nil)) (3516347704498025 / 140737488355328).
Proof. apply (A41_rio_fin _ (65 / 128)); [reflexivity | apply (A41_q_mid 65 128 3516347704498025 140737488355328); [vm_compute; reflexivity | unfold fr, close, ctol, A41_c, A41_e; interval with (i_prec 80)]]. Qed.
Lemma r_A41_956 : rio_reads A41_c A41_e A41_lo A41_hi floor_volts ctol (Build_rio (Fin (105 / 128)) (Fin (5291 / 1024)) (Fin (3715469692580659 / 1125899906842624)) (Fin (3345 / 512)) (Fin (12 / 1)) true true true ((Fin (303 / 128)) :: (Fin (107 / 128)) :: (Fin (2025 / 1024)) :: (Fin (34893 / 256)) :: (Fin (3741 / 512)) :: (Fin ((-16589) / 1024)) :: nil)) (8780950279400805 / 562949953421312).
Proof. apply (A41_rio_fin _ (105 / 128)); [reflexivity | apply (A41_q_mid 105 128 8780950279400805 562949953421312); [vm_compute; reflexivity | unfold fr, close, ctol, A41_c, A41_e; interval with (i_prec 80)]]. Qed.
Lemma r_A41_972 : rio_reads A41_c A41_e A41_lo A41_hi floor_volts ctol (Build_rio (Fin (145 / 128)) (Fin (2069 / 512)) (Fin (1789 / 512)) (Fin (1 / 1)) (Fin (12937 / 1024)) true true false ((Fin (1055 / 1024)) :: (Fin (291 / 256)) :: (Fin (1085 / 512)) :: (Fin (88549 / 512)) :: (Fin (9043 / 1024)) :: (Fin (36875 / 512)) :: nil)) (6394844082069517 / 562949953421312).
Proof. apply (A41_rio_fin _ (145 / 128)); [reflexivity | apply (A41_q_mid 145 128 6394844082069517 562949953421312); [vm_compute; reflexivity | unfold fr, close, ctol, A41_c, A41_e; interval with (i_prec 80)]]. Qed.
Lemma r_A41_988 : rio_reads A41_c A41_e A41_lo A41_hi floor_volts ctol (Build_rio (Fin (185 / 128)) (Fin (5261 / 1024)) (Fin (2817 / 1024)) (Fin (3387 / 512)) (Fin (9871 / 1024)) true true true ((Fin (361 / 256)) :: (Fin (91 / 1024)) :: (Fin (819 / 1024)) :: (Fin (1645 / 64)) :: (Fin (395 / 128)) :: (Fin ((-1053) / 256)) :: nil)) (5033712178168523 / 562949953421312).
Proof. apply (A41_rio_fin _ (185 / 128)); [reflexivity | apply (A41_q_mid 185 128 5033712178168523 562949953421312); [vm_compute; reflexivity | unfold fr, close, ctol, A41_c, A41_e; interval with (i_prec 80)]]. Qed.
Lemma r_A41_1004 : rio_reads A41_c A41_e A41_lo A41_hi floor_volts ctol (Build_rio (Fin (225 / 128)) (Fin (5 / 1)) (Fin (4275 / 1024)) (Fin ((-1) / 1)) (Fin (11641 / 1024)) true false true ((Fin (793 / 512)) :: (Fin (801 / 512)) :: (Fin (911 / 512)) :: (Fin (88177 / 1024)) :: (Fin (3793 / 512)) :: (Fin (32337 / 512)) :: nil)) (2076556652445583 / 281474976710656).
Proof. apply (A41_rio_fin _ (225 / 128)); [reflexivity | apply (A41_q_mid 225 128 2076556652445583 281474976710656); [vm_compute; reflexivity | unfold fr, close, ctol, A41_c, A41_e; interval with (i_prec 80)]]. Qed.
Lemma r_A41_1020 : rio_reads A41_c A41_e A41_lo A41_hi floor_volts ctol (Build_rio (Fin (265 / 128)) (Fin (2885 / 1024)) (Fin (93 / 32)) (Fin (3023 / 512)) (Fin (7453 / 1024)) false true true ((Fin (2959 / 1024)) :: (Fin (791 / 1024)) :: (Fin (357 / 256)) :: (Fin (41959 / 512)) :: (Fin (7579 / 1024)) :: (Fin (82419 / 1024)) :: nil)) (110512438164373 / 17592186044416).
Proof. apply (A41_rio_fin _ (265 / 128)); [reflexivity | apply (A41_q_mid 265 128 110512438164373 17592186044416); [vm_compute; reflexivity | unfold fr, close, ctol, A41_c, A41_e; interval with (i_prec 80)]]. Qed.
Lemma r_A41_1036 : rio_reads A41_c A41_e A41_lo A41_hi floor_volts ctol (Build_rio (Fin (305 / 128)) (Fin (5 / 1)) (Fin (3131 / 1024)) (Fin (6 / 1)) (Fin (4953 / 512)) false true true ((Fin (2049 / 1024)) :: (Fin (931 / 512)) :: (Fin (97 / 128)) :: (Fin (4085 / 256)) :: (Fin (7381 / 1024)) :: (Fin (8619 / 1024)) :: nil)) (3080219906724619 / 562949953421312).
Proof. apply (A41_rio_fin _ (305 / 128)); [reflexivity | apply (A41_q_mid 305 128 3080219906724619 562949953421312); [vm_compute; reflexivity | unfold fr, close, ctol, A41_c, A41_e; interval with (i_prec 80)]]. Qed.
Lemma r_A41_1052 : rio_reads A41_c A41_e A41_lo A41_hi floor_volts ctol (Build_rio (Fin (345 / 128)) (Fin (100000000000000001097906362944045541740492309677311846336810682903157585404911491537163328978494688899061249669721172515611590283743140088328307009198146046031271664502933027185697489699588559043338384466165001178426897626212945177628091195786707458122783970171784415105291802893207873272974885715430223118336 / 1)) (Fin (2753 / 1024)) (Fin (3147 / 512)) (Fin (11723 / 1024)) true false true ((Fin (2361 / 1024)) :: (Fin (937 / 512)) :: (Fin (759 / 1024)) :: (Fin (144395 / 1024)) :: (Fin (5367 / 1024)) :: (Fin (24217 / 512)) :: nil)) (5458010943548069 / 1125899906842624).
Proof. apply (A41_rio_fin _ (345 / 128)); [reflexivity | apply (A41_q_mid 345 128 5458010943548069 1125899906842624); [vm_compute; reflexivity | unfold fr, close, ctol, A41_c, A41_e; interval with (i_prec 80)]]. Qed.
Lemma r_A41_1068 : rio_reads A41_c A41_e A41_lo A41_hi floor_volts ctol (Build_rio (Fin (775 / 256)) (Fin (5 / 1)) (Fin (3583 / 1024)) (Fin (6 / 1)) (Fin (11929 / 1024)) true false true ((Fin (425 / 512)) :: (Fin (205 / 256)) :: (Fin (345 / 1024)) :: (Fin (96899 / 1024)) :: (Fin (1981 / 512)) :: (Fin (33033 / 1024)) :: nil)) (9 / 2).
Proof. apply (A41_rio_fin _ (775 / 256)); [reflexivity | apply (A41_q_lo 775 256 9 2); [vm_compute; reflexivity | unfold fr, ctol, A41_lo, A41_c, A41_e; interval with (i_prec 80)]]. Qed.
Lemma r_A41_1084 : rio_reads A41_c A41_e A41_lo A41_hi floor_volts ctol (Build_rio (Fin (855 / 256)) (Fin (5305 / 1024)) (Fin (2935 / 1024)) (Fin (3327 / 512)) NInf true true true ((Fin (59 / 1024)) :: (Fin (97 / 128)) :: (Fin (1269 / 1024)) :: (Fin (104955 / 1024)) :: (Fin (2721 / 512)) :: (Fin (67191 / 1024)) :: nil)) (9 / 2).
Proof. apply (A41_rio_fin _ (855 / 256)); [reflexivity | apply (A41_q_lo 855 256 9 2); [vm_compute; reflexivity | unfold fr, ctol, A41_lo, A41_c, A41_e; interval with (i_prec 80)]]. Qed.
Lemma r_A41_1100 : rio_reads A41_c A41_e A41_lo A41_hi floor_volts ctol (Build_rio (Fin (935 / 256)) (Fin (5 / 1)) (Fin (3341 / 1024)) (Fin (5571 / 1024)) (Fin (12 / 1)) true false true ((Fin (255 / 128)) :: (Fin (131 / 1024)) :: (Fin (189 / 256)) :: (Fin (56773 / 512)) :: (Fin (883 / 256)) :: (Fin ((-2811) / 512)) :: nil)) (9 / 2).
Proof. apply (A41_rio_fin _ (935 / 256)); [reflexivity | apply (A41_q_lo 935 256 9 2); [vm_compute; reflexivity | unfold fr, ctol, A41_lo, A41_c, A41_e; interval with (i_prec 80)]]. Qed.
Lemma r_A41_1116 : rio_reads A41_c A41_e A41_lo A41_hi floor_volts ctol (Build_rio (Fin (1015 / 256)) (Fin (3465 / 512)) (Fin (865 / 256)) (Fin (433 / 64)) (Fin (5963 / 512)) false true true ((Fin (3 / 512)) :: (Fin (59 / 512)) :: (Fin (807 / 1024)) :: (Fin (134231 / 1024)) :: (Fin (8841 / 1024)) :: (Fin ((-7619) / 512)) :: nil)) (9 / 2).
Proof. apply (A41_rio_fin _ (1015 / 256)); [reflexivity | apply (A41_q_lo 1015 256 9 2); [vm_compute; reflexivity | unfold fr, ctol, A41_lo, A41_c, A41_e; interval with (i_prec 80)]]. Qed.
Lemma r_A41_1132 : rio_reads A41_c A41_e A41_lo A41_hi floor_volts ctol (Build_rio (Fin (1095 / 256)) (Fin (4173 / 1024)) (Fin (3631 / 1024)) (Fin (14825 / 1024)) (Fin (12451 / 1024)) true true true ((Fin (119 / 64)) :: (Fin (913 / 1024)) :: (Fin (431 / 1024)) :: (Fin (72711 / 512)) :: (Fin (421 / 64)) :: (Fin (89107 / 1024)) :: nil)) (9 / 2).
Proof. apply (A41_rio_fin _ (1095 / 256)); [reflexivity | apply (A41_q_lo 1095 256 9 2); [vm_compute; reflexivity | unfold fr, ctol, A41_lo, A41_c, A41_e; interval with (i_prec 80)]]. Qed.
Lemma r_A41_1148 : rio_reads A41_c A41_e A41_lo A41_hi floor_volts ctol (Build_rio (Fin (1175 / 256)) (Fin (2773 / 512)) (Fin (2765 / 1024)) (Fin (2737 / 512)) (Fin (3365 / 256)) true false true ((Fin (3007 / 1024)) :: (Fin (175 / 512)) :: (Fin (23 / 128)) :: (Fin (12009 / 128)) :: (Fin (4131 / 1024)) :: (Fin (45945 / 512)) :: nil)) (9 / 2).
Proof. apply (A41_rio_fin _ (1175 / 256)); [reflexivity | apply (A41_q_lo 1175 256 9 2); [vm_compute; reflexivity | unfold fr, ctol, A41_lo, A41_c, A41_e; interval with (i_prec 80)]]. Qed.
Lemma r_A41_1164 : rio_reads A41_c A41_e A41_lo A41_hi floor_volts ctol (Build_rio (Fin (1255 / 256)) (Fin (1 / 1)) (Fin (1479 / 512)) (Fin (5969 / 1024)) (Fin (11339 / 1024)) true true true ((Fin (89 / 256)) :: (Fin (225 / 128)) :: (Fin (2461 / 1024)) :: (Fin (150881 / 1024)) :: (Fin (1783 / 256)) :: (Fin (3085 / 256)) :: nil)) (9 / 2).
Proof. apply (A41_rio_fin _ (1255 / 256)); [reflexivity | apply (A41_q_lo 1255 256 9 2); [vm_compute; reflexivity | unfold fr, ctol, A41_lo, A41_c, A41_e; interval with (i_prec 80)]]. Qed.
Lemma r_A41_1180 : rio_reads A41_c A41_e A41_lo A41_hi floor_volts ctol (Build_rio (Fin (18397310547505 / 562949953421312)) (Fin (2601 / 512)) (Fin (363 / 128)) (Fin (15345 / 1024)) (Fin (161 / 16)) true true true ((Fin (1449 / 1024)) :: (Fin (2031 / 1024)) :: (Fin (1783 / 1024)) :: (Fin (38785 / 512)) :: (Fin (4535 / 512)) :: (Fin (36039 / 1024)) :: nil)) (35 / 1).
Proof. apply (A41_rio_fin _ (18397310547505 / 562949953421312)); [reflexivity | apply (A41_q_hi 18397310547505 562949953421312 35 1); [vm_compute; reflexivity | unfold fr, ctol, A41_hi, A41_c, A41_e; interval with (i_prec 80)]]. Qed.
Lemma r_A41_1196 : rio_reads A41_c A41_e A41_lo A41_hi floor_volts ctol (Build_rio (Fin (7794019556249601 / 2251799813685248)) (Fin (14511 / 1024)) (Fin (5105 / 512)) (Fin (5965 / 1024)) (Fin (209 / 16)) true true true ((Fin (109 / 64)) :: (Fin (27 / 128)) :: (Fin (1997 / 1024)) :: (Fin (11855 / 256)) :: (Fin (3621 / 512)) :: (Fin (4373 / 1024)) :: nil)) (9 / 2).
Proof. apply (A41_rio_fin _ (7794019556249601 / 2251799813685248)); [reflexivity | apply (A41_q_lo 7794019556249601 2251799813685248 9 2); [vm_compute; reflexivity | unfold fr, ctol, A41_lo, A41_c, A41_e; interval with (i_prec 80)]]. Qed.
Lemma r_A41_1212 : rio_reads A41_c A41_e A41_lo A41_hi floor_volts ctol (Build_rio (Fin (3448805110840795 / 1125899906842624)) (Fin (5 / 1)) (Fin (3613 / 1024)) (Fin (6653 / 1024)) (Fin (749 / 64)) false true true ((Fin (1401 / 1024)) :: (Fin (1521 / 1024)) :: (Fin (861 / 1024)) :: (Fin (3857 / 64)) :: (Fin (7357 / 1024)) :: (Fin (95029 / 1024)) :: nil)) (9 / 2).
Proof. apply (A41_rio_fin _ (3448805110840795 / 1125899906842624)); [reflexivity | apply (A41_q_lo 3448805110840795 1125899906842624 9 2); [vm_compute; reflexivity | unfold fr, ctol, A41_lo, A41_c, A41_e; interval with (i_prec 80)]]. Qed.
Lemma r_A41_1228 : rio_reads A41_c A41_e A41_lo A41_hi floor_volts ctol (Build_rio (Fin (1750908275137915 / 2251799813685248)) (Fin (4707 / 1024)) (Fin (3025 / 1024)) (Fin (6211 / 1024)) (Fin (12 / 1)) true true false ((Fin (1487 / 1024)) :: (Fin (153 / 1024)) :: (Fin (1439 / 1024)) :: (Fin (81113 / 1024)) :: (Fin (6581 / 1024)) :: (Fin (26357 / 1024)) :: nil)) (1156879484266223 / 70368744177664).
Proof. apply (A41_rio_fin _ (1750908275137915 / 2251799813685248)); [reflexivity | apply (A41_q_mid 1750908275137915 2251799813685248 1156879484266223 70368744177664); [vm_compute; reflexivity | unfold fr, close, ctol, A41_c, A41_e; interval with (i_prec 80)]]. Qed.
Lemma r_A41_1248 : rio_reads A41_c A41_e A41_lo A41_hi floor_volts ctol (Build_rio (Fin (2395449231104463 / 281474976710656)) (Fin (5477 / 1024)) (Fin (3515 / 1024)) (Fin (689 / 128)) (Fin (10213 / 1024)) true true true ((Fin (2291 / 1024)) :: (Fin (729 / 512)) :: (Fin (463 / 512)) :: (Fin (107127 / 1024)) :: (Fin (8315 / 1024)) :: (Fin (4899 / 1024)) :: nil)) (9 / 2).
Proof. apply (A41_rio_fin _ (2395449231104463 / 281474976710656)); [reflexivity | apply (A41_q_lo 2395449231104463 281474976710656 9 2); [vm_compute; reflexivity | unfold fr, ctol, A41_lo, A41_c, A41_e; interval with (i_prec 80)]]. Qed.
Lemma d_A41_1334u : close ctol (1636741441258383 / 562949953421312) (volts_A41 ((-5) / 1)).
Proof. apply (A41_q_volts_lo (-5) 1 1636741441258383 562949953421312); [vm_compute; reflexivity | unfold fr, close, ctol, A41_lo, A41_hi, A41_c, A41_e; interval with (i_prec 80)]. Qed.
Lemma d_A41_1342u : close ctol (1636741441258383 / 562949953421312) (volts_A41 (2 / 1)).
Proof. apply (A41_q_volts_lo 2 1 1636741441258383 562949953421312); [vm_compute; reflexivity | unfold fr, close, ctol, A41_lo, A41_hi, A41_c, A41_e; interval with (i_prec 80)]. Qed.
Lemma d_A41_1350u : close ctol (6491044311201869 / 18014398509481984) (volts_A41 (1000000000000000052504760255204420248704468581108159154915854115511802457988908195786371375080447864043704443832883878176942523235360430575644792184786706982848387200926575803737830233794788090059368953234970799945081119038967640880074652742780142494579258788820056842838115669472196386865459400540160 / 1)).
Proof. apply (A41_q_volts_hi 1000000000000000052504760255204420248704468581108159154915854115511802457988908195786371375080447864043704443832883878176942523235360430575644792184786706982848387200926575803737830233794788090059368953234970799945081119038967640880074652742780142494579258788820056842838115669472196386865459400540160 1 6491044311201869 18014398509481984); [vm_compute; reflexivity | unfold fr, close, ctol, A41_lo, A41_hi, A41_c, A41_e; interval with (i_prec 80)]. Qed.
Lemma d_A41_1358u : close ctol (1636741441258383 / 562949953421312) (volts_A41 (6032057205060441 / 6032057205060440848842124543157735677050252251748505781796615064961622344493727293370973578138265743708225425014400837164813540499979063179105919597766951022193355091707896034850684039059079180396788349106095584290087446076413771468940477241550670753145517602931224392424029547429993824129889235158145614364972941312)).
Proof. apply (A41_q_volts_lo 6032057205060441 6032057205060440848842124543157735677050252251748505781796615064961622344493727293370973578138265743708225425014400837164813540499979063179105919597766951022193355091707896034850684039059079180396788349106095584290087446076413771468940477241550670753145517602931224392424029547429993824129889235158145614364972941312 1636741441258383 562949953421312); [vm_compute; reflexivity | unfold fr, close, ctol, A41_lo, A41_hi, A41_c, A41_e; interval with (i_prec 80)]. Qed.
Lemma d_A41_1366u : close ctol (6491044311201869 / 18014398509481984) (volts_A41 (60 / 1)).
Proof. apply (A41_q_volts_hi 60 1 6491044311201869 18014398509481984); [vm_compute; reflexivity | unfold fr, close, ctol, A41_lo, A41_hi, A41_c, A41_e; interval with (i_prec 80)]. Qed.
Lemma d_A41_1374u : close ctol (1636741441258383 / 562949953421312) (volts_x A41_c A41_e A41_lo A41_hi NInf).
Proof. apply (corr_volts_ninf _ _ _ _ _ A41_admissible _ ctol_ok); unfold fr, close, ctol, A41_lo, A41_hi, A41_c, A41_e; interval with (i_prec 80). Qed.
Lemma d_A41_1382u : close ctol (6546965758369275 / 2251799813685248) (volts_A41 (2533274792929179 / 562949953421312)).
Proof. apply (A41_q_volts_mid 2533274792929179 562949953421312 6546965758369275 2251799813685248); [vm_compute; reflexivity | unfold fr, close, ctol, A41_lo, A41_hi, A41_c, A41_e; interval with (i_prec 80)]. Qed.
Lemma d_A41_1390u : close ctol (244267415714981 / 140737488355328) (volts_A41 (4205266183381061 / 562949953421312)).
Proof. apply (A41_q_volts_mid 4205266183381061 562949953421312 244267415714981 140737488355328); [vm_compute; reflexivity | unfold fr, close, ctol, A41_lo, A41_hi, A41_c, A41_e; interval with (i_prec 80)]. Qed.
Lemma d_A41_1403u : close ctol (5843875108352973 / 4503599627370496) (volts_A41 (349755829301119 / 35184372088832)).
Proof. apply (A41_q_volts_mid 349755829301119 35184372088832 5843875108352973 4503599627370496); [vm_compute; reflexivity | unfold fr, close, ctol, A41_lo, A41_hi, A41_c, A41_e; interval with (i_prec 80)]. Qed.
Lemma d_A41_1416u : close ctol (7724387808318131 / 4503599627370496) (volts_A41 (531819533436457 / 70368744177664)).
Proof. apply (A41_q_volts_mid 531819533436457 70368744177664 7724387808318131 4503599627370496); [vm_compute; reflexivity | unfold fr, close, ctol, A41_lo, A41_hi, A41_c, A41_e; interval with (i_prec 80)]. Qed.
Lemma d_A41_1428r : rio_reads A41_c A41_e A41_lo A41_hi floor_volts ctol (Build_rio (Fin (225540406882183 / 140737488355328)) (Fin (4615 / 1024)) (Fin (2891 / 1024)) (Fin (9013 / 1024)) (Fin (13027 / 1024)) false true true ((Fin (2567 / 1024)) :: (Fin (413 / 1024)) :: (Fin (307 / 256)) :: (Fin (140813 / 1024)) :: (Fin (3451 / 1024)) :: (Fin (86669 / 1024)) :: nil)) (2274023710109361 / 281474976710656).
Proof. apply (A41_rio_fin _ (225540406882183 / 140737488355328)); [reflexivity | apply (A41_q_mid 225540406882183 140737488355328 2274023710109361 281474976710656); [vm_compute; reflexivity | unfold fr, close, ctol, A41_c, A41_e; interval with (i_prec 80)]]. Qed.
Lemma d_A41_1441u : close ctol (7114851242254449 / 18014398509481984) (volts_A41 (4501196496471817 / 140737488355328)).
Proof. apply (A41_q_volts_mid 4501196496471817 140737488355328 7114851242254449 18014398509481984); [vm_compute; reflexivity | unfold fr, close, ctol, A41_lo, A41_hi, A41_c, A41_e; interval with (i_prec 80)]. Qed.
Lemma d_A41_1454u : close ctol (2983144238279601 / 4503599627370496) (volts_A41 (1354197354778555 / 70368744177664)).
Proof. apply (A41_q_volts_mid 1354197354778555 70368744177664 2983144238279601 4503599627370496); [vm_compute; reflexivity | unfold fr, close, ctol, A41_lo, A41_hi, A41_c, A41_e; interval with (i_prec 80)]. Qed.
Lemma d_A41_1467u : close ctol (6950093408278487 / 18014398509481984) (volts_A41 (1151500366140089 / 35184372088832)).
Proof. apply (A41_q_volts_mid 1151500366140089 35184372088832 6950093408278487 18014398509481984); [vm_compute; reflexivity | unfold fr, close, ctol, A41_lo, A41_hi, A41_c, A41_e; interval with (i_prec 80)]. Qed.
Lemma d_A41_1480u : close ctol (3082603500243395 / 4503599627370496) (volts_A41 (2622522519613479 / 140737488355328)).
Proof. apply (A41_q_volts_mid 2622522519613479 140737488355328 3082603500243395 4503599627370496); [vm_compute; reflexivity | unfold fr, close, ctol, A41_lo, A41_hi, A41_c, A41_e; interval with (i_prec 80)]. Qed.
Lemma d_A41_1492r : rio_reads A41_c A41_e A41_lo A41_hi floor_volts ctol (Build_rio (Fin (1741756744478065 / 2251799813685248)) (Fin (4901 / 1024)) (Fin (45 / 16)) (Fin (6 / 1)) (Fin (11029 / 1024)) true true true ((Fin (1261 / 1024)) :: (Fin (481 / 1024)) :: (Fin (551 / 1024)) :: (Fin (59587 / 512)) :: (Fin (1375 / 256)) :: (Fin (6135 / 1024)) :: nil)) (2325701397364667 / 140737488355328).
Proof. apply (A41_rio_fin _ (1741756744478065 / 2251799813685248)); [reflexivity | apply (A41_q_mid 1741756744478065 2251799813685248 2325701397364667 140737488355328); [vm_compute; reflexivity | unfold fr, close, ctol, A41_c, A41_e; interval with (i_prec 80)]]. Qed.
Lemma d_A41_1505u : close ctol (6491044311201869 / 18014398509481984) (volts_A41 (2765247958489453 / 35184372088832)).
Proof. apply (A41_q_volts_hi 2765247958489453 35184372088832 6491044311201869 18014398509481984); [vm_compute; reflexivity | unfold fr, close, ctol, A41_lo, A41_hi, A41_c, A41_e; interval with (i_prec 80)]. Qed.
Lemma d_A41_1518u : close ctol (1636741441258383 / 562949953421312) (volts_A41 (284071280211575 / 2251799813685248)).
Proof. apply (A41_q_volts_lo 284071280211575 2251799813685248 1636741441258383 562949953421312); [vm_compute; reflexivity | unfold fr, close, ctol, A41_lo, A41_hi, A41_c, A41_e; interval with (i_prec 80)]. Qed.
Lemma d_A41_1531u : close ctol (6491044311201869 / 18014398509481984) (volts_A41 (2817845700419201 / 35184372088832)).
Proof. apply (A41_q_volts_hi 2817845700419201 35184372088832 6491044311201869 18014398509481984); [vm_compute; reflexivity | unfold fr, close, ctol, A41_lo, A41_hi, A41_c, A41_e; interval with (i_prec 80)]. Qed.
Lemma d_A41_1544u : close ctol (1636741441258383 / 562949953421312) (volts_A41 (1449460993556745 / 1125899906842624)).
Proof. apply (A41_q_volts_lo 1449460993556745 1125899906842624 1636741441258383 562949953421312); [vm_compute; reflexivity | unfold fr, close, ctol, A41_lo, A41_hi, A41_c, A41_e; interval with (i_prec 80)]. Qed.
Lemma d_A41_1556r : rio_reads A41_c A41_e A41_lo A41_hi floor_volts ctol (Build_rio (Fin (1750136186931527 / 4503599627370496)) (Fin (5 / 1)) (Fin (3715469692580659 / 1125899906842624)) (Fin (6 / 1)) (Fin (12 / 1)) true true true ((Fin (0 / 1)) :: (Fin (0 / 1)) :: (Fin (0 / 1)) :: (Fin (0 / 1)) :: (Fin (27 / 4)) :: (Fin (45 / 1)) :: nil)) (4573389204267379 / 140737488355328).
Proof. apply (A41_rio_fin _ (1750136186931527 / 4503599627370496)); [reflexivity | apply (A41_q_mid 1750136186931527 4503599627370496 4573389204267379 140737488355328); [vm_compute; reflexivity | unfold fr, close, ctol, A41_c, A41_e; interval with (i_prec 80)]]. Qed.
Lemma d_A41_1569u : close ctol (1636741441258383 / 562949953421312) (volts_A41 ((-2212905795162223) / 1125899906842624)).
Proof. apply (A41_q_volts_lo (-2212905795162223) 1125899906842624 1636741441258383 562949953421312); [vm_compute; reflexivity | unfold fr, close, ctol, A41_lo, A41_hi, A41_c, A41_e; interval with (i_prec 80)]. Qed.
Lemma d_A41_1582u : close ctol (8146306755208275 / 18014398509481984) (volts_A41 (28 / 1)).
Proof. apply (A41_q_volts_mid 28 1 8146306755208275 18014398509481984); [vm_compute; reflexivity | unfold fr, close, ctol, A41_lo, A41_hi, A41_c, A41_e; interval with (i_prec 80)]. Qed.
Lemma d_A41_1595u : close ctol (5172759520594461 / 9007199254740992) (volts_A41 (6232080139988867 / 281474976710656)).
Proof. apply (A41_q_volts_mid 6232080139988867 281474976710656 5172759520594461 9007199254740992); [vm_compute; reflexivity | unfold fr, close, ctol, A41_lo, A41_hi, A41_c, A41_e; interval with (i_prec 80)]. Qed.
Lemma d_A41_1608u : close ctol (7295351455992335 / 18014398509481984) (volts_A41 (2195882394115927 / 70368744177664)).
Proof. apply (A41_q_volts_mid 2195882394115927 70368744177664 7295351455992335 18014398509481984); [vm_compute; reflexivity | unfold fr, close, ctol, A41_lo, A41_hi, A41_c, A41_e; interval with (i_prec 80)]. Qed.
Lemma d_A41_1620r : rio_reads A41_c A41_e A41_lo A41_hi floor_volts ctol (Build_rio (Fin (8649234160240259 / 9007199254740992)) (Fin (4851 / 1024)) (Fin (2775 / 1024)) (Fin (5709 / 1024)) (Fin (1 / 202402253307310618352495346718917307049556649764142118356901358027430339567995346891960383701437124495187077864316811911389808737385793476867013399940738509921517424276566361364466907742093216341239767678472745068562007483424692698618103355649159556340810056512358769552333414615230502532186327508646006263307707741093494784)) false true true ((Fin (687 / 256)) :: (Fin (841 / 1024)) :: (Fin (211 / 1024)) :: (Fin (39239 / 1024)) :: (Fin (6969 / 1024)) :: (Fin (4291 / 1024)) :: nil)) (7522062772361535 / 562949953421312).
Proof. apply (A41_rio_fin _ (8649234160240259 / 9007199254740992)); [reflexivity | apply (A41_q_mid 8649234160240259 9007199254740992 7522062772361535 562949953421312); [vm_compute; reflexivity | unfold fr, close, ctol, A41_c, A41_e; interval with (i_prec 80)]]. Qed.
Lemma d_A41_1633u : close ctol (6491044311201869 / 18014398509481984) (volts_A41 (316444315641805 / 4398046511104)).
Proof. apply (A41_q_volts_hi 316444315641805 4398046511104 6491044311201869 18014398509481984); [vm_compute; reflexivity | unfold fr, close, ctol, A41_lo, A41_hi, A41_c, A41_e; interval with (i_prec 80)]. Qed.
Lemma d_A41_1646u : close ctol (2810826108894169 / 4503599627370496) (volts_A41 (1435712382029071 / 70368744177664)).
Proof. apply (A41_q_volts_mid 1435712382029071 70368744177664 2810826108894169 4503599627370496); [vm_compute; reflexivity | unfold fr, close, ctol, A41_lo, A41_hi, A41_c, A41_e; interval with (i_prec 80)]. Qed.
Lemma d_A41_1659u : close ctol (6779858970024805 / 18014398509481984) (volts_A41 (2359796245414705 / 70368744177664)).
Proof. apply (A41_q_volts_mid 2359796245414705 70368744177664 6779858970024805 18014398509481984); [vm_compute; reflexivity | unfold fr, close, ctol, A41_lo, A41_hi, A41_c, A41_e; interval with (i_prec 80)]. Qed.
Lemma d_A41_1672u : close ctol (5474459508957059 / 4503599627370496) (volts_A41 (2983427552102713 / 281474976710656)).
Proof. apply (A41_q_volts_mid 2983427552102713 281474976710656 5474459508957059 4503599627370496); [vm_compute; reflexivity | unfold fr, close, ctol, A41_lo, A41_hi, A41_c, A41_e; interval with (i_prec 80)]. Qed.
Lemma d_A41_1684r : rio_reads A41_c A41_e A41_lo A41_hi floor_volts ctol (Build_rio (Fin (6491044311201869 / 18014398509481984)) (Fin (1 / 1)) (Fin (1 / 202402253307310618352495346718917307049556649764142118356901358027430339567995346891960383701437124495187077864316811911389808737385793476867013399940738509921517424276566361364466907742093216341239767678472745068562007483424692698618103355649159556340810056512358769552333414615230502532186327508646006263307707741093494784)) (Fin (2471 / 512)) (Fin (12155 / 1024)) true true true ((Fin (2737 / 1024)) :: (Fin (1459 / 1024)) :: (Fin (337 / 512)) :: (Fin (127079 / 1024)) :: (Fin (1109 / 256)) :: (Fin (64789 / 1024)) :: nil)) (35 / 1).
Proof. apply (A41_rio_fin _ (6491044311201869 / 18014398509481984)); [reflexivity | apply (A41_q_hi 6491044311201869 18014398509481984 35 1); [vm_compute; reflexivity | unfold fr, ctol, A41_hi, A41_c, A41_e; interval with (i_prec 80)]]. Qed.
Lemma d_A41_1697u : close ctol (6491044311201869 / 18014398509481984) (volts_A41 (903776377448535 / 8796093022208)).
Proof. apply (A41_q_volts_hi 903776377448535 8796093022208 6491044311201869 18014398509481984); [vm_compute; reflexivity | unfold fr, close, ctol, A41_lo, A41_hi, A41_c, A41_e; interval with (i_prec 80)]. Qed.
Lemma d_A41_1710u : close ctol (4736559358871355 / 2251799813685248) (volts_A41 (3481650959059397 / 562949953421312)).
Proof. apply (A41_q_volts_mid 3481650959059397 562949953421312 4736559358871355 2251799813685248); [vm_compute; reflexivity | unfold fr, close, ctol, A41_lo, A41_hi, A41_c, A41_e; interval with (i_prec 80)]. Qed.
Lemma d_A41_1723u : close ctol (6491044311201869 / 18014398509481984) (volts_A41 (2483708110064983 / 35184372088832)).
Proof. apply (A41_q_volts_hi 2483708110064983 35184372088832 6491044311201869 18014398509481984); [vm_compute; reflexivity | unfold fr, close, ctol, A41_lo, A41_hi, A41_c, A41_e; interval with (i_prec 80)]. Qed.
Lemma d_A41_1736u : close ctol (1226933205007575 / 2251799813685248) (volts_A41 (6562546571766299 / 281474976710656)).
Proof. apply (A41_q_volts_mid 6562546571766299 281474976710656 1226933205007575 2251799813685248); [vm_compute; reflexivity | unfold fr, close, ctol, A41_lo, A41_hi, A41_c, A41_e; interval with (i_prec 80)]. Qed.
Lemma d_A41_1748r : rio_reads A41_c A41_e A41_lo A41_hi floor_volts ctol (Build_rio (Fin (8756386400345315 / 9007199254740992)) (Fin (5 / 1)) (Fin (3715469692580659 / 1125899906842624)) (Fin (6 / 1)) (Fin (12 / 1)) true true true ((Fin (0 / 1)) :: (Fin (0 / 1)) :: (Fin (0 / 1)) :: (Fin (0 / 1)) :: (Fin (27 / 4)) :: (Fin (45 / 1)) :: nil)) (1857906315183999 / 140737488355328).
Proof. apply (A41_rio_fin _ (8756386400345315 / 9007199254740992)); [reflexivity | apply (A41_q_mid 8756386400345315 9007199254740992 1857906315183999 140737488355328); [vm_compute; reflexivity | unfold fr, close, ctol, A41_c, A41_e; interval with (i_prec 80)]]. Qed.
Lemma d_A41_1761u : close ctol (7755546519880313 / 9007199254740992) (volts_A41 (8372758651664957 / 562949953421312)).
Proof. apply (A41_q_volts_mid 8372758651664957 562949953421312 7755546519880313 9007199254740992); [vm_compute; reflexivity | unfold fr, close, ctol, A41_lo, A41_hi, A41_c, A41_e; interval with (i_prec 80)]. Qed.
Lemma d_A41_1774u : close ctol (2460585208615629 / 4503599627370496) (volts_A41 (3272471021356721 / 140737488355328)).
Proof. apply (A41_q_volts_mid 3272471021356721 140737488355328 2460585208615629 4503599627370496); [vm_compute; reflexivity | unfold fr, close, ctol, A41_lo, A41_hi, A41_c, A41_e; interval with (i_prec 80)]. Qed.
Lemma d_A41_1787u : close ctol (3337262041256941 / 2251799813685248) (volts_A41 (4911129960001051 / 562949953421312)).
Proof. apply (A41_q_volts_mid 4911129960001051 562949953421312 3337262041256941 2251799813685248); [vm_compute; reflexivity | unfold fr, close, ctol, A41_lo, A41_hi, A41_c, A41_e; interval with (i_prec 80)]. Qed.
Lemma d_A41_1800u : close ctol (6444443737766709 / 9007199254740992) (volts_A41 (5021691546807357 / 281474976710656)).
Proof. apply (A41_q_volts_mid 5021691546807357 281474976710656 6444443737766709 9007199254740992); [vm_compute; reflexivity | unfold fr, close, ctol, A41_lo, A41_hi, A41_c, A41_e; interval with (i_prec 80)]. Qed.
Lemma d_A41_1812r : rio_reads A41_c A41_e A41_lo A41_hi floor_volts ctol (Build_rio (Fin (2308968290016177 / 4503599627370496)) (Fin (2103 / 512)) (Fin (1801 / 512)) (Fin ((-12) / 1)) (Fin (12 / 1)) true true true ((Fin (1551 / 1024)) :: (Fin (477 / 1024)) :: (Fin (289 / 256)) :: (Fin (77327 / 1024)) :: (Fin (2269 / 256)) :: (Fin (7883 / 512)) :: nil)) (3483454402154737 / 140737488355328).
Proof. apply (A41_rio_fin _ (2308968290016177 / 4503599627370496)); [reflexivity | apply (A41_q_mid 2308968290016177 4503599627370496 3483454402154737 140737488355328); [vm_compute; reflexivity | unfold fr, close, ctol, A41_c, A41_e; interval with (i_prec 80)]]. Qed.
Lemma d_A41_1825u : close ctol (8177197041958341 / 4503599627370496) (volts_A41 (1005748325373483 / 140737488355328)).
Proof. apply (A41_q_volts_mid 1005748325373483 140737488355328 8177197041958341 4503599627370496); [vm_compute; reflexivity | unfold fr, close, ctol, A41_lo, A41_hi, A41_c, A41_e; interval with (i_prec 80)]. Qed.
Lemma d_A41_1838u : close ctol (1636741441258383 / 562949953421312) (volts_A41 (902444575845179 / 1125899906842624)).
Proof. apply (A41_q_volts_lo 902444575845179 1125899906842624 1636741441258383 562949953421312); [vm_compute; reflexivity | unfold fr, close, ctol, A41_lo, A41_hi, A41_c, A41_e; interval with (i_prec 80)]. Qed.
Lemma d_A41_1851u : close ctol (1636741441258383 / 562949953421312) (volts_A41 (1477388273021961 / 9007199254740992)).
Proof. apply (A41_q_volts_lo 1477388273021961 9007199254740992 1636741441258383 562949953421312); [vm_compute; reflexivity | unfold fr, close, ctol, A41_lo, A41_hi, A41_c, A41_e; interval with (i_prec 80)]. Qed.
Lemma d_A41_1864u : close ctol (1257958183764395 / 2251799813685248) (volts_A41 (6403508506053375 / 281474976710656)).
Proof. apply (A41_q_volts_mid 6403508506053375 281474976710656 1257958183764395 2251799813685248); [vm_compute; reflexivity | unfold fr, close, ctol, A41_lo, A41_hi, A41_c, A41_e; interval with (i_prec 80)]. Qed.
Lemma d_A41_1876r : rio_reads A41_c A41_e A41_lo A41_hi floor_volts ctol (Build_rio (Fin (8663909589523885 / 9007199254740992)) (Fin (383 / 64)) (Fin (3249 / 1024)) (Fin (1313 / 256)) (Fin (5361 / 512)) true true true ((Fin (551 / 256)) :: (Fin (1129 / 1024)) :: (Fin (93 / 256)) :: (Fin (176759 / 1024)) :: (Fin (8121 / 1024)) :: (Fin ((-10063) / 1024)) :: nil)) (7509545529263979 / 562949953421312).
Proof. apply (A41_rio_fin _ (8663909589523885 / 9007199254740992)); [reflexivity | apply (A41_q_mid 8663909589523885 9007199254740992 7509545529263979 562949953421312); [vm_compute; reflexivity | unfold fr, close, ctol, A41_c, A41_e; interval with (i_prec 80)]]. Qed.
Lemma d_A41_1889u : close ctol (3388235409586593 / 4503599627370496) (volts_A41 (2389933960538835 / 140737488355328)).
Proof. apply (A41_q_volts_mid 2389933960538835 140737488355328 3388235409586593 4503599627370496); [vm_compute; reflexivity | unfold fr, close, ctol, A41_lo, A41_hi, A41_c, A41_e; interval with (i_prec 80)]. Qed.
Lemma d_A41_1902u : close ctol (1636741441258383 / 562949953421312) (volts_A41 (306594630754959 / 562949953421312)).
Proof. apply (A41_q_volts_lo 306594630754959 562949953421312 1636741441258383 562949953421312); [vm_compute; reflexivity | unfold fr, close, ctol, A41_lo, A41_hi, A41_c, A41_e; interval with (i_prec 80)]. Qed.
Lemma d_A41_1915u : close ctol (4126135944524709 / 4503599627370496) (volts_A41 (3938691552763191 / 281474976710656)).
Proof. apply (A41_q_volts_mid 3938691552763191 281474976710656 4126135944524709 4503599627370496); [vm_compute; reflexivity | unfold fr, close, ctol, A41_lo, A41_hi, A41_c, A41_e; interval with (i_prec 80)]. Qed.
Lemma d_A41_1928u : close ctol (6491044311201869 / 18014398509481984) (volts_A41 (3025971678746443 / 70368744177664)).
Proof. apply (A41_q_volts_hi 3025971678746443 70368744177664 6491044311201869 18014398509481984); [vm_compute; reflexivity | unfold fr, close, ctol, A41_lo, A41_hi, A41_c, A41_e; interval with (i_prec 80)]. Qed.
Lemma d_A41_1940r : rio_reads A41_c A41_e A41_lo A41_hi floor_volts ctol (Build_rio (Fin (1636741441258383 / 562949953421312)) (Fin (5 / 1)) (Fin (3715469692580659 / 1125899906842624)) (Fin (6 / 1)) (Fin (12 / 1)) true true true ((Fin (0 / 1)) :: (Fin (0 / 1)) :: (Fin (0 / 1)) :: (Fin (0 / 1)) :: (Fin (27 / 4)) :: (Fin (45 / 1)) :: nil)) (9 / 2).
Proof. apply (A41_rio_fin _ (1636741441258383 / 562949953421312)); [reflexivity | apply (A41_q_lo 1636741441258383 562949953421312 9 2); [vm_compute; reflexivity | unfold fr, ctol, A41_lo, A41_c, A41_e; interval with (i_prec 80)]]. Qed.
Lemma d_A41_1953u : close ctol (6491044311201869 / 18014398509481984) (volts_A41 (7342830912472741 / 70368744177664)).
Proof. apply (A41_q_volts_hi 7342830912472741 70368744177664 6491044311201869 18014398509481984); [vm_compute; reflexivity | unfold fr, close, ctol, A41_lo, A41_hi, A41_c, A41_e; interval with (i_prec 80)]. Qed.
Lemma d_A41_1966u : close ctol (421970687889721 / 281474976710656) (volts_A41 (303505918558329 / 35184372088832)).
Proof. apply (A41_q_volts_mid 303505918558329 35184372088832 421970687889721 281474976710656); [vm_compute; reflexivity | unfold fr, close, ctol, A41_lo, A41_hi, A41_c, A41_e; interval with (i_prec 80)]. Qed.
Lemma d_A41_1979u : close ctol (863026048335245 / 2251799813685248) (volts_A41 (4636072205682501 / 140737488355328)).
Proof. apply (A41_q_volts_mid 4636072205682501 140737488355328 863026048335245 2251799813685248); [vm_compute; reflexivity | unfold fr, close, ctol, A41_lo, A41_hi, A41_c, A41_e; interval with (i_prec 80)]. Qed.
Lemma d_A41_1992u : close ctol (6921129103454585 / 18014398509481984) (volts_A41 (4624937218999733 / 140737488355328)).
Proof. apply (A41_q_volts_mid 4624937218999733 140737488355328 6921129103454585 18014398509481984); [vm_compute; reflexivity | unfold fr, close, ctol, A41_lo, A41_hi, A41_c, A41_e; interval with (i_prec 80)]. Qed.
Lemma r_A02_17 : rio_reads A02_c A02_e A02_lo A02_hi floor_volts ctol (Build_rio (Fin ((-100000000000000001097906362944045541740492309677311846336810682903157585404911491537163328978494688899061249669721172515611590283743140088328307009198146046031271664502933027185697489699588559043338384466165001178426897626212945177628091195786707458122783970171784415105291802893207873272974885715430223118336) / 1)) NInf (Fin (3715469692580659 / 1125899906842624)) (Fin (6 / 1)) (Fin (12 / 1)) true true true ((Fin (0 / 1)) :: (Fin (0 / 1)) :: (Fin (0 / 1)) :: (Fin (0 / 1)) :: (Fin (27 / 4)) :: (Fin (45 / 1)) :: nil)) (435215207548285 / 8796093022208).
Proof. apply (A02_rio_fin _ ((-100000000000000001097906362944045541740492309677311846336810682903157585404911491537163328978494688899061249669721172515611590283743140088328307009198146046031271664502933027185697489699588559043338384466165001178426897626212945177628091195786707458122783970171784415105291802893207873272974885715430223118336) / 1)); [reflexivity | apply (A02_q_floor (-100000000000000001097906362944045541740492309677311846336810682903157585404911491537163328978494688899061249669721172515611590283743140088328307009198146046031271664502933027185697489699588559043338384466165001178426897626212945177628091195786707458122783970171784415105291802893207873272974885715430223118336) 1 435215207548285 8796093022208); vm_compute; reflexivity]. Qed.
Lemma r_A02_390 : rio_reads A02_c A02_e A02_lo A02_hi floor_volts ctol (Build_rio (Fin (6083867288463185 / 18889465931478580854784)) (Fin (5305 / 1024)) (Fin ((-12) / 1)) (Fin (5199 / 1024)) (Fin (1 / 1)) true true true ((Fin (299 / 256)) :: (Fin (677 / 1024)) :: (Fin (455 / 512)) :: (Fin (24077 / 1024)) :: (Fin (1539 / 512)) :: (Fin (44311 / 1024)) :: nil)) (145 / 1).
Proof. apply (A02_rio_fin _ (6083867288463185 / 18889465931478580854784)); [reflexivity | apply (A02_q_floor 6083867288463185 18889465931478580854784 145 1); vm_compute; reflexivity]. Qed.
Lemma d_A02_5c : close ctol (7036874417766401 / 140737488355328) (clamp A02_lo A02_hi (50 / 1)).
Proof. apply (A02_q_clamp_mid 50 1 7036874417766401 140737488355328); vm_compute; reflexivity. Qed.
Lemma d_A02_11g : get_distance (set_distance A02_c A02_e A02_lo A02_hi sim_init (25 / 1)) = (25 / 1).
Proof. cbn [get_distance set_distance sim_distance]. first [reflexivity | lra]. Qed.
Lemma d_A02_18c : close ctol (145 / 1) (clamp A02_lo A02_hi (1000000000000000052504760255204420248704468581108159154915854115511802457988908195786371375080447864043704443832883878176942523235360430575644792184786706982848387200926575803737830233794788090059368953234970799945081119038967640880074652742780142494579258788820056842838115669472196386865459400540160 / 1)).
Proof. apply (A02_q_clamp_hi 1000000000000000052504760255204420248704468581108159154915854115511802457988908195786371375080447864043704443832883878176942523235360430575644792184786706982848387200926575803737830233794788090059368953234970799945081119038967640880074652742780142494579258788820056842838115669472196386865459400540160 1 145 1); vm_compute; reflexivity. Qed.
Lemma d_A02_24g : get_distance (set_distance A02_c A02_e A02_lo A02_hi sim_init ((-100000000000000001097906362944045541740492309677311846336810682903157585404911491537163328978494688899061249669721172515611590283743140088328307009198146046031271664502933027185697489699588559043338384466165001178426897626212945177628091195786707458122783970171784415105291802893207873272974885715430223118336) / 1)) = ((-100000000000000001097906362944045541740492309677311846336810682903157585404911491537163328978494688899061249669721172515611590283743140088328307009198146046031271664502933027185697489699588559043338384466165001178426897626212945177628091195786707458122783970171784415105291802893207873272974885715430223118336) / 1).
Proof. cbn [get_distance set_distance sim_distance]. first [reflexivity | lra]. Qed.
Lemma d_A02_32g : get_distance (set_distance A02_c A02_e A02_lo A02_hi sim_init (30 / 1)) = (30 / 1).
Proof. cbn [get_distance set_distance sim_distance]. first [reflexivity | lra]. Qed.
Lemma d_A02_40g : get_distance (set_distance A02_c A02_e A02_lo A02_hi sim_init (179769313486231570814527423731704356798070567525844996598917476803157260780028538760589558632766878171540458953514382464234321326889464182768467546703537516986049910576551282076245490090389328944075868508455133942304583236903222948165808559332123348274797826204144723168738177180919299881250404026184124858368 / 1)) = (179769313486231570814527423731704356798070567525844996598917476803157260780028538760589558632766878171540458953514382464234321326889464182768467546703537516986049910576551282076245490090389328944075868508455133942304583236903222948165808559332123348274797826204144723168738177180919299881250404026184124858368 / 1).
Proof. cbn [get_distance set_distance sim_distance]. first [reflexivity | lra]. Qed.
Lemma d_A02_49g : get_distance (set_distance A02_c A02_e A02_lo A02_hi sim_init (6333186969656573 / 281474976710656)) = (6333186969656573 / 281474976710656).
Proof. cbn [get_distance set_distance sim_distance]. first [reflexivity | lra]. Qed.
Lemma d_A02_57g : get_distance (set_distance A02_c A02_e A02_lo A02_hi sim_init (335 / 4)) = (335 / 4).
Proof. cbn [get_distance set_distance sim_distance]. first [reflexivity | lra]. Qed.
Lemma d_A02_65g : get_distance (set_distance A02_c A02_e A02_lo A02_hi sim_init (3195256997452467 / 70368744177664)) = (3195256997452467 / 70368744177664).
Proof. cbn [get_distance set_distance sim_distance]. first [reflexivity | lra]. Qed.
Lemma d_A02_73g : get_distance (set_distance A02_c A02_e A02_lo A02_hi sim_init (7295622490989543 / 70368744177664)) = (7295622490989543 / 70368744177664).
Proof. cbn [get_distance set_distance sim_distance]. first [reflexivity | lra]. Qed.
Lemma d_A02_81g : get_distance (set_distance A02_c A02_e A02_lo A02_hi sim_init (2638459001001339 / 70368744177664)) = (2638459001001339 / 70368744177664).
Proof. cbn [get_distance set_distance sim_distance]. first [reflexivity | lra]. Qed.
Lemma d_A02_89g : get_distance (set_distance A02_c A02_e A02_lo A02_hi sim_init (7734004345272711 / 70368744177664)) = (7734004345272711 / 70368744177664).
Proof. cbn [get_distance set_distance sim_distance]. first [reflexivity | lra]. Qed.
Lemma d_A02_97g : get_distance (set_distance A02_c A02_e A02_lo A02_hi sim_init (2816911487806553 / 140737488355328)) = (2816911487806553 / 140737488355328).
Proof. cbn [get_distance set_distance sim_distance]. first [reflexivity | lra]. Qed.
Lemma d_A02_105g : get_distance (set_distance A02_c A02_e A02_lo A02_hi sim_init (3792084390409215 / 70368744177664)) = (3792084390409215 / 70368744177664).
Proof. cbn [get_distance set_distance sim_distance]. first [reflexivity | lra]. Qed.
Lemma d_A02_113g : get_distance (set_distance A02_c A02_e A02_lo A02_hi sim_init (8367165585081649 / 70368744177664)) = (8367165585081649 / 70368744177664).
Proof. cbn [get_distance set_distance sim_distance]. first [reflexivity | lra]. Qed.
Lemma d_A02_121g : get_distance (set_distance A02_c A02_e A02_lo A02_hi sim_init (8881449286571943 / 140737488355328)) = (8881449286571943 / 140737488355328).
Proof. cbn [get_distance set_distance sim_distance]. first [reflexivity | lra]. Qed.
Lemma d_A02_129g : get_distance (set_distance A02_c A02_e A02_lo A02_hi sim_init (8994023447536791 / 2251799813685248)) = (8994023447536791 / 2251799813685248).
Proof. cbn [get_distance set_distance sim_distance]. first [reflexivity | lra]. Qed.
Lemma d_A02_137g : get_distance (set_distance A02_c A02_e A02_lo A02_hi sim_init (7807531644764103 / 281474976710656)) = (7807531644764103 / 281474976710656).
Proof. cbn [get_distance set_distance sim_distance]. first [reflexivity | lra]. Qed.
Lemma d_A02_145g : get_distance (set_distance A02_c A02_e A02_lo A02_hi sim_init (4638953999419935 / 70368744177664)) = (4638953999419935 / 70368744177664).
Proof. cbn [get_distance set_distance sim_distance]. first [reflexivity | lra]. Qed.
Lemma d_A02_153g : get_distance (set_distance A02_c A02_e A02_lo A02_hi sim_init (4374254275903893 / 70368744177664)) = (4374254275903893 / 70368744177664).
Proof. cbn [get_distance set_distance sim_distance]. first [reflexivity | lra]. Qed.
Lemma d_A02_161g : get_distance (set_distance A02_c A02_e A02_lo A02_hi sim_init (1517826149896231 / 281474976710656)) = (1517826149896231 / 281474976710656).
Proof. cbn [get_distance set_distance sim_distance]. first [reflexivity | lra]. Qed.
Lemma d_A02_169g : get_distance (set_distance A02_c A02_e A02_lo A02_hi sim_init (566743484889479 / 8796093022208)) = (566743484889479 / 8796093022208).
Proof. cbn [get_distance set_distance sim_distance]. first [reflexivity | lra]. Qed.
Lemma d_A02_177g : get_distance (set_distance A02_c A02_e A02_lo A02_hi sim_init (5642043580309957 / 140737488355328)) = (5642043580309957 / 140737488355328).
Proof. cbn [get_distance set_distance sim_distance]. first [reflexivity | lra]. Qed.
Lemma d_A02_185g : get_distance (set_distance A02_c A02_e A02_lo A02_hi sim_init (5910248427896333 / 72057594037927936)) = (5910248427896333 / 72057594037927936).
Proof. cbn [get_distance set_distance sim_distance]. first [reflexivity | lra]. Qed.
Lemma d_A02_193g : get_distance (set_distance A02_c A02_e A02_lo A02_hi sim_init (2386767001115023 / 72057594037927936)) = (2386767001115023 / 72057594037927936).
Proof. cbn [get_distance set_distance sim_distance]. first [reflexivity | lra]. Qed.
Lemma d_A02_201g : get_distance (set_distance A02_c A02_e A02_lo A02_hi sim_init (8615548134764839 / 281474976710656)) = (8615548134764839 / 281474976710656).
Proof. cbn [get_distance set_distance sim_distance]. first [reflexivity | lra]. Qed.
Lemma d_A02_209g : get_distance (set_distance A02_c A02_e A02_lo A02_hi sim_init ((-4962225027055119) / 562949953421312)) = ((-4962225027055119) / 562949953421312).
Proof. cbn [get_distance set_distance sim_distance]. first [reflexivity | lra]. Qed.
Lemma d_A02_217g : get_distance (set_distance A02_c A02_e A02_lo A02_hi sim_init (2309934948831027 / 17592186044416)) = (2309934948831027 / 17592186044416).
Proof. cbn [get_distance set_distance sim_distance]. first [reflexivity | lra]. Qed.
Lemma d_A02_225g : get_distance (set_distance A02_c A02_e A02_lo A02_hi sim_init (7508064846195613 / 70368744177664)) = (7508064846195613 / 70368744177664).
Proof. cbn [get_distance set_distance sim_distance]. first [reflexivity | lra]. Qed.
Lemma d_A02_233g : get_distance (set_distance A02_c A02_e A02_lo A02_hi sim_init (1167332515356251 / 8796093022208)) = (1167332515356251 / 8796093022208).
Proof. cbn [get_distance set_distance sim_distance]. first [reflexivity | lra]. Qed.
Lemma d_A02_241g : get_distance (set_distance A02_c A02_e A02_lo A02_hi sim_init (68513455580583 / 35184372088832)) = (68513455580583 / 35184372088832).
Proof. cbn [get_distance set_distance sim_distance]. first [reflexivity | lra]. Qed.
Lemma d_A02_249g : get_distance (set_distance A02_c A02_e A02_lo A02_hi sim_init (6095400130318561 / 70368744177664)) = (6095400130318561 / 70368744177664).
Proof. cbn [get_distance set_distance sim_distance]. first [reflexivity | lra]. Qed.
Lemma d_A02_257g : get_distance (set_distance A02_c A02_e A02_lo A02_hi sim_init (970558933214551 / 70368744177664)) = (970558933214551 / 70368744177664).
Proof. cbn [get_distance set_distance sim_distance]. first [reflexivity | lra]. Qed.
Lemma d_A02_265g : get_distance (set_distance A02_c A02_e A02_lo A02_hi sim_init (80 / 1)) = (80 / 1).
Proof. cbn [get_distance set_distance sim_distance]. first [reflexivity | lra]. Qed.
Lemma d_A02_273g : get_distance (set_distance A02_c A02_e A02_lo A02_hi sim_init (5031197306748417 / 35184372088832)) = (5031197306748417 / 35184372088832).
Proof. cbn [get_distance set_distance sim_distance]. first [reflexivity | lra]. Qed.
Lemma d_A02_281g : get_distance (set_distance A02_c A02_e A02_lo A02_hi sim_init (697557752903225 / 8796093022208)) = (697557752903225 / 8796093022208).
Proof. cbn [get_distance set_distance sim_distance]. first [reflexivity | lra]. Qed.
Lemma d_A02_289g : get_distance (set_distance A02_c A02_e A02_lo A02_hi sim_init (2548914235595229 / 140737488355328)) = (2548914235595229 / 140737488355328).
Proof. cbn [get_distance set_distance sim_distance]. first [reflexivity | lra]. Qed.
Lemma d_A02_297g : get_distance (set_distance A02_c A02_e A02_lo A02_hi sim_init (4085832298875255 / 70368744177664)) = (4085832298875255 / 70368744177664).
Proof. cbn [get_distance set_distance sim_distance]. first [reflexivity | lra]. Qed.
Lemma d_A02_305g : get_distance (set_distance A02_c A02_e A02_lo A02_hi sim_init (2802601805056479 / 35184372088832)) = (2802601805056479 / 35184372088832).
Proof. cbn [get_distance set_distance sim_distance]. first [reflexivity | lra]. Qed.
Lemma d_A02_313g : get_distance (set_distance A02_c A02_e A02_lo A02_hi sim_init (5576799202785973 / 70368744177664)) = (5576799202785973 / 70368744177664).
Proof. cbn [get_distance set_distance sim_distance]. first [reflexivity | lra]. Qed.
Lemma d_A02_321g : get_distance (set_distance A02_c A02_e A02_lo A02_hi sim_init (6213829618647547 / 70368744177664)) = (6213829618647547 / 70368744177664).
Proof. cbn [get_distance set_distance sim_distance]. first [reflexivity | lra]. Qed.
Lemma d_A02_329g : get_distance (set_distance A02_c A02_e A02_lo A02_hi sim_init (3450650604933643 / 8796093022208)) = (3450650604933643 / 8796093022208).
Proof. cbn [get_distance set_distance sim_distance]. first [reflexivity | lra]. Qed.
Lemma d_A02_337g : get_distance (set_distance A02_c A02_e A02_lo A02_hi sim_init (3145657076823607 / 35184372088832)) = (3145657076823607 / 35184372088832).
Proof. cbn [get_distance set_distance sim_distance]. first [reflexivity | lra]. Qed.
Lemma d_A02_345g : get_distance (set_distance A02_c A02_e A02_lo A02_hi sim_init (212 / 1)) = (212 / 1).
Proof. cbn [get_distance set_distance sim_distance]. first [reflexivity | lra]. Qed.
Lemma d_A02_353g : get_distance (set_distance A02_c A02_e A02_lo A02_hi sim_init (4566766336187339 / 140737488355328)) = (4566766336187339 / 140737488355328).
Proof. cbn [get_distance set_distance sim_distance]. first [reflexivity | lra]. Qed.
Lemma d_A02_361g : get_distance (set_distance A02_c A02_e A02_lo A02_hi sim_init ((-4179023277895813) / 1125899906842624)) = ((-4179023277895813) / 1125899906842624).
Proof. cbn [get_distance set_distance sim_distance]. first [reflexivity | lra]. Qed.
Lemma d_A02_369g : get_distance (set_distance A02_c A02_e A02_lo A02_hi sim_init (2349218337709551 / 17592186044416)) = (2349218337709551 / 17592186044416).
Proof. cbn [get_distance set_distance sim_distance]. first [reflexivity | lra]. Qed.
Lemma d_A02_377g : get_distance (set_distance A02_c A02_e A02_lo A02_hi sim_init (2037380875654427 / 281474976710656)) = (2037380875654427 / 281474976710656).
Proof. cbn [get_distance set_distance sim_distance]. first [reflexivity | lra]. Qed.
Lemma d_A02_385g : get_distance (set_distance A02_c A02_e A02_lo A02_hi sim_init (2958429939835089 / 70368744177664)) = (2958429939835089 / 70368744177664).
Proof. cbn [get_distance set_distance sim_distance]. first [reflexivity | lra]. Qed.
Lemma d_A02_393g : get_distance (set_distance A02_c A02_e A02_lo A02_hi sim_init (4108523515761633 / 281474976710656)) = (4108523515761633 / 281474976710656).
Proof. cbn [get_distance set_distance sim_distance]. first [reflexivity | lra]. Qed.
Lemma d_A02_401g : get_distance (set_distance A02_c A02_e A02_lo A02_hi sim_init (87 / 1)) = (87 / 1).
Proof. cbn [get_distance set_distance sim_distance]. first [reflexivity | lra]. Qed.
Lemma d_A02_409g : get_distance (set_distance A02_c A02_e A02_lo A02_hi sim_init ((-1232094087619795) / 140737488355328)) = ((-1232094087619795) / 140737488355328).
Proof. cbn [get_distance set_distance sim_distance]. first [reflexivity | lra]. Qed.
Lemma d_A02_417g : get_distance (set_distance A02_c A02_e A02_lo A02_hi sim_init (1252626974428555 / 35184372088832)) = (1252626974428555 / 35184372088832).
Proof. cbn [get_distance set_distance sim_distance]. first [reflexivity | lra]. Qed.
Lemma d_A02_425g : get_distance (set_distance A02_c A02_e A02_lo A02_hi sim_init (6974228770972619 / 17592186044416)) = (6974228770972619 / 17592186044416).
Proof. cbn [get_distance set_distance sim_distance]. first [reflexivity | lra]. Qed.
Lemma d_A02_433g : get_distance (set_distance A02_c A02_e A02_lo A02_hi sim_init (1235811557358555 / 8796093022208)) = (1235811557358555 / 8796093022208).
Proof. cbn [get_distance set_distance sim_distance]. first [reflexivity | lra]. Qed.
Lemma d_A02_441g : get_distance (set_distance A02_c A02_e A02_lo A02_hi sim_init (4820691800021957 / 140737488355328)) = (4820691800021957 / 140737488355328).
Proof. cbn [get_distance set_distance sim_distance]. first [reflexivity | lra]. Qed.
Lemma d_A02_449g : get_distance (set_distance A02_c A02_e A02_lo A02_hi sim_init (3717450338164433 / 70368744177664)) = (3717450338164433 / 70368744177664).
Proof. cbn [get_distance set_distance sim_distance]. first [reflexivity | lra]. Qed.
Lemma d_A02_457g : get_distance (set_distance A02_c A02_e A02_lo A02_hi sim_init (330739707085001 / 17592186044416)) = (330739707085001 / 17592186044416).
Proof. cbn [get_distance set_distance sim_distance]. first [reflexivity | lra]. Qed.
Lemma d_A02_465g : get_distance (set_distance A02_c A02_e A02_lo A02_hi sim_init (48959285135199 / 549755813888)) = (48959285135199 / 549755813888).
Proof. cbn [get_distance set_distance sim_distance]. first [reflexivity | lra]. Qed.
Lemma d_A02_473g : get_distance (set_distance A02_c A02_e A02_lo A02_hi sim_init (8345876608238949 / 70368744177664)) = (8345876608238949 / 70368744177664).
Proof. cbn [get_distance set_distance sim_distance]. first [reflexivity | lra]. Qed.
Lemma d_A02_481g : get_distance (set_distance A02_c A02_e A02_lo A02_hi sim_init (1213592124614229 / 17592186044416)) = (1213592124614229 / 17592186044416).
Proof. cbn [get_distance set_distance sim_distance]. first [reflexivity | lra]. Qed.
Lemma d_A02_489g : get_distance (set_distance A02_c A02_e A02_lo A02_hi sim_init (5855587031283973 / 140737488355328)) = (5855587031283973 / 140737488355328).
Proof. cbn [get_distance set_distance sim_distance]. first [reflexivity | lra]. Qed.
Lemma d_A02_497g : get_distance (set_distance A02_c A02_e A02_lo A02_hi sim_init (7607002142047861 / 140737488355328)) = (7607002142047861 / 140737488355328).
Proof. cbn [get_distance set_distance sim_distance]. first [reflexivity | lra]. Qed.
Lemma d_A02_505g : get_distance (set_distance A02_c A02_e A02_lo A02_hi sim_init (3881847258716367 / 35184372088832)) = (3881847258716367 / 35184372088832).
Proof. cbn [get_distance set_distance sim_distance]. first [reflexivity | lra]. Qed.
Lemma d_A02_513g : get_distance (set_distance A02_c A02_e A02_lo A02_hi sim_init (1203563033721625 / 8796093022208)) = (1203563033721625 / 8796093022208).
Proof. cbn [get_distance set_distance sim_distance]. first [reflexivity | lra]. Qed.
Lemma d_A02_521g : get_distance (set_distance A02_c A02_e A02_lo A02_hi sim_init (879596173278067 / 8796093022208)) = (879596173278067 / 8796093022208).
Proof. cbn [get_distance set_distance sim_distance]. first [reflexivity | lra]. Qed.
Lemma d_A02_529g : get_distance (set_distance A02_c A02_e A02_lo A02_hi sim_init (2134575642031463 / 70368744177664)) = (2134575642031463 / 70368744177664).
Proof. cbn [get_distance set_distance sim_distance]. first [reflexivity | lra]. Qed.
Lemma d_A02_537g : get_distance (set_distance A02_c A02_e A02_lo A02_hi sim_init (7195587681725547 / 70368744177664)) = (7195587681725547 / 70368744177664).
Proof. cbn [get_distance set_distance sim_distance]. first [reflexivity | lra]. Qed.
Lemma d_A02_545g : get_distance (set_distance A02_c A02_e A02_lo A02_hi sim_init (1134385039211849 / 8796093022208)) = (1134385039211849 / 8796093022208).
Proof. cbn [get_distance set_distance sim_distance]. first [reflexivity | lra]. Qed.
Lemma d_A02_553g : get_distance (set_distance A02_c A02_e A02_lo A02_hi sim_init (807239865520697 / 8796093022208)) = (807239865520697 / 8796093022208).
Proof. cbn [get_distance set_distance sim_distance]. first [reflexivity | lra]. Qed.
Lemma d_A02_561g : get_distance (set_distance A02_c A02_e A02_lo A02_hi sim_init (6404424813838847 / 281474976710656)) = (6404424813838847 / 281474976710656).
Proof. cbn [get_distance set_distance sim_distance]. first [reflexivity | lra]. Qed.
Lemma d_A02_569g : get_distance (set_distance A02_c A02_e A02_lo A02_hi sim_init (5112282091208681 / 70368744177664)) = (5112282091208681 / 70368744177664).
Proof. cbn [get_distance set_distance sim_distance]. first [reflexivity | lra]. Qed.
Lemma d_A02_577g : get_distance (set_distance A02_c A02_e A02_lo A02_hi sim_init (7205290978984111 / 70368744177664)) = (7205290978984111 / 70368744177664).
Proof. cbn [get_distance set_distance sim_distance]. first [reflexivity | lra]. Qed.
Lemma d_A02_585g : get_distance (set_distance A02_c A02_e A02_lo A02_hi sim_init (2958641694100515 / 70368744177664)) = (2958641694100515 / 70368744177664).
Proof. cbn [get_distance set_distance sim_distance]. first [reflexivity | lra]. Qed.
Lemma d_A02_593g : get_distance (set_distance A02_c A02_e A02_lo A02_hi sim_init (59 / 1)) = (59 / 1).
Proof. cbn [get_distance set_distance sim_distance]. first [reflexivity | lra]. Qed.
Lemma d_A02_601g : get_distance (set_distance A02_c A02_e A02_lo A02_hi sim_init (4505747705267873 / 70368744177664)) = (4505747705267873 / 70368744177664).
Proof. cbn [get_distance set_distance sim_distance]. first [reflexivity | lra]. Qed.
Lemma d_A02_609g : get_distance (set_distance A02_c A02_e A02_lo A02_hi sim_init (8130537445001445 / 70368744177664)) = (8130537445001445 / 70368744177664).
Proof. cbn [get_distance set_distance sim_distance]. first [reflexivity | lra]. Qed.
Lemma d_A02_617g : get_distance (set_distance A02_c A02_e A02_lo A02_hi sim_init (674756670237785 / 8796093022208)) = (674756670237785 / 8796093022208).
Proof. cbn [get_distance set_distance sim_distance]. first [reflexivity | lra]. Qed.
Lemma d_A02_625g : get_distance (set_distance A02_c A02_e A02_lo A02_hi sim_init (4486840552629655 / 140737488355328)) = (4486840552629655 / 140737488355328).
Proof. cbn [get_distance set_distance sim_distance]. first [reflexivity | lra]. Qed.
Lemma d_A02_633g : get_distance (set_distance A02_c A02_e A02_lo A02_hi sim_init (6316738695684505 / 70368744177664)) = (6316738695684505 / 70368744177664).
Proof. cbn [get_distance set_distance sim_distance]. first [reflexivity | lra]. Qed.
Lemma d_A02_641g : get_distance (set_distance A02_c A02_e A02_lo A02_hi sim_init (2328922986291351 / 70368744177664)) = (2328922986291351 / 70368744177664).
Proof. cbn [get_distance set_distance sim_distance]. first [reflexivity | lra]. Qed.
Lemma d_A02_649g : get_distance (set_distance A02_c A02_e A02_lo A02_hi sim_init (3338106387012727 / 281474976710656)) = (3338106387012727 / 281474976710656).
Proof. cbn [get_distance set_distance sim_distance]. first [reflexivity | lra]. Qed.
Lemma d_A02_657g : get_distance (set_distance A02_c A02_e A02_lo A02_hi sim_init (558352761515001 / 8796093022208)) = (558352761515001 / 8796093022208).
Proof. cbn [get_distance set_distance sim_distance]. first [reflexivity | lra]. Qed.
Lemma d_A02_665g : get_distance (set_distance A02_c A02_e A02_lo A02_hi sim_init (4518896531532895 / 140737488355328)) = (4518896531532895 / 140737488355328).
Proof. cbn [get_distance set_distance sim_distance]. first [reflexivity | lra]. Qed.
Lemma r_A21_444 : rio_reads A21_c A21_e A21_lo A21_hi floor_volts ctol (Build_rio (Fin (492525077454931 / 4925250774549309901534880012517951725634967408808180833493536675530715221437151326426783281860614455100828498788352)) (Fin (100000000000000001097906362944045541740492309677311846336810682903157585404911491537163328978494688899061249669721172515611590283743140088328307009198146046031271664502933027185697489699588559043338384466165001178426897626212945177628091195786707458122783970171784415105291802893207873272974885715430223118336 / 1)) (Fin (3715469692580659 / 1125899906842624)) (Fin (6 / 1)) (Fin (12 / 1)) true true true ((Fin (0 / 1)) :: (Fin (0 / 1)) :: (Fin (0 / 1)) :: (Fin (0 / 1)) :: (Fin (27 / 4)) :: (Fin (45 / 1)) :: nil)) (80 / 1).
Proof. apply (A21_rio_fin _ (492525077454931 / 4925250774549309901534880012517951725634967408808180833493536675530715221437151326426783281860614455100828498788352)); [reflexivity | apply (A21_q_floor 492525077454931 4925250774549309901534880012517951725634967408808180833493536675530715221437151326426783281860614455100828498788352 80 1); vm_compute; reflexivity]. Qed.
Lemma d_A21_667g : get_distance (set_distance A21_c A21_e A21_lo A21_hi sim_init (0 / 1)) = (0 / 1).
Proof. cbn [get_distance set_distance sim_distance]. first [reflexivity | lra]. Qed.
Lemma d_A21_675g : get_distance (set_distance A21_c A21_e A21_lo A21_hi sim_init (60 / 1)) = (60 / 1).
Proof. cbn [get_distance set_distance sim_distance]. first [reflexivity | lra]. Qed.
Lemma d_A21_683g : get_distance (set_distance A21_c A21_e A21_lo A21_hi sim_init (9 / 2)) = (9 / 2).
Proof. cbn [get_distance set_distance sim_distance]. first [reflexivity | lra]. Qed.
Lemma d_A21_691g : get_distance (set_distance A21_c A21_e A21_lo A21_hi sim_init (1 / 202402253307310618352495346718917307049556649764142118356901358027430339567995346891960383701437124495187077864316811911389808737385793476867013399940738509921517424276566361364466907742093216341239767678472745068562007483424692698618103355649159556340810056512358769552333414615230502532186327508646006263307707741093494784)) = (1 / 202402253307310618352495346718917307049556649764142118356901358027430339567995346891960383701437124495187077864316811911389808737385793476867013399940738509921517424276566361364466907742093216341239767678472745068562007483424692698618103355649159556340810056512358769552333414615230502532186327508646006263307707741093494784).
Proof. cbn [get_distance set_distance sim_distance]. first [reflexivity | lra]. Qed.
Lemma d_A21_699g : get_distance (set_distance A21_c A21_e A21_lo A21_hi sim_init (50 / 1)) = (50 / 1).
Proof. cbn [get_distance set_distance sim_distance]. first [reflexivity | lra]. Qed.
Lemma d_A21_708c : close ctol (10 / 1) (clamp_x A21_lo A21_hi NInf).
Proof. apply (corr_clamp_ninf _ _ _ _ _ A21_admissible _ ctol_ok); apply close_rat; unfold ctol, A21_lo, A21_hi; lra. Qed.
Lemma d_A21_716g : get_distance (set_distance A21_c A21_e A21_lo A21_hi sim_init (1407374884960655 / 140737488355328)) = (1407374884960655 / 140737488355328).
Proof. cbn [get_distance set_distance sim_distance]. first [reflexivity | lra]. Qed.
Lemma d_A21_724g : get_distance (set_distance A21_c A21_e A21_lo A21_hi sim_init (1154983950972601 / 17592186044416)) = (1154983950972601 / 17592186044416).
Proof. cbn [get_distance set_distance sim_distance]. first [reflexivity | lra]. Qed.
Lemma d_A21_732g : get_distance (set_distance A21_c A21_e A21_lo A21_hi sim_init (3761193550072275 / 140737488355328)) = (3761193550072275 / 140737488355328).
Proof. cbn [get_distance set_distance sim_distance]. first [reflexivity | lra]. Qed.
Lemma d_A21_740g : get_distance (set_distance A21_c A21_e A21_lo A21_hi sim_init (1257674332130461 / 17592186044416)) = (1257674332130461 / 17592186044416).
Proof. cbn [get_distance set_distance sim_distance]. first [reflexivity | lra]. Qed.
Lemma d_A21_748g : get_distance (set_distance A21_c A21_e A21_lo A21_hi sim_init (3545971705766755 / 140737488355328)) = (3545971705766755 / 140737488355328).
Proof. cbn [get_distance set_distance sim_distance]. first [reflexivity | lra]. Qed.
Lemma d_A21_756g : get_distance (set_distance A21_c A21_e A21_lo A21_hi sim_init ((-3231061847386053) / 1125899906842624)) = ((-3231061847386053) / 1125899906842624).
Proof. cbn [get_distance set_distance sim_distance]. first [reflexivity | lra]. Qed.
Lemma d_A21_764g : get_distance (set_distance A21_c A21_e A21_lo A21_hi sim_init (8495224167213917 / 562949953421312)) = (8495224167213917 / 562949953421312).
Proof. cbn [get_distance set_distance sim_distance]. first [reflexivity | lra]. Qed.
Lemma d_A21_772g : get_distance (set_distance A21_c A21_e A21_lo A21_hi sim_init (140 / 1)) = (140 / 1).
Proof. cbn [get_distance set_distance sim_distance]. first [reflexivity | lra]. Qed.
Lemma d_A21_780g : get_distance (set_distance A21_c A21_e A21_lo A21_hi sim_init (1562757797826255 / 35184372088832)) = (1562757797826255 / 35184372088832).
Proof. cbn [get_distance set_distance sim_distance]. first [reflexivity | lra]. Qed.
Lemma d_A21_788g : get_distance (set_distance A21_c A21_e A21_lo A21_hi sim_init (1931297342421713 / 35184372088832)) = (1931297342421713 / 35184372088832).
Proof. cbn [get_distance set_distance sim_distance]. first [reflexivity | lra]. Qed.
Lemma d_A21_796g : get_distance (set_distance A21_c A21_e A21_lo A21_hi sim_init (78 / 1)) = (78 / 1).
Proof. cbn [get_distance set_distance sim_distance]. first [reflexivity | lra]. Qed.
Lemma d_A21_804g : get_distance (set_distance A21_c A21_e A21_lo A21_hi sim_init (8119680624926601 / 140737488355328)) = (8119680624926601 / 140737488355328).
Proof. cbn [get_distance set_distance sim_distance]. first [reflexivity | lra]. Qed.
Lemma d_A21_812g : get_distance (set_distance A21_c A21_e A21_lo A21_hi sim_init (6348856923877867 / 35184372088832)) = (6348856923877867 / 35184372088832).
Proof. cbn [get_distance set_distance sim_distance]. first [reflexivity | lra]. Qed.
Lemma d_A21_820g : get_distance (set_distance A21_c A21_e A21_lo A21_hi sim_init (7443793648303347 / 140737488355328)) = (7443793648303347 / 140737488355328).
Proof. cbn [get_distance set_distance sim_distance]. first [reflexivity | lra]. Qed.
Lemma d_A21_828g : get_distance (set_distance A21_c A21_e A21_lo A21_hi sim_init (5006315286486913 / 70368744177664)) = (5006315286486913 / 70368744177664).
Proof. cbn [get_distance set_distance sim_distance]. first [reflexivity | lra]. Qed.
Lemma d_A21_836g : get_distance (set_distance A21_c A21_e A21_lo A21_hi sim_init (8 / 1)) = (8 / 1).
Proof. cbn [get_distance set_distance sim_distance]. first [reflexivity | lra]. Qed.
Lemma d_A21_844g : get_distance (set_distance A21_c A21_e A21_lo A21_hi sim_init (4707161922839461 / 70368744177664)) = (4707161922839461 / 70368744177664).
Proof. cbn [get_distance set_distance sim_distance]. first [reflexivity | lra]. Qed.
Lemma d_A21_852g : get_distance (set_distance A21_c A21_e A21_lo A21_hi sim_init (2535802388709017 / 70368744177664)) = (2535802388709017 / 70368744177664).
Proof. cbn [get_distance set_distance sim_distance]. first [reflexivity | lra]. Qed.
Lemma d_A21_860g : get_distance (set_distance A21_c A21_e A21_lo A21_hi sim_init (3953341989104231 / 140737488355328)) = (3953341989104231 / 140737488355328).
Proof. cbn [get_distance set_distance sim_distance]. first [reflexivity | lra]. Qed.
Lemma d_A21_868g : get_distance (set_distance A21_c A21_e A21_lo A21_hi sim_init (4006218344610119 / 140737488355328)) = (4006218344610119 / 140737488355328).
Proof. cbn [get_distance set_distance sim_distance]. first [reflexivity | lra]. Qed.
Lemma d_A21_876g : get_distance (set_distance A21_c A21_e A21_lo A21_hi sim_init (5490102425756347 / 70368744177664)) = (5490102425756347 / 70368744177664).
Proof. cbn [get_distance set_distance sim_distance]. first [reflexivity | lra]. Qed.
Lemma d_A21_884g : get_distance (set_distance A21_c A21_e A21_lo A21_hi sim_init (2435326994198665 / 70368744177664)) = (2435326994198665 / 70368744177664).
Proof. cbn [get_distance set_distance sim_distance]. first [reflexivity | lra]. Qed.
Lemma d_A21_892g : get_distance (set_distance A21_c A21_e A21_lo A21_hi sim_init (947874905953381 / 17592186044416)) = (947874905953381 / 17592186044416).
Proof. cbn [get_distance set_distance sim_distance]. first [reflexivity | lra]. Qed.
Lemma d_A21_900g : get_distance (set_distance A21_c A21_e A21_lo A21_hi sim_init (1380679530396737 / 35184372088832)) = (1380679530396737 / 35184372088832).
Proof. cbn [get_distance set_distance sim_distance]. first [reflexivity | lra]. Qed.
Lemma d_A21_908g : get_distance (set_distance A21_c A21_e A21_lo A21_hi sim_init (3103825850144849 / 140737488355328)) = (3103825850144849 / 140737488355328).
Proof. cbn [get_distance set_distance sim_distance]. first [reflexivity | lra]. Qed.
Lemma d_A21_916g : get_distance (set_distance A21_c A21_e A21_lo A21_hi sim_init (5966893180518971 / 281474976710656)) = (5966893180518971 / 281474976710656).
Proof. cbn [get_distance set_distance sim_distance]. first [reflexivity | lra]. Qed.
Lemma d_A21_924g : get_distance (set_distance A21_c A21_e A21_lo A21_hi sim_init (3053503533345017 / 70368744177664)) = (3053503533345017 / 70368744177664).
Proof. cbn [get_distance set_distance sim_distance]. first [reflexivity | lra]. Qed.
Lemma d_A21_932g : get_distance (set_distance A21_c A21_e A21_lo A21_hi sim_init (6694992405813845 / 140737488355328)) = (6694992405813845 / 140737488355328).
Proof. cbn [get_distance set_distance sim_distance]. first [reflexivity | lra]. Qed.
Lemma d_A21_940g : get_distance (set_distance A21_c A21_e A21_lo A21_hi sim_init (4422991442567381 / 288230376151711744)) = (4422991442567381 / 288230376151711744).
Proof. cbn [get_distance set_distance sim_distance]. first [reflexivity | lra]. Qed.
Lemma d_A21_948g : get_distance (set_distance A21_c A21_e A21_lo A21_hi sim_init (586874084535923 / 4398046511104)) = (586874084535923 / 4398046511104).
Proof. cbn [get_distance set_distance sim_distance]. first [reflexivity | lra]. Qed.
Lemma d_A21_956g : get_distance (set_distance A21_c A21_e A21_lo A21_hi sim_init (6618165975764559 / 281474976710656)) = (6618165975764559 / 281474976710656).
Proof. cbn [get_distance set_distance sim_distance]. first [reflexivity | lra]. Qed.
Lemma d_A21_964g : get_distance (set_distance A21_c A21_e A21_lo A21_hi sim_init (4368179423513013 / 70368744177664)) = (4368179423513013 / 70368744177664).
Proof. cbn [get_distance set_distance sim_distance]. first [reflexivity | lra]. Qed.
Lemma d_A21_972g : get_distance (set_distance A21_c A21_e A21_lo A21_hi sim_init (7935166138020261 / 140737488355328)) = (7935166138020261 / 140737488355328).
Proof. cbn [get_distance set_distance sim_distance]. first [reflexivity | lra]. Qed.
Lemma d_A21_980g : get_distance (set_distance A21_c A21_e A21_lo A21_hi sim_init (1315660750239987 / 35184372088832)) = (1315660750239987 / 35184372088832).
Proof. cbn [get_distance set_distance sim_distance]. first [reflexivity | lra]. Qed.
Lemma d_A21_988g : get_distance (set_distance A21_c A21_e A21_lo A21_hi sim_init (2666323698305995 / 35184372088832)) = (2666323698305995 / 35184372088832).
Proof. cbn [get_distance set_distance sim_distance]. first [reflexivity | lra]. Qed.
Lemma d_A21_996g : get_distance (set_distance A21_c A21_e A21_lo A21_hi sim_init (2530907687645025 / 35184372088832)) = (2530907687645025 / 35184372088832).
Proof. cbn [get_distance set_distance sim_distance]. first [reflexivity | lra]. Qed.
Lemma d_A21_1004g : get_distance (set_distance A21_c A21_e A21_lo A21_hi sim_init (74714292113629 / 35184372088832)) = (74714292113629 / 35184372088832).
Proof. cbn [get_distance set_distance sim_distance]. first [reflexivity | lra]. Qed.
Lemma d_A21_1012g : get_distance (set_distance A21_c A21_e A21_lo A21_hi sim_init (2405826209688825 / 70368744177664)) = (2405826209688825 / 70368744177664).
Proof. cbn [get_distance set_distance sim_distance]. first [reflexivity | lra]. Qed.
Lemma d_A21_1020g : get_distance (set_distance A21_c A21_e A21_lo A21_hi sim_init (1191975717718271 / 35184372088832)) = (1191975717718271 / 35184372088832).
Proof. cbn [get_distance set_distance sim_distance]. first [reflexivity | lra]. Qed.
Lemma d_A21_1028g : get_distance (set_distance A21_c A21_e A21_lo A21_hi sim_init (1094575119042667 / 17592186044416)) = (1094575119042667 / 17592186044416).
Proof. cbn [get_distance set_distance sim_distance]. first [reflexivity | lra]. Qed.
Lemma d_A21_1036g : get_distance (set_distance A21_c A21_e A21_lo A21_hi sim_init ((-3) / 1)) = ((-3) / 1).
Proof. cbn [get_distance set_distance sim_distance]. first [reflexivity | lra]. Qed.
Lemma d_A21_1044g : get_distance (set_distance A21_c A21_e A21_lo A21_hi sim_init (3040760716925865 / 17592186044416)) = (3040760716925865 / 17592186044416).
Proof. cbn [get_distance set_distance sim_distance]. first [reflexivity | lra]. Qed.
Lemma d_A21_1052g : get_distance (set_distance A21_c A21_e A21_lo A21_hi sim_init (4029280658029335 / 70368744177664)) = (4029280658029335 / 70368744177664).
Proof. cbn [get_distance set_distance sim_distance]. first [reflexivity | lra]. Qed.
Lemma d_A21_1060g : get_distance (set_distance A21_c A21_e A21_lo A21_hi sim_init ((-247420496438455) / 562949953421312)) = ((-247420496438455) / 562949953421312).
Proof. cbn [get_distance set_distance sim_distance]. first [reflexivity | lra]. Qed.
Lemma d_A21_1068g : get_distance (set_distance A21_c A21_e A21_lo A21_hi sim_init (2435089328423343 / 35184372088832)) = (2435089328423343 / 35184372088832).
Proof. cbn [get_distance set_distance sim_distance]. first [reflexivity | lra]. Qed.
Lemma d_A21_1076g : get_distance (set_distance A21_c A21_e A21_lo A21_hi sim_init (4343173346541349 / 140737488355328)) = (4343173346541349 / 140737488355328).
Proof. cbn [get_distance set_distance sim_distance]. first [reflexivity | lra]. Qed.
Lemma d_A21_1084g : get_distance (set_distance A21_c A21_e A21_lo A21_hi sim_init (2341710133713361 / 35184372088832)) = (2341710133713361 / 35184372088832).
Proof. cbn [get_distance set_distance sim_distance]. first [reflexivity | lra]. Qed.
Lemma d_A21_1092g : get_distance (set_distance A21_c A21_e A21_lo A21_hi sim_init (4885424747973769 / 70368744177664)) = (4885424747973769 / 70368744177664).
Proof. cbn [get_distance set_distance sim_distance]. first [reflexivity | lra]. Qed.
Lemma d_A21_1100g : get_distance (set_distance A21_c A21_e A21_lo A21_hi sim_init (2569793234230839 / 35184372088832)) = (2569793234230839 / 35184372088832).
Proof. cbn [get_distance set_distance sim_distance]. first [reflexivity | lra]. Qed.
Lemma d_A21_1108g : get_distance (set_distance A21_c A21_e A21_lo A21_hi sim_init (2297630408789311 / 35184372088832)) = (2297630408789311 / 35184372088832).
Proof. cbn [get_distance set_distance sim_distance]. first [reflexivity | lra]. Qed.
Lemma d_A21_1116g : get_distance (set_distance A21_c A21_e A21_lo A21_hi sim_init (8458080688151307 / 281474976710656)) = (8458080688151307 / 281474976710656).
Proof. cbn [get_distance set_distance sim_distance]. first [reflexivity | lra]. Qed.
Lemma d_A21_1124g : get_distance (set_distance A21_c A21_e A21_lo A21_hi sim_init (8308104910937071 / 140737488355328)) = (8308104910937071 / 140737488355328).
Proof. cbn [get_distance set_distance sim_distance]. first [reflexivity | lra]. Qed.
Lemma d_A21_1132g : get_distance (set_distance A21_c A21_e A21_lo A21_hi sim_init (2866433213812957 / 70368744177664)) = (2866433213812957 / 70368744177664).
Proof. cbn [get_distance set_distance sim_distance]. first [reflexivity | lra]. Qed.
Lemma d_A21_1140g : get_distance (set_distance A21_c A21_e A21_lo A21_hi sim_init (4621841676390325 / 140737488355328)) = (4621841676390325 / 140737488355328).
Proof. cbn [get_distance set_distance sim_distance]. first [reflexivity | lra]. Qed.
Lemma d_A21_1148g : get_distance (set_distance A21_c A21_e A21_lo A21_hi sim_init (8571568660071523 / 140737488355328)) = (8571568660071523 / 140737488355328).
Proof. cbn [get_distance set_distance sim_distance]. first [reflexivity | lra]. Qed.
Lemma d_A21_1156g : get_distance (set_distance A21_c A21_e A21_lo A21_hi sim_init (2353458382616447 / 70368744177664)) = (2353458382616447 / 70368744177664).
Proof. cbn [get_distance set_distance sim_distance]. first [reflexivity | lra]. Qed.
Lemma d_A21_1164g : get_distance (set_distance A21_c A21_e A21_lo A21_hi sim_init (4437825770546885 / 70368744177664)) = (4437825770546885 / 70368744177664).
Proof. cbn [get_distance set_distance sim_distance]. first [reflexivity | lra]. Qed.
Lemma d_A21_1172g : get_distance (set_distance A21_c A21_e A21_lo A21_hi sim_init (3764503352113179 / 140737488355328)) = (3764503352113179 / 140737488355328).
Proof. cbn [get_distance set_distance sim_distance]. first [reflexivity | lra]. Qed.
Lemma d_A21_1180g : get_distance (set_distance A21_c A21_e A21_lo A21_hi sim_init (5452346648497657 / 70368744177664)) = (5452346648497657 / 70368744177664).
Proof. cbn [get_distance set_distance sim_distance]. first [reflexivity | lra]. Qed.
Lemma d_A21_1188g : get_distance (set_distance A21_c A21_e A21_lo A21_hi sim_init (656593391555807 / 17592186044416)) = (656593391555807 / 17592186044416).
Proof. cbn [get_distance set_distance sim_distance]. first [reflexivity | lra]. Qed.
Lemma d_A21_1196g : get_distance (set_distance A21_c A21_e A21_lo A21_hi sim_init (2681045496131325 / 70368744177664)) = (2681045496131325 / 70368744177664).
Proof. cbn [get_distance set_distance sim_distance]. first [reflexivity | lra]. Qed.
Lemma d_A21_1204g : get_distance (set_distance A21_c A21_e A21_lo A21_hi sim_init (1364519664797407 / 281474976710656)) = (1364519664797407 / 281474976710656).
Proof. cbn [get_distance set_distance sim_distance]. first [reflexivity | lra]. Qed.
Lemma d_A21_1212g : get_distance (set_distance A21_c A21_e A21_lo A21_hi sim_init ((-4506952472565369) / 1125899906842624)) = ((-4506952472565369) / 1125899906842624).
Proof. cbn [get_distance set_distance sim_distance]. first [reflexivity | lra]. Qed.
Lemma d_A21_1220g : get_distance (set_distance A21_c A21_e A21_lo A21_hi sim_init (6054462205002525 / 140737488355328)) = (6054462205002525 / 140737488355328).
Proof. cbn [get_distance set_distance sim_distance]. first [reflexivity | lra]. Qed.
Lemma d_A21_1228g : get_distance (set_distance A21_c A21_e A21_lo A21_hi sim_init (1157795778175191 / 35184372088832)) = (1157795778175191 / 35184372088832).
Proof. cbn [get_distance set_distance sim_distance]. first [reflexivity | lra]. Qed.
Lemma d_A21_1236g : get_distance (set_distance A21_c A21_e A21_lo A21_hi sim_init (1734553350824207 / 1125899906842624)) = (1734553350824207 / 1125899906842624).
Proof. cbn [get_distance set_distance sim_distance]. first [reflexivity | lra]. Qed.
Lemma d_A21_1244g : get_distance (set_distance A21_c A21_e A21_lo A21_hi sim_init (2308357856355303 / 35184372088832)) = (2308357856355303 / 35184372088832).
Proof. cbn [get_distance set_distance sim_distance]. first [reflexivity | lra]. Qed.
Lemma d_A21_1252g : get_distance (set_distance A21_c A21_e A21_lo A21_hi sim_init (8979864704733547 / 2251799813685248)) = (8979864704733547 / 2251799813685248).
Proof. cbn [get_distance set_distance sim_distance]. first [reflexivity | lra]. Qed.
Lemma d_A21_1260g : get_distance (set_distance A21_c A21_e A21_lo A21_hi sim_init (2568624814084477 / 70368744177664)) = (2568624814084477 / 70368744177664).
Proof. cbn [get_distance set_distance sim_distance]. first [reflexivity | lra]. Qed.
Lemma d_A21_1268g : get_distance (set_distance A21_c A21_e A21_lo A21_hi sim_init (1884686241608835 / 35184372088832)) = (1884686241608835 / 35184372088832).
Proof. cbn [get_distance set_distance sim_distance]. first [reflexivity | lra]. Qed.
Lemma d_A21_1276g : get_distance (set_distance A21_c A21_e A21_lo A21_hi sim_init (404290067697909 / 8796093022208)) = (404290067697909 / 8796093022208).
Proof. cbn [get_distance set_distance sim_distance]. first [reflexivity | lra]. Qed.
Lemma d_A21_1284g : get_distance (set_distance A21_c A21_e A21_lo A21_hi sim_init (2202643217220315 / 17592186044416)) = (2202643217220315 / 17592186044416).
Proof. cbn [get_distance set_distance sim_distance]. first [reflexivity | lra]. Qed.
Lemma d_A21_1292g : get_distance (set_distance A21_c A21_e A21_lo A21_hi sim_init (1023766273321177 / 4398046511104)) = (1023766273321177 / 4398046511104).
Proof. cbn [get_distance set_distance sim_distance]. first [reflexivity | lra]. Qed.
Lemma d_A21_1300g : get_distance (set_distance A21_c A21_e A21_lo A21_hi sim_init (1707638539959661 / 35184372088832)) = (1707638539959661 / 35184372088832).
Proof. cbn [get_distance set_distance sim_distance]. first [reflexivity | lra]. Qed.
Lemma d_A21_1308g : get_distance (set_distance A21_c A21_e A21_lo A21_hi sim_init (3732058932656211 / 17592186044416)) = (3732058932656211 / 17592186044416).
Proof. cbn [get_distance set_distance sim_distance]. first [reflexivity | lra]. Qed.
Lemma d_A21_1316g : get_distance (set_distance A21_c A21_e A21_lo A21_hi sim_init (113 / 1)) = (113 / 1).
Proof. cbn [get_distance set_distance sim_distance]. first [reflexivity | lra]. Qed.
Lemma d_A21_1324g : get_distance (set_distance A21_c A21_e A21_lo A21_hi sim_init (7040922862624055 / 140737488355328)) = (7040922862624055 / 140737488355328).
Proof. cbn [get_distance set_distance sim_distance]. first [reflexivity | lra]. Qed.
Lemma d_A21_1332g : get_distance (set_distance A21_c A21_e A21_lo A21_hi sim_init (5532955724574417 / 70368744177664)) = (5532955724574417 / 70368744177664).
Proof. cbn [get_distance set_distance sim_distance]. first [reflexivity | lra]. Qed.
Lemma r_A41_870 : rio_reads A41_c A41_e A41_lo A41_hi floor_volts ctol (Build_rio (Fin (2951183903888349 / 295147905179352825856)) (Fin (5629499534213121 / 1125899906842624)) (Fin (3715469692580659 / 1125899906842624)) (Fin (6 / 1)) (Fin (12 / 1)) true true true ((Fin (0 / 1)) :: (Fin (0 / 1)) :: (Fin (0 / 1)) :: (Fin (0 / 1)) :: (Fin (27 / 4)) :: (Fin (45 / 1)) :: nil)) (35 / 1).
Proof. apply (A41_rio_fin _ (2951183903888349 / 295147905179352825856)); [reflexivity | apply (A41_q_floor 2951183903888349 295147905179352825856 35 1); vm_compute; reflexivity]. Qed.
Lemma d_A41_1333g : get_distance (set_distance A41_c A41_e A41_lo A41_hi sim_init (0 / 1)) = (0 / 1).
Proof. cbn [get_distance set_distance sim_distance]. first [reflexivity | lra]. Qed.
Lemma d_A41_1341g : get_distance (set_distance A41_c A41_e A41_lo A41_hi sim_init (60 / 1)) = (60 / 1).
Proof. cbn [get_distance set_distance sim_distance]. first [reflexivity | lra]. Qed.
Lemma d_A41_1349g : get_distance (set_distance A41_c A41_e A41_lo A41_hi sim_init (9 / 2)) = (9 / 2).
Proof. cbn [get_distance set_distance sim_distance]. first [reflexivity | lra]. Qed.
Lemma d_A41_1357g : get_distance (set_distance A41_c A41_e A41_lo A41_hi sim_init (1 / 202402253307310618352495346718917307049556649764142118356901358027430339567995346891960383701437124495187077864316811911389808737385793476867013399940738509921517424276566361364466907742093216341239767678472745068562007483424692698618103355649159556340810056512358769552333414615230502532186327508646006263307707741093494784)) = (1 / 202402253307310618352495346718917307049556649764142118356901358027430339567995346891960383701437124495187077864316811911389808737385793476867013399940738509921517424276566361364466907742093216341239767678472745068562007483424692698618103355649159556340810056512358769552333414615230502532186327508646006263307707741093494784).
Proof. cbn [get_distance set_distance sim_distance]. first [reflexivity | lra]. Qed.
Lemma d_A41_1365g : get_distance (set_distance A41_c A41_e A41_lo A41_hi sim_init (50 / 1)) = (50 / 1).
Proof. cbn [get_distance set_distance sim_distance]. first [reflexivity | lra]. Qed.
Lemma d_A41_1374c : close ctol (9 / 2) (clamp_x A41_lo A41_hi NInf).
Proof. apply (corr_clamp_ninf _ _ _ _ _ A41_admissible _ ctol_ok); apply close_rat; unfold ctol, A41_lo, A41_hi; lra. Qed.
Lemma d_A41_1382g : get_distance (set_distance A41_c A41_e A41_lo A41_hi sim_init (2533274792929179 / 562949953421312)) = (2533274792929179 / 562949953421312).
Proof. cbn [get_distance set_distance sim_distance]. first [reflexivity | lra]. Qed.
Lemma d_A41_1390g : get_distance (set_distance A41_c A41_e A41_lo A41_hi sim_init (4205266183381061 / 562949953421312)) = (4205266183381061 / 562949953421312).
Proof. cbn [get_distance set_distance sim_distance]. first [reflexivity | lra]. Qed.
Lemma d_A41_1398g : get_distance (set_distance A41_c A41_e A41_lo A41_hi sim_init (3413257615572595 / 562949953421312)) = (3413257615572595 / 562949953421312).
Proof. cbn [get_distance set_distance sim_distance]. first [reflexivity | lra]. Qed.
Lemma d_A41_1406g : get_distance (set_distance A41_c A41_e A41_lo A41_hi sim_init (7408060632095687 / 562949953421312)) = (7408060632095687 / 562949953421312).
Proof. cbn [get_distance set_distance sim_distance]. first [reflexivity | lra]. Qed.
Lemma d_A41_1414g : get_distance (set_distance A41_c A41_e A41_lo A41_hi sim_init (8392006100922091 / 35184372088832)) = (8392006100922091 / 35184372088832).
Proof. cbn [get_distance set_distance sim_distance]. first [reflexivity | lra]. Qed.
Lemma d_A41_1422g : get_distance (set_distance A41_c A41_e A41_lo A41_hi sim_init (8541029796785527 / 562949953421312)) = (8541029796785527 / 562949953421312).
Proof. cbn [get_distance set_distance sim_distance]. first [reflexivity | lra]. Qed.
Lemma d_A41_1430g : get_distance (set_distance A41_c A41_e A41_lo A41_hi sim_init (4408365454660809 / 281474976710656)) = (4408365454660809 / 281474976710656).
Proof. cbn [get_distance set_distance sim_distance]. first [reflexivity | lra]. Qed.
Lemma d_A41_1438g : get_distance (set_distance A41_c A41_e A41_lo A41_hi sim_init (4543320480459033 / 281474976710656)) = (4543320480459033 / 281474976710656).
Proof. cbn [get_distance set_distance sim_distance]. first [reflexivity | lra]. Qed.
Lemma d_A41_1446g : get_distance (set_distance A41_c A41_e A41_lo A41_hi sim_init (1156358488812329 / 70368744177664)) = (1156358488812329 / 70368744177664).
Proof. cbn [get_distance set_distance sim_distance]. first [reflexivity | lra]. Qed.
Lemma d_A41_1454g : get_distance (set_distance A41_c A41_e A41_lo A41_hi sim_init (1354197354778555 / 70368744177664)) = (1354197354778555 / 70368744177664).
Proof. cbn [get_distance set_distance sim_distance]. first [reflexivity | lra]. Qed.
Lemma d_A41_1462g : get_distance (set_distance A41_c A41_e A41_lo A41_hi sim_init ((-3) / 1)) = ((-3) / 1).
Proof. cbn [get_distance set_distance sim_distance]. first [reflexivity | lra]. Qed.
Lemma d_A41_1470g : get_distance (set_distance A41_c A41_e A41_lo A41_hi sim_init (6611364963631993 / 140737488355328)) = (6611364963631993 / 140737488355328).
Proof. cbn [get_distance set_distance sim_distance]. first [reflexivity | lra]. Qed.
Lemma d_A41_1478g : get_distance (set_distance A41_c A41_e A41_lo A41_hi sim_init ((-1711910997074369) / 2251799813685248)) = ((-1711910997074369) / 2251799813685248).
Proof. cbn [get_distance set_distance sim_distance]. first [reflexivity | lra]. Qed.
Lemma d_A41_1486g : get_distance (set_distance A41_c A41_e A41_lo A41_hi sim_init (5797622228783183 / 281474976710656)) = (5797622228783183 / 281474976710656).
Proof. cbn [get_distance set_distance sim_distance]. first [reflexivity | lra]. Qed.
Lemma d_A41_1494g : get_distance (set_distance A41_c A41_e A41_lo A41_hi sim_init (4876990387108745 / 140737488355328)) = (4876990387108745 / 140737488355328).
Proof. cbn [get_distance set_distance sim_distance]. first [reflexivity | lra]. Qed.
Lemma d_A41_1502g : get_distance (set_distance A41_c A41_e A41_lo A41_hi sim_init (7 / 1)) = (7 / 1).
Proof. cbn [get_distance set_distance sim_distance]. first [reflexivity | lra]. Qed.
Lemma d_A41_1510g : get_distance (set_distance A41_c A41_e A41_lo A41_hi sim_init (3151146084916829 / 70368744177664)) = (3151146084916829 / 70368744177664).
Proof. cbn [get_distance set_distance sim_distance]. first [reflexivity | lra]. Qed.
Lemma d_A41_1518g : get_distance (set_distance A41_c A41_e A41_lo A41_hi sim_init (284071280211575 / 2251799813685248)) = (284071280211575 / 2251799813685248).
Proof. cbn [get_distance set_distance sim_distance]. first [reflexivity | lra]. Qed.
Lemma d_A41_1526g : get_distance (set_distance A41_c A41_e A41_lo A41_hi sim_init (3630552510363375 / 70368744177664)) = (3630552510363375 / 70368744177664).
Proof. cbn [get_distance set_distance sim_distance]. first [reflexivity | lra]. Qed.
Lemma d_A41_1534g : get_distance (set_distance A41_c A41_e A41_lo A41_hi sim_init (2319255426939369 / 70368744177664)) = (2319255426939369 / 70368744177664).
Proof. cbn [get_distance set_distance sim_distance]. first [reflexivity | lra]. Qed.
Lemma d_A41_1542g : get_distance (set_distance A41_c A41_e A41_lo A41_hi sim_init (645572887960761 / 35184372088832)) = (645572887960761 / 35184372088832).
Proof. cbn [get_distance set_distance sim_distance]. first [reflexivity | lra]. Qed.
Lemma d_A41_1550g : get_distance (set_distance A41_c A41_e A41_lo A41_hi sim_init (8459472318455587 / 1125899906842624)) = (8459472318455587 / 1125899906842624).
Proof. cbn [get_distance set_distance sim_distance]. first [reflexivity | lra]. Qed.
Lemma d_A41_1558g : get_distance (set_distance A41_c A41_e A41_lo A41_hi sim_init (1368412633864389 / 70368744177664)) = (1368412633864389 / 70368744177664).
Proof. cbn [get_distance set_distance sim_distance]. first [reflexivity | lra]. Qed.
Lemma d_A41_1566g : get_distance (set_distance A41_c A41_e A41_lo A41_hi sim_init (7209800548253469 / 562949953421312)) = (7209800548253469 / 562949953421312).
Proof. cbn [get_distance set_distance sim_distance]. first [reflexivity | lra]. Qed.
Lemma d_A41_1574g : get_distance (set_distance A41_c A41_e A41_lo A41_hi sim_init (6810344114943449 / 281474976710656)) = (6810344114943449 / 281474976710656).
Proof. cbn [get_distance set_distance sim_distance]. first [reflexivity | lra]. Qed.
Lemma d_A41_1582g : get_distance (set_distance A41_c A41_e A41_lo A41_hi sim_init (28 / 1)) = (28 / 1).
Proof. cbn [get_distance set_distance sim_distance]. first [reflexivity | lra]. Qed.
Lemma d_A41_1590g : get_distance (set_distance A41_c A41_e A41_lo A41_hi sim_init (3669844770642389 / 35184372088832)) = (3669844770642389 / 35184372088832).
Proof. cbn [get_distance set_distance sim_distance]. first [reflexivity | lra]. Qed.
Lemma d_A41_1598g : get_distance (set_distance A41_c A41_e A41_lo A41_hi sim_init (832556053275609 / 35184372088832)) = (832556053275609 / 35184372088832).
Proof. cbn [get_distance set_distance sim_distance]. first [reflexivity | lra]. Qed.
Lemma d_A41_1606g : get_distance (set_distance A41_c A41_e A41_lo A41_hi sim_init (4285882953915229 / 1125899906842624)) = (4285882953915229 / 1125899906842624).
Proof. cbn [get_distance set_distance sim_distance]. first [reflexivity | lra]. Qed.
Lemma d_A41_1614g : get_distance (set_distance A41_c A41_e A41_lo A41_hi sim_init (61 / 1)) = (61 / 1).
Proof. cbn [get_distance set_distance sim_distance]. first [reflexivity | lra]. Qed.
Lemma d_A41_1622g : get_distance (set_distance A41_c A41_e A41_lo A41_hi sim_init (4872374805969445 / 281474976710656)) = (4872374805969445 / 281474976710656).
Proof. cbn [get_distance set_distance sim_distance]. first [reflexivity | lra]. Qed.
Lemma d_A41_1630g : get_distance (set_distance A41_c A41_e A41_lo A41_hi sim_init (3991570805572869 / 140737488355328)) = (3991570805572869 / 140737488355328).
Proof. cbn [get_distance set_distance sim_distance]. first [reflexivity | lra]. Qed.
Lemma d_A41_1638g : get_distance (set_distance A41_c A41_e A41_lo A41_hi sim_init (521914240409173 / 17592186044416)) = (521914240409173 / 17592186044416).
Proof. cbn [get_distance set_distance sim_distance]. first [reflexivity | lra]. Qed.
Lemma d_A41_1646g : get_distance (set_distance A41_c A41_e A41_lo A41_hi sim_init (1435712382029071 / 70368744177664)) = (1435712382029071 / 70368744177664).
Proof. cbn [get_distance set_distance sim_distance]. first [reflexivity | lra]. Qed.
Lemma d_A41_1654g : get_distance (set_distance A41_c A41_e A41_lo A41_hi sim_init (3912153559003427 / 140737488355328)) = (3912153559003427 / 140737488355328).
Proof. cbn [get_distance set_distance sim_distance]. first [reflexivity | lra]. Qed.
Lemma d_A41_1662g : get_distance (set_distance A41_c A41_e A41_lo A41_hi sim_init (1204313887751467 / 35184372088832)) = (1204313887751467 / 35184372088832).
Proof. cbn [get_distance set_distance sim_distance]. first [reflexivity | lra]. Qed.
Lemma d_A41_1670g : get_distance (set_distance A41_c A41_e A41_lo A41_hi sim_init (8048455419234833 / 281474976710656)) = (8048455419234833 / 281474976710656).
Proof. cbn [get_distance set_distance sim_distance]. first [reflexivity | lra]. Qed.
Lemma d_A41_1678g : get_distance (set_distance A41_c A41_e A41_lo A41_hi sim_init (482181953292621 / 17592186044416)) = (482181953292621 / 17592186044416).
Proof. cbn [get_distance set_distance sim_distance]. first [reflexivity | lra]. Qed.
Lemma d_A41_1686g : get_distance (set_distance A41_c A41_e A41_lo A41_hi sim_init (6593261555833195 / 1152921504606846976)) = (6593261555833195 / 1152921504606846976).
Proof. cbn [get_distance set_distance sim_distance]. first [reflexivity | lra]. Qed.
Lemma d_A41_1694g : get_distance (set_distance A41_c A41_e A41_lo A41_hi sim_init ((-2535187663842293) / 2251799813685248)) = ((-2535187663842293) / 2251799813685248).
Proof. cbn [get_distance set_distance sim_distance]. first [reflexivity | lra]. Qed.
Lemma d_A41_1702g : get_distance (set_distance A41_c A41_e A41_lo A41_hi sim_init (679301907896215 / 70368744177664)) = (679301907896215 / 70368744177664).
Proof. cbn [get_distance set_distance sim_distance]. first [reflexivity | lra]. Qed.
Lemma d_A41_1710g : get_distance (set_distance A41_c A41_e A41_lo A41_hi sim_init (3481650959059397 / 562949953421312)) = (3481650959059397 / 562949953421312).
Proof. cbn [get_distance set_distance sim_distance]. first [reflexivity | lra]. Qed.
Lemma d_A41_1718g : get_distance (set_distance A41_c A41_e A41_lo A41_hi sim_init (8053641622694883 / 1125899906842624)) = (8053641622694883 / 1125899906842624).
Proof. cbn [get_distance set_distance sim_distance]. first [reflexivity | lra]. Qed.
Lemma d_A41_1726g : get_distance (set_distance A41_c A41_e A41_lo A41_hi sim_init (2186255013191339 / 70368744177664)) = (2186255013191339 / 70368744177664).
Proof. cbn [get_distance set_distance sim_distance]. first [reflexivity | lra]. Qed.
Lemma d_A41_1734g : get_distance (set_distance A41_c A41_e A41_lo A41_hi sim_init (66 / 1)) = (66 / 1).
Proof. cbn [get_distance set_distance sim_distance]. first [reflexivity | lra]. Qed.
Lemma d_A41_1742g : get_distance (set_distance A41_c A41_e A41_lo A41_hi sim_init ((-158181378458301) / 2251799813685248)) = ((-158181378458301) / 2251799813685248).
Proof. cbn [get_distance set_distance sim_distance]. first [reflexivity | lra]. Qed.
Lemma d_A41_1750g : get_distance (set_distance A41_c A41_e A41_lo A41_hi sim_init (7185228799004585 / 281474976710656)) = (7185228799004585 / 281474976710656).
Proof. cbn [get_distance set_distance sim_distance]. first [reflexivity | lra]. Qed.
Lemma d_A41_1758g : get_distance (set_distance A41_c A41_e A41_lo A41_hi sim_init (70435481582193 / 2199023255552)) = (70435481582193 / 2199023255552).
Proof. cbn [get_distance set_distance sim_distance]. first [reflexivity | lra]. Qed.
Lemma d_A41_1766g : get_distance (set_distance A41_c A41_e A41_lo A41_hi sim_init (8597215009730287 / 576460752303423488)) = (8597215009730287 / 576460752303423488).
Proof. cbn [get_distance set_distance sim_distance]. first [reflexivity | lra]. Qed.
Lemma d_A41_1774g : get_distance (set_distance A41_c A41_e A41_lo A41_hi sim_init (3272471021356721 / 140737488355328)) = (3272471021356721 / 140737488355328).
Proof. cbn [get_distance set_distance sim_distance]. first [reflexivity | lra]. Qed.
Lemma d_A41_1782g : get_distance (set_distance A41_c A41_e A41_lo A41_hi sim_init (3830857695966003 / 140737488355328)) = (3830857695966003 / 140737488355328).
Proof. cbn [get_distance set_distance sim_distance]. first [reflexivity | lra]. Qed.
Lemma d_A41_1790g : get_distance (set_distance A41_c A41_e A41_lo A41_hi sim_init (8766626140640595 / 281474976710656)) = (8766626140640595 / 281474976710656).
Proof. cbn [get_distance set_distance sim_distance]. first [reflexivity | lra]. Qed.
Lemma d_A41_1798g : get_distance (set_distance A41_c A41_e A41_lo A41_hi sim_init (54970195392865 / 8796093022208)) = (54970195392865 / 8796093022208).
Proof. cbn [get_distance set_distance sim_distance]. first [reflexivity | lra]. Qed.
Lemma d_A41_1806g : get_distance (set_distance A41_c A41_e A41_lo A41_hi sim_init (4007027452203691 / 1099511627776)) = (4007027452203691 / 1099511627776).
Proof. cbn [get_distance set_distance sim_distance]. first [reflexivity | lra]. Qed.
Lemma d_A41_1814g : get_distance (set_distance A41_c A41_e A41_lo A41_hi sim_init (3338698774097781 / 281474976710656)) = (3338698774097781 / 281474976710656).
Proof. cbn [get_distance set_distance sim_distance]. first [reflexivity | lra]. Qed.
Lemma d_A41_1822g : get_distance (set_distance A41_c A41_e A41_lo A41_hi sim_init (2712916215501183 / 281474976710656)) = (2712916215501183 / 281474976710656).
Proof. cbn [get_distance set_distance sim_distance]. first [reflexivity | lra]. Qed.
Lemma d_A41_1830g : get_distance (set_distance A41_c A41_e A41_lo A41_hi sim_init (2513442193840691 / 140737488355328)) = (2513442193840691 / 140737488355328).
Proof. cbn [get_distance set_distance sim_distance]. first [reflexivity | lra]. Qed.
Lemma d_A41_1838g : get_distance (set_distance A41_c A41_e A41_lo A41_hi sim_init (902444575845179 / 1125899906842624)) = (902444575845179 / 1125899906842624).
Proof. cbn [get_distance set_distance sim_distance]. first [reflexivity | lra]. Qed.
Lemma d_A41_1846g : get_distance (set_distance A41_c A41_e A41_lo A41_hi sim_init (1131601494185617 / 70368744177664)) = (1131601494185617 / 70368744177664).
Proof. cbn [get_distance set_distance sim_distance]. first [reflexivity | lra]. Qed.
Lemma d_A41_1854g : get_distance (set_distance A41_c A41_e A41_lo A41_hi sim_init (6475162146342033 / 281474976710656)) = (6475162146342033 / 281474976710656).
Proof. cbn [get_distance set_distance sim_distance]. first [reflexivity | lra]. Qed.
Lemma d_A41_1862g : get_distance (set_distance A41_c A41_e A41_lo A41_hi sim_init (2817082986733599 / 140737488355328)) = (2817082986733599 / 140737488355328).
Proof. cbn [get_distance set_distance sim_distance]. first [reflexivity | lra]. Qed.
Lemma d_A41_1870g : get_distance (set_distance A41_c A41_e A41_lo A41_hi sim_init ((-1214471501251013) / 1125899906842624)) = ((-1214471501251013) / 1125899906842624).
Proof. cbn [get_distance set_distance sim_distance]. first [reflexivity | lra]. Qed.
Lemma d_A41_1878g : get_distance (set_distance A41_c A41_e A41_lo A41_hi sim_init (8367891079188121 / 549755813888)) = (8367891079188121 / 549755813888).
Proof. cbn [get_distance set_distance sim_distance]. first [reflexivity | lra]. Qed.
Lemma d_A41_1886g : get_distance (set_distance A41_c A41_e A41_lo A41_hi sim_init (587764427382415 / 17592186044416)) = (587764427382415 / 17592186044416).
Proof. cbn [get_distance set_distance sim_distance]. first [reflexivity | lra]. Qed.
Lemma d_A41_1894g : get_distance (set_distance A41_c A41_e A41_lo A41_hi sim_init (8584038508756023 / 281474976710656)) = (8584038508756023 / 281474976710656).
Proof. cbn [get_distance set_distance sim_distance]. first [reflexivity | lra]. Qed.
Lemma d_A41_1902g : get_distance (set_distance A41_c A41_e A41_lo A41_hi sim_init (306594630754959 / 562949953421312)) = (306594630754959 / 562949953421312).
Proof. cbn [get_distance set_distance sim_distance]. first [reflexivity | lra]. Qed.
Lemma d_A41_1910g : get_distance (set_distance A41_c A41_e A41_lo A41_hi sim_init (3643645053841845 / 1125899906842624)) = (3643645053841845 / 1125899906842624).
Proof. cbn [get_distance set_distance sim_distance]. first [reflexivity | lra]. Qed.
Lemma d_A41_1918g : get_distance (set_distance A41_c A41_e A41_lo A41_hi sim_init (6791886346304267 / 562949953421312)) = (6791886346304267 / 562949953421312).
Proof. cbn [get_distance set_distance sim_distance]. first [reflexivity | lra]. Qed.
Lemma d_A41_1926g : get_distance (set_distance A41_c A41_e A41_lo A41_hi sim_init (3484195028537459 / 140737488355328)) = (3484195028537459 / 140737488355328).
Proof. cbn [get_distance set_distance sim_distance]. first [reflexivity | lra]. Qed.
Lemma d_A41_1934g : get_distance (set_distance A41_c A41_e A41_lo A41_hi sim_init (577691462803729 / 17592186044416)) = (577691462803729 / 17592186044416).
Proof. cbn [get_distance set_distance sim_distance]. first [reflexivity | lra]. Qed.
Lemma d_A41_1942g : get_distance (set_distance A41_c A41_e A41_lo A41_hi sim_init (2324576926566441 / 70368744177664)) = (2324576926566441 / 70368744177664).
Proof. cbn [get_distance set_distance sim_distance]. first [reflexivity | lra]. Qed.
Lemma d_A41_1950g : get_distance (set_distance A41_c A41_e A41_lo A41_hi sim_init (3032566428569769 / 140737488355328)) = (3032566428569769 / 140737488355328).
Proof. cbn [get_distance set_distance sim_distance]. first [reflexivity | lra]. Qed.
Lemma d_A41_1958g : get_distance (set_distance A41_c A41_e A41_lo A41_hi sim_init (4107753877645201 / 70368744177664)) = (4107753877645201 / 70368744177664).
Proof. cbn [get_distance set_distance sim_distance]. first [reflexivity | lra]. Qed.
Lemma d_A41_1966g : get_distance (set_distance A41_c A41_e A41_lo A41_hi sim_init (303505918558329 / 35184372088832)) = (303505918558329 / 35184372088832).
Proof. cbn [get_distance set_distance sim_distance]. first [reflexivity | lra]. Qed.
Lemma d_A41_1974g : get_distance (set_distance A41_c A41_e A41_lo A41_hi sim_init (7918706747212487 / 562949953421312)) = (7918706747212487 / 562949953421312).
Proof. cbn [get_distance set_distance sim_distance]. first [reflexivity | lra]. Qed.
Lemma d_A41_1982g : get_distance (set_distance A41_c A41_e A41_lo A41_hi sim_init (2659941830306693 / 281474976710656)) = (2659941830306693 / 281474976710656).
Proof. cbn [get_distance set_distance sim_distance]. first [reflexivity | lra]. Qed.
Lemma d_A41_1990g : get_distance (set_distance A41_c A41_e A41_lo A41_hi sim_init (6141228394460183 / 562949953421312)) = (6141228394460183 / 562949953421312).
Proof. cbn [get_distance set_distance sim_distance]. first [reflexivity | lra]. Qed.
Lemma d_A41_1998g : get_distance (set_distance A41_c A41_e A41_lo A41_hi sim_init (1564560426145441 / 562949953421312)) = (1564560426145441 / 562949953421312).
Proof. cbn [get_distance set_distance sim_distance]. first [reflexivity | lra]. Qed.
Check d_A41_1998g.
