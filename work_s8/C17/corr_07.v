From Coq Require Import Reals Lra.
From Interval Require Import Tactic.
From RV Require Import IR.Model IR.Proofs.
Open Scope R_scope.
Lemma r_A02_10 : rio_reads A02_c A02_e A02_lo A02_hi floor_volts ctol (Build_rio (Fin (20475 / 4096)) (Fin ((-1) / 1)) (Fin (3715469692580659 / 1125899906842624)) (Fin (6 / 1)) (Fin (12 / 1)) true true true ((Fin (0 / 1)) :: (Fin (0 / 1)) :: (Fin (0 / 1)) :: (Fin (0 / 1)) :: (Fin (27 / 4)) :: (Fin (45 / 1)) :: nil)) (45 / 2).
Proof. apply (A02_rio_fin _ (20475 / 4096)); [reflexivity | apply (A02_q_lo 20475 4096 45 2); [vm_compute; reflexivity | unfold fr, ctol, A02_lo, A02_c, A02_e; interval with (i_prec 80)]]. Qed.
Lemma r_A02_43 : rio_reads A02_c A02_e A02_lo A02_hi floor_volts ctol (Build_rio (Fin (1038559610083877 / 2251799813685248)) (Fin (5 / 1)) (Fin (3715469692580659 / 1125899906842624)) (Fin (6 / 1)) (Fin (12 / 1)) true true true ((Fin (1 / 2)) :: (Fin (0 / 1)) :: (Fin (0 / 1)) :: (Fin (0 / 1)) :: (Fin (27 / 4)) :: (Fin (45 / 1)) :: nil)) (145 / 1).
Proof. apply (A02_rio_fin _ (1038559610083877 / 2251799813685248)); [reflexivity | apply (A02_q_hi 1038559610083877 2251799813685248 145 1); [vm_compute; reflexivity | unfold fr, ctol, A02_hi, A02_c, A02_e; interval with (i_prec 80)]]. Qed.
Lemma r_A02_59 : rio_reads A02_c A02_e A02_lo A02_hi floor_volts ctol (Build_rio (Fin (475 / 1024)) (Fin (0 / 1)) (Fin (0 / 1)) (Fin (0 / 1)) (Fin (2476979795053773 / 562949953421312)) false false false ((Fin (0 / 1)) :: (Fin (0 / 1)) :: (Fin (0 / 1)) :: (Fin (0 / 1)) :: (Fin (27 / 4)) :: (Fin (45 / 1)) :: nil)) (2534933343959729 / 17592186044416).
Proof. apply (A02_rio_fin _ (475 / 1024)); [reflexivity | apply (A02_q_mid 475 1024 2534933343959729 17592186044416); [vm_compute; reflexivity | unfold fr, close, ctol, A02_c, A02_e; interval with (i_prec 80)]]. Qed.
Lemma r_A02_75 : rio_reads A02_c A02_e A02_lo A02_hi floor_volts ctol (Build_rio (Fin (5 / 32)) (Fin (2465 / 512)) (Fin (3061 / 1024)) (Fin (6569 / 1024)) (Fin (6523 / 512)) false true true ((Fin (1119 / 1024)) :: (Fin (211 / 1024)) :: (Fin (517 / 256)) :: (Fin (180225 / 1024)) :: (Fin (809 / 256)) :: (Fin (15739 / 256)) :: nil)) (145 / 1).
Proof. apply (A02_rio_fin _ (5 / 32)); [reflexivity | apply (A02_q_hi 5 32 145 1); [vm_compute; reflexivity | unfold fr, ctol, A02_hi, A02_c, A02_e; interval with (i_prec 80)]]. Qed.
Lemma r_A02_91 : rio_reads A02_c A02_e A02_lo A02_hi floor_volts ctol (Build_rio (Fin (15 / 32)) (Fin (1 / 1)) (Fin (105 / 32)) (Fin (5801 / 512)) (Fin (6275 / 512)) true true true ((Fin (551 / 512)) :: (Fin (1667 / 1024)) :: (Fin (773 / 512)) :: (Fin (81327 / 512)) :: (Fin (1125 / 128)) :: (Fin (90651 / 1024)) :: nil)) (5012224675315921 / 35184372088832).
Proof. apply (A02_rio_fin _ (15 / 32)); [reflexivity | apply (A02_q_mid 15 32 5012224675315921 35184372088832); [vm_compute; reflexivity | unfold fr, close, ctol, A02_c, A02_e; interval with (i_prec 80)]]. Qed.
Lemma r_A02_107 : rio_reads A02_c A02_e A02_lo A02_hi floor_volts ctol (Build_rio (Fin (25 / 32)) (Fin (5 / 1)) (Fin (3715469692580659 / 1125899906842624)) (Fin (6 / 1)) (Fin (12 / 1)) true true true ((Fin (0 / 1)) :: (Fin (0 / 1)) :: (Fin (0 / 1)) :: (Fin (0 / 1)) :: (Fin (27 / 4)) :: (Fin (45 / 1)) :: nil)) (2869271837299947 / 35184372088832).
Proof. apply (A02_rio_fin _ (25 / 32)); [reflexivity | apply (A02_q_mid 25 32 2869271837299947 35184372088832); [vm_compute; reflexivity | unfold fr, close, ctol, A02_c, A02_e; interval with (i_prec 80)]]. Qed.
Lemma r_A02_123 : rio_reads A02_c A02_e A02_lo A02_hi floor_volts ctol (Build_rio (Fin (35 / 32)) (Fin (5491 / 1024)) (Fin (1617 / 512)) (Fin (6229 / 1024)) (Fin (6505 / 1024)) true true true ((Fin (145 / 64)) :: (Fin (819 / 1024)) :: (Fin (2109 / 1024)) :: (Fin (14595 / 128)) :: (Fin (3211 / 1024)) :: (Fin (49229 / 1024)) :: nil)) (7948036850143611 / 140737488355328).
Proof. apply (A02_rio_fin _ (35 / 32)); [reflexivity | apply (A02_q_mid 35 32 7948036850143611 140737488355328); [vm_compute; reflexivity | unfold fr, close, ctol, A02_c, A02_e; interval with (i_prec 80)]]. Qed.
Lemma r_A02_139 : rio_reads A02_c A02_e A02_lo A02_hi floor_volts ctol (Build_rio (Fin (45 / 32)) (Fin (5 / 1)) (Fin (2811 / 1024)) (Fin (7525 / 1024)) (Fin (10691 / 1024)) true false true ((Fin (1123 / 512)) :: (Fin (415 / 256)) :: (Fin (1727 / 1024)) :: (Fin (15309 / 1024)) :: (Fin (9213 / 1024)) :: (Fin ((-537) / 64)) :: nil)) (3020258503293807 / 70368744177664).
Proof. apply (A02_rio_fin _ (45 / 32)); [reflexivity | apply (A02_q_mid 45 32 3020258503293807 70368744177664); [vm_compute; reflexivity | unfold fr, close, ctol, A02_c, A02_e; interval with (i_prec 80)]]. Qed.
Lemma r_A02_155 : rio_reads A02_c A02_e A02_lo A02_hi floor_volts ctol (Build_rio (Fin (55 / 32)) (Fin (5 / 1)) (Fin (3715469692580659 / 1125899906842624)) (Fin (6 / 1)) (Fin (12 / 1)) true true true ((Fin (0 / 1)) :: (Fin (0 / 1)) :: (Fin (0 / 1)) :: (Fin (0 / 1)) :: (Fin (27 / 4)) :: (Fin (45 / 1)) :: nil)) (4851836077338617 / 140737488355328).
Proof. apply (A02_rio_fin _ (55 / 32)); [reflexivity | apply (A02_q_mid 55 32 4851836077338617 140737488355328); [vm_compute; reflexivity | unfold fr, close, ctol, A02_c, A02_e; interval with (i_prec 80)]]. Qed.
Lemma r_A02_171 : rio_reads A02_c A02_e A02_lo A02_hi floor_volts ctol (Build_rio (Fin (65 / 32)) (Fin (2649 / 512)) (Fin (3715469692580659 / 1125899906842624)) (Fin (2941 / 512)) (Fin (12317 / 1024)) true true false ((Fin (1533 / 1024)) :: (Fin (213 / 1024)) :: (Fin (685 / 256)) :: (Fin (104167 / 1024)) :: (Fin (3405 / 512)) :: (Fin (20467 / 512)) :: nil)) (8085572705368399 / 281474976710656).
Proof. apply (A02_rio_fin _ (65 / 32)); [reflexivity | apply (A02_q_mid 65 32 8085572705368399 281474976710656); [vm_compute; reflexivity | unfold fr, close, ctol, A02_c, A02_e; interval with (i_prec 80)]]. Qed.
Lemma r_A02_187 : rio_reads A02_c A02_e A02_lo A02_hi floor_volts ctol (Build_rio (Fin (75 / 32)) (Fin (4301 / 1024)) (Fin (3715469692580659 / 1125899906842624)) (Fin (100000000000000001097906362944045541740492309677311846336810682903157585404911491537163328978494688899061249669721172515611590283743140088328307009198146046031271664502933027185697489699588559043338384466165001178426897626212945177628091195786707458122783970171784415105291802893207873272974885715430223118336 / 1)) (Fin (11527 / 1024)) true true true ((Fin (863 / 1024)) :: (Fin (629 / 512)) :: (Fin (61 / 512)) :: (Fin (105233 / 1024)) :: (Fin (3057 / 512)) :: (Fin ((-19173) / 1024)) :: nil)) (6915845339132087 / 281474976710656).
Proof. apply (A02_rio_fin _ (75 / 32)); [reflexivity | apply (A02_q_mid 75 32 6915845339132087 281474976710656); [vm_compute; reflexivity | unfold fr, close, ctol, A02_c, A02_e; interval with (i_prec 80)]]. Qed.
Lemma r_A02_203 : rio_reads A02_c A02_e A02_lo A02_hi floor_volts ctol (Build_rio (Fin (685 / 256)) (Fin (5 / 1)) (Fin (3715469692580659 / 1125899906842624)) (Fin (6 / 1)) (Fin (12 / 1)) true true true ((Fin (0 / 1)) :: (Fin (0 / 1)) :: (Fin (0 / 1)) :: (Fin (0 / 1)) :: (Fin (27 / 4)) :: (Fin (45 / 1)) :: nil)) (45 / 2).
Proof. apply (A02_rio_fin _ (685 / 256)); [reflexivity | apply (A02_q_lo 685 256 45 2); [vm_compute; reflexivity | unfold fr, ctol, A02_lo, A02_c, A02_e; interval with (i_prec 80)]]. Qed.
Lemma r_A02_219 : rio_reads A02_c A02_e A02_lo A02_hi floor_volts ctol (Build_rio (Fin (765 / 256)) (Fin (309 / 64)) (Fin (1525 / 512)) (Fin (5371 / 1024)) (Fin (3131 / 256)) true false true ((Fin (751 / 1024)) :: (Fin (27 / 64)) :: (Fin (23 / 32)) :: (Fin (38973 / 256)) :: (Fin (3037 / 512)) :: (Fin (7157 / 1024)) :: nil)) (45 / 2).
Proof. apply (A02_rio_fin _ (765 / 256)); [reflexivity | apply (A02_q_lo 765 256 45 2); [vm_compute; reflexivity | unfold fr, ctol, A02_lo, A02_c, A02_e; interval with (i_prec 80)]]. Qed.
Lemma r_A02_235 : rio_reads A02_c A02_e A02_lo A02_hi floor_volts ctol (Build_rio (Fin (845 / 256)) (Fin (4371 / 1024)) (Fin (3303 / 1024)) (Fin (6 / 1)) (Fin (1375 / 128)) true true false ((Fin (1305 / 512)) :: (Fin (123 / 512)) :: (Fin (3013 / 1024)) :: (Fin (2461 / 512)) :: (Fin (1065 / 256)) :: (Fin (13541 / 512)) :: nil)) (45 / 2).
Proof. apply (A02_rio_fin _ (845 / 256)); [reflexivity | apply (A02_q_lo 845 256 45 2); [vm_compute; reflexivity | unfold fr, ctol, A02_lo, A02_c, A02_e; interval with (i_prec 80)]]. Qed.
Lemma r_A02_251 : rio_reads A02_c A02_e A02_lo A02_hi floor_volts ctol (Build_rio (Fin (925 / 256)) (Fin (5 / 1)) (Fin (3715469692580659 / 1125899906842624)) (Fin (6 / 1)) (Fin (12 / 1)) true true true ((Fin (0 / 1)) :: (Fin (0 / 1)) :: (Fin (0 / 1)) :: (Fin (0 / 1)) :: (Fin (27 / 4)) :: (Fin (45 / 1)) :: nil)) (45 / 2).
Proof. apply (A02_rio_fin _ (925 / 256)); [reflexivity | apply (A02_q_lo 925 256 45 2); [vm_compute; reflexivity | unfold fr, ctol, A02_lo, A02_c, A02_e; interval with (i_prec 80)]]. Qed.
Lemma r_A02_267 : rio_reads A02_c A02_e A02_lo A02_hi floor_volts ctol (Build_rio (Fin (1005 / 256)) (Fin (5 / 1)) (Fin (3715469692580659 / 1125899906842624)) (Fin (6 / 1)) (Fin (10683 / 1024)) true true true ((Fin (33 / 1024)) :: (Fin (113 / 1024)) :: (Fin (177 / 256)) :: (Fin (73451 / 1024)) :: (Fin (867 / 256)) :: (Fin (23411 / 512)) :: nil)) (45 / 2).
Proof. apply (A02_rio_fin _ (1005 / 256)); [reflexivity | apply (A02_q_lo 1005 256 45 2); [vm_compute; reflexivity | unfold fr, ctol, A02_lo, A02_c, A02_e; interval with (i_prec 80)]]. Qed.
Lemma r_A02_283 : rio_reads A02_c A02_e A02_lo A02_hi floor_volts ctol (Build_rio (Fin (1085 / 256)) (Fin (1089 / 256)) (Fin (1353 / 512)) (Fin (2559 / 512)) (Fin (3839 / 512)) true true false ((Fin (807 / 1024)) :: (Fin (1017 / 1024)) :: (Fin (241 / 512)) :: (Fin (53831 / 1024)) :: (Fin (3577 / 512)) :: (Fin (24809 / 256)) :: nil)) (45 / 2).
Proof. apply (A02_rio_fin _ (1085 / 256)); [reflexivity | apply (A02_q_lo 1085 256 45 2); [vm_compute; reflexivity | unfold fr, ctol, A02_lo, A02_c, A02_e; interval with (i_prec 80)]]. Qed.
Lemma r_A02_299 : rio_reads A02_c A02_e A02_lo A02_hi floor_volts ctol (Build_rio (Fin (1165 / 256)) (Fin (5 / 1)) (Fin (3715469692580659 / 1125899906842624)) (Fin (6 / 1)) (Fin (12 / 1)) true true true ((Fin (0 / 1)) :: (Fin (0 / 1)) :: (Fin (0 / 1)) :: (Fin (0 / 1)) :: (Fin (27 / 4)) :: (Fin (45 / 1)) :: nil)) (45 / 2).
Proof. apply (A02_rio_fin _ (1165 / 256)); [reflexivity | apply (A02_q_lo 1165 256 45 2); [vm_compute; reflexivity | unfold fr, ctol, A02_lo, A02_c, A02_e; interval with (i_prec 80)]]. Qed.
Lemma r_A02_315 : rio_reads A02_c A02_e A02_lo A02_hi floor_volts ctol (Build_rio (Fin (1245 / 256)) (Fin (5 / 1)) (Fin (3715469692580659 / 1125899906842624)) (Fin (6187 / 1024)) (Fin (11835 / 1024)) true true false ((Fin (1725 / 1024)) :: (Fin (1167 / 1024)) :: (Fin (133 / 64)) :: (Fin (6009 / 512)) :: (Fin (1645 / 256)) :: (Fin ((-3863) / 256)) :: nil)) (45 / 2).
Proof. apply (A02_rio_fin _ (1245 / 256)); [reflexivity | apply (A02_q_lo 1245 256 45 2); [vm_compute; reflexivity | unfold fr, ctol, A02_lo, A02_c, A02_e; interval with (i_prec 80)]]. Qed.
Lemma r_A02_331 : rio_reads A02_c A02_e A02_lo A02_hi floor_volts ctol (Build_rio (Fin (4935243223332245 / 9007199254740992)) (Fin (4911 / 1024)) (Fin (705 / 512)) (Fin (1751 / 512)) (Fin (12925 / 1024)) true true true ((Fin (879 / 512)) :: (Fin (701 / 512)) :: (Fin (353 / 1024)) :: (Fin (62933 / 1024)) :: (Fin (2697 / 512)) :: (Fin (31483 / 1024)) :: nil)) (8453712716126961 / 70368744177664).
Proof. apply (A02_rio_fin _ (4935243223332245 / 9007199254740992)); [reflexivity | apply (A02_q_mid 4935243223332245 9007199254740992 8453712716126961 70368744177664); [vm_compute; reflexivity | unfold fr, close, ctol, A02_c, A02_e; interval with (i_prec 80)]]. Qed.
Lemma r_A02_347 : rio_reads A02_c A02_e A02_lo A02_hi floor_volts ctol (Build_rio (Fin (1474816903264283 / 562949953421312)) (Fin (5 / 1)) (Fin (3715469692580659 / 1125899906842624)) (Fin (6 / 1)) (Fin (12 / 1)) true true true ((Fin (0 / 1)) :: (Fin (0 / 1)) :: (Fin (0 / 1)) :: (Fin (0 / 1)) :: (Fin (27 / 4)) :: (Fin (45 / 1)) :: nil)) (45 / 2).
Proof. apply (A02_rio_fin _ (1474816903264283 / 562949953421312)); [reflexivity | apply (A02_q_lo 1474816903264283 562949953421312 45 2); [vm_compute; reflexivity | unfold fr, ctol, A02_lo, A02_c, A02_e; interval with (i_prec 80)]]. Qed.
Lemma r_A02_363 : rio_reads A02_c A02_e A02_lo A02_hi floor_volts ctol (Build_rio (Fin (2450171778657747 / 562949953421312)) (Fin (5 / 1)) (Fin (91 / 32)) (Fin (759 / 128)) (Fin (12 / 1)) false false true ((Fin (243 / 256)) :: (Fin (25 / 256)) :: (Fin (427 / 256)) :: (Fin (5473 / 1024)) :: (Fin (6867 / 1024)) :: (Fin ((-14491) / 1024)) :: nil)) (45 / 2).
Proof. apply (A02_rio_fin _ (2450171778657747 / 562949953421312)); [reflexivity | apply (A02_q_lo 2450171778657747 562949953421312 45 2); [vm_compute; reflexivity | unfold fr, ctol, A02_lo, A02_c, A02_e; interval with (i_prec 80)]]. Qed.
Lemma r_A02_379 : rio_reads A02_c A02_e A02_lo A02_hi floor_volts ctol (Build_rio (Fin (5516210355316891 / 1125899906842624)) (Fin (4927 / 1024)) (Fin (3715469692580659 / 1125899906842624)) (Fin (6379 / 1024)) (Fin (2949 / 256)) true true true ((Fin (365 / 128)) :: (Fin (681 / 512)) :: (Fin (1787 / 1024)) :: (Fin (663 / 4)) :: (Fin (3189 / 512)) :: (Fin (16489 / 512)) :: nil)) (45 / 2).
Proof. apply (A02_rio_fin _ (5516210355316891 / 1125899906842624)); [reflexivity | apply (A02_q_lo 5516210355316891 1125899906842624 45 2); [vm_compute; reflexivity | unfold fr, ctol, A02_lo, A02_c, A02_e; interval with (i_prec 80)]]. Qed.
Lemma r_A02_397 : rio_reads A02_c A02_e A02_lo A02_hi floor_volts ctol (Build_rio (Fin (8643973325255069 / 2251799813685248)) (Fin (763 / 256)) (Fin ((-1) / 1)) (Fin (3337 / 256)) (Fin (3841 / 1024)) true false false ((Fin (55 / 128)) :: (Fin (1861 / 1024)) :: (Fin (863 / 512)) :: (Fin (39517 / 512)) :: (Fin (7235 / 1024)) :: (Fin (38463 / 512)) :: nil)) (45 / 2).
Proof. apply (A02_rio_fin _ (8643973325255069 / 2251799813685248)); [reflexivity | apply (A02_q_lo 8643973325255069 2251799813685248 45 2); [vm_compute; reflexivity | unfold fr, ctol, A02_lo, A02_c, A02_e; interval with (i_prec 80)]]. Qed.
Lemma r_A02_416 : rio_reads A02_c A02_e A02_lo A02_hi floor_volts ctol (Build_rio (Fin (2282087809328173 / 35184372088832)) (Fin (1917 / 128)) (Fin (689 / 256)) (Fin (1645 / 256)) (Fin (12 / 1)) true true true ((Fin (623 / 256)) :: (Fin (493 / 256)) :: (Fin (2161 / 1024)) :: (Fin (6543 / 256)) :: (Fin (4113 / 1024)) :: (Fin ((-14603) / 1024)) :: nil)) (45 / 2).
Proof. apply (A02_rio_fin _ (2282087809328173 / 35184372088832)); [reflexivity | apply (A02_q_lo 2282087809328173 35184372088832 45 2); [vm_compute; reflexivity | unfold fr, ctol, A02_lo, A02_c, A02_e; interval with (i_prec 80)]]. Qed.
Lemma d_A02_6r : rio_reads A02_c A02_e A02_lo A02_hi floor_volts ctol (Build_rio (Fin (1459500756917977 / 2251799813685248)) (Fin (5 / 2)) (Fin (3715469692580659 / 1125899906842624)) (Fin (6 / 1)) (Fin (12 / 1)) true true true ((Fin (0 / 1)) :: (Fin (0 / 1)) :: (Fin (0 / 1)) :: (Fin (0 / 1)) :: (Fin (27 / 4)) :: (Fin (45 / 1)) :: nil)) (7036874417766401 / 70368744177664).
Proof. apply (A02_rio_fin _ (1459500756917977 / 2251799813685248)); [reflexivity | apply (A02_q_mid 1459500756917977 2251799813685248 7036874417766401 70368744177664); [vm_compute; reflexivity | unfold fr, close, ctol, A02_c, A02_e; interval with (i_prec 80)]]. Qed.
Lemma d_A02_14r : rio_reads A02_c A02_e A02_lo A02_hi floor_volts ctol (Build_rio (Fin (8308476880671015 / 18014398509481984)) (Fin (1 / 202402253307310618352495346718917307049556649764142118356901358027430339567995346891960383701437124495187077864316811911389808737385793476867013399940738509921517424276566361364466907742093216341239767678472745068562007483424692698618103355649159556340810056512358769552333414615230502532186327508646006263307707741093494784)) (Fin (3715469692580659 / 1125899906842624)) (Fin (6 / 1)) (Fin (12 / 1)) true true true ((Fin (0 / 1)) :: (Fin (0 / 1)) :: (Fin (0 / 1)) :: (Fin (0 / 1)) :: (Fin (27 / 4)) :: (Fin (45 / 1)) :: nil)) (145 / 1).
Proof. apply (A02_rio_fin _ (8308476880671015 / 18014398509481984)); [reflexivity | apply (A02_q_hi 8308476880671015 18014398509481984 145 1); [vm_compute; reflexivity | unfold fr, ctol, A02_hi, A02_c, A02_e; interval with (i_prec 80)]]. Qed.
Lemma d_A02_22r : rio_reads A02_c A02_e A02_lo A02_hi floor_volts ctol (Build_rio (Fin (357539307115111 / 140737488355328)) (Fin (5 / 1)) (Fin (3715469692580659 / 1125899906842624)) (Fin (6 / 1)) (Fin (5 / 1)) true true true ((Fin (0 / 1)) :: (Fin (0 / 1)) :: (Fin (0 / 1)) :: (Fin (0 / 1)) :: (Fin (27 / 4)) :: (Fin (45 / 1)) :: nil)) (45 / 2).
Proof. apply (A02_rio_fin _ (357539307115111 / 140737488355328)); [reflexivity | apply (A02_q_lo 357539307115111 140737488355328 45 2); [vm_compute; reflexivity | unfold fr, ctol, A02_lo, A02_c, A02_e; interval with (i_prec 80)]]. Qed.
Lemma d_A02_30r : rio_reads A02_c A02_e A02_lo A02_hi floor_volts ctol (Build_rio (Fin (357539307115111 / 140737488355328)) (Fin (5 / 1)) (Fin (5 / 1)) (Fin (6 / 1)) (Fin (12 / 1)) true true true ((Fin (0 / 1)) :: (Fin (0 / 1)) :: (Fin (0 / 1)) :: (Fin (0 / 1)) :: (Fin (27 / 4)) :: (Fin (45 / 1)) :: nil)) (45 / 2).
Proof. apply (A02_rio_fin _ (357539307115111 / 140737488355328)); [reflexivity | apply (A02_q_lo 357539307115111 140737488355328 45 2); [vm_compute; reflexivity | unfold fr, ctol, A02_lo, A02_c, A02_e; interval with (i_prec 80)]]. Qed.
Lemma d_A02_38r : rio_reads A02_c A02_e A02_lo A02_hi floor_volts ctol (Build_rio (Fin (8308476880671015 / 18014398509481984)) (Fin (5 / 1)) (Fin (3715469692580659 / 1125899906842624)) (Fin ((-1) / 1)) (Fin (12 / 1)) true true true ((Fin (0 / 1)) :: (Fin (0 / 1)) :: (Fin (0 / 1)) :: (Fin (0 / 1)) :: (Fin (27 / 4)) :: (Fin (45 / 1)) :: nil)) (145 / 1).
Proof. apply (A02_rio_fin _ (8308476880671015 / 18014398509481984)); [reflexivity | apply (A02_q_hi 8308476880671015 18014398509481984 145 1); [vm_compute; reflexivity | unfold fr, ctol, A02_hi, A02_c, A02_e; interval with (i_prec 80)]]. Qed.
Lemma d_A02_46r : rio_reads A02_c A02_e A02_lo A02_hi floor_volts ctol (Build_rio (Fin (5720628913841775 / 2251799813685248)) (Fin (5 / 1)) (Fin (3715469692580659 / 1125899906842624)) (Fin (6 / 1)) (Fin (12 / 1)) true true true ((Fin (0 / 1)) :: (Fin (1 / 2)) :: (Fin (0 / 1)) :: (Fin (0 / 1)) :: (Fin (27 / 4)) :: (Fin (45 / 1)) :: nil)) (6333186975989761 / 281474976710656).
Proof. apply (A02_rio_fin _ (5720628913841775 / 2251799813685248)); [reflexivity | apply (A02_q_mid 5720628913841775 2251799813685248 6333186975989761 281474976710656); [vm_compute; reflexivity | unfold fr, close, ctol, A02_c, A02_e; interval with (i_prec 80)]]. Qed.
Lemma d_A02_54r : rio_reads A02_c A02_e A02_lo A02_hi floor_volts ctol (Build_rio (Fin (8308476880671015 / 18014398509481984)) (Fin (5 / 1)) (Fin (3715469692580659 / 1125899906842624)) (Fin (6 / 1)) (Fin (12 / 1)) true true true ((Fin (0 / 1)) :: (Fin (0 / 1)) :: (Fin (0 / 1)) :: (Fin (0 / 1)) :: (Fin (27 / 4)) :: (Fin (85 / 1)) :: nil)) (145 / 1).
Proof. apply (A02_rio_fin _ (8308476880671015 / 18014398509481984)); [reflexivity | apply (A02_q_hi 8308476880671015 18014398509481984 145 1); [vm_compute; reflexivity | unfold fr, ctol, A02_hi, A02_c, A02_e; interval with (i_prec 80)]]. Qed.
Lemma d_A02_65u : close ctol (6014804350050685 / 4503599627370496) (volts_A02 (3195256997452467 / 70368744177664)).
Proof. apply (A02_q_volts_mid 3195256997452467 70368744177664 6014804350050685 4503599627370496); [vm_compute; reflexivity | unfold fr, close, ctol, A02_lo, A02_hi, A02_c, A02_e; interval with (i_prec 80)]. Qed.
Lemma d_A02_78u : close ctol (357539307115111 / 140737488355328) (volts_A02 ((-5841192612802681) / 562949953421312)).
Proof. apply (A02_q_volts_lo (-5841192612802681) 562949953421312 357539307115111 140737488355328); [vm_compute; reflexivity | unfold fr, close, ctol, A02_lo, A02_hi, A02_c, A02_e; interval with (i_prec 80)]. Qed.
Lemma d_A02_91u : close ctol (1423192031105627 / 2251799813685248) (volts_A02 (7233145099993251 / 70368744177664)).
Proof. apply (A02_q_volts_mid 7233145099993251 70368744177664 1423192031105627 2251799813685248); [vm_compute; reflexivity | unfold fr, close, ctol, A02_lo, A02_hi, A02_c, A02_e; interval with (i_prec 80)]. Qed.
Lemma d_A02_104u : close ctol (1642878348986087 / 2251799813685248) (volts_A02 (3091860021043789 / 35184372088832)).
Proof. apply (A02_q_volts_mid 3091860021043789 35184372088832 1642878348986087 2251799813685248); [vm_compute; reflexivity | unfold fr, close, ctol, A02_lo, A02_hi, A02_c, A02_e; interval with (i_prec 80)]. Qed.
Lemma d_A02_116r : rio_reads A02_c A02_e A02_lo A02_hi floor_volts ctol (Build_rio (Fin (357539307115111 / 140737488355328)) PInf (Fin (3715469692580659 / 1125899906842624)) (Fin (5351 / 1024)) (Fin (5429 / 512)) true true false ((Fin (1481 / 1024)) :: (Fin (1161 / 1024)) :: (Fin (2815 / 1024)) :: (Fin (7925 / 256)) :: (Fin (1813 / 512)) :: (Fin (47081 / 1024)) :: nil)) (45 / 2).
Proof. apply (A02_rio_fin _ (357539307115111 / 140737488355328)); [reflexivity | apply (A02_q_lo 357539307115111 140737488355328 45 2); [vm_compute; reflexivity | unfold fr, ctol, A02_lo, A02_c, A02_e; interval with (i_prec 80)]]. Qed.
Lemma d_A02_129u : close ctol (357539307115111 / 140737488355328) (volts_A02 (8994023447536791 / 2251799813685248)).
Proof. apply (A02_q_volts_lo 8994023447536791 2251799813685248 357539307115111 140737488355328); [vm_compute; reflexivity | unfold fr, close, ctol, A02_lo, A02_hi, A02_c, A02_e; interval with (i_prec 80)]. Qed.
Lemma d_A02_142u : close ctol (357539307115111 / 140737488355328) (volts_A02 (4371788666583053 / 281474976710656)).
Proof. apply (A02_q_volts_lo 4371788666583053 281474976710656 357539307115111 140737488355328); [vm_compute; reflexivity | unfold fr, close, ctol, A02_lo, A02_hi, A02_c, A02_e; interval with (i_prec 80)]. Qed.
Lemma d_A02_155u : close ctol (4559035978104125 / 9007199254740992) (volts_A02 (131 / 1)).
Proof. apply (A02_q_volts_mid 131 1 4559035978104125 9007199254740992); [vm_compute; reflexivity | unfold fr, close, ctol, A02_lo, A02_hi, A02_c, A02_e; interval with (i_prec 80)]. Qed.
Lemma d_A02_168u : close ctol (2459710488842993 / 1125899906842624) (volts_A02 (7467596415660777 / 281474976710656)).
Proof. apply (A02_q_volts_mid 7467596415660777 281474976710656 2459710488842993 1125899906842624); [vm_compute; reflexivity | unfold fr, close, ctol, A02_lo, A02_hi, A02_c, A02_e; interval with (i_prec 80)]. Qed.
Lemma d_A02_180r : rio_reads A02_c A02_e A02_lo A02_hi floor_volts ctol (Build_rio (Fin (8457246601925297 / 18014398509481984)) (Fin (5053 / 1024)) (Fin ((-1) / 1)) (Fin (6051 / 1024)) (Fin (5902958103587057 / 590295810358705651712)) true true false ((Fin (43 / 16)) :: (Fin (859 / 1024)) :: (Fin (2397 / 1024)) :: (Fin (61221 / 512)) :: (Fin (6993 / 1024)) :: (Fin (83591 / 1024)) :: nil)) (5003813694923367 / 35184372088832).
Proof. apply (A02_rio_fin _ (8457246601925297 / 18014398509481984)); [reflexivity | apply (A02_q_mid 8457246601925297 18014398509481984 5003813694923367 35184372088832); [vm_compute; reflexivity | unfold fr, close, ctol, A02_c, A02_e; interval with (i_prec 80)]]. Qed.
Lemma d_A02_193u : close ctol (357539307115111 / 140737488355328) (volts_A02 (2386767001115023 / 72057594037927936)).
Proof. apply (A02_q_volts_lo 2386767001115023 72057594037927936 357539307115111 140737488355328); [vm_compute; reflexivity | unfold fr, close, ctol, A02_lo, A02_hi, A02_c, A02_e; interval with (i_prec 80)]. Qed.
Lemma d_A02_206u : close ctol (357539307115111 / 140737488355328) (volts_A02 (1575986788864043 / 70368744177664)).
Proof. apply (A02_q_volts_lo 1575986788864043 70368744177664 357539307115111 140737488355328); [vm_compute; reflexivity | unfold fr, close, ctol, A02_lo, A02_hi, A02_c, A02_e; interval with (i_prec 80)]. Qed.
Lemma d_A02_219u : close ctol (8308476880671015 / 18014398509481984) (volts_A02 (2871671317184579 / 8796093022208)).
Proof. apply (A02_q_volts_hi 2871671317184579 8796093022208 8308476880671015 18014398509481984); [vm_compute; reflexivity | unfold fr, close, ctol, A02_lo, A02_hi, A02_c, A02_e; interval with (i_prec 80)]. Qed.
Lemma d_A02_232u : close ctol (8308476880671015 / 18014398509481984) (volts_A02 (281 / 1)).
Proof. apply (A02_q_volts_hi 281 1 8308476880671015 18014398509481984); [vm_compute; reflexivity | unfold fr, close, ctol, A02_lo, A02_hi, A02_c, A02_e; interval with (i_prec 80)]. Qed.
Lemma d_A02_244r : rio_reads A02_c A02_e A02_lo A02_hi floor_volts ctol (Build_rio (Fin (5077427675760399 / 9007199254740992)) (Fin (5 / 1)) (Fin (2781 / 1024)) (Fin (357 / 64)) (Fin (10625 / 1024)) false true true ((Fin (641 / 512)) :: (Fin (113 / 128)) :: (Fin (337 / 128)) :: (Fin (5375 / 1024)) :: (Fin (1825 / 256)) :: (Fin (46825 / 1024)) :: nil)) (4097768949416857 / 35184372088832).
Proof. apply (A02_rio_fin _ (5077427675760399 / 9007199254740992)); [reflexivity | apply (A02_q_mid 5077427675760399 9007199254740992 4097768949416857 35184372088832); [vm_compute; reflexivity | unfold fr, close, ctol, A02_c, A02_e; interval with (i_prec 80)]]. Qed.
Lemma d_A02_257u : close ctol (357539307115111 / 140737488355328) (volts_A02 (970558933214551 / 70368744177664)).
Proof. apply (A02_q_volts_lo 970558933214551 70368744177664 357539307115111 140737488355328); [vm_compute; reflexivity | unfold fr, close, ctol, A02_lo, A02_hi, A02_c, A02_e; interval with (i_prec 80)]. Qed.
Lemma d_A02_270u : close ctol (7237585620360027 / 4503599627370496) (volts_A02 (1305297019576917 / 35184372088832)).
Proof. apply (A02_q_volts_mid 1305297019576917 35184372088832 7237585620360027 4503599627370496); [vm_compute; reflexivity | unfold fr, close, ctol, A02_lo, A02_hi, A02_c, A02_e; interval with (i_prec 80)]. Qed.
Lemma d_A02_283u : close ctol (357539307115111 / 140737488355328) (volts_A02 (156483978417331 / 35184372088832)).
Proof. apply (A02_q_volts_lo 156483978417331 35184372088832 357539307115111 140737488355328); [vm_compute; reflexivity | unfold fr, close, ctol, A02_lo, A02_hi, A02_c, A02_e; interval with (i_prec 80)]. Qed.
Lemma d_A02_296u : close ctol (6774839317841925 / 9007199254740992) (volts_A02 (85 / 1)).
Proof. apply (A02_q_volts_mid 85 1 6774839317841925 9007199254740992); [vm_compute; reflexivity | unfold fr, close, ctol, A02_lo, A02_hi, A02_c, A02_e; interval with (i_prec 80)]. Qed.
Lemma d_A02_308r : rio_reads A02_c A02_e A02_lo A02_hi floor_volts ctol (Build_rio (Fin (8308476880671015 / 18014398509481984)) (Fin (5 / 1)) (Fin (2865 / 1024)) (Fin (4905 / 1024)) (Fin ((-1) / 1)) true true true ((Fin (209 / 512)) :: (Fin (417 / 256)) :: (Fin (1829 / 1024)) :: (Fin (10383 / 512)) :: (Fin (9069 / 1024)) :: (Fin (11467 / 128)) :: nil)) (145 / 1).
Proof. apply (A02_rio_fin _ (8308476880671015 / 18014398509481984)); [reflexivity | apply (A02_q_hi 8308476880671015 18014398509481984 145 1); [vm_compute; reflexivity | unfold fr, ctol, A02_hi, A02_c, A02_e; interval with (i_prec 80)]]. Qed.
Lemma d_A02_321u : close ctol (6542347396715749 / 9007199254740992) (volts_A02 (6213829618647547 / 70368744177664)).
Proof. apply (A02_q_volts_mid 6213829618647547 70368744177664 6542347396715749 9007199254740992); [vm_compute; reflexivity | unfold fr, close, ctol, A02_lo, A02_hi, A02_c, A02_e; interval with (i_prec 80)]. Qed.
Lemma d_A02_334u : close ctol (2140316692187293 / 4503599627370496) (volts_A02 (4937460843521821 / 35184372088832)).
Proof. apply (A02_q_volts_mid 4937460843521821 35184372088832 2140316692187293 4503599627370496); [vm_compute; reflexivity | unfold fr, close, ctol, A02_lo, A02_hi, A02_c, A02_e; interval with (i_prec 80)]. Qed.
Lemma d_A02_347u : close ctol (4272554056541541 / 9007199254740992) (volts_A02 (4947657357558445 / 35184372088832)).
Proof. apply (A02_q_volts_mid 4947657357558445 35184372088832 4272554056541541 9007199254740992); [vm_compute; reflexivity | unfold fr, close, ctol, A02_lo, A02_hi, A02_c, A02_e; interval with (i_prec 80)]. Qed.
Lemma d_A02_360u : close ctol (8751698084225027 / 18014398509481984) (volts_A02 (137 / 1)).
Proof. apply (A02_q_volts_mid 137 1 8751698084225027 18014398509481984); [vm_compute; reflexivity | unfold fr, close, ctol, A02_lo, A02_hi, A02_c, A02_e; interval with (i_prec 80)]. Qed.
Lemma d_A02_372r : rio_reads A02_c A02_e A02_lo A02_hi floor_volts ctol (Build_rio (Fin (3642905858259843 / 2251799813685248)) (Fin (2219 / 512)) (Fin (1677 / 512)) (Fin (6 / 1)) (Fin (39 / 4)) true true true ((Fin (2215 / 1024)) :: (Fin (1027 / 1024)) :: (Fin (911 / 1024)) :: (Fin (7157 / 128)) :: (Fin (3687 / 512)) :: (Fin (1583 / 32)) :: nil)) (2591730046291261 / 70368744177664).
Proof. apply (A02_rio_fin _ (3642905858259843 / 2251799813685248)); [reflexivity | apply (A02_q_mid 3642905858259843 2251799813685248 2591730046291261 70368744177664); [vm_compute; reflexivity | unfold fr, close, ctol, A02_c, A02_e; interval with (i_prec 80)]]. Qed.
Lemma d_A02_385u : close ctol (3227144010639335 / 2251799813685248) (volts_A02 (2958429939835089 / 70368744177664)).
Proof. apply (A02_q_volts_mid 2958429939835089 70368744177664 3227144010639335 2251799813685248); [vm_compute; reflexivity | unfold fr, close, ctol, A02_lo, A02_hi, A02_c, A02_e; interval with (i_prec 80)]. Qed.
Lemma d_A02_398u : close ctol (1493205976486357 / 1125899906842624) (volts_A02 (3219789160594671 / 70368744177664)).
Proof. apply (A02_q_volts_mid 3219789160594671 70368744177664 1493205976486357 1125899906842624); [vm_compute; reflexivity | unfold fr, close, ctol, A02_lo, A02_hi, A02_c, A02_e; interval with (i_prec 80)]. Qed.
Lemma d_A02_411u : close ctol (8308476880671015 / 18014398509481984) (volts_A02 (2044422395551269 / 8796093022208)).
Proof. apply (A02_q_volts_hi 2044422395551269 8796093022208 8308476880671015 18014398509481984); [vm_compute; reflexivity | unfold fr, close, ctol, A02_lo, A02_hi, A02_c, A02_e; interval with (i_prec 80)]. Qed.
Lemma d_A02_424u : close ctol (357539307115111 / 140737488355328) (volts_A02 (5360812683506545 / 281474976710656)).
Proof. apply (A02_q_volts_lo 5360812683506545 281474976710656 357539307115111 140737488355328); [vm_compute; reflexivity | unfold fr, close, ctol, A02_lo, A02_hi, A02_c, A02_e; interval with (i_prec 80)]. Qed.
Lemma d_A02_436r : rio_reads A02_c A02_e A02_lo A02_hi floor_volts ctol (Build_rio (Fin (357539307115111 / 140737488355328)) (Fin (5 / 1)) (Fin (1343 / 1024)) (Fin (2479 / 512)) (Fin (2743 / 1024)) true true true ((Fin (1121 / 512)) :: (Fin (149 / 1024)) :: (Fin (1269 / 512)) :: (Fin (20145 / 256)) :: (Fin (5799 / 1024)) :: (Fin (40503 / 1024)) :: nil)) (45 / 2).
Proof. apply (A02_rio_fin _ (357539307115111 / 140737488355328)); [reflexivity | apply (A02_q_lo 357539307115111 140737488355328 45 2); [vm_compute; reflexivity | unfold fr, ctol, A02_lo, A02_c, A02_e; interval with (i_prec 80)]]. Qed.
Lemma d_A02_449u : close ctol (5236252816143811 / 4503599627370496) (volts_A02 (3717450338164433 / 70368744177664)).
Proof. apply (A02_q_volts_mid 3717450338164433 70368744177664 5236252816143811 4503599627370496); [vm_compute; reflexivity | unfold fr, close, ctol, A02_lo, A02_hi, A02_c, A02_e; interval with (i_prec 80)]. Qed.
Lemma d_A02_462u : close ctol (4776023819050483 / 4503599627370496) (volts_A02 (4110314732162397 / 70368744177664)).
Proof. apply (A02_q_volts_mid 4110314732162397 70368744177664 4776023819050483 4503599627370496); [vm_compute; reflexivity | unfold fr, close, ctol, A02_lo, A02_hi, A02_c, A02_e; interval with (i_prec 80)]. Qed.
Lemma d_A02_475u : close ctol (8308476880671015 / 18014398509481984) (volts_A02 (4307586029041443 / 17592186044416)).
Proof. apply (A02_q_volts_hi 4307586029041443 17592186044416 8308476880671015 18014398509481984); [vm_compute; reflexivity | unfold fr, close, ctol, A02_lo, A02_hi, A02_c, A02_e; interval with (i_prec 80)]. Qed.
Lemma d_A02_488u : close ctol (4251855519985263 / 9007199254740992) (volts_A02 (4973964913062931 / 35184372088832)).
Proof. apply (A02_q_volts_mid 4973964913062931 35184372088832 4251855519985263 9007199254740992); [vm_compute; reflexivity | unfold fr, close, ctol, A02_lo, A02_hi, A02_c, A02_e; interval with (i_prec 80)]. Qed.
Lemma d_A02_500r : rio_reads A02_c A02_e A02_lo A02_hi floor_volts ctol (Build_rio (Fin (357539307115111 / 140737488355328)) (Fin (1 / 1)) (Fin (2907 / 1024)) (Fin (4997 / 1024)) (Fin (12039 / 1024)) false true true ((Fin (927 / 512)) :: (Fin (37 / 512)) :: (Fin (703 / 256)) :: (Fin (43805 / 256)) :: (Fin (6545 / 1024)) :: (Fin ((-12797) / 1024)) :: nil)) (45 / 2).
Proof. apply (A02_rio_fin _ (357539307115111 / 140737488355328)); [reflexivity | apply (A02_q_lo 357539307115111 140737488355328 45 2); [vm_compute; reflexivity | unfold fr, ctol, A02_lo, A02_c, A02_e; interval with (i_prec 80)]]. Qed.
Lemma d_A02_513u : close ctol (8761697259868057 / 18014398509481984) (volts_A02 (1203563033721625 / 8796093022208)).
Proof. apply (A02_q_volts_mid 1203563033721625 8796093022208 8761697259868057 18014398509481984); [vm_compute; reflexivity | unfold fr, close, ctol, A02_lo, A02_hi, A02_c, A02_e; interval with (i_prec 80)]. Qed.
Lemma d_A02_526u : close ctol (1407131736776691 / 2251799813685248) (volts_A02 (7323342855016715 / 70368744177664)).
Proof. apply (A02_q_volts_mid 7323342855016715 70368744177664 1407131736776691 2251799813685248); [vm_compute; reflexivity | unfold fr, close, ctol, A02_lo, A02_hi, A02_c, A02_e; interval with (i_prec 80)]. Qed.
Lemma d_A02_539u : close ctol (8426791645039915 / 18014398509481984) (volts_A02 (5023564809941987 / 35184372088832)).
Proof. apply (A02_q_volts_mid 5023564809941987 35184372088832 8426791645039915 18014398509481984); [vm_compute; reflexivity | unfold fr, close, ctol, A02_lo, A02_hi, A02_c, A02_e; interval with (i_prec 80)]. Qed.
Lemma d_A02_552u : close ctol (4306017416362629 / 9007199254740992) (volts_A02 (1226421322355163 / 8796093022208)).
Proof. apply (A02_q_volts_mid 1226421322355163 8796093022208 4306017416362629 9007199254740992); [vm_compute; reflexivity | unfold fr, close, ctol, A02_lo, A02_hi, A02_c, A02_e; interval with (i_prec 80)]. Qed.
Lemma d_A02_564r : rio_reads A02_c A02_e A02_lo A02_hi floor_volts ctol (Build_rio (Fin (4295605390657985 / 9007199254740992)) (Fin (1159 / 256)) (Fin (709 / 256)) (Fin (9449 / 1024)) (Fin (12 / 1)) true false false ((Fin (1903 / 1024)) :: (Fin (301 / 512)) :: (Fin (2593 / 1024)) :: (Fin (127461 / 1024)) :: (Fin (5613 / 1024)) :: (Fin (53871 / 1024)) :: nil)) (2459335736829585 / 17592186044416).
Proof. apply (A02_rio_fin _ (4295605390657985 / 9007199254740992)); [reflexivity | apply (A02_q_mid 4295605390657985 9007199254740992 2459335736829585 17592186044416); [vm_compute; reflexivity | unfold fr, close, ctol, A02_c, A02_e; interval with (i_prec 80)]]. Qed.
Lemma d_A02_577u : close ctol (5712917804755307 / 9007199254740992) (volts_A02 (7205290978984111 / 70368744177664)).
Proof. apply (A02_q_volts_mid 7205290978984111 70368744177664 5712917804755307 9007199254740992); [vm_compute; reflexivity | unfold fr, close, ctol, A02_lo, A02_hi, A02_c, A02_e; interval with (i_prec 80)]. Qed.
Lemma d_A02_590u : close ctol (690405130294997 / 562949953421312) (volts_A02 (1753516423917121 / 35184372088832)).
Proof. apply (A02_q_volts_mid 1753516423917121 35184372088832 690405130294997 562949953421312); [vm_compute; reflexivity | unfold fr, close, ctol, A02_lo, A02_hi, A02_c, A02_e; interval with (i_prec 80)]. Qed.
Lemma d_A02_603u : close ctol (8308476880671015 / 18014398509481984) (volts_A02 (4344643539432295 / 17592186044416)).
Proof. apply (A02_q_volts_hi 4344643539432295 17592186044416 8308476880671015 18014398509481984); [vm_compute; reflexivity | unfold fr, close, ctol, A02_lo, A02_hi, A02_c, A02_e; interval with (i_prec 80)]. Qed.
Lemma d_A02_616u : close ctol (6497777397626151 / 9007199254740992) (volts_A02 (6260387852955399 / 70368744177664)).
Proof. apply (A02_q_volts_mid 6260387852955399 70368744177664 6497777397626151 9007199254740992); [vm_compute; reflexivity | unfold fr, close, ctol, A02_lo, A02_hi, A02_c, A02_e; interval with (i_prec 80)]. Qed.
Lemma d_A02_628r : rio_reads A02_c A02_e A02_lo A02_hi floor_volts ctol (Build_rio (Fin (2633454374240497 / 2251799813685248)) (Fin (1261 / 256)) (Fin (1809 / 512)) (Fin (5387 / 1024)) (Fin (1613 / 128)) false true true ((Fin (139 / 256)) :: (Fin (631 / 512)) :: (Fin (1447 / 512)) :: (Fin (13637 / 1024)) :: (Fin (1143 / 128)) :: (Fin (29513 / 1024)) :: nil)) (3693828698045843 / 70368744177664).
Proof. apply (A02_rio_fin _ (2633454374240497 / 2251799813685248)); [reflexivity | apply (A02_q_mid 2633454374240497 2251799813685248 3693828698045843 70368744177664); [vm_compute; reflexivity | unfold fr, close, ctol, A02_c, A02_e; interval with (i_prec 80)]]. Qed.
Lemma d_A02_641u : close ctol (8035270555230353 / 4503599627370496) (volts_A02 (2328922986291351 / 70368744177664)).
Proof. apply (A02_q_volts_mid 2328922986291351 70368744177664 8035270555230353 4503599627370496); [vm_compute; reflexivity | unfold fr, close, ctol, A02_lo, A02_hi, A02_c, A02_e; interval with (i_prec 80)]. Qed.
Lemma d_A02_654u : close ctol (6562342213052975 / 9007199254740992) (volts_A02 (6193157756787871 / 70368744177664)).
Proof. apply (A02_q_volts_mid 6193157756787871 70368744177664 6562342213052975 9007199254740992); [vm_compute; reflexivity | unfold fr, close, ctol, A02_lo, A02_hi, A02_c, A02_e; interval with (i_prec 80)]. Qed.
Lemma r_A21_424 : rio_reads A21_c A21_e A21_lo A21_hi floor_volts ctol (Build_rio (Fin (5902958103587057 / 590295810358705651712)) (Fin (2589569785738035 / 562949953421312)) (Fin (3 / 1)) (Fin (11 / 2)) (Fin (21 / 2)) true true true ((Fin (3 / 2)) :: (Fin (3602879701896397 / 4503599627370496)) :: (Fin (2 / 1)) :: (Fin (90 / 1)) :: (Fin (27 / 4)) :: (Fin (70 / 1)) :: nil)) (80 / 1).
Proof. apply (A21_rio_fin _ (5902958103587057 / 590295810358705651712)); [reflexivity | apply (A21_q_hi 5902958103587057 590295810358705651712 80 1); [vm_compute; reflexivity | unfold fr, ctol, A21_hi, A21_c, A21_e; interval with (i_prec 80)]]. Qed.
Lemma r_A21_455 : rio_reads A21_c A21_e A21_lo A21_hi floor_volts ctol (Build_rio (Fin (12 / 1)) (Fin (5 / 1)) (Fin (3715469692580659 / 1125899906842624)) (Fin (6 / 1)) PInf true true true ((Fin (0 / 1)) :: (Fin (0 / 1)) :: (Fin (0 / 1)) :: (Fin (0 / 1)) :: (Fin (27 / 4)) :: (Fin (45 / 1)) :: nil)) (10 / 1).
Proof. apply (A21_rio_fin _ (12 / 1)); [reflexivity | apply (A21_q_lo 12 1 10 1); [vm_compute; reflexivity | unfold fr, ctol, A21_lo, A21_c, A21_e; interval with (i_prec 80)]]. Qed.
Lemma r_A21_473 : rio_reads A21_c A21_e A21_lo A21_hi floor_volts ctol (Build_rio (Fin (4978200706285705 / 2251799813685248)) (Fin (5 / 1)) (Fin (3715469692580659 / 1125899906842624)) (Fin (6 / 1)) (Fin (12 / 1)) true true true ((Fin (2 / 1)) :: (Fin (0 / 1)) :: (Fin (0 / 1)) :: (Fin (0 / 1)) :: (Fin (27 / 4)) :: (Fin (45 / 1)) :: nil)) (703687442639361 / 70368744177664).
Proof. apply (A21_rio_fin _ (4978200706285705 / 2251799813685248)); [reflexivity | apply (A21_q_mid 4978200706285705 2251799813685248 703687442639361 70368744177664); [vm_compute; reflexivity | unfold fr, close, ctol, A21_c, A21_e; interval with (i_prec 80)]]. Qed.
Lemma r_A21_489 : rio_reads A21_c A21_e A21_lo A21_hi floor_volts ctol (Build_rio (Fin (5 / 4096)) (Fin (5 / 1)) (Fin (3715469692580659 / 1125899906842624)) (Fin (6 / 1)) (Fin (12 / 1)) true true true ((Fin (0 / 1)) :: (Fin (0 / 1)) :: (Fin (0 / 1)) :: (Fin (0 / 1)) :: (Fin (27 / 4)) :: (Fin (45 / 1)) :: nil)) (80 / 1).
Proof. apply (A21_rio_fin _ (5 / 4096)); [reflexivity | apply (A21_q_hi 5 4096 80 1); [vm_compute; reflexivity | unfold fr, ctol, A21_hi, A21_c, A21_e; interval with (i_prec 80)]]. Qed.
Lemma r_A21_505 : rio_reads A21_c A21_e A21_lo A21_hi floor_volts ctol (Build_rio (Fin (75 / 256)) (Fin (4357 / 1024)) (Fin (3715469692580659 / 1125899906842624)) (Fin (6751 / 1024)) (Fin (12393 / 1024)) true true true ((Fin (483 / 256)) :: (Fin (17 / 16)) :: (Fin (2283 / 1024)) :: (Fin (57057 / 1024)) :: (Fin (8841 / 1024)) :: (Fin (64097 / 1024)) :: nil)) (80 / 1).
Proof. apply (A21_rio_fin _ (75 / 256)); [reflexivity | apply (A21_q_hi 75 256 80 1); [vm_compute; reflexivity | unfold fr, ctol, A21_hi, A21_c, A21_e; interval with (i_prec 80)]]. Qed.
Lemma r_A21_521 : rio_reads A21_c A21_e A21_lo A21_hi floor_volts ctol (Build_rio (Fin (155 / 256)) (Fin (4801 / 1024)) PInf (Fin (4705 / 512)) (Fin (10695 / 1024)) true true true ((Fin (3009 / 1024)) :: (Fin (1933 / 1024)) :: (Fin (1751 / 1024)) :: (Fin (7131 / 512)) :: (Fin (1953 / 512)) :: (Fin ((-16875) / 1024)) :: nil)) (3443060013684931 / 70368744177664).
Proof. apply (A21_rio_fin _ (155 / 256)); [reflexivity | apply (A21_q_mid 155 256 3443060013684931 70368744177664); [vm_compute; reflexivity | unfold fr, close, ctol, A21_c, A21_e; interval with (i_prec 80)]]. Qed.
Lemma r_A21_537 : rio_reads A21_c A21_e A21_lo A21_hi floor_volts ctol (Build_rio (Fin (235 / 256)) (Fin (5 / 1)) (Fin (3715469692580659 / 1125899906842624)) (Fin (6 / 1)) (Fin (12 / 1)) true true true ((Fin (0 / 1)) :: (Fin (0 / 1)) :: (Fin (0 / 1)) :: (Fin (0 / 1)) :: (Fin (27 / 4)) :: (Fin (45 / 1)) :: nil)) (8268410823517847 / 281474976710656).
Proof. apply (A21_rio_fin _ (235 / 256)); [reflexivity | apply (A21_q_mid 235 256 8268410823517847 281474976710656); [vm_compute; reflexivity | unfold fr, close, ctol, A21_c, A21_e; interval with (i_prec 80)]]. Qed.
Lemma r_A21_553 : rio_reads A21_c A21_e A21_lo A21_hi floor_volts ctol (Build_rio (Fin (315 / 256)) (Fin (2247 / 512)) (Fin (10967 / 1024)) (Fin (4933 / 1024)) (Fin (12735 / 1024)) true true true ((Fin (251 / 512)) :: (Fin (707 / 512)) :: (Fin (2027 / 1024)) :: (Fin (13535 / 256)) :: (Fin (4565 / 1024)) :: (Fin (30933 / 1024)) :: nil)) (2886639242419963 / 140737488355328).
Proof. apply (A21_rio_fin _ (315 / 256)); [reflexivity | apply (A21_q_mid 315 256 2886639242419963 140737488355328); [vm_compute; reflexivity | unfold fr, close, ctol, A21_c, A21_e; interval with (i_prec 80)]]. Qed.
Lemma r_A21_569 : rio_reads A21_c A21_e A21_lo A21_hi floor_volts ctol (Build_rio (Fin (395 / 256)) (Fin (5177 / 1024)) (Fin (0 / 1)) (Fin (2787 / 1024)) (Fin (12 / 1)) true false true ((Fin (271 / 512)) :: (Fin (1521 / 1024)) :: (Fin (2551 / 1024)) :: (Fin (15849 / 256)) :: (Fin (8925 / 1024)) :: (Fin (569 / 8)) :: nil)) (2187223739972699 / 140737488355328).
Proof. apply (A21_rio_fin _ (395 / 256)); [reflexivity | apply (A21_q_mid 395 256 2187223739972699 140737488355328); [vm_compute; reflexivity | unfold fr, close, ctol, A21_c, A21_e; interval with (i_prec 80)]]. Qed.
Lemma r_A21_585 : rio_reads A21_c A21_e A21_lo A21_hi floor_volts ctol (Build_rio (Fin (475 / 256)) (Fin (5 / 1)) (Fin (3715469692580659 / 1125899906842624)) (Fin (6 / 1)) (Fin (12 / 1)) true true true ((Fin (0 / 1)) :: (Fin (0 / 1)) :: (Fin (0 / 1)) :: (Fin (0 / 1)) :: (Fin (27 / 4)) :: (Fin (45 / 1)) :: nil)) (1744596050197745 / 140737488355328).
Proof. apply (A21_rio_fin _ (475 / 256)); [reflexivity | apply (A21_q_mid 475 256 1744596050197745 140737488355328); [vm_compute; reflexivity | unfold fr, close, ctol, A21_c, A21_e; interval with (i_prec 80)]]. Qed.
Lemma r_A21_601 : rio_reads A21_c A21_e A21_lo A21_hi floor_volts ctol (Build_rio (Fin (555 / 256)) (Fin (4485 / 1024)) (Fin (3715469692580659 / 1125899906842624)) (Fin (707 / 128)) (Fin (5667 / 512)) true true true ((Fin (71 / 256)) :: (Fin (995 / 512)) :: (Fin (2297 / 1024)) :: (Fin (65739 / 512)) :: (Fin (8585 / 1024)) :: (Fin ((-787) / 256)) :: nil)) (2883022612021225 / 281474976710656).
Proof. apply (A21_rio_fin _ (555 / 256)); [reflexivity | apply (A21_q_mid 555 256 2883022612021225 281474976710656); [vm_compute; reflexivity | unfold fr, close, ctol, A21_c, A21_e; interval with (i_prec 80)]]. Qed.
Lemma r_A21_617 : rio_reads A21_c A21_e A21_lo A21_hi floor_volts ctol (Build_rio (Fin (635 / 256)) (Fin ((-1) / 1)) (Fin (12413 / 1024)) (Fin (1417 / 256)) (Fin (2555 / 256)) true true true ((Fin (1625 / 1024)) :: (Fin (7 / 128)) :: (Fin (1629 / 1024)) :: (Fin (53605 / 512)) :: (Fin (451 / 128)) :: (Fin (2921 / 64)) :: nil)) (10 / 1).
Proof. apply (A21_rio_fin _ (635 / 256)); [reflexivity | apply (A21_q_lo 635 256 10 1); [vm_compute; reflexivity | unfold fr, ctol, A21_lo, A21_c, A21_e; interval with (i_prec 80)]]. Qed.
Lemma r_A21_633 : rio_reads A21_c A21_e A21_lo A21_hi floor_volts ctol (Build_rio (Fin (715 / 256)) (Fin (5 / 1)) (Fin (3715469692580659 / 1125899906842624)) (Fin (6 / 1)) (Fin (12 / 1)) true true true ((Fin (0 / 1)) :: (Fin (0 / 1)) :: (Fin (0 / 1)) :: (Fin (0 / 1)) :: (Fin (27 / 4)) :: (Fin (45 / 1)) :: nil)) (10 / 1).
Proof. apply (A21_rio_fin _ (715 / 256)); [reflexivity | apply (A21_q_lo 715 256 10 1); [vm_compute; reflexivity | unfold fr, ctol, A21_lo, A21_c, A21_e; interval with (i_prec 80)]]. Qed.
Lemma r_A21_649 : rio_reads A21_c A21_e A21_lo A21_hi floor_volts ctol (Build_rio (Fin (795 / 256)) (Fin (5 / 1)) (Fin (739 / 1024)) (Fin (6 / 1)) (Fin (1309 / 1024)) true true false ((Fin (2909 / 1024)) :: (Fin (1487 / 1024)) :: (Fin (2137 / 1024)) :: (Fin (3899 / 1024)) :: (Fin (5317 / 1024)) :: (Fin (6027 / 256)) :: nil)) (10 / 1).
Proof. apply (A21_rio_fin _ (795 / 256)); [reflexivity | apply (A21_q_lo 795 256 10 1); [vm_compute; reflexivity | unfold fr, ctol, A21_lo, A21_c, A21_e; interval with (i_prec 80)]]. Qed.
Lemma r_A21_665 : rio_reads A21_c A21_e A21_lo A21_hi floor_volts ctol (Build_rio (Fin (875 / 256)) (Fin (5 / 1)) (Fin (1413 / 512)) (Fin (6327 / 1024)) (Fin (12 / 1)) false true true ((Fin (119 / 128)) :: (Fin (27 / 64)) :: (Fin (1671 / 1024)) :: (Fin (104665 / 1024)) :: (Fin (5745 / 1024)) :: (Fin (36207 / 1024)) :: nil)) (10 / 1).
Proof. apply (A21_rio_fin _ (875 / 256)); [reflexivity | apply (A21_q_lo 875 256 10 1); [vm_compute; reflexivity | unfold fr, ctol, A21_lo, A21_c, A21_e; interval with (i_prec 80)]]. Qed.
Lemma r_A21_681 : rio_reads A21_c A21_e A21_lo A21_hi floor_volts ctol (Build_rio (Fin (955 / 256)) (Fin (5 / 1)) (Fin (3715469692580659 / 1125899906842624)) (Fin (6 / 1)) (Fin (12 / 1)) true true true ((Fin (0 / 1)) :: (Fin (0 / 1)) :: (Fin (0 / 1)) :: (Fin (0 / 1)) :: (Fin (27 / 4)) :: (Fin (45 / 1)) :: nil)) (10 / 1).
Proof. apply (A21_rio_fin _ (955 / 256)); [reflexivity | apply (A21_q_lo 955 256 10 1); [vm_compute; reflexivity | unfold fr, ctol, A21_lo, A21_c, A21_e; interval with (i_prec 80)]]. Qed.
Lemma r_A21_697 : rio_reads A21_c A21_e A21_lo A21_hi floor_volts ctol (Build_rio (Fin (1035 / 256)) (Fin (4969 / 1024)) (Fin (1 / 1)) (Fin (5902958103587057 / 590295810358705651712)) (Fin (10243 / 1024)) true true true ((Fin (217 / 128)) :: (Fin (1463 / 1024)) :: (Fin (445 / 1024)) :: (Fin (21693 / 512)) :: (Fin (2201 / 256)) :: (Fin ((-1885) / 128)) :: nil)) (10 / 1).
Proof. apply (A21_rio_fin _ (1035 / 256)); [reflexivity | apply (A21_q_lo 1035 256 10 1); [vm_compute; reflexivity | unfold fr, ctol, A21_lo, A21_c, A21_e; interval with (i_prec 80)]]. Qed.
Lemma r_A21_713 : rio_reads A21_c A21_e A21_lo A21_hi floor_volts ctol (Build_rio (Fin (1115 / 256)) (Fin (2795 / 512)) (Fin (345 / 128)) (Fin (6 / 1)) (Fin (2469 / 256)) true true true ((Fin (2527 / 1024)) :: (Fin (885 / 1024)) :: (Fin (321 / 256)) :: (Fin (41693 / 1024)) :: (Fin (3637 / 512)) :: (Fin (41519 / 512)) :: nil)) (10 / 1).
Proof. apply (A21_rio_fin _ (1115 / 256)); [reflexivity | apply (A21_q_lo 1115 256 10 1); [vm_compute; reflexivity | unfold fr, ctol, A21_lo, A21_c, A21_e; interval with (i_prec 80)]]. Qed.
Lemma r_A21_729 : rio_reads A21_c A21_e A21_lo A21_hi floor_volts ctol (Build_rio (Fin (1195 / 256)) (Fin (5 / 1)) (Fin (3715469692580659 / 1125899906842624)) (Fin (6 / 1)) (Fin (12 / 1)) true true true ((Fin (0 / 1)) :: (Fin (0 / 1)) :: (Fin (0 / 1)) :: (Fin (0 / 1)) :: (Fin (27 / 4)) :: (Fin (45 / 1)) :: nil)) (10 / 1).
Proof. apply (A21_rio_fin _ (1195 / 256)); [reflexivity | apply (A21_q_lo 1195 256 10 1); [vm_compute; reflexivity | unfold fr, ctol, A21_lo, A21_c, A21_e; interval with (i_prec 80)]]. Qed.
Lemma r_A21_745 : rio_reads A21_c A21_e A21_lo A21_hi floor_volts ctol (Build_rio (Fin (1275 / 256)) (Fin (645 / 128)) (Fin (1 / 1)) (Fin (6 / 1)) (Fin (12 / 1)) true true true ((Fin (2997 / 1024)) :: (Fin (881 / 512)) :: (Fin (2823 / 1024)) :: (Fin (57539 / 1024)) :: (Fin (3179 / 1024)) :: (Fin (39305 / 1024)) :: nil)) (10 / 1).
Proof. apply (A21_rio_fin _ (1275 / 256)); [reflexivity | apply (A21_q_lo 1275 256 10 1); [vm_compute; reflexivity | unfold fr, ctol, A21_lo, A21_c, A21_e; interval with (i_prec 80)]]. Qed.
Lemma r_A21_761 : rio_reads A21_c A21_e A21_lo A21_hi floor_volts ctol (Build_rio (Fin (1835836014495579 / 562949953421312)) (Fin (7245 / 1024)) (Fin (3715469692580659 / 1125899906842624)) (Fin (6691 / 1024)) (Fin (5815 / 512)) true true true ((Fin (801 / 1024)) :: (Fin (561 / 1024)) :: (Fin (2601 / 1024)) :: (Fin (66473 / 512)) :: (Fin (1415 / 256)) :: (Fin ((-2501) / 128)) :: nil)) (10 / 1).
Proof. apply (A21_rio_fin _ (1835836014495579 / 562949953421312)); [reflexivity | apply (A21_q_lo 1835836014495579 562949953421312 10 1); [vm_compute; reflexivity | unfold fr, ctol, A21_lo, A21_c, A21_e; interval with (i_prec 80)]]. Qed.
Lemma r_A21_777 : rio_reads A21_c A21_e A21_lo A21_hi floor_volts ctol (Build_rio (Fin (1286104675222485 / 2251799813685248)) (Fin (5 / 1)) (Fin (3715469692580659 / 1125899906842624)) (Fin (6 / 1)) (Fin (12 / 1)) true true true ((Fin (0 / 1)) :: (Fin (0 / 1)) :: (Fin (0 / 1)) :: (Fin (0 / 1)) :: (Fin (27 / 4)) :: (Fin (45 / 1)) :: nil)) (1849216695464993 / 35184372088832).
Proof. apply (A21_rio_fin _ (1286104675222485 / 2251799813685248)); [reflexivity | apply (A21_q_mid 1286104675222485 2251799813685248 1849216695464993 35184372088832); [vm_compute; reflexivity | unfold fr, close, ctol, A21_c, A21_e; interval with (i_prec 80)]]. Qed.
Lemma r_A21_793 : rio_reads A21_c A21_e A21_lo A21_hi floor_volts ctol (Build_rio (Fin (1762931331770053 / 562949953421312)) (Fin (2529 / 512)) (Fin (3251 / 1024)) (Fin (4987 / 1024)) (Fin (49 / 4)) true true true ((Fin (117 / 512)) :: (Fin (313 / 512)) :: (Fin (1409 / 1024)) :: (Fin (87109 / 1024)) :: (Fin (2217 / 512)) :: (Fin (1855 / 256)) :: nil)) (10 / 1).
Proof. apply (A21_rio_fin _ (1762931331770053 / 562949953421312)); [reflexivity | apply (A21_q_lo 1762931331770053 562949953421312 10 1); [vm_compute; reflexivity | unfold fr, ctol, A21_lo, A21_c, A21_e; interval with (i_prec 80)]]. Qed.
Lemma r_A21_809 : rio_reads A21_c A21_e A21_lo A21_hi floor_volts ctol (Build_rio (Fin (6317492529052749 / 295147905179352825856)) (Fin (2133 / 512)) (Fin (3255 / 1024)) (Fin (5437 / 1024)) (Fin (12879 / 1024)) true true true ((Fin (431 / 1024)) :: (Fin (1689 / 1024)) :: (Fin (173 / 1024)) :: (Fin (12161 / 64)) :: (Fin (3623 / 1024)) :: (Fin (20383 / 512)) :: nil)) (80 / 1).
Proof. apply (A21_rio_fin _ (6317492529052749 / 295147905179352825856)); [reflexivity | apply (A21_q_hi 6317492529052749 295147905179352825856 80 1); [vm_compute; reflexivity | unfold fr, ctol, A21_hi, A21_c, A21_e; interval with (i_prec 80)]]. Qed.
Lemma r_A21_832 : rio_reads A21_c A21_e A21_lo A21_hi floor_volts ctol (Build_rio (Fin (1291356528906343 / 70368744177664)) (Fin (5 / 1)) (Fin (2997 / 1024)) (Fin (5413 / 1024)) (Fin (12 / 1)) false true true ((Fin (2247 / 1024)) :: (Fin (479 / 512)) :: (Fin (15 / 32)) :: (Fin (157393 / 1024)) :: (Fin (397 / 128)) :: (Fin (35395 / 512)) :: nil)) (10 / 1).
Proof. apply (A21_rio_fin _ (1291356528906343 / 70368744177664)); [reflexivity | apply (A21_q_lo 1291356528906343 70368744177664 10 1); [vm_compute; reflexivity | unfold fr, ctol, A21_lo, A21_c, A21_e; interval with (i_prec 80)]]. Qed.
Lemma d_A21_669u : close ctol (2489100355631953 / 1125899906842624) (volts_A21 (10 / 1)).
Proof. apply (A21_q_volts_lo 10 1 2489100355631953 1125899906842624); [vm_compute; reflexivity | unfold fr, close, ctol, A21_lo, A21_hi, A21_c, A21_e; interval with (i_prec 80)]. Qed.
Lemma d_A21_677u : close ctol (2357699125463541 / 2251799813685248) (volts_A21 (25 / 1)).
Proof. apply (A21_q_volts_mid 25 1 2357699125463541 2251799813685248); [vm_compute; reflexivity | unfold fr, close, ctol, A21_lo, A21_hi, A21_c, A21_e; interval with (i_prec 80)]. Qed.
Lemma d_A21_685u : close ctol (2489100355631953 / 1125899906842624) (volts_A21 (0 / 1)).
Proof. apply (A21_q_volts_lo 0 1 2489100355631953 1125899906842624); [vm_compute; reflexivity | unfold fr, close, ctol, A21_lo, A21_hi, A21_c, A21_e; interval with (i_prec 80)]. Qed.
Lemma d_A21_693u : close ctol (2489100355631953 / 1125899906842624) (volts_A21 (1 / 1)).
Proof. apply (A21_q_volts_lo 1 1 2489100355631953 1125899906842624); [vm_compute; reflexivity | unfold fr, close, ctol, A21_lo, A21_hi, A21_c, A21_e; interval with (i_prec 80)]. Qed.
Lemma d_A21_701u : close ctol (7303775102731699 / 18014398509481984) (volts_A21 (100 / 1)).
Proof. apply (A21_q_volts_hi 100 1 7303775102731699 18014398509481984); [vm_compute; reflexivity | unfold fr, close, ctol, A21_lo, A21_hi, A21_c, A21_e; interval with (i_prec 80)]. Qed.
Lemma d_A21_709u : close ctol (2489100355631953 / 1125899906842624) (volts_A21 (10 / 1)).
Proof. apply (A21_q_volts_lo 10 1 2489100355631953 1125899906842624); [vm_compute; reflexivity | unfold fr, close, ctol, A21_lo, A21_hi, A21_c, A21_e; interval with (i_prec 80)]. Qed.
Lemma d_A21_717u : close ctol (7303775108689101 / 18014398509481984) (volts_A21 (5629499528583621 / 70368744177664)).
Proof. apply (A21_q_volts_mid 5629499528583621 70368744177664 7303775108689101 18014398509481984); [vm_compute; reflexivity | unfold fr, close, ctol, A21_lo, A21_hi, A21_c, A21_e; interval with (i_prec 80)]. Qed.
Lemma d_A21_725u : close ctol (7303775102731699 / 18014398509481984) (volts_A21 (8111348463907377 / 17592186044416)).
Proof. apply (A21_q_volts_hi 8111348463907377 17592186044416 7303775102731699 18014398509481984); [vm_compute; reflexivity | unfold fr, close, ctol, A21_lo, A21_hi, A21_c, A21_e; interval with (i_prec 80)]. Qed.
Lemma d_A21_738u : close ctol (3790427197476191 / 9007199254740992) (volts_A21 (5378292673297265 / 70368744177664)).
Proof. apply (A21_q_volts_mid 5378292673297265 70368744177664 3790427197476191 9007199254740992); [vm_compute; reflexivity | unfold fr, close, ctol, A21_lo, A21_hi, A21_c, A21_e; interval with (i_prec 80)]. Qed.
Lemma d_A21_751u : close ctol (1441094136818925 / 2251799813685248) (volts_A21 (3216871724865271 / 70368744177664)).
Proof. apply (A21_q_volts_mid 3216871724865271 70368744177664 1441094136818925 2251799813685248); [vm_compute; reflexivity | unfold fr, close, ctol, A21_lo, A21_hi, A21_c, A21_e; interval with (i_prec 80)]. Qed.
Lemma d_A21_764u : close ctol (7117700504250155 / 4503599627370496) (volts_A21 (8495224167213917 / 562949953421312)).
Proof. apply (A21_q_volts_mid 8495224167213917 562949953421312 7117700504250155 4503599627370496); [vm_compute; reflexivity | unfold fr, close, ctol, A21_lo, A21_hi, A21_c, A21_e; interval with (i_prec 80)]. Qed.
Lemma d_A21_776r : rio_reads A21_c A21_e A21_lo A21_hi floor_volts ctol (Build_rio (Fin (7303775102731699 / 18014398509481984)) PInf (Fin (3521 / 1024)) (Fin (6 / 1)) (Fin (14949 / 1024)) true false false ((Fin (2565 / 1024)) :: (Fin (1991 / 1024)) :: (Fin (79 / 1024)) :: (Fin (87369 / 1024)) :: (Fin (3511 / 1024)) :: (Fin (29633 / 1024)) :: nil)) (80 / 1).
Proof. apply (A21_rio_fin _ (7303775102731699 / 18014398509481984)); [reflexivity | apply (A21_q_hi 7303775102731699 18014398509481984 80 1); [vm_compute; reflexivity | unfold fr, ctol, A21_hi, A21_c, A21_e; interval with (i_prec 80)]]. Qed.
Lemma d_A21_789u : close ctol (582064971082411 / 1125899906842624) (volts_A21 (8358007799861677 / 140737488355328)).
Proof. apply (A21_q_volts_mid 8358007799861677 140737488355328 582064971082411 1125899906842624); [vm_compute; reflexivity | unfold fr, close, ctol, A21_lo, A21_hi, A21_c, A21_e; interval with (i_prec 80)]. Qed.
Lemma d_A21_802u : close ctol (7303775102731699 / 18014398509481984) (volts_A21 (2878738725540581 / 17592186044416)).
Proof. apply (A21_q_volts_hi 2878738725540581 17592186044416 7303775102731699 18014398509481984); [vm_compute; reflexivity | unfold fr, close, ctol, A21_lo, A21_hi, A21_c, A21_e; interval with (i_prec 80)]. Qed.
Lemma d_A21_815u : close ctol (2489100355631953 / 1125899906842624) (volts_A21 ((-8844230855781771) / 2251799813685248)).
Proof. apply (A21_q_volts_lo (-8844230855781771) 2251799813685248 2489100355631953 1125899906842624); [vm_compute; reflexivity | unfold fr, close, ctol, A21_lo, A21_hi, A21_c, A21_e; interval with (i_prec 80)]. Qed.
Lemma d_A21_828u : close ctol (4018616892853445 / 9007199254740992) (volts_A21 (5006315286486913 / 70368744177664)).
Proof. apply (A21_q_volts_mid 5006315286486913 70368744177664 4018616892853445 9007199254740992); [vm_compute; reflexivity | unfold fr, close, ctol, A21_lo, A21_hi, A21_c, A21_e; interval with (i_prec 80)]. Qed.
Lemma d_A21_840r : rio_reads A21_c A21_e A21_lo A21_hi floor_volts ctol (Build_rio (Fin (3039530192742029 / 4503599627370496)) (Fin (5 / 1)) (Fin (3715469692580659 / 1125899906842624)) (Fin (1351 / 256)) (Fin (1795 / 512)) true true true ((Fin (1749 / 1024)) :: (Fin (915 / 512)) :: (Fin (15 / 1024)) :: (Fin (23347 / 128)) :: (Fin (6889 / 1024)) :: (Fin ((-8421) / 1024)) :: nil)) (6027852466547263 / 140737488355328).
Proof. apply (A21_rio_fin _ (3039530192742029 / 4503599627370496)); [reflexivity | apply (A21_q_mid 3039530192742029 4503599627370496 6027852466547263 140737488355328); [vm_compute; reflexivity | unfold fr, close, ctol, A21_c, A21_e; interval with (i_prec 80)]]. Qed.
Lemma d_A21_853u : close ctol (7493295751947041 / 4503599627370496) (volts_A21 (1994042419174615 / 140737488355328)).
Proof. apply (A21_q_volts_mid 1994042419174615 140737488355328 7493295751947041 4503599627370496); [vm_compute; reflexivity | unfold fr, close, ctol, A21_lo, A21_hi, A21_c, A21_e; interval with (i_prec 80)]. Qed.
Lemma d_A21_866u : close ctol (7303775102731699 / 18014398509481984) (volts_A21 (2661155068907275 / 17592186044416)).
Proof. apply (A21_q_volts_hi 2661155068907275 17592186044416 7303775102731699 18014398509481984); [vm_compute; reflexivity | unfold fr, close, ctol, A21_lo, A21_hi, A21_c, A21_e; interval with (i_prec 80)]. Qed.
Lemma d_A21_879u : close ctol (2489100355631953 / 1125899906842624) (volts_A21 ((-253947150907407) / 281474976710656)).
Proof. apply (A21_q_volts_lo (-253947150907407) 281474976710656 2489100355631953 1125899906842624); [vm_compute; reflexivity | unfold fr, close, ctol, A21_lo, A21_hi, A21_c, A21_e; interval with (i_prec 80)]. Qed.
Lemma d_A21_892u : close ctol (5041185825963405 / 9007199254740992) (volts_A21 (947874905953381 / 17592186044416)).
Proof. apply (A21_q_volts_mid 947874905953381 17592186044416 5041185825963405 9007199254740992); [vm_compute; reflexivity | unfold fr, close, ctol, A21_lo, A21_hi, A21_c, A21_e; interval with (i_prec 80)]. Qed.
Lemma d_A21_904r : rio_reads A21_c A21_e A21_lo A21_hi floor_volts ctol (Build_rio (Fin (7303775102731699 / 18014398509481984)) (Fin (5 / 1)) (Fin (1711 / 512)) (Fin (6177 / 1024)) (Fin (11989 / 1024)) false true true ((Fin (155 / 1024)) :: (Fin (201 / 128)) :: (Fin (2663 / 1024)) :: (Fin (17077 / 512)) :: (Fin (4963 / 1024)) :: (Fin (27399 / 512)) :: nil)) (80 / 1).
Proof. apply (A21_rio_fin _ (7303775102731699 / 18014398509481984)); [reflexivity | apply (A21_q_hi 7303775102731699 18014398509481984 80 1); [vm_compute; reflexivity | unfold fr, ctol, A21_hi, A21_c, A21_e; interval with (i_prec 80)]]. Qed.
Lemma d_A21_917u : close ctol (3729893590880549 / 9007199254740992) (volts_A21 (342843795769941 / 4398046511104)).
Proof. apply (A21_q_volts_mid 342843795769941 4398046511104 3729893590880549 9007199254740992); [vm_compute; reflexivity | unfold fr, close, ctol, A21_lo, A21_hi, A21_c, A21_e; interval with (i_prec 80)]. Qed.
Lemma d_A21_930u : close ctol (4611248289351063 / 2251799813685248) (volts_A21 (1545891723279311 / 140737488355328)).
Proof. apply (A21_q_volts_mid 1545891723279311 140737488355328 4611248289351063 2251799813685248); [vm_compute; reflexivity | unfold fr, close, ctol, A21_lo, A21_hi, A21_c, A21_e; interval with (i_prec 80)]. Qed.
Lemma d_A21_943u : close ctol (5268651962260547 / 4503599627370496) (volts_A21 (6141998864360469 / 281474976710656)).
Proof. apply (A21_q_volts_mid 6141998864360469 281474976710656 5268651962260547 4503599627370496); [vm_compute; reflexivity | unfold fr, close, ctol, A21_lo, A21_hi, A21_c, A21_e; interval with (i_prec 80)]. Qed.
Lemma d_A21_956u : close ctol (1239336777930395 / 1125899906842624) (volts_A21 (6618165975764559 / 281474976710656)).
Proof. apply (A21_q_volts_mid 6618165975764559 281474976710656 1239336777930395 1125899906842624); [vm_compute; reflexivity | unfold fr, close, ctol, A21_lo, A21_hi, A21_c, A21_e; interval with (i_prec 80)]. Qed.
Lemma d_A21_968r : rio_reads A21_c A21_e A21_lo A21_hi floor_volts ctol (Build_rio (Fin (7303775102731699 / 18014398509481984)) (Fin (5902958103587057 / 590295810358705651712)) (Fin (1535 / 512)) (Fin (2665 / 512)) (Fin (625 / 64)) true true true ((Fin (2431 / 1024)) :: (Fin (495 / 1024)) :: (Fin (611 / 256)) :: (Fin (124163 / 1024)) :: (Fin (3459 / 512)) :: (Fin (36087 / 1024)) :: nil)) (80 / 1).
Proof. apply (A21_rio_fin _ (7303775102731699 / 18014398509481984)); [reflexivity | apply (A21_q_hi 7303775102731699 18014398509481984 80 1); [vm_compute; reflexivity | unfold fr, ctol, A21_hi, A21_c, A21_e; interval with (i_prec 80)]]. Qed.
Lemma d_A21_981u : close ctol (6253758147752275 / 9007199254740992) (volts_A21 (1455516568757959 / 35184372088832)).
Proof. apply (A21_q_volts_mid 1455516568757959 35184372088832 6253758147752275 9007199254740992); [vm_compute; reflexivity | unfold fr, close, ctol, A21_lo, A21_hi, A21_c, A21_e; interval with (i_prec 80)]. Qed.
Lemma d_A21_994u : close ctol (2640454069199327 / 4503599627370496) (volts_A21 (3581585770035561 / 70368744177664)).
Proof. apply (A21_q_volts_mid 3581585770035561 70368744177664 2640454069199327 4503599627370496); [vm_compute; reflexivity | unfold fr, close, ctol, A21_lo, A21_hi, A21_c, A21_e; interval with (i_prec 80)]. Qed.
Lemma d_A21_1007u : close ctol (3796044449642971 / 2251799813685248) (volts_A21 (3924554792823699 / 281474976710656)).
Proof. apply (A21_q_volts_mid 3924554792823699 281474976710656 3796044449642971 2251799813685248); [vm_compute; reflexivity | unfold fr, close, ctol, A21_lo, A21_hi, A21_c, A21_e; interval with (i_prec 80)]. Qed.
Lemma d_A21_1020u : close ctol (920045809052963 / 1125899906842624) (volts_A21 (1191975717718271 / 35184372088832)).
Proof. apply (A21_q_volts_mid 1191975717718271 35184372088832 920045809052963 1125899906842624); [vm_compute; reflexivity | unfold fr, close, ctol, A21_lo, A21_hi, A21_c, A21_e; interval with (i_prec 80)]. Qed.
Lemma d_A21_1032r : rio_reads A21_c A21_e A21_lo A21_hi floor_volts ctol (Build_rio (Fin (5646874802343993 / 9007199254740992)) (Fin (0 / 1)) (Fin (3537 / 1024)) (Fin (6 / 1)) (Fin (12 / 1)) false false true ((Fin (2489 / 1024)) :: (Fin (27 / 16)) :: (Fin (687 / 256)) :: (Fin (2363 / 64)) :: (Fin (2123 / 512)) :: (Fin (18341 / 512)) :: nil)) (6598258229399853 / 140737488355328).
Proof. apply (A21_rio_fin _ (5646874802343993 / 9007199254740992)); [reflexivity | apply (A21_q_mid 5646874802343993 9007199254740992 6598258229399853 140737488355328); [vm_compute; reflexivity | unfold fr, close, ctol, A21_c, A21_e; interval with (i_prec 80)]]. Qed.
Lemma d_A21_1045u : close ctol (7094432519452603 / 9007199254740992) (volts_A21 (623492265361577 / 17592186044416)).
Proof. apply (A21_q_volts_mid 623492265361577 17592186044416 7094432519452603 9007199254740992); [vm_compute; reflexivity | unfold fr, close, ctol, A21_lo, A21_hi, A21_c, A21_e; interval with (i_prec 80)]. Qed.
Lemma d_A21_1058u : close ctol (5869524866669095 / 4503599627370496) (volts_A21 (2690147689650565 / 140737488355328)).
Proof. apply (A21_q_volts_mid 2690147689650565 140737488355328 5869524866669095 4503599627370496); [vm_compute; reflexivity | unfold fr, close, ctol, A21_lo, A21_hi, A21_c, A21_e; interval with (i_prec 80)]. Qed.
Lemma d_A21_1071u : close ctol (2402012812478965 / 2251799813685248) (volts_A21 (6878048208860543 / 281474976710656)).
Proof. apply (A21_q_volts_mid 6878048208860543 281474976710656 2402012812478965 2251799813685248); [vm_compute; reflexivity | unfold fr, close, ctol, A21_lo, A21_hi, A21_c, A21_e; interval with (i_prec 80)]. Qed.
Lemma d_A21_1084u : close ctol (8486411961356645 / 18014398509481984) (volts_A21 (2341710133713361 / 35184372088832)).
Proof. apply (A21_q_volts_mid 2341710133713361 35184372088832 8486411961356645 18014398509481984); [vm_compute; reflexivity | unfold fr, close, ctol, A21_lo, A21_hi, A21_c, A21_e; interval with (i_prec 80)]. Qed.
Lemma d_A21_1096r : rio_reads A21_c A21_e A21_lo A21_hi floor_volts ctol (Build_rio (Fin (3144253473878649 / 2251799813685248)) NInf (Fin (703 / 256)) (Fin (2785 / 512)) (Fin (12 / 1)) true true true ((Fin (2369 / 1024)) :: (Fin (1905 / 1024)) :: (Fin (199 / 512)) :: (Fin (50567 / 512)) :: (Fin (439 / 128)) :: (Fin (13847 / 256)) :: nil)) (1236044340564945 / 70368744177664).
Proof. apply (A21_rio_fin _ (3144253473878649 / 2251799813685248)); [reflexivity | apply (A21_q_mid 3144253473878649 2251799813685248 1236044340564945 70368744177664); [vm_compute; reflexivity | unfold fr, close, ctol, A21_c, A21_e; interval with (i_prec 80)]]. Qed.
Lemma d_A21_1109u : close ctol (2489100355631953 / 1125899906842624) (volts_A21 (3231503839827901 / 1125899906842624)).
Proof. apply (A21_q_volts_lo 3231503839827901 1125899906842624 2489100355631953 1125899906842624); [vm_compute; reflexivity | unfold fr, close, ctol, A21_lo, A21_hi, A21_c, A21_e; interval with (i_prec 80)]. Qed.
Lemma d_A21_1122u : close ctol (2489100355631953 / 1125899906842624) (volts_A21 ((-2868592983343709) / 2251799813685248)).
Proof. apply (A21_q_volts_lo (-2868592983343709) 2251799813685248 2489100355631953 1125899906842624); [vm_compute; reflexivity | unfold fr, close, ctol, A21_lo, A21_hi, A21_c, A21_e; interval with (i_prec 80)]. Qed.
Lemma d_A21_1135u : close ctol (7303775102731699 / 18014398509481984) (volts_A21 (2732455911754817 / 17592186044416)).
Proof. apply (A21_q_volts_hi 2732455911754817 17592186044416 7303775102731699 18014398509481984); [vm_compute; reflexivity | unfold fr, close, ctol, A21_lo, A21_hi, A21_c, A21_e; interval with (i_prec 80)]. Qed.
Lemma d_A21_1148u : close ctol (2280834764676667 / 4503599627370496) (volts_A21 (8571568660071523 / 140737488355328)).
Proof. apply (A21_q_volts_mid 8571568660071523 140737488355328 2280834764676667 4503599627370496); [vm_compute; reflexivity | unfold fr, close, ctol, A21_lo, A21_hi, A21_c, A21_e; interval with (i_prec 80)]. Qed.
Lemma d_A21_1160r : rio_reads A21_c A21_e A21_lo A21_hi floor_volts ctol (Build_rio (Fin (2489100355631953 / 1125899906842624)) (Fin (2639 / 256)) PInf (Fin (5773 / 1024)) (Fin (5559 / 512)) true true false ((Fin (2575 / 1024)) :: (Fin (1303 / 1024)) :: (Fin (381 / 1024)) :: (Fin (21383 / 512)) :: (Fin (8201 / 1024)) :: (Fin (20085 / 1024)) :: nil)) (10 / 1).
Proof. apply (A21_rio_fin _ (2489100355631953 / 1125899906842624)); [reflexivity | apply (A21_q_lo 2489100355631953 1125899906842624 10 1); [vm_compute; reflexivity | unfold fr, ctol, A21_lo, A21_c, A21_e; interval with (i_prec 80)]]. Qed.
Lemma d_A21_1173u : close ctol (6003065412527595 / 9007199254740992) (volts_A21 (3060770201820825 / 70368744177664)).
Proof. apply (A21_q_volts_mid 3060770201820825 70368744177664 6003065412527595 9007199254740992); [vm_compute; reflexivity | unfold fr, close, ctol, A21_lo, A21_hi, A21_c, A21_e; interval with (i_prec 80)]. Qed.
Lemma d_A21_1186u : close ctol (4851597914050349 / 2251799813685248) (volts_A21 (5810129166698861 / 562949953421312)).
Proof. apply (A21_q_volts_mid 5810129166698861 562949953421312 4851597914050349 2251799813685248); [vm_compute; reflexivity | unfold fr, close, ctol, A21_lo, A21_hi, A21_c, A21_e; interval with (i_prec 80)]. Qed.
Lemma d_A21_1199u : close ctol (4928496042435163 / 4503599627370496) (volts_A21 (3332847690628081 / 140737488355328)).
Proof. apply (A21_q_volts_mid 3332847690628081 140737488355328 4928496042435163 4503599627370496); [vm_compute; reflexivity | unfold fr, close, ctol, A21_lo, A21_hi, A21_c, A21_e; interval with (i_prec 80)]. Qed.
Lemma d_A21_1212u : close ctol (2489100355631953 / 1125899906842624) (volts_A21 ((-4506952472565369) / 1125899906842624)).
Proof. apply (A21_q_volts_lo (-4506952472565369) 1125899906842624 2489100355631953 1125899906842624); [vm_compute; reflexivity | unfold fr, close, ctol, A21_lo, A21_hi, A21_c, A21_e; interval with (i_prec 80)]. Qed.
Lemma d_A21_1224r : rio_reads A21_c A21_e A21_lo A21_hi floor_volts ctol (Build_rio (Fin (3447160094786309 / 4503599627370496)) (Fin (5147 / 1024)) (Fin (3715469692580659 / 1125899906842624)) (Fin (6 / 1)) (Fin (13363 / 1024)) true false false ((Fin (1067 / 512)) :: (Fin (573 / 512)) :: (Fin (25 / 64)) :: (Fin (108701 / 1024)) :: (Fin (4697 / 1024)) :: (Fin (62739 / 1024)) :: nil)) (1291503546041025 / 35184372088832).
Proof. apply (A21_rio_fin _ (3447160094786309 / 4503599627370496)); [reflexivity | apply (A21_q_mid 3447160094786309 4503599627370496 1291503546041025 35184372088832); [vm_compute; reflexivity | unfold fr, close, ctol, A21_c, A21_e; interval with (i_prec 80)]]. Qed.
Lemma d_A21_1237u : close ctol (7303775102731699 / 18014398509481984) (volts_A21 (3982847859477137 / 17592186044416)).
Proof. apply (A21_q_volts_hi 3982847859477137 17592186044416 7303775102731699 18014398509481984); [vm_compute; reflexivity | unfold fr, close, ctol, A21_lo, A21_hi, A21_c, A21_e; interval with (i_prec 80)]. Qed.
Lemma d_A21_1250u : close ctol (2436745855000075 / 2251799813685248) (volts_A21 (6758047003481217 / 281474976710656)).
Proof. apply (A21_q_volts_mid 6758047003481217 281474976710656 2436745855000075 2251799813685248); [vm_compute; reflexivity | unfold fr, close, ctol, A21_lo, A21_hi, A21_c, A21_e; interval with (i_prec 80)]. Qed.
Lemma d_A21_1263u : close ctol (7204622422130325 / 9007199254740992) (volts_A21 (611821538517725 / 17592186044416)).
Proof. apply (A21_q_volts_mid 611821538517725 17592186044416 7204622422130325 9007199254740992); [vm_compute; reflexivity | unfold fr, close, ctol, A21_lo, A21_hi, A21_c, A21_e; interval with (i_prec 80)]. Qed.
Lemma d_A21_1276u : close ctol (22417962217135 / 35184372088832) (volts_A21 (404290067697909 / 8796093022208)).
Proof. apply (A21_q_volts_mid 404290067697909 8796093022208 22417962217135 35184372088832); [vm_compute; reflexivity | unfold fr, close, ctol, A21_lo, A21_hi, A21_c, A21_e; interval with (i_prec 80)]. Qed.
Lemma d_A21_1288r : rio_reads A21_c A21_e A21_lo A21_hi floor_volts ctol (Build_rio (Fin (2489100355631953 / 1125899906842624)) (Fin (5517 / 1024)) (Fin (3715469692580659 / 1125899906842624)) (Fin (2247 / 512)) (Fin (10137 / 1024)) true true true ((Fin (739 / 512)) :: (Fin (1241 / 1024)) :: (Fin (117 / 128)) :: (Fin (45429 / 256)) :: (Fin (6995 / 1024)) :: (Fin (35037 / 512)) :: nil)) (10 / 1).
Proof. apply (A21_rio_fin _ (2489100355631953 / 1125899906842624)); [reflexivity | apply (A21_q_lo 2489100355631953 1125899906842624 10 1); [vm_compute; reflexivity | unfold fr, ctol, A21_lo, A21_c, A21_e; interval with (i_prec 80)]]. Qed.
Lemma d_A21_1301u : close ctol (1491672499465021 / 2251799813685248) (volts_A21 (1541831378888581 / 35184372088832)).
Proof. apply (A21_q_volts_mid 1541831378888581 35184372088832 1491672499465021 2251799813685248); [vm_compute; reflexivity | unfold fr, close, ctol, A21_lo, A21_hi, A21_c, A21_e; interval with (i_prec 80)]. Qed.
Lemma d_A21_1314u : close ctol (7303775102731699 / 18014398509481984) (volts_A21 (88 / 1)).
Proof. apply (A21_q_volts_hi 88 1 7303775102731699 18014398509481984); [vm_compute; reflexivity | unfold fr, close, ctol, A21_lo, A21_hi, A21_c, A21_e; interval with (i_prec 80)]. Qed.
Lemma d_A21_1327u : close ctol (8525253405103789 / 4503599627370496) (volts_A21 (6809201431514565 / 562949953421312)).
Proof. apply (A21_q_volts_mid 6809201431514565 562949953421312 8525253405103789 4503599627370496); [vm_compute; reflexivity | unfold fr, close, ctol, A21_lo, A21_hi, A21_c, A21_e; interval with (i_prec 80)]. Qed.
Lemma r_A41_856 : rio_reads A41_c A41_e A41_lo A41_hi floor_volts ctol (Build_rio (Fin (5559999489923579 / 4503599627370496)) PInf PInf PInf PInf true true true ((Fin (0 / 1)) :: (Fin (0 / 1)) :: (Fin (0 / 1)) :: (Fin (0 / 1)) :: (Fin (27 / 4)) :: (Fin (45 / 1)) :: nil)) (5876659090025575 / 562949953421312).
Proof. apply (A41_rio_fin _ (5559999489923579 / 4503599627370496)); [reflexivity | apply (A41_q_mid 5559999489923579 4503599627370496 5876659090025575 562949953421312); [vm_compute; reflexivity | unfold fr, close, ctol, A41_c, A41_e; interval with (i_prec 80)]]. Qed.
Lemma r_A41_889 : rio_reads A41_c A41_e A41_lo A41_hi floor_volts ctol (Build_rio (Fin (3245522155600935 / 9007199254740992)) (Fin (5 / 1)) (Fin (5 / 1)) (Fin (6 / 1)) (Fin (12 / 1)) true true true ((Fin (0 / 1)) :: (Fin (0 / 1)) :: (Fin (0 / 1)) :: (Fin (0 / 1)) :: (Fin (27 / 4)) :: (Fin (45 / 1)) :: nil)) (35 / 1).
Proof. apply (A41_rio_fin _ (3245522155600935 / 9007199254740992)); [reflexivity | apply (A41_q_hi 3245522155600935 9007199254740992 35 1); [vm_compute; reflexivity | unfold fr, ctol, A41_hi, A41_c, A41_e; interval with (i_prec 80)]]. Qed.
Lemma r_A41_905 : rio_reads A41_c A41_e A41_lo A41_hi floor_volts ctol (Build_rio (Fin (1485 / 4096)) (Fin (5 / 1)) (Fin (3715469692580659 / 1125899906842624)) (Fin (6 / 1)) (Fin (12 / 1)) true true true ((Fin (0 / 1)) :: (Fin (1 / 2)) :: (Fin (0 / 1)) :: (Fin (0 / 1)) :: (Fin (27 / 4)) :: (Fin (45 / 1)) :: nil)) (4896132528232483 / 140737488355328).
Proof. apply (A41_rio_fin _ (1485 / 4096)); [reflexivity | apply (A41_q_mid 1485 4096 4896132528232483 140737488355328); [vm_compute; reflexivity | unfold fr, close, ctol, A41_c, A41_e; interval with (i_prec 80)]]. Qed.
Lemma r_A41_921 : rio_reads A41_c A41_e A41_lo A41_hi floor_volts ctol (Build_rio (Fin (35 / 256)) (Fin (2365 / 512)) (Fin (1723 / 512)) (Fin (657 / 1024)) (Fin (5547 / 512)) true true true ((Fin (485 / 1024)) :: (Fin (45 / 64)) :: (Fin (2845 / 1024)) :: (Fin (71231 / 512)) :: (Fin (8955 / 1024)) :: (Fin (38159 / 1024)) :: nil)) (35 / 1).
Proof. apply (A41_rio_fin _ (35 / 256)); [reflexivity | apply (A41_q_hi 35 256 35 1); [vm_compute; reflexivity | unfold fr, ctol, A41_hi, A41_c, A41_e; interval with (i_prec 80)]]. Qed.
Lemma r_A41_937 : rio_reads A41_c A41_e A41_lo A41_hi floor_volts ctol (Build_rio (Fin (115 / 256)) (Fin (5 / 1)) (Fin (3715469692580659 / 1125899906842624)) (Fin (6 / 1)) (Fin (12 / 1)) true true true ((Fin (0 / 1)) :: (Fin (0 / 1)) :: (Fin (0 / 1)) :: (Fin (0 / 1)) :: (Fin (27 / 4)) :: (Fin (45 / 1)) :: nil)) (7932867476068471 / 281474976710656).
Proof. apply (A41_rio_fin _ (115 / 256)); [reflexivity | apply (A41_q_mid 115 256 7932867476068471 281474976710656); [vm_compute; reflexivity | unfold fr, close, ctol, A41_c, A41_e; interval with (i_prec 80)]]. Qed.
Lemma r_A41_953 : rio_reads A41_c A41_e A41_lo A41_hi floor_volts ctol (Build_rio (Fin (195 / 256)) (Fin (155 / 32)) (Fin (3715469692580659 / 1125899906842624)) (Fin (6 / 1)) (Fin (3567 / 1024)) true true true ((Fin (1249 / 512)) :: (Fin (359 / 256)) :: (Fin (239 / 256)) :: (Fin (118521 / 1024)) :: (Fin (7349 / 1024)) :: (Fin ((-10519) / 1024)) :: nil)) (4722041018723053 / 281474976710656).
Proof. apply (A41_rio_fin _ (195 / 256)); [reflexivity | apply (A41_q_mid 195 256 4722041018723053 281474976710656); [vm_compute; reflexivity | unfold fr, close, ctol, A41_c, A41_e; interval with (i_prec 80)]]. Qed.
Lemma r_A41_969 : rio_reads A41_c A41_e A41_lo A41_hi floor_volts ctol (Build_rio (Fin (275 / 256)) (Fin (9199 / 1024)) (Fin (2745 / 1024)) (Fin (5902958103587057 / 590295810358705651712)) (Fin (12 / 1)) true true true ((Fin (1951 / 1024)) :: (Fin (479 / 512)) :: (Fin (1451 / 1024)) :: (Fin (119081 / 1024)) :: (Fin (1719 / 256)) :: (Fin (2123 / 1024)) :: nil)) (6737353189200069 / 562949953421312).
Proof. apply (A41_rio_fin _ (275 / 256)); [reflexivity | apply (A41_q_mid 275 256 6737353189200069 562949953421312); [vm_compute; reflexivity | unfold fr, close, ctol, A41_c, A41_e; interval with (i_prec 80)]]. Qed.
Lemma r_A41_985 : rio_reads A41_c A41_e A41_lo A41_hi floor_volts ctol (Build_rio (Fin (355 / 256)) (Fin (5 / 1)) (Fin (3715469692580659 / 1125899906842624)) (Fin (6 / 1)) (Fin (12 / 1)) true true true ((Fin (0 / 1)) :: (Fin (0 / 1)) :: (Fin (0 / 1)) :: (Fin (0 / 1)) :: (Fin (27 / 4)) :: (Fin (45 / 1)) :: nil)) (5242584258507149 / 562949953421312).
Proof. apply (A41_rio_fin _ (355 / 256)); [reflexivity | apply (A41_q_mid 355 256 5242584258507149 562949953421312); [vm_compute; reflexivity | unfold fr, close, ctol, A41_c, A41_e; interval with (i_prec 80)]]. Qed.
Lemma r_A41_1001 : rio_reads A41_c A41_e A41_lo A41_hi floor_volts ctol (Build_rio (Fin (435 / 256)) (Fin (5 / 1)) (Fin (13 / 128)) (Fin (81 / 16)) (Fin (9941 / 1024)) true true true ((Fin (1927 / 1024)) :: (Fin (611 / 1024)) :: (Fin (193 / 256)) :: (Fin (101967 / 1024)) :: (Fin (1499 / 256)) :: (Fin (32677 / 1024)) :: nil)) (1073440349245175 / 140737488355328).
Proof. apply (A41_rio_fin _ (435 / 256)); [reflexivity | apply (A41_q_mid 435 256 1073440349245175 140737488355328); [vm_compute; reflexivity | unfold fr, close, ctol, A41_c, A41_e; interval with (i_prec 80)]]. Qed.
Lemma r_A41_1017 : rio_reads A41_c A41_e A41_lo A41_hi floor_volts ctol (Build_rio (Fin (515 / 256)) (Fin (2565 / 512)) PInf (Fin (1383 / 256)) (Fin (12 / 1)) true true false ((Fin (59 / 128)) :: (Fin (85 / 64)) :: (Fin (421 / 256)) :: (Fin (133159 / 1024)) :: (Fin (8933 / 1024)) :: (Fin ((-4451) / 1024)) :: nil)) (3637561388915921 / 562949953421312).
Proof. apply (A41_rio_fin _ (515 / 256)); [reflexivity | apply (A41_q_mid 515 256 3637561388915921 562949953421312); [vm_compute; reflexivity | unfold fr, close, ctol, A41_c, A41_e; interval with (i_prec 80)]]. Qed.
Lemma r_A41_1033 : rio_reads A41_c A41_e A41_lo A41_hi floor_volts ctol (Build_rio (Fin (595 / 256)) (Fin (5 / 1)) (Fin (3715469692580659 / 1125899906842624)) (Fin (6 / 1)) (Fin (12 / 1)) true true true ((Fin (0 / 1)) :: (Fin (0 / 1)) :: (Fin (0 / 1)) :: (Fin (0 / 1)) :: (Fin (27 / 4)) :: (Fin (45 / 1)) :: nil)) (3156489042581541 / 562949953421312).
Proof. apply (A41_rio_fin _ (595 / 256)); [reflexivity | apply (A41_q_mid 595 256 3156489042581541 562949953421312); [vm_compute; reflexivity | unfold fr, close, ctol, A41_c, A41_e; interval with (i_prec 80)]]. Qed.
Lemma r_A41_1049 : rio_reads A41_c A41_e A41_lo A41_hi floor_volts ctol (Build_rio (Fin (675 / 256)) (Fin (4879 / 1024)) (Fin (815 / 256)) (Fin (5745 / 1024)) (Fin (11693 / 1024)) true true true ((Fin (557 / 512)) :: (Fin (1197 / 1024)) :: (Fin (465 / 512)) :: (Fin (185571 / 1024)) :: (Fin (2517 / 512)) :: (Fin ((-1129) / 256)) :: nil)) (5577142259286369 / 1125899906842624).
Proof. apply (A41_rio_fin _ (675 / 256)); [reflexivity | apply (A41_q_mid 675 256 5577142259286369 1125899906842624); [vm_compute; reflexivity | unfold fr, close, ctol, A41_c, A41_e; interval with (i_prec 80)]]. Qed.
Lemma r_A41_1065 : rio_reads A41_c A41_e A41_lo A41_hi floor_volts ctol (Build_rio (Fin (95 / 32)) (Fin (1365 / 256)) (Fin (1717 / 512)) (Fin (6235 / 1024)) (Fin (5629 / 1024)) true true true ((Fin (15 / 256)) :: (Fin (51 / 256)) :: (Fin (2939 / 1024)) :: (Fin (48107 / 512)) :: (Fin (675 / 128)) :: (Fin ((-17581) / 1024)) :: nil)) (9 / 2).
Proof. apply (A41_rio_fin _ (95 / 32)); [reflexivity | apply (A41_q_lo 95 32 9 2); [vm_compute; reflexivity | unfold fr, ctol, A41_lo, A41_c, A41_e; interval with (i_prec 80)]]. Qed.
Lemma r_A41_1081 : rio_reads A41_c A41_e A41_lo A41_hi floor_volts ctol (Build_rio (Fin (105 / 32)) (Fin (5 / 1)) (Fin (3715469692580659 / 1125899906842624)) (Fin (6 / 1)) (Fin (12 / 1)) true true true ((Fin (0 / 1)) :: (Fin (0 / 1)) :: (Fin (0 / 1)) :: (Fin (0 / 1)) :: (Fin (27 / 4)) :: (Fin (45 / 1)) :: nil)) (9 / 2).
Proof. apply (A41_rio_fin _ (105 / 32)); [reflexivity | apply (A41_q_lo 105 32 9 2); [vm_compute; reflexivity | unfold fr, ctol, A41_lo, A41_c, A41_e; interval with (i_prec 80)]]. Qed.
Lemma r_A41_1097 : rio_reads A41_c A41_e A41_lo A41_hi floor_volts ctol (Build_rio (Fin (115 / 32)) (Fin (2641 / 512)) (Fin (10429 / 1024)) (Fin (6 / 1)) (Fin (5783 / 512)) true false true ((Fin (595 / 256)) :: (Fin (51 / 64)) :: (Fin (279 / 256)) :: (Fin (79851 / 1024)) :: (Fin (2939 / 512)) :: (Fin (35285 / 1024)) :: nil)) (9 / 2).
Proof. apply (A41_rio_fin _ (115 / 32)); [reflexivity | apply (A41_q_lo 115 32 9 2); [vm_compute; reflexivity | unfold fr, ctol, A41_lo, A41_c, A41_e; interval with (i_prec 80)]]. Qed.
Lemma r_A41_1113 : rio_reads A41_c A41_e A41_lo A41_hi floor_volts ctol (Build_rio (Fin (125 / 32)) (Fin (2311 / 512)) (Fin (3715469692580659 / 1125899906842624)) (Fin (6527 / 1024)) (Fin (12769 / 1024)) false true true ((Fin (209 / 1024)) :: (Fin (53 / 128)) :: (Fin (2105 / 1024)) :: (Fin (16501 / 128)) :: (Fin (2309 / 512)) :: (Fin (21127 / 1024)) :: nil)) (9 / 2).
Proof. apply (A41_rio_fin _ (125 / 32)); [reflexivity | apply (A41_q_lo 125 32 9 2); [vm_compute; reflexivity | unfold fr, ctol, A41_lo, A41_c, A41_e; interval with (i_prec 80)]]. Qed.
Lemma r_A41_1129 : rio_reads A41_c A41_e A41_lo A41_hi floor_volts ctol (Build_rio (Fin (135 / 32)) (Fin (5 / 1)) (Fin (3715469692580659 / 1125899906842624)) (Fin (6 / 1)) (Fin (12 / 1)) true true true ((Fin (0 / 1)) :: (Fin (0 / 1)) :: (Fin (0 / 1)) :: (Fin (0 / 1)) :: (Fin (27 / 4)) :: (Fin (45 / 1)) :: nil)) (9 / 2).
Proof. apply (A41_rio_fin _ (135 / 32)); [reflexivity | apply (A41_q_lo 135 32 9 2); [vm_compute; reflexivity | unfold fr, ctol, A41_lo, A41_c, A41_e; interval with (i_prec 80)]]. Qed.
Lemma r_A41_1145 : rio_reads A41_c A41_e A41_lo A41_hi floor_volts ctol (Build_rio (Fin (145 / 32)) (Fin (593 / 128)) (Fin (14139 / 1024)) (Fin (1623 / 256)) (Fin (12 / 1)) true true true ((Fin (1011 / 1024)) :: (Fin (325 / 256)) :: (Fin (1337 / 1024)) :: (Fin (56291 / 512)) :: (Fin (6427 / 1024)) :: (Fin (23699 / 256)) :: nil)) (9 / 2).
Proof. apply (A41_rio_fin _ (145 / 32)); [reflexivity | apply (A41_q_lo 145 32 9 2); [vm_compute; reflexivity | unfold fr, ctol, A41_lo, A41_c, A41_e; interval with (i_prec 80)]]. Qed.
Lemma r_A41_1161 : rio_reads A41_c A41_e A41_lo A41_hi floor_volts ctol (Build_rio (Fin (155 / 32)) (Fin (2263 / 512)) (Fin (1715 / 512)) (Fin (165 / 32)) (Fin (12 / 1)) true true true ((Fin (1665 / 1024)) :: (Fin (159 / 512)) :: (Fin (19 / 8)) :: (Fin (87251 / 1024)) :: (Fin (239 / 64)) :: (Fin ((-191) / 256)) :: nil)) (9 / 2).
Proof. apply (A41_rio_fin _ (155 / 32)); [reflexivity | apply (A41_q_lo 155 32 9 2); [vm_compute; reflexivity | unfold fr, ctol, A41_lo, A41_c, A41_e; interval with (i_prec 80)]]. Qed.
Lemma r_A41_1177 : rio_reads A41_c A41_e A41_lo A41_hi floor_volts ctol (Build_rio (Fin (1725773536536725 / 562949953421312)) (Fin (5 / 1)) (Fin (3715469692580659 / 1125899906842624)) (Fin (6 / 1)) (Fin (12 / 1)) true true true ((Fin (0 / 1)) :: (Fin (0 / 1)) :: (Fin (0 / 1)) :: (Fin (0 / 1)) :: (Fin (27 / 4)) :: (Fin (45 / 1)) :: nil)) (9 / 2).
Proof. apply (A41_rio_fin _ (1725773536536725 / 562949953421312)); [reflexivity | apply (A41_q_lo 1725773536536725 562949953421312 9 2); [vm_compute; reflexivity | unfold fr, ctol, A41_lo, A41_c, A41_e; interval with (i_prec 80)]]. Qed.
Lemma r_A41_1193 : rio_reads A41_c A41_e A41_lo A41_hi floor_volts ctol (Build_rio (Fin (2631109321351455 / 2251799813685248)) (Fin (5053 / 1024)) (Fin (79 / 128)) (Fin (6407 / 1024)) (Fin (6283 / 512)) false false true ((Fin (177 / 1024)) :: (Fin (1657 / 1024)) :: (Fin (2731 / 1024)) :: (Fin (150557 / 1024)) :: (Fin (5847 / 1024)) :: (Fin (48449 / 512)) :: nil)) (3101598812253765 / 281474976710656).
Proof. apply (A41_rio_fin _ (2631109321351455 / 2251799813685248)); [reflexivity | apply (A41_q_mid 2631109321351455 2251799813685248 3101598812253765 281474976710656); [vm_compute; reflexivity | unfold fr, close, ctol, A41_c, A41_e; interval with (i_prec 80)]]. Qed.
Lemma r_A41_1209 : rio_reads A41_c A41_e A41_lo A41_hi floor_volts ctol (Build_rio (Fin (2747384612610033 / 1125899906842624)) (Fin (5447 / 1024)) (Fin (1543 / 512)) (Fin (1193 / 1024)) (Fin (12 / 1)) true true false ((Fin (797 / 1024)) :: (Fin (1947 / 1024)) :: (Fin (2261 / 1024)) :: (Fin (32437 / 1024)) :: (Fin (4287 / 512)) :: (Fin (100119 / 1024)) :: nil)) (3009079896940129 / 562949953421312).
Proof. apply (A41_rio_fin _ (2747384612610033 / 1125899906842624)); [reflexivity | apply (A41_q_mid 2747384612610033 1125899906842624 3009079896940129 562949953421312); [vm_compute; reflexivity | unfold fr, close, ctol, A41_c, A41_e; interval with (i_prec 80)]]. Qed.
Lemma r_A41_1225 : rio_reads A41_c A41_e A41_lo A41_hi floor_volts ctol (Build_rio (Fin (8071694578878235 / 2251799813685248)) (Fin (5 / 1)) (Fin (3715469692580659 / 1125899906842624)) (Fin (6 / 1)) (Fin (12 / 1)) true true true ((Fin (0 / 1)) :: (Fin (0 / 1)) :: (Fin (0 / 1)) :: (Fin (0 / 1)) :: (Fin (27 / 4)) :: (Fin (45 / 1)) :: nil)) (9 / 2).
Proof. apply (A41_rio_fin _ (8071694578878235 / 2251799813685248)); [reflexivity | apply (A41_q_lo 8071694578878235 2251799813685248 9 2); [vm_compute; reflexivity | unfold fr, ctol, A41_lo, A41_c, A41_e; interval with (i_prec 80)]]. Qed.
Lemma r_A41_1245 : rio_reads A41_c A41_e A41_lo A41_hi floor_volts ctol (Build_rio (Fin (7286160447152721 / 18014398509481984)) (Fin (4113 / 1024)) (Fin (0 / 1)) (Fin (5175 / 1024)) (Fin (12677 / 1024)) true true true ((Fin (353 / 256)) :: (Fin (855 / 512)) :: (Fin (2607 / 1024)) :: (Fin (40041 / 1024)) :: (Fin (4547 / 512)) :: (Fin (349 / 64)) :: nil)) (4397207145656759 / 140737488355328).
Proof. apply (A41_rio_fin _ (7286160447152721 / 18014398509481984)); [reflexivity | apply (A41_q_mid 7286160447152721 18014398509481984 4397207145656759 140737488355328); [vm_compute; reflexivity | unfold fr, close, ctol, A41_c, A41_e; interval with (i_prec 80)]]. Qed.
Lemma r_A41_1267 : rio_reads A41_c A41_e A41_lo A41_hi floor_volts ctol (Build_rio (Fin (2037769841335351 / 147573952589676412928)) (Fin (5 / 1)) (Fin (3715469692580659 / 1125899906842624)) (Fin (6 / 1)) (Fin (12 / 1)) true true true ((Fin (0 / 1)) :: (Fin (0 / 1)) :: (Fin (0 / 1)) :: (Fin (0 / 1)) :: (Fin (27 / 4)) :: (Fin (45 / 1)) :: nil)) (35 / 1).
Proof. apply (A41_rio_fin _ (2037769841335351 / 147573952589676412928)); [reflexivity | apply (A41_q_hi 2037769841335351 147573952589676412928 35 1); [vm_compute; reflexivity | unfold fr, ctol, A41_hi, A41_c, A41_e; interval with (i_prec 80)]]. Qed.
Lemma d_A41_1340r : rio_reads A41_c A41_e A41_lo A41_hi floor_volts ctol (Build_rio (Fin (1898456911632291 / 4503599627370496)) (Fin (5854679515581645 / 1125899906842624)) (Fin (7656119366529843 / 2251799813685248)) (Fin (6980579422424269 / 1125899906842624)) (Fin (27 / 2)) true true true ((Fin (0 / 1)) :: (Fin (0 / 1)) :: (Fin (0 / 1)) :: (Fin (0 / 1)) :: (Fin (27 / 4)) :: (Fin (45 / 1)) :: nil)) (30 / 1).
Proof. apply (A41_rio_fin _ (1898456911632291 / 4503599627370496)); [reflexivity | apply (A41_q_mid 1898456911632291 4503599627370496 30 1); [vm_compute; reflexivity | unfold fr, close, ctol, A41_c, A41_e; interval with (i_prec 80)]]. Qed.
Lemma d_A41_1348r : rio_reads A41_c A41_e A41_lo A41_hi floor_volts ctol (Build_rio (Fin (6491044311201869 / 18014398509481984)) (Fin (19 / 4)) (Fin (3715469692580659 / 1125899906842624)) (Fin (6 / 1)) (Fin (12 / 1)) true true true ((Fin (0 / 1)) :: (Fin (0 / 1)) :: (Fin (0 / 1)) :: (Fin (0 / 1)) :: (Fin (27 / 4)) :: (Fin (45 / 1)) :: nil)) (35 / 1).
Proof. apply (A41_rio_fin _ (6491044311201869 / 18014398509481984)); [reflexivity | apply (A41_q_hi 6491044311201869 18014398509481984 35 1); [vm_compute; reflexivity | unfold fr, ctol, A41_hi, A41_c, A41_e; interval with (i_prec 80)]]. Qed.
Lemma d_A41_1356r : rio_reads A41_c A41_e A41_lo A41_hi floor_volts ctol (Build_rio (Fin (1636741441258383 / 562949953421312)) (Fin (5629499534213119 / 1125899906842624)) (Fin (3715469692580659 / 1125899906842624)) (Fin (6 / 1)) (Fin (12 / 1)) true true true ((Fin (0 / 1)) :: (Fin (0 / 1)) :: (Fin (0 / 1)) :: (Fin (0 / 1)) :: (Fin (27 / 4)) :: (Fin (45 / 1)) :: nil)) (9 / 2).
Proof. apply (A41_rio_fin _ (1636741441258383 / 562949953421312)); [reflexivity | apply (A41_q_lo 1636741441258383 562949953421312 9 2); [vm_compute; reflexivity | unfold fr, ctol, A41_lo, A41_c, A41_e; interval with (i_prec 80)]]. Qed.
Lemma d_A41_1364r : rio_reads A41_c A41_e A41_lo A41_hi floor_volts ctol (Build_rio (Fin (1898456911632291 / 4503599627370496)) (Fin (5 / 1)) (Fin (3715469692580659 / 1125899906842624)) (Fin (6 / 1)) (Fin (21 / 2)) true true true ((Fin (0 / 1)) :: (Fin (0 / 1)) :: (Fin (0 / 1)) :: (Fin (0 / 1)) :: (Fin (27 / 4)) :: (Fin (45 / 1)) :: nil)) (30 / 1).
Proof. apply (A41_rio_fin _ (1898456911632291 / 4503599627370496)); [reflexivity | apply (A41_q_mid 1898456911632291 4503599627370496 30 1); [vm_compute; reflexivity | unfold fr, close, ctol, A41_c, A41_e; interval with (i_prec 80)]]. Qed.
Lemma d_A41_1372r : rio_reads A41_c A41_e A41_lo A41_hi floor_volts ctol (Build_rio (Fin (6491044311201869 / 18014398509481984)) (Fin (5 / 1)) (Fin (3 / 1)) (Fin (6 / 1)) (Fin (12 / 1)) true true true ((Fin (0 / 1)) :: (Fin (0 / 1)) :: (Fin (0 / 1)) :: (Fin (0 / 1)) :: (Fin (27 / 4)) :: (Fin (45 / 1)) :: nil)) (35 / 1).
Proof. apply (A41_rio_fin _ (6491044311201869 / 18014398509481984)); [reflexivity | apply (A41_q_hi 6491044311201869 18014398509481984 35 1); [vm_compute; reflexivity | unfold fr, ctol, A41_hi, A41_c, A41_e; interval with (i_prec 80)]]. Qed.
Lemma d_A41_1380r : rio_reads A41_c A41_e A41_lo A41_hi floor_volts ctol (Build_rio (Fin (6491044311201869 / 18014398509481984)) (Fin (5 / 1)) (Fin (3715469692580659 / 1125899906842624)) (Fin (5 / 1)) (Fin (12 / 1)) true true true ((Fin (0 / 1)) :: (Fin (0 / 1)) :: (Fin (0 / 1)) :: (Fin (0 / 1)) :: (Fin (27 / 4)) :: (Fin (45 / 1)) :: nil)) (35 / 1).
Proof. apply (A41_rio_fin _ (6491044311201869 / 18014398509481984)); [reflexivity | apply (A41_q_hi 6491044311201869 18014398509481984 35 1); [vm_compute; reflexivity | unfold fr, ctol, A41_hi, A41_c, A41_e; interval with (i_prec 80)]]. Qed.
Lemma d_A41_1388r : rio_reads A41_c A41_e A41_lo A41_hi floor_volts ctol (Build_rio (Fin (5881157630324709 / 2251799813685248)) (Fin (5 / 1)) (Fin (3715469692580659 / 1125899906842624)) (Fin (6 / 1)) (Fin (12 / 1)) true true true ((Fin (2 / 1)) :: (Fin (0 / 1)) :: (Fin (0 / 1)) :: (Fin (0 / 1)) :: (Fin (27 / 4)) :: (Fin (45 / 1)) :: nil)) (5 / 1).
Proof. apply (A41_rio_fin _ (5881157630324709 / 2251799813685248)); [reflexivity | apply (A41_q_mid 5881157630324709 2251799813685248 5 1); [vm_compute; reflexivity | unfold fr, close, ctol, A41_c, A41_e; interval with (i_prec 80)]]. Qed.
Lemma d_A41_1400r : rio_reads A41_c A41_e A41_lo A41_hi floor_volts ctol (Build_rio (Fin (8539086378147595 / 9007199254740992)) (Fin (5 / 1)) (Fin (3715469692580659 / 1125899906842624)) (Fin (6 / 1)) (Fin (12 / 1)) true true true ((Fin (0 / 1)) :: (Fin (0 / 1)) :: (Fin (0 / 1)) :: (Fin (0 / 1)) :: (Fin (27 / 4)) :: (Fin (45 / 1)) :: nil)) (3808686616710511 / 281474976710656).
Proof. apply (A41_rio_fin _ (8539086378147595 / 9007199254740992)); [reflexivity | apply (A41_q_mid 8539086378147595 9007199254740992 3808686616710511 281474976710656); [vm_compute; reflexivity | unfold fr, close, ctol, A41_c, A41_e; interval with (i_prec 80)]]. Qed.
Lemma d_A41_1413u : close ctol (4020410236593347 / 9007199254740992) (volts_A41 (7982861496012883 / 281474976710656)).
Proof. apply (A41_q_volts_mid 7982861496012883 281474976710656 4020410236593347 9007199254740992); [vm_compute; reflexivity | unfold fr, close, ctol, A41_lo, A41_hi, A41_c, A41_e; interval with (i_prec 80)]. Qed.
Lemma d_A41_1426u : close ctol (6491044311201869 / 18014398509481984) (volts_A41 (413571416639687 / 4398046511104)).
Proof. apply (A41_q_volts_hi 413571416639687 4398046511104 6491044311201869 18014398509481984); [vm_compute; reflexivity | unfold fr, close, ctol, A41_lo, A41_hi, A41_c, A41_e; interval with (i_prec 80)]. Qed.
Lemma d_A41_1439u : close ctol (1636741441258383 / 562949953421312) (volts_A41 (1875515429462095 / 562949953421312)).
Proof. apply (A41_q_volts_lo 1875515429462095 562949953421312 1636741441258383 562949953421312); [vm_compute; reflexivity | unfold fr, close, ctol, A41_lo, A41_hi, A41_c, A41_e; interval with (i_prec 80)]. Qed.
Lemma d_A41_1452u : close ctol (439630346916553 / 1125899906842624) (volts_A41 (4551964710063201 / 140737488355328)).
Proof. apply (A41_q_volts_mid 4551964710063201 140737488355328 439630346916553 1125899906842624); [vm_compute; reflexivity | unfold fr, close, ctol, A41_lo, A41_hi, A41_c, A41_e; interval with (i_prec 80)]. Qed.
Lemma d_A41_1464r : rio_reads A41_c A41_e A41_lo A41_hi floor_volts ctol (Build_rio (Fin (2287844651422033 / 2251799813685248)) (Fin (5589 / 1024)) (Fin (3151 / 1024)) (Fin (3781 / 512)) (Fin (12 / 1)) true false true ((Fin (899 / 512)) :: (Fin (417 / 1024)) :: (Fin (43 / 256)) :: (Fin (195203 / 1024)) :: (Fin (6047 / 1024)) :: (Fin (4201 / 64)) :: nil)) (889548136478237 / 70368744177664).
Proof. apply (A41_rio_fin _ (2287844651422033 / 2251799813685248)); [reflexivity | apply (A41_q_mid 2287844651422033 2251799813685248 889548136478237 70368744177664); [vm_compute; reflexivity | unfold fr, close, ctol, A41_c, A41_e; interval with (i_prec 80)]]. Qed.
Lemma d_A41_1477u : close ctol (8768044717394181 / 9007199254740992) (volts_A41 (3710958847437813 / 281474976710656)).
Proof. apply (A41_q_volts_mid 3710958847437813 281474976710656 8768044717394181 9007199254740992); [vm_compute; reflexivity | unfold fr, close, ctol, A41_lo, A41_hi, A41_c, A41_e; interval with (i_prec 80)]. Qed.
Lemma d_A41_1490u : close ctol (1636741441258383 / 562949953421312) (volts_A41 ((-1) / 1)).
Proof. apply (A41_q_volts_lo (-1) 1 1636741441258383 562949953421312); [vm_compute; reflexivity | unfold fr, close, ctol, A41_lo, A41_hi, A41_c, A41_e; interval with (i_prec 80)]. Qed.
Lemma d_A41_1503u : close ctol (8331069870542185 / 18014398509481984) (volts_A41 (3854776784650923 / 140737488355328)).
Proof. apply (A41_q_volts_mid 3854776784650923 140737488355328 8331069870542185 18014398509481984); [vm_compute; reflexivity | unfold fr, close, ctol, A41_lo, A41_hi, A41_c, A41_e; interval with (i_prec 80)]. Qed.
Lemma d_A41_1516u : close ctol (8206400287298613 / 9007199254740992) (volts_A41 (7920638492967881 / 562949953421312)).
Proof. apply (A41_q_volts_mid 7920638492967881 562949953421312 8206400287298613 9007199254740992); [vm_compute; reflexivity | unfold fr, close, ctol, A41_lo, A41_hi, A41_c, A41_e; interval with (i_prec 80)]. Qed.
Lemma d_A41_1528r : rio_reads A41_c A41_e A41_lo A41_hi floor_volts ctol (Build_rio (Fin (1834285684269427 / 2251799813685248)) (Fin ((-1) / 1)) (Fin (3715469692580659 / 1125899906842624)) (Fin (6603 / 1024)) (Fin (11185 / 1024)) true true true ((Fin (1383 / 512)) :: (Fin (943 / 512)) :: (Fin (2953 / 1024)) :: (Fin (22407 / 256)) :: (Fin (1289 / 256)) :: (Fin (4995 / 1024)) :: nil)) (8841584628567999 / 562949953421312).
Proof. apply (A41_rio_fin _ (1834285684269427 / 2251799813685248)); [reflexivity | apply (A41_q_mid 1834285684269427 2251799813685248 8841584628567999 562949953421312); [vm_compute; reflexivity | unfold fr, close, ctol, A41_c, A41_e; interval with (i_prec 80)]]. Qed.
Lemma d_A41_1541u : close ctol (6726668473790011 / 18014398509481984) (volts_A41 (2378126425723785 / 70368744177664)).
Proof. apply (A41_q_volts_mid 2378126425723785 70368744177664 6726668473790011 18014398509481984); [vm_compute; reflexivity | unfold fr, close, ctol, A41_lo, A41_hi, A41_c, A41_e; interval with (i_prec 80)]. Qed.
Lemma d_A41_1554u : close ctol (1636741441258383 / 562949953421312) (volts_A41 ((-1043504368042367) / 562949953421312)).
Proof. apply (A41_q_volts_lo (-1043504368042367) 562949953421312 1636741441258383 562949953421312); [vm_compute; reflexivity | unfold fr, close, ctol, A41_lo, A41_hi, A41_c, A41_e; interval with (i_prec 80)]. Qed.
Lemma d_A41_1567u : close ctol (1636741441258383 / 562949953421312) (volts_A41 (4647968793921923 / 1125899906842624)).
Proof. apply (A41_q_volts_lo 4647968793921923 1125899906842624 1636741441258383 562949953421312); [vm_compute; reflexivity | unfold fr, close, ctol, A41_lo, A41_hi, A41_c, A41_e; interval with (i_prec 80)]. Qed.
Lemma d_A41_1580u : close ctol (4490008642666541 / 4503599627370496) (volts_A41 (226555353388173 / 17592186044416)).
Proof. apply (A41_q_volts_mid 226555353388173 17592186044416 4490008642666541 4503599627370496); [vm_compute; reflexivity | unfold fr, close, ctol, A41_lo, A41_hi, A41_c, A41_e; interval with (i_prec 80)]. Qed.
Lemma d_A41_1592r : rio_reads A41_c A41_e A41_lo A41_hi floor_volts ctol (Build_rio (Fin (3476670207983015 / 2251799813685248)) (Fin (5 / 1)) (Fin (3715469692580659 / 1125899906842624)) (Fin (6 / 1)) (Fin (12 / 1)) true true true ((Fin (0 / 1)) :: (Fin (0 / 1)) :: (Fin (0 / 1)) :: (Fin (0 / 1)) :: (Fin (27 / 4)) :: (Fin (45 / 1)) :: nil)) (589699908627533 / 70368744177664).
Proof. apply (A41_rio_fin _ (3476670207983015 / 2251799813685248)); [reflexivity | apply (A41_q_mid 3476670207983015 2251799813685248 589699908627533 70368744177664); [vm_compute; reflexivity | unfold fr, close, ctol, A41_c, A41_e; interval with (i_prec 80)]]. Qed.
Lemma d_A41_1605u : close ctol (3009316880337577 / 4503599627370496) (volts_A41 (1342626024346911 / 70368744177664)).
Proof. apply (A41_q_volts_mid 1342626024346911 70368744177664 3009316880337577 4503599627370496); [vm_compute; reflexivity | unfold fr, close, ctol, A41_lo, A41_hi, A41_c, A41_e; interval with (i_prec 80)]. Qed.
Lemma d_A41_1618u : close ctol (6627124360639093 / 9007199254740992) (volts_A41 (4885668629164507 / 281474976710656)).
Proof. apply (A41_q_volts_mid 4885668629164507 281474976710656 6627124360639093 9007199254740992); [vm_compute; reflexivity | unfold fr, close, ctol, A41_lo, A41_hi, A41_c, A41_e; interval with (i_prec 80)]. Qed.
Lemma d_A41_1631u : close ctol (8609326649709301 / 18014398509481984) (volts_A41 (7464692899719775 / 281474976710656)).
Proof. apply (A41_q_volts_mid 7464692899719775 281474976710656 8609326649709301 18014398509481984); [vm_compute; reflexivity | unfold fr, close, ctol, A41_lo, A41_hi, A41_c, A41_e; interval with (i_prec 80)]. Qed.
Lemma d_A41_1644u : close ctol (6491044311201869 / 18014398509481984) (volts_A41 (6288740840116945 / 140737488355328)).
Proof. apply (A41_q_volts_hi 6288740840116945 140737488355328 6491044311201869 18014398509481984); [vm_compute; reflexivity | unfold fr, close, ctol, A41_lo, A41_hi, A41_c, A41_e; interval with (i_prec 80)]. Qed.
Lemma d_A41_1656r : rio_reads A41_c A41_e A41_lo A41_hi floor_volts ctol (Build_rio (Fin (4231370542434295 / 9007199254740992)) (Fin (5393 / 1024)) (Fin (447 / 128)) (Fin (6 / 1)) (Fin (105 / 8)) true false true ((Fin (2885 / 1024)) :: (Fin (859 / 1024)) :: (Fin (265 / 256)) :: (Fin (419 / 512)) :: (Fin (7211 / 1024)) :: (Fin (8941 / 128)) :: nil)) (3795848045272599 / 140737488355328).
Proof. apply (A41_rio_fin _ (4231370542434295 / 9007199254740992)); [reflexivity | apply (A41_q_mid 4231370542434295 9007199254740992 3795848045272599 140737488355328); [vm_compute; reflexivity | unfold fr, close, ctol, A41_c, A41_e; interval with (i_prec 80)]]. Qed.
Lemma d_A41_1669u : close ctol (2615034630047035 / 4503599627370496) (volts_A41 (3082493013930081 / 140737488355328)).
Proof. apply (A41_q_volts_mid 3082493013930081 140737488355328 2615034630047035 4503599627370496); [vm_compute; reflexivity | unfold fr, close, ctol, A41_lo, A41_hi, A41_c, A41_e; interval with (i_prec 80)]. Qed.
Lemma d_A41_1682u : close ctol (6410570421810655 / 4503599627370496) (volts_A41 (159678579891013 / 17592186044416)).
Proof. apply (A41_q_volts_mid 159678579891013 17592186044416 6410570421810655 4503599627370496); [vm_compute; reflexivity | unfold fr, close, ctol, A41_lo, A41_hi, A41_c, A41_e; interval with (i_prec 80)]. Qed.
Lemma d_A41_1695u : close ctol (6288432887012545 / 9007199254740992) (volts_A41 (5144056408608541 / 281474976710656)).
Proof. apply (A41_q_volts_mid 5144056408608541 281474976710656 6288432887012545 9007199254740992); [vm_compute; reflexivity | unfold fr, close, ctol, A41_lo, A41_hi, A41_c, A41_e; interval with (i_prec 80)]. Qed.
Lemma d_A41_1708u : close ctol (3134471317644323 / 4503599627370496) (volts_A41 (80621366624491 / 4398046511104)).
Proof. apply (A41_q_volts_mid 80621366624491 4398046511104 3134471317644323 4503599627370496); [vm_compute; reflexivity | unfold fr, close, ctol, A41_lo, A41_hi, A41_c, A41_e; interval with (i_prec 80)]. Qed.
Lemma d_A41_1720r : rio_reads A41_c A41_e A41_lo A41_hi floor_volts ctol (Build_rio (Fin (363940043517551 / 281474976710656)) (Fin (1059 / 256)) (Fin (743 / 64)) (Fin (5139 / 1024)) (Fin (5881 / 512)) false true true ((Fin (959 / 1024)) :: (Fin (677 / 1024)) :: (Fin (309 / 1024)) :: (Fin (17589 / 256)) :: (Fin (5923 / 1024)) :: (Fin (2411 / 256)) :: nil)) (5615762666651733 / 562949953421312).
Proof. apply (A41_rio_fin _ (363940043517551 / 281474976710656)); [reflexivity | apply (A41_q_mid 363940043517551 281474976710656 5615762666651733 562949953421312); [vm_compute; reflexivity | unfold fr, close, ctol, A41_c, A41_e; interval with (i_prec 80)]]. Qed.
Lemma d_A41_1733u : close ctol (6491044311201869 / 18014398509481984) (volts_A41 (36 / 1)).
Proof. apply (A41_q_volts_hi 36 1 6491044311201869 18014398509481984); [vm_compute; reflexivity | unfold fr, close, ctol, A41_lo, A41_hi, A41_c, A41_e; interval with (i_prec 80)]. Qed.
Lemma d_A41_1746u : close ctol (8829927806610521 / 4503599627370496) (volts_A41 (7461284886319065 / 1125899906842624)).
Proof. apply (A41_q_volts_mid 7461284886319065 1125899906842624 8829927806610521 4503599627370496); [vm_compute; reflexivity | unfold fr, close, ctol, A41_lo, A41_hi, A41_c, A41_e; interval with (i_prec 80)]. Qed.
Lemma d_A41_1759u : close ctol (4701246746021107 / 9007199254740992) (volts_A41 (6845603004857965 / 281474976710656)).
Proof. apply (A41_q_volts_mid 6845603004857965 281474976710656 4701246746021107 9007199254740992); [vm_compute; reflexivity | unfold fr, close, ctol, A41_lo, A41_hi, A41_c, A41_e; interval with (i_prec 80)]. Qed.
Lemma d_A41_1772u : close ctol (6194273155745841 / 4503599627370496) (volts_A41 (2642473345552407 / 281474976710656)).
Proof. apply (A41_q_volts_mid 2642473345552407 281474976710656 6194273155745841 4503599627370496); [vm_compute; reflexivity | unfold fr, close, ctol, A41_lo, A41_hi, A41_c, A41_e; interval with (i_prec 80)]. Qed.
Lemma d_A41_1784r : rio_reads A41_c A41_e A41_lo A41_hi floor_volts ctol (Build_rio (Fin (5160624327309989 / 4503599627370496)) (Fin (5 / 1)) (Fin (3715469692580659 / 1125899906842624)) (Fin (6 / 1)) (Fin (12 / 1)) true true true ((Fin (0 / 1)) :: (Fin (0 / 1)) :: (Fin (0 / 1)) :: (Fin (0 / 1)) :: (Fin (27 / 4)) :: (Fin (45 / 1)) :: nil)) (3161573278539227 / 281474976710656).
Proof. apply (A41_rio_fin _ (5160624327309989 / 4503599627370496)); [reflexivity | apply (A41_q_mid 5160624327309989 4503599627370496 3161573278539227 281474976710656); [vm_compute; reflexivity | unfold fr, close, ctol, A41_c, A41_e; interval with (i_prec 80)]]. Qed.
Lemma d_A41_1797u : close ctol (3738016945037447 / 9007199254740992) (volts_A41 (267966835778481 / 8796093022208)).
Proof. apply (A41_q_volts_mid 267966835778481 8796093022208 3738016945037447 9007199254740992); [vm_compute; reflexivity | unfold fr, close, ctol, A41_lo, A41_hi, A41_c, A41_e; interval with (i_prec 80)]. Qed.
Lemma d_A41_1810u : close ctol (2806931076863749 / 4503599627370496) (volts_A41 (2875339115173647 / 140737488355328)).
Proof. apply (A41_q_volts_mid 2875339115173647 140737488355328 2806931076863749 4503599627370496); [vm_compute; reflexivity | unfold fr, close, ctol, A41_lo, A41_hi, A41_c, A41_e; interval with (i_prec 80)]. Qed.
Lemma d_A41_1823u : close ctol (1636741441258383 / 562949953421312) (volts_A41 (523960724962109 / 2251799813685248)).
Proof. apply (A41_q_volts_lo 523960724962109 2251799813685248 1636741441258383 562949953421312); [vm_compute; reflexivity | unfold fr, close, ctol, A41_lo, A41_hi, A41_c, A41_e; interval with (i_prec 80)]. Qed.
Lemma d_A41_1836u : close ctol (2394404038665597 / 2251799813685248) (volts_A41 (106330175467767 / 8796093022208)).
Proof. apply (A41_q_volts_mid 106330175467767 8796093022208 2394404038665597 2251799813685248); [vm_compute; reflexivity | unfold fr, close, ctol, A41_lo, A41_hi, A41_c, A41_e; interval with (i_prec 80)]. Qed.
Lemma d_A41_1848r : rio_reads A41_c A41_e A41_lo A41_hi floor_volts ctol (Build_rio (Fin (6667430408244571 / 18014398509481984)) (Fin (5 / 1)) (Fin (3715469692580659 / 1125899906842624)) (Fin (791 / 128)) (Fin (5249 / 512)) true true true ((Fin (2767 / 1024)) :: (Fin (1187 / 1024)) :: (Fin (681 / 512)) :: (Fin (22471 / 1024)) :: (Fin (6735 / 1024)) :: (Fin (22899 / 256)) :: nil)) (4797763718995269 / 140737488355328).
Proof. apply (A41_rio_fin _ (6667430408244571 / 18014398509481984)); [reflexivity | apply (A41_q_mid 6667430408244571 18014398509481984 4797763718995269 140737488355328); [vm_compute; reflexivity | unfold fr, close, ctol, A41_c, A41_e; interval with (i_prec 80)]]. Qed.
Lemma d_A41_1861u : close ctol (1636741441258383 / 562949953421312) (volts_A41 ((-2167412493919607) / 2251799813685248)).
Proof. apply (A41_q_volts_lo (-2167412493919607) 2251799813685248 1636741441258383 562949953421312); [vm_compute; reflexivity | unfold fr, close, ctol, A41_lo, A41_hi, A41_c, A41_e; interval with (i_prec 80)]. Qed.
Lemma d_A41_1874u : close ctol (8662368286037227 / 18014398509481984) (volts_A41 (7419786936279577 / 281474976710656)).
Proof. apply (A41_q_volts_mid 7419786936279577 281474976710656 8662368286037227 18014398509481984); [vm_compute; reflexivity | unfold fr, close, ctol, A41_lo, A41_hi, A41_c, A41_e; interval with (i_prec 80)]. Qed.
Lemma d_A41_1887u : close ctol (1636741441258383 / 562949953421312) (volts_A41 ((-4) / 1)).
Proof. apply (A41_q_volts_lo (-4) 1 1636741441258383 562949953421312); [vm_compute; reflexivity | unfold fr, close, ctol, A41_lo, A41_hi, A41_c, A41_e; interval with (i_prec 80)]. Qed.
Lemma d_A41_1900u : close ctol (1289226956059693 / 2251799813685248) (volts_A41 (195340597422131 / 8796093022208)).
Proof. apply (A41_q_volts_mid 195340597422131 8796093022208 1289226956059693 2251799813685248); [vm_compute; reflexivity | unfold fr, close, ctol, A41_lo, A41_hi, A41_c, A41_e; interval with (i_prec 80)]. Qed.
Lemma d_A41_1912r : rio_reads A41_c A41_e A41_lo A41_hi floor_volts ctol (Build_rio (Fin (8063001280543903 / 18014398509481984)) (Fin (5 / 1)) (Fin (41 / 1024)) (Fin (945 / 256)) (Fin (1 / 1)) false true true ((Fin (167 / 512)) :: (Fin (295 / 256)) :: (Fin (5 / 1024)) :: (Fin (12715 / 128)) :: (Fin (8871 / 1024)) :: (Fin (79733 / 1024)) :: nil)) (1990321781877951 / 70368744177664).
Proof. apply (A41_rio_fin _ (8063001280543903 / 18014398509481984)); [reflexivity | apply (A41_q_mid 8063001280543903 18014398509481984 1990321781877951 70368744177664); [vm_compute; reflexivity | unfold fr, close, ctol, A41_c, A41_e; interval with (i_prec 80)]]. Qed.
Lemma d_A41_1925u : close ctol (6491044311201869 / 18014398509481984) (volts_A41 (2317586161548337 / 35184372088832)).
Proof. apply (A41_q_volts_hi 2317586161548337 35184372088832 6491044311201869 18014398509481984); [vm_compute; reflexivity | unfold fr, close, ctol, A41_lo, A41_hi, A41_c, A41_e; interval with (i_prec 80)]. Qed.
Lemma d_A41_1938u : close ctol (6274902018952633 / 4503599627370496) (volts_A41 (5218225794605553 / 562949953421312)).
Proof. apply (A41_q_volts_mid 5218225794605553 562949953421312 6274902018952633 4503599627370496); [vm_compute; reflexivity | unfold fr, close, ctol, A41_lo, A41_hi, A41_c, A41_e; interval with (i_prec 80)]. Qed.
Lemma d_A41_1951u : close ctol (416484538898425 / 1125899906842624) (volts_A41 (2400182516186265 / 70368744177664)).
Proof. apply (A41_q_volts_mid 2400182516186265 70368744177664 416484538898425 1125899906842624); [vm_compute; reflexivity | unfold fr, close, ctol, A41_lo, A41_hi, A41_c, A41_e; interval with (i_prec 80)]. Qed.
Lemma d_A41_1964u : close ctol (5766607046346187 / 4503599627370496) (volts_A41 (2834874112752705 / 281474976710656)).
Proof. apply (A41_q_volts_mid 2834874112752705 281474976710656 5766607046346187 4503599627370496); [vm_compute; reflexivity | unfold fr, close, ctol, A41_lo, A41_hi, A41_c, A41_e; interval with (i_prec 80)]. Qed.
Lemma d_A41_1976r : rio_reads A41_c A41_e A41_lo A41_hi floor_volts ctol (Build_rio (Fin (3884596880542059 / 4503599627370496)) (Fin (5 / 1)) (Fin (3715469692580659 / 1125899906842624)) (Fin (6 / 1)) (Fin (12 / 1)) true true true ((Fin (0 / 1)) :: (Fin (0 / 1)) :: (Fin (0 / 1)) :: (Fin (0 / 1)) :: (Fin (27 / 4)) :: (Fin (45 / 1)) :: nil)) (8358309825755605 / 562949953421312).
Proof. apply (A41_rio_fin _ (3884596880542059 / 4503599627370496)); [reflexivity | apply (A41_q_mid 3884596880542059 4503599627370496 8358309825755605 562949953421312); [vm_compute; reflexivity | unfold fr, close, ctol, A41_c, A41_e; interval with (i_prec 80)]]. Qed.
Lemma d_A41_1989u : close ctol (5042788361404111 / 9007199254740992) (volts_A41 (3194920628263851 / 140737488355328)).
Proof. apply (A41_q_volts_mid 3194920628263851 140737488355328 5042788361404111 9007199254740992); [vm_compute; reflexivity | unfold fr, close, ctol, A41_lo, A41_hi, A41_c, A41_e; interval with (i_prec 80)]. Qed.
Lemma r_A02_14 : rio_reads A02_c A02_e A02_lo A02_hi floor_volts ctol (Build_rio (Fin ((-6032057205060441) / 6032057205060440848842124543157735677050252251748505781796615064961622344493727293370973578138265743708225425014400837164813540499979063179105919597766951022193355091707896034850684039059079180396788349106095584290087446076413771468940477241550670753145517602931224392424029547429993824129889235158145614364972941312)) (Fin (1 / 202402253307310618352495346718917307049556649764142118356901358027430339567995346891960383701437124495187077864316811911389808737385793476867013399940738509921517424276566361364466907742093216341239767678472745068562007483424692698618103355649159556340810056512358769552333414615230502532186327508646006263307707741093494784)) (Fin (3715469692580659 / 1125899906842624)) (Fin (6 / 1)) (Fin (12 / 1)) true true true ((Fin (0 / 1)) :: (Fin (0 / 1)) :: (Fin (0 / 1)) :: (Fin (0 / 1)) :: (Fin (27 / 4)) :: (Fin (45 / 1)) :: nil)) (435215207548285 / 8796093022208).
Proof. apply (A02_rio_fin _ ((-6032057205060441) / 6032057205060440848842124543157735677050252251748505781796615064961622344493727293370973578138265743708225425014400837164813540499979063179105919597766951022193355091707896034850684039059079180396788349106095584290087446076413771468940477241550670753145517602931224392424029547429993824129889235158145614364972941312)); [reflexivity | apply (A02_q_floor (-6032057205060441) 6032057205060440848842124543157735677050252251748505781796615064961622344493727293370973578138265743708225425014400837164813540499979063179105919597766951022193355091707896034850684039059079180396788349106095584290087446076413771468940477241550670753145517602931224392424029547429993824129889235158145614364972941312 435215207548285 8796093022208); vm_compute; reflexivity]. Qed.
Lemma r_A02_40 : rio_distance_opt A02_c A02_e A02_lo A02_hi floor_volts (Build_rio PInf (Fin (5 / 1)) (Fin (3715469692580659 / 1125899906842624)) (Fin (6 / 1)) (Fin (12 / 1)) false true true ((Fin (0 / 1)) :: (Fin (0 / 1)) :: (Fin (0 / 1)) :: (Fin (0 / 1)) :: (Fin (27 / 4)) :: (Fin (45 / 1)) :: nil)) = Some (45 / 2).
Proof. apply (A02_rio_x _ PInf); [reflexivity | apply (corr_v_pinf _ _ _ _ _ A02_admissible); unfold A02_lo; lra]. Qed.
Lemma d_A02_3g : get_distance (set_distance A02_c A02_e A02_lo A02_hi sim_init (10 / 1)) = (10 / 1).
Proof. cbn [get_distance set_distance sim_distance]. first [reflexivity | lra]. Qed.
Lemma d_A02_10c : close ctol (45 / 2) (clamp A02_lo A02_hi (2 / 1)).
Proof. apply (A02_q_clamp_lo 2 1 45 2); vm_compute; reflexivity. Qed.
Lemma d_A02_16g : get_distance (set_distance A02_c A02_e A02_lo A02_hi sim_init (35 / 1)) = (35 / 1).
Proof. cbn [get_distance set_distance sim_distance]. first [reflexivity | lra]. Qed.
Lemma d_A02_23c : close ctol (45 / 2) (clamp A02_lo A02_hi ((-5) / 1)).
Proof. apply (A02_q_clamp_lo (-5) 1 45 2); vm_compute; reflexivity. Qed.
Lemma d_A02_31c : close ctol (7036874417766399 / 281474976710656) (clamp A02_lo A02_hi (25 / 1)).
Proof. apply (A02_q_clamp_mid 25 1 7036874417766399 281474976710656); vm_compute; reflexivity. Qed.
Lemma d_A02_39c : close ctol (145 / 1) (clamp A02_lo A02_hi (1000000000000000052504760255204420248704468581108159154915854115511802457988908195786371375080447864043704443832883878176942523235360430575644792184786706982848387200926575803737830233794788090059368953234970799945081119038967640880074652742780142494579258788820056842838115669472196386865459400540160 / 1)).
Proof. apply (A02_q_clamp_hi 1000000000000000052504760255204420248704468581108159154915854115511802457988908195786371375080447864043704443832883878176942523235360430575644792184786706982848387200926575803737830233794788090059368953234970799945081119038967640880074652742780142494579258788820056842838115669472196386865459400540160 1 145 1); vm_compute; reflexivity. Qed.
Lemma d_A02_48c : close ctol (145 / 1) (clamp A02_lo A02_hi (5101733952880641 / 35184372088832)).
Proof. apply (A02_q_clamp_hi 5101733952880641 35184372088832 145 1); vm_compute; reflexivity. Qed.
Lemma d_A02_56c : close ctol (23 / 1) (clamp A02_lo A02_hi (23 / 1)).
Proof. apply (A02_q_clamp_mid 23 1 23 1); vm_compute; reflexivity. Qed.
Lemma d_A02_64c : close ctol (45 / 2) (clamp A02_lo A02_hi (1520714891776763 / 70368744177664)).
Proof. apply (A02_q_clamp_lo 1520714891776763 70368744177664 45 2); vm_compute; reflexivity. Qed.
Lemma d_A02_72c : close ctol (4547646353728907 / 35184372088832) (clamp A02_lo A02_hi (4547646353728907 / 35184372088832)).
Proof. apply (A02_q_clamp_mid 4547646353728907 35184372088832 4547646353728907 35184372088832); vm_compute; reflexivity. Qed.
Lemma d_A02_80c : close ctol (4961442774403035 / 70368744177664) (clamp A02_lo A02_hi (4961442774403035 / 70368744177664)).
Proof. apply (A02_q_clamp_mid 4961442774403035 70368744177664 4961442774403035 70368744177664); vm_compute; reflexivity. Qed.
Lemma d_A02_88c : close ctol (3195280623261887 / 35184372088832) (clamp A02_lo A02_hi (3195280623261887 / 35184372088832)).
Proof. apply (A02_q_clamp_mid 3195280623261887 35184372088832 3195280623261887 35184372088832); vm_compute; reflexivity. Qed.
Lemma d_A02_96c : close ctol (2310114805181011 / 17592186044416) (clamp A02_lo A02_hi (2310114805181011 / 17592186044416)).
Proof. apply (A02_q_clamp_mid 2310114805181011 17592186044416 2310114805181011 17592186044416); vm_compute; reflexivity. Qed.
Lemma d_A02_104c : close ctol (3091860021043789 / 35184372088832) (clamp A02_lo A02_hi (3091860021043789 / 35184372088832)).
Proof. apply (A02_q_clamp_mid 3091860021043789 35184372088832 3091860021043789 35184372088832); vm_compute; reflexivity. Qed.
Lemma d_A02_112c : close ctol (8169799662753435 / 70368744177664) (clamp A02_lo A02_hi (8169799662753435 / 70368744177664)).
Proof. apply (A02_q_clamp_mid 8169799662753435 70368744177664 8169799662753435 70368744177664); vm_compute; reflexivity. Qed.
Lemma d_A02_120c : close ctol (4139192801187715 / 35184372088832) (clamp A02_lo A02_hi (8278385602375429 / 70368744177664)).
Proof. apply (A02_q_clamp_mid 8278385602375429 70368744177664 4139192801187715 35184372088832); vm_compute; reflexivity. Qed.
Lemma d_A02_128c : close ctol (3832226858477481 / 35184372088832) (clamp A02_lo A02_hi (3832226858477481 / 35184372088832)).
Proof. apply (A02_q_clamp_mid 3832226858477481 35184372088832 3832226858477481 35184372088832); vm_compute; reflexivity. Qed.
Lemma d_A02_136c : close ctol (45 / 2) (clamp A02_lo A02_hi (1572550515779319 / 140737488355328)).
Proof. apply (A02_q_clamp_lo 1572550515779319 140737488355328 45 2); vm_compute; reflexivity. Qed.
Lemma d_A02_144c : close ctol (2513889241963051 / 17592186044416) (clamp A02_lo A02_hi (2513889241963051 / 17592186044416)).
Proof. apply (A02_q_clamp_mid 2513889241963051 17592186044416 2513889241963051 17592186044416); vm_compute; reflexivity. Qed.
Lemma d_A02_152c : close ctol (5505154422276957 / 70368744177664) (clamp A02_lo A02_hi (5505154422276957 / 70368744177664)).
Proof. apply (A02_q_clamp_mid 5505154422276957 70368744177664 5505154422276957 70368744177664); vm_compute; reflexivity. Qed.
Lemma d_A02_160c : close ctol (2033236606442587 / 70368744177664) (clamp A02_lo A02_hi (2033236606442587 / 70368744177664)).
Proof. apply (A02_q_clamp_mid 2033236606442587 70368744177664 2033236606442587 70368744177664); vm_compute; reflexivity. Qed.
Lemma d_A02_168c : close ctol (7467596415660777 / 281474976710656) (clamp A02_lo A02_hi (7467596415660777 / 281474976710656)).
Proof. apply (A02_q_clamp_mid 7467596415660777 281474976710656 7467596415660777 281474976710656); vm_compute; reflexivity. Qed.
Lemma d_A02_176c : close ctol (45 / 2) (clamp A02_lo A02_hi (1506468350337181 / 70368744177664)).
Proof. apply (A02_q_clamp_lo 1506468350337181 70368744177664 45 2); vm_compute; reflexivity. Qed.
Lemma d_A02_184c : close ctol (6904745468762349 / 70368744177664) (clamp A02_lo A02_hi (6904745468762349 / 70368744177664)).
Proof. apply (A02_q_clamp_mid 6904745468762349 70368744177664 6904745468762349 70368744177664); vm_compute; reflexivity. Qed.
Lemma d_A02_192c : close ctol (2521151069651905 / 70368744177664) (clamp A02_lo A02_hi (2521151069651905 / 70368744177664)).
Proof. apply (A02_q_clamp_mid 2521151069651905 70368744177664 2521151069651905 70368744177664); vm_compute; reflexivity. Qed.
Lemma d_A02_200c : close ctol (2446964076672651 / 17592186044416) (clamp A02_lo A02_hi (2446964076672651 / 17592186044416)).
Proof. apply (A02_q_clamp_mid 2446964076672651 17592186044416 2446964076672651 17592186044416); vm_compute; reflexivity. Qed.
Lemma d_A02_208c : close ctol (8426049340010823 / 70368744177664) (clamp A02_lo A02_hi (4213024670005411 / 35184372088832)).
Proof. apply (A02_q_clamp_mid 4213024670005411 35184372088832 8426049340010823 70368744177664); vm_compute; reflexivity. Qed.
Lemma d_A02_216c : close ctol (302689291064039 / 8796093022208) (clamp A02_lo A02_hi (302689291064039 / 8796093022208)).
Proof. apply (A02_q_clamp_mid 302689291064039 8796093022208 302689291064039 8796093022208); vm_compute; reflexivity. Qed.
Lemma d_A02_224c : close ctol (5300957285498969 / 70368744177664) (clamp A02_lo A02_hi (5300957285498969 / 70368744177664)).
Proof. apply (A02_q_clamp_mid 5300957285498969 70368744177664 5300957285498969 70368744177664); vm_compute; reflexivity. Qed.
Lemma d_A02_232c : close ctol (145 / 1) (clamp A02_lo A02_hi (281 / 1)).
Proof. apply (A02_q_clamp_hi 281 1 145 1); vm_compute; reflexivity. Qed.
Lemma d_A02_240c : close ctol (3291832402975391 / 70368744177664) (clamp A02_lo A02_hi (3291832402975391 / 70368744177664)).
Proof. apply (A02_q_clamp_mid 3291832402975391 70368744177664 3291832402975391 70368744177664); vm_compute; reflexivity. Qed.
Lemma d_A02_248c : close ctol (4634126756398687 / 35184372088832) (clamp A02_lo A02_hi (2317063378199343 / 17592186044416)).
Proof. apply (A02_q_clamp_mid 2317063378199343 17592186044416 4634126756398687 35184372088832); vm_compute; reflexivity. Qed.
Lemma d_A02_256c : close ctol (1242826523318057 / 8796093022208) (clamp A02_lo A02_hi (1242826523318057 / 8796093022208)).
Proof. apply (A02_q_clamp_mid 1242826523318057 8796093022208 1242826523318057 8796093022208); vm_compute; reflexivity. Qed.
Lemma d_A02_264c : close ctol (45 / 2) (clamp A02_lo A02_hi (6814141097399637 / 72057594037927936)).
Proof. apply (A02_q_clamp_lo 6814141097399637 72057594037927936 45 2); vm_compute; reflexivity. Qed.
Lemma d_A02_272c : close ctol (145 / 1) (clamp A02_lo A02_hi (6213447572515497 / 35184372088832)).
Proof. apply (A02_q_clamp_hi 6213447572515497 35184372088832 145 1); vm_compute; reflexivity. Qed.
Lemma d_A02_280c : close ctol (1188695057746283 / 17592186044416) (clamp A02_lo A02_hi (1188695057746283 / 17592186044416)).
Proof. apply (A02_q_clamp_mid 1188695057746283 17592186044416 1188695057746283 17592186044416); vm_compute; reflexivity. Qed.
Lemma d_A02_288c : close ctol (2336670090453667 / 35184372088832) (clamp A02_lo A02_hi (2336670090453667 / 35184372088832)).
Proof. apply (A02_q_clamp_mid 2336670090453667 35184372088832 2336670090453667 35184372088832); vm_compute; reflexivity. Qed.
Lemma d_A02_296c : close ctol (85 / 1) (clamp A02_lo A02_hi (85 / 1)).
Proof. apply (A02_q_clamp_mid 85 1 85 1); vm_compute; reflexivity. Qed.
Lemma d_A02_304c : close ctol (7036874417766401 / 140737488355328) (clamp A02_lo A02_hi (50 / 1)).
Proof. apply (A02_q_clamp_mid 50 1 7036874417766401 140737488355328); vm_compute; reflexivity. Qed.
Lemma d_A02_312c : close ctol (8009253590954351 / 140737488355328) (clamp A02_lo A02_hi (4004626795477175 / 70368744177664)).
Proof. apply (A02_q_clamp_mid 4004626795477175 70368744177664 8009253590954351 140737488355328); vm_compute; reflexivity. Qed.
Lemma d_A02_320c : close ctol (7707379319750457 / 281474976710656) (clamp A02_lo A02_hi (963422414968807 / 35184372088832)).
Proof. apply (A02_q_clamp_mid 963422414968807 35184372088832 7707379319750457 281474976710656); vm_compute; reflexivity. Qed.
Lemma d_A02_328c : close ctol (8907415255063761 / 281474976710656) (clamp A02_lo A02_hi (4453707627531881 / 140737488355328)).
Proof. apply (A02_q_clamp_mid 4453707627531881 140737488355328 8907415255063761 281474976710656); vm_compute; reflexivity. Qed.
Lemma d_A02_336c : close ctol (8149503190022013 / 281474976710656) (clamp A02_lo A02_hi (2037375797505503 / 70368744177664)).
Proof. apply (A02_q_clamp_mid 2037375797505503 70368744177664 8149503190022013 281474976710656); vm_compute; reflexivity. Qed.
Lemma d_A02_344c : close ctol (145 / 1) (clamp A02_lo A02_hi (468620551813179 / 1099511627776)).
Proof. apply (A02_q_clamp_hi 468620551813179 1099511627776 145 1); vm_compute; reflexivity. Qed.
Lemma d_A02_352c : close ctol (1919630417079317 / 17592186044416) (clamp A02_lo A02_hi (1919630417079317 / 17592186044416)).
Proof. apply (A02_q_clamp_mid 1919630417079317 17592186044416 1919630417079317 17592186044416); vm_compute; reflexivity. Qed.
Lemma d_A02_360c : close ctol (137 / 1) (clamp A02_lo A02_hi (137 / 1)).
Proof. apply (A02_q_clamp_mid 137 1 137 1); vm_compute; reflexivity. Qed.
Lemma d_A02_368c : close ctol (2582047071092723 / 35184372088832) (clamp A02_lo A02_hi (2582047071092723 / 35184372088832)).
Proof. apply (A02_q_clamp_mid 2582047071092723 35184372088832 2582047071092723 35184372088832); vm_compute; reflexivity. Qed.
Lemma d_A02_376c : close ctol (3274783887682999 / 35184372088832) (clamp A02_lo A02_hi (3274783887682999 / 35184372088832)).
Proof. apply (A02_q_clamp_mid 3274783887682999 35184372088832 3274783887682999 35184372088832); vm_compute; reflexivity. Qed.
Lemma d_A02_384c : close ctol (5101018957307339 / 35184372088832) (clamp A02_lo A02_hi (5101018957307339 / 35184372088832)).
Proof. apply (A02_q_clamp_mid 5101018957307339 35184372088832 5101018957307339 35184372088832); vm_compute; reflexivity. Qed.
Lemma d_A02_392c : close ctol (4843857331943547 / 35184372088832) (clamp A02_lo A02_hi (4843857331943547 / 35184372088832)).
Proof. apply (A02_q_clamp_mid 4843857331943547 35184372088832 4843857331943547 35184372088832); vm_compute; reflexivity. Qed.
Lemma d_A02_400c : close ctol (1856873645555497 / 17592186044416) (clamp A02_lo A02_hi (7427494582221989 / 70368744177664)).
Proof. apply (A02_q_clamp_mid 7427494582221989 70368744177664 1856873645555497 17592186044416); vm_compute; reflexivity. Qed.
Lemma d_A02_408c : close ctol (1447444840270757 / 35184372088832) (clamp A02_lo A02_hi (1447444840270757 / 35184372088832)).
Proof. apply (A02_q_clamp_mid 1447444840270757 35184372088832 1447444840270757 35184372088832); vm_compute; reflexivity. Qed.
Lemma d_A02_416c : close ctol (45 / 2) (clamp A02_lo A02_hi (863207982437921 / 70368744177664)).
Proof. apply (A02_q_clamp_lo 863207982437921 70368744177664 45 2); vm_compute; reflexivity. Qed.
Lemma d_A02_424c : close ctol (45 / 2) (clamp A02_lo A02_hi (5360812683506545 / 281474976710656)).
Proof. apply (A02_q_clamp_lo 5360812683506545 281474976710656 45 2); vm_compute; reflexivity. Qed.
Lemma d_A02_432c : close ctol (145 / 1) (clamp A02_lo A02_hi (157 / 1)).
Proof. apply (A02_q_clamp_hi 157 1 145 1); vm_compute; reflexivity. Qed.
Lemma d_A02_440c : close ctol (1234106490354553 / 8796093022208) (clamp A02_lo A02_hi (1234106490354553 / 8796093022208)).
Proof. apply (A02_q_clamp_mid 1234106490354553 8796093022208 1234106490354553 8796093022208); vm_compute; reflexivity. Qed.
Lemma d_A02_448c : close ctol (145 / 1) (clamp A02_lo A02_hi (3427586166617125 / 8796093022208)).
Proof. apply (A02_q_clamp_hi 3427586166617125 8796093022208 145 1); vm_compute; reflexivity. Qed.
Lemma d_A02_456c : close ctol (45 / 2) (clamp A02_lo A02_hi ((-5065308800661327) / 1125899906842624)).
Proof. apply (A02_q_clamp_lo (-5065308800661327) 1125899906842624 45 2); vm_compute; reflexivity. Qed.
Lemma d_A02_464c : close ctol (8544395544200499 / 140737488355328) (clamp A02_lo A02_hi (8544395544200499 / 140737488355328)).
Proof. apply (A02_q_clamp_mid 8544395544200499 140737488355328 8544395544200499 140737488355328); vm_compute; reflexivity. Qed.
Lemma d_A02_472c : close ctol (2288912575498619 / 17592186044416) (clamp A02_lo A02_hi (2288912575498619 / 17592186044416)).
Proof. apply (A02_q_clamp_mid 2288912575498619 17592186044416 2288912575498619 17592186044416); vm_compute; reflexivity. Qed.
Lemma d_A02_480c : close ctol (1584342041456305 / 35184372088832) (clamp A02_lo A02_hi (1584342041456305 / 35184372088832)).
Proof. apply (A02_q_clamp_mid 1584342041456305 35184372088832 1584342041456305 35184372088832); vm_compute; reflexivity. Qed.
Lemma d_A02_488c : close ctol (4973964913062931 / 35184372088832) (clamp A02_lo A02_hi (4973964913062931 / 35184372088832)).
Proof. apply (A02_q_clamp_mid 4973964913062931 35184372088832 4973964913062931 35184372088832); vm_compute; reflexivity. Qed.
Lemma d_A02_496c : close ctol (698284810038327 / 17592186044416) (clamp A02_lo A02_hi (698284810038327 / 17592186044416)).
Proof. apply (A02_q_clamp_mid 698284810038327 17592186044416 698284810038327 17592186044416); vm_compute; reflexivity. Qed.
Lemma d_A02_504c : close ctol (3610094409784411 / 35184372088832) (clamp A02_lo A02_hi (7220188819568821 / 70368744177664)).
Proof. apply (A02_q_clamp_mid 7220188819568821 70368744177664 3610094409784411 35184372088832); vm_compute; reflexivity. Qed.
Lemma d_A02_512c : close ctol (45 / 2) (clamp A02_lo A02_hi ((-156651652424873) / 70368744177664)).
Proof. apply (A02_q_clamp_lo (-156651652424873) 70368744177664 45 2); vm_compute; reflexivity. Qed.
Lemma d_A02_520c : close ctol (2470079040209305 / 35184372088832) (clamp A02_lo A02_hi (2470079040209305 / 35184372088832)).
Proof. apply (A02_q_clamp_mid 2470079040209305 35184372088832 2470079040209305 35184372088832); vm_compute; reflexivity. Qed.
Lemma d_A02_528c : close ctol (45 / 2) (clamp A02_lo A02_hi (742194923124983 / 35184372088832)).
Proof. apply (A02_q_clamp_lo 742194923124983 35184372088832 45 2); vm_compute; reflexivity. Qed.
Lemma d_A02_536c : close ctol (8861045203707515 / 70368744177664) (clamp A02_lo A02_hi (8861045203707515 / 70368744177664)).
Proof. apply (A02_q_clamp_mid 8861045203707515 70368744177664 8861045203707515 70368744177664); vm_compute; reflexivity. Qed.
Lemma d_A02_544c : close ctol (8661810340251097 / 70368744177664) (clamp A02_lo A02_hi (8661810340251097 / 70368744177664)).
Proof. apply (A02_q_clamp_mid 8661810340251097 70368744177664 8661810340251097 70368744177664); vm_compute; reflexivity. Qed.
Lemma d_A02_552c : close ctol (1226421322355163 / 8796093022208) (clamp A02_lo A02_hi (1226421322355163 / 8796093022208)).
Proof. apply (A02_q_clamp_mid 1226421322355163 8796093022208 1226421322355163 8796093022208); vm_compute; reflexivity. Qed.
Lemma d_A02_560c : close ctol (6379610310684957 / 70368744177664) (clamp A02_lo A02_hi (6379610310684957 / 70368744177664)).
Proof. apply (A02_q_clamp_mid 6379610310684957 70368744177664 6379610310684957 70368744177664); vm_compute; reflexivity. Qed.
Lemma d_A02_568c : close ctol (145 / 1) (clamp A02_lo A02_hi (2429570986297061 / 8796093022208)).
Proof. apply (A02_q_clamp_hi 2429570986297061 8796093022208 145 1); vm_compute; reflexivity. Qed.
Lemma d_A02_576c : close ctol (6804273120635763 / 70368744177664) (clamp A02_lo A02_hi (6804273120635763 / 70368744177664)).
Proof. apply (A02_q_clamp_mid 6804273120635763 70368744177664 6804273120635763 70368744177664); vm_compute; reflexivity. Qed.
Lemma d_A02_584c : close ctol (45 / 2) (clamp A02_lo A02_hi (9 / 1)).
Proof. apply (A02_q_clamp_lo 9 1 45 2); vm_compute; reflexivity. Qed.
Lemma d_A02_592c : close ctol (742798619840089 / 8796093022208) (clamp A02_lo A02_hi (742798619840089 / 8796093022208)).
Proof. apply (A02_q_clamp_mid 742798619840089 8796093022208 742798619840089 8796093022208); vm_compute; reflexivity. Qed.
Lemma d_A02_600c : close ctol (1435511132273641 / 17592186044416) (clamp A02_lo A02_hi (1435511132273641 / 17592186044416)).
Proof. apply (A02_q_clamp_mid 1435511132273641 17592186044416 1435511132273641 17592186044416); vm_compute; reflexivity. Qed.
Lemma d_A02_608c : close ctol (6747328420787639 / 140737488355328) (clamp A02_lo A02_hi (6747328420787639 / 140737488355328)).
Proof. apply (A02_q_clamp_mid 6747328420787639 140737488355328 6747328420787639 140737488355328); vm_compute; reflexivity. Qed.
Lemma d_A02_616c : close ctol (6260387852955399 / 70368744177664) (clamp A02_lo A02_hi (6260387852955399 / 70368744177664)).
Proof. apply (A02_q_clamp_mid 6260387852955399 70368744177664 6260387852955399 70368744177664); vm_compute; reflexivity. Qed.
Lemma d_A02_624c : close ctol (2375218344453359 / 35184372088832) (clamp A02_lo A02_hi (2375218344453359 / 35184372088832)).
Proof. apply (A02_q_clamp_mid 2375218344453359 35184372088832 2375218344453359 35184372088832); vm_compute; reflexivity. Qed.
Lemma d_A02_632c : close ctol (4639440248091207 / 70368744177664) (clamp A02_lo A02_hi (4639440248091207 / 70368744177664)).
Proof. apply (A02_q_clamp_mid 4639440248091207 70368744177664 4639440248091207 70368744177664); vm_compute; reflexivity. Qed.
Lemma d_A02_640c : close ctol (293795420006053 / 2199023255552) (clamp A02_lo A02_hi (293795420006053 / 2199023255552)).
Proof. apply (A02_q_clamp_mid 293795420006053 2199023255552 293795420006053 2199023255552); vm_compute; reflexivity. Qed.
Lemma d_A02_648c : close ctol (3411016121513453 / 140737488355328) (clamp A02_lo A02_hi (3411016121513453 / 140737488355328)).
Proof. apply (A02_q_clamp_mid 3411016121513453 140737488355328 3411016121513453 140737488355328); vm_compute; reflexivity. Qed.
Lemma d_A02_656c : close ctol (1382211316022975 / 35184372088832) (clamp A02_lo A02_hi (1382211316022975 / 35184372088832)).
Proof. apply (A02_q_clamp_mid 1382211316022975 35184372088832 1382211316022975 35184372088832); vm_compute; reflexivity. Qed.
Lemma d_A02_664c : close ctol (3442602469171759 / 140737488355328) (clamp A02_lo A02_hi (3442602469171759 / 140737488355328)).
Proof. apply (A02_q_clamp_mid 3442602469171759 140737488355328 3442602469171759 140737488355328); vm_compute; reflexivity. Qed.
Lemma r_A21_441 : rio_reads A21_c A21_e A21_lo A21_hi floor_volts ctol (Build_rio (Fin (253 / 25300281663413827294061918339864663381194581220517764794612669753428792445999418361495047962679640561898384733039601488923726092173224184608376674992592313740189678034570795170558363467761652042654970959809093133570250935428086587327262919456144944542601257064044846194041676826903812816523290938580750782913463467636686848)) (Fin (5629499534213119 / 1125899906842624)) (Fin (3715469692580659 / 1125899906842624)) (Fin (6 / 1)) (Fin (12 / 1)) true true true ((Fin (0 / 1)) :: (Fin (0 / 1)) :: (Fin (0 / 1)) :: (Fin (0 / 1)) :: (Fin (27 / 4)) :: (Fin (45 / 1)) :: nil)) (80 / 1).
Proof. apply (A21_rio_fin _ (253 / 25300281663413827294061918339864663381194581220517764794612669753428792445999418361495047962679640561898384733039601488923726092173224184608376674992592313740189678034570795170558363467761652042654970959809093133570250935428086587327262919456144944542601257064044846194041676826903812816523290938580750782913463467636686848)); [reflexivity | apply (A21_q_floor 253 25300281663413827294061918339864663381194581220517764794612669753428792445999418361495047962679640561898384733039601488923726092173224184608376674992592313740189678034570795170558363467761652042654970959809093133570250935428086587327262919456144944542601257064044846194041676826903812816523290938580750782913463467636686848 80 1); vm_compute; reflexivity]. Qed.
Lemma r_A21_835 : rio_reads A21_c A21_e A21_lo A21_hi floor_volts ctol (Build_rio (Fin (6478517072395685 / 18889465931478580854784)) (Fin (5 / 1024)) (Fin (1439 / 512)) (Fin (3297 / 256)) (Fin (10749 / 1024)) true true true ((Fin (683 / 256)) :: (Fin (747 / 512)) :: (Fin (451 / 512)) :: (Fin (43281 / 1024)) :: (Fin (6793 / 1024)) :: (Fin (47789 / 1024)) :: nil)) (80 / 1).
Proof. apply (A21_rio_fin _ (6478517072395685 / 18889465931478580854784)); [reflexivity | apply (A21_q_floor 6478517072395685 18889465931478580854784 80 1); vm_compute; reflexivity]. Qed.
Lemma d_A21_674c : close ctol (30 / 1) (clamp A21_lo A21_hi (30 / 1)).
Proof. apply (A21_q_clamp_mid 30 1 30 1); vm_compute; reflexivity. Qed.
Lemma d_A21_682c : close ctol (4925812092436481 / 140737488355328) (clamp A21_lo A21_hi (35 / 1)).
Proof. apply (A21_q_clamp_mid 35 1 4925812092436481 140737488355328); vm_compute; reflexivity. Qed.
Lemma d_A21_690c : close ctol (10 / 1) (clamp A21_lo A21_hi ((-100000000000000001097906362944045541740492309677311846336810682903157585404911491537163328978494688899061249669721172515611590283743140088328307009198146046031271664502933027185697489699588559043338384466165001178426897626212945177628091195786707458122783970171784415105291802893207873272974885715430223118336) / 1)).
Proof. apply (A21_q_clamp_lo (-100000000000000001097906362944045541740492309677311846336810682903157585404911491537163328978494688899061249669721172515611590283743140088328307009198146046031271664502933027185697489699588559043338384466165001178426897626212945177628091195786707458122783970171784415105291802893207873272974885715430223118336) 1 10 1); vm_compute; reflexivity. Qed.
Lemma d_A21_698c : close ctol (30 / 1) (clamp A21_lo A21_hi (30 / 1)).
Proof. apply (A21_q_clamp_mid 30 1 30 1); vm_compute; reflexivity. Qed.
Lemma d_A21_706c : close ctol (80 / 1) (clamp A21_lo A21_hi (179769313486231570814527423731704356798070567525844996598917476803157260780028538760589558632766878171540458953514382464234321326889464182768467546703537516986049910576551282076245490090389328944075868508455133942304583236903222948165808559332123348274797826204144723168738177180919299881250404026184124858368 / 1)).
Proof. apply (A21_q_clamp_hi 179769313486231570814527423731704356798070567525844996598917476803157260780028538760589558632766878171540458953514382464234321326889464182768467546703537516986049910576551282076245490090389328944075868508455133942304583236903222948165808559332123348274797826204144723168738177180919299881250404026184124858368 1 80 1); vm_compute; reflexivity. Qed.
Lemma d_A21_715c : close ctol (10 / 1) (clamp A21_lo A21_hi (5629499528583621 / 562949953421312)).
Proof. apply (A21_q_clamp_lo 5629499528583621 562949953421312 10 1); vm_compute; reflexivity. Qed.
Lemma d_A21_723c : close ctol (45 / 1) (clamp A21_lo A21_hi (45 / 1)).
Proof. apply (A21_q_clamp_mid 45 1 45 1); vm_compute; reflexivity. Qed.
Lemma d_A21_731c : close ctol (434863348010461 / 8796093022208) (clamp A21_lo A21_hi (434863348010461 / 8796093022208)).
Proof. apply (A21_q_clamp_mid 434863348010461 8796093022208 434863348010461 8796093022208); vm_compute; reflexivity. Qed.
Lemma d_A21_739c : close ctol (80 / 1) (clamp A21_lo A21_hi (8340550287525921 / 70368744177664)).
Proof. apply (A21_q_clamp_hi 8340550287525921 70368744177664 80 1); vm_compute; reflexivity. Qed.
Lemma d_A21_747c : close ctol (3526776897814947 / 140737488355328) (clamp A21_lo A21_hi (3526776897814947 / 140737488355328)).
Proof. apply (A21_q_clamp_mid 3526776897814947 140737488355328 3526776897814947 140737488355328); vm_compute; reflexivity. Qed.
Lemma d_A21_755c : close ctol (4696860173165913 / 140737488355328) (clamp A21_lo A21_hi (4696860173165913 / 140737488355328)).
Proof. apply (A21_q_clamp_mid 4696860173165913 140737488355328 4696860173165913 140737488355328); vm_compute; reflexivity. Qed.
Lemma d_A21_763c : close ctol (2743588131677841 / 35184372088832) (clamp A21_lo A21_hi (2743588131677841 / 35184372088832)).
Proof. apply (A21_q_clamp_mid 2743588131677841 35184372088832 2743588131677841 35184372088832); vm_compute; reflexivity. Qed.
Lemma d_A21_771c : close ctol (80 / 1) (clamp A21_lo A21_hi (6683408637488185 / 35184372088832)).
Proof. apply (A21_q_clamp_hi 6683408637488185 35184372088832 80 1); vm_compute; reflexivity. Qed.
Lemma d_A21_779c : close ctol (6206022901320445 / 140737488355328) (clamp A21_lo A21_hi (6206022901320445 / 140737488355328)).
Proof. apply (A21_q_clamp_mid 6206022901320445 140737488355328 6206022901320445 140737488355328); vm_compute; reflexivity. Qed.
Lemma d_A21_787c : close ctol (575324227234463 / 8796093022208) (clamp A21_lo A21_hi (575324227234463 / 8796093022208)).
Proof. apply (A21_q_clamp_mid 575324227234463 8796093022208 575324227234463 8796093022208); vm_compute; reflexivity. Qed.
Lemma d_A21_795c : close ctol (7040117097150401 / 281474976710656) (clamp A21_lo A21_hi (3520058548575201 / 140737488355328)).
Proof. apply (A21_q_clamp_mid 3520058548575201 140737488355328 7040117097150401 281474976710656); vm_compute; reflexivity. Qed.
Lemma d_A21_803c : close ctol (3901366857485669 / 70368744177664) (clamp A21_lo A21_hi (7802733714971339 / 140737488355328)).
Proof. apply (A21_q_clamp_mid 7802733714971339 140737488355328 3901366857485669 70368744177664); vm_compute; reflexivity. Qed.
Lemma d_A21_811c : close ctol (1337108276082293 / 17592186044416) (clamp A21_lo A21_hi (5348433104329171 / 70368744177664)).
Proof. apply (A21_q_clamp_mid 5348433104329171 70368744177664 1337108276082293 17592186044416); vm_compute; reflexivity. Qed.
Lemma d_A21_819c : close ctol (10 / 1) (clamp A21_lo A21_hi (7676246624467467 / 2305843009213693952)).
Proof. apply (A21_q_clamp_lo 7676246624467467 2305843009213693952 10 1); vm_compute; reflexivity. Qed.
Lemma d_A21_827c : close ctol (6807694445760437 / 140737488355328) (clamp A21_lo A21_hi (6807694445760437 / 140737488355328)).
Proof. apply (A21_q_clamp_mid 6807694445760437 140737488355328 6807694445760437 140737488355328); vm_compute; reflexivity. Qed.
Lemma d_A21_835c : close ctol (3252712401143039 / 70368744177664) (clamp A21_lo A21_hi (3252712401143039 / 70368744177664)).
Proof. apply (A21_q_clamp_mid 3252712401143039 70368744177664 3252712401143039 70368744177664); vm_compute; reflexivity. Qed.
Lemma d_A21_843c : close ctol (10 / 1) (clamp A21_lo A21_hi (7926225971080611 / 1125899906842624)).
Proof. apply (A21_q_clamp_lo 7926225971080611 1125899906842624 10 1); vm_compute; reflexivity. Qed.
Lemma d_A21_851c : close ctol (10 / 1) (clamp A21_lo A21_hi ((-7398921979029561) / 2251799813685248)).
Proof. apply (A21_q_clamp_lo (-7398921979029561) 2251799813685248 10 1); vm_compute; reflexivity. Qed.
Lemma d_A21_859c : close ctol (6999238650520411 / 562949953421312) (clamp A21_lo A21_hi (1749809662630103 / 140737488355328)).
Proof. apply (A21_q_clamp_mid 1749809662630103 140737488355328 6999238650520411 562949953421312); vm_compute; reflexivity. Qed.
Lemma d_A21_867c : close ctol (3626384350459585 / 70368744177664) (clamp A21_lo A21_hi (7252768700919171 / 140737488355328)).
Proof. apply (A21_q_clamp_mid 7252768700919171 140737488355328 3626384350459585 70368744177664); vm_compute; reflexivity. Qed.
Lemma d_A21_875c : close ctol (10 / 1) (clamp A21_lo A21_hi ((-2387792246662981) / 1125899906842624)).
Proof. apply (A21_q_clamp_lo (-2387792246662981) 1125899906842624 10 1); vm_compute; reflexivity. Qed.
Lemma d_A21_883c : close ctol (4802703620137735 / 281474976710656) (clamp A21_lo A21_hi (4802703620137735 / 281474976710656)).
Proof. apply (A21_q_clamp_mid 4802703620137735 281474976710656 4802703620137735 281474976710656); vm_compute; reflexivity. Qed.
Lemma d_A21_891c : close ctol (4981408998944805 / 140737488355328) (clamp A21_lo A21_hi (1245352249736201 / 35184372088832)).
Proof. apply (A21_q_clamp_mid 1245352249736201 35184372088832 4981408998944805 140737488355328); vm_compute; reflexivity. Qed.
Lemma d_A21_899c : close ctol (10 / 1) (clamp A21_lo A21_hi (5124394658847159 / 562949953421312)).
Proof. apply (A21_q_clamp_lo 5124394658847159 562949953421312 10 1); vm_compute; reflexivity. Qed.
Lemma d_A21_907c : close ctol (80 / 1) (clamp A21_lo A21_hi (2324777365778969 / 17592186044416)).
Proof. apply (A21_q_clamp_hi 2324777365778969 17592186044416 80 1); vm_compute; reflexivity. Qed.
Lemma d_A21_915c : close ctol (4807318566918941 / 70368744177664) (clamp A21_lo A21_hi (1201829641729735 / 17592186044416)).
Proof. apply (A21_q_clamp_mid 1201829641729735 17592186044416 4807318566918941 70368744177664); vm_compute; reflexivity. Qed.
Lemma d_A21_923c : close ctol (7503136606999121 / 281474976710656) (clamp A21_lo A21_hi (3751568303499561 / 140737488355328)).
Proof. apply (A21_q_clamp_mid 3751568303499561 140737488355328 7503136606999121 281474976710656); vm_compute; reflexivity. Qed.
Lemma d_A21_931c : close ctol (5287035678995077 / 140737488355328) (clamp A21_lo A21_hi (5287035678995077 / 140737488355328)).
Proof. apply (A21_q_clamp_mid 5287035678995077 140737488355328 5287035678995077 140737488355328); vm_compute; reflexivity. Qed.
Lemma d_A21_939c : close ctol (10 / 1) (clamp A21_lo A21_hi (5245201744901659 / 4611686018427387904)).
Proof. apply (A21_q_clamp_lo 5245201744901659 4611686018427387904 10 1); vm_compute; reflexivity. Qed.
Lemma d_A21_947c : close ctol (80 / 1) (clamp A21_lo A21_hi (517104375310947 / 2199023255552)).
Proof. apply (A21_q_clamp_hi 517104375310947 2199023255552 80 1); vm_compute; reflexivity. Qed.
Lemma d_A21_955c : close ctol (2304265651384399 / 35184372088832) (clamp A21_lo A21_hi (2304265651384399 / 35184372088832)).
Proof. apply (A21_q_clamp_mid 2304265651384399 35184372088832 2304265651384399 35184372088832); vm_compute; reflexivity. Qed.
Lemma d_A21_963c : close ctol (295047542140691 / 8796093022208) (clamp A21_lo A21_hi (295047542140691 / 8796093022208)).
Proof. apply (A21_q_clamp_mid 295047542140691 8796093022208 295047542140691 8796093022208); vm_compute; reflexivity. Qed.
Lemma d_A21_971c : close ctol (6047681779075541 / 140737488355328) (clamp A21_lo A21_hi (6047681779075541 / 140737488355328)).
Proof. apply (A21_q_clamp_mid 6047681779075541 140737488355328 6047681779075541 140737488355328); vm_compute; reflexivity. Qed.
Lemma d_A21_979c : close ctol (80 / 1) (clamp A21_lo A21_hi (8263936480202961 / 70368744177664)).
Proof. apply (A21_q_clamp_hi 8263936480202961 70368744177664 80 1); vm_compute; reflexivity. Qed.
Lemma d_A21_987c : close ctol (6365591693776155 / 562949953421312) (clamp A21_lo A21_hi (1591397923444039 / 140737488355328)).
Proof. apply (A21_q_clamp_mid 1591397923444039 140737488355328 6365591693776155 562949953421312); vm_compute; reflexivity. Qed.
Lemma d_A21_995c : close ctol (80 / 1) (clamp A21_lo A21_hi (2571795361729147 / 17592186044416)).
Proof. apply (A21_q_clamp_hi 2571795361729147 17592186044416 80 1); vm_compute; reflexivity. Qed.
Lemma d_A21_1003c : close ctol (5784113163449631 / 140737488355328) (clamp A21_lo A21_hi (2892056581724815 / 70368744177664)).
Proof. apply (A21_q_clamp_mid 2892056581724815 70368744177664 5784113163449631 140737488355328); vm_compute; reflexivity. Qed.
Lemma d_A21_1011c : close ctol (590519392205019 / 35184372088832) (clamp A21_lo A21_hi (590519392205019 / 35184372088832)).
Proof. apply (A21_q_clamp_mid 590519392205019 35184372088832 590519392205019 35184372088832); vm_compute; reflexivity. Qed.
Lemma d_A21_1019c : close ctol (2330562932581585 / 35184372088832) (clamp A21_lo A21_hi (2330562932581585 / 35184372088832)).
Proof. apply (A21_q_clamp_mid 2330562932581585 35184372088832 2330562932581585 35184372088832); vm_compute; reflexivity. Qed.
Lemma d_A21_1027c : close ctol (3885367720953037 / 70368744177664) (clamp A21_lo A21_hi (3885367720953037 / 70368744177664)).
Proof. apply (A21_q_clamp_mid 3885367720953037 70368744177664 3885367720953037 70368744177664); vm_compute; reflexivity. Qed.
Lemma d_A21_1035c : close ctol (2177487725785479 / 35184372088832) (clamp A21_lo A21_hi (2177487725785479 / 35184372088832)).
Proof. apply (A21_q_clamp_mid 2177487725785479 35184372088832 2177487725785479 35184372088832); vm_compute; reflexivity. Qed.
Lemma d_A21_1043c : close ctol (6276046922050143 / 140737488355328) (clamp A21_lo A21_hi (6276046922050143 / 140737488355328)).
Proof. apply (A21_q_clamp_mid 6276046922050143 140737488355328 6276046922050143 140737488355328); vm_compute; reflexivity. Qed.
Lemma d_A21_1051c : close ctol (10 / 1) (clamp A21_lo A21_hi (116424777782257 / 562949953421312)).
Proof. apply (A21_q_clamp_lo 116424777782257 562949953421312 10 1); vm_compute; reflexivity. Qed.
Lemma d_A21_1059c : close ctol (10 / 1) (clamp A21_lo A21_hi ((-5324046514016459) / 1125899906842624)).
Proof. apply (A21_q_clamp_lo (-5324046514016459) 1125899906842624 10 1); vm_compute; reflexivity. Qed.
Lemma d_A21_1067c : close ctol (4668794513237467 / 281474976710656) (clamp A21_lo A21_hi (4668794513237467 / 281474976710656)).
Proof. apply (A21_q_clamp_mid 4668794513237467 281474976710656 4668794513237467 281474976710656); vm_compute; reflexivity. Qed.
Lemma d_A21_1075c : close ctol (8055398482733849 / 140737488355328) (clamp A21_lo A21_hi (8055398482733847 / 140737488355328)).
Proof. apply (A21_q_clamp_mid 8055398482733847 140737488355328 8055398482733849 140737488355328); vm_compute; reflexivity. Qed.
Lemma d_A21_1083c : close ctol (368999865436203 / 35184372088832) (clamp A21_lo A21_hi (5903997846979249 / 562949953421312)).
Proof. apply (A21_q_clamp_mid 5903997846979249 562949953421312 368999865436203 35184372088832); vm_compute; reflexivity. Qed.
Lemma d_A21_1091c : close ctol (6729636970334945 / 140737488355328) (clamp A21_lo A21_hi (3364818485167473 / 70368744177664)).
Proof. apply (A21_q_clamp_mid 3364818485167473 70368744177664 6729636970334945 140737488355328); vm_compute; reflexivity. Qed.
Lemma d_A21_1099c : close ctol (6925503174689909 / 140737488355328) (clamp A21_lo A21_hi (6925503174689909 / 140737488355328)).
Proof. apply (A21_q_clamp_mid 6925503174689909 140737488355328 6925503174689909 140737488355328); vm_compute; reflexivity. Qed.
Lemma d_A21_1107c : close ctol (10 / 1) (clamp A21_lo A21_hi (2487088007473649 / 1125899906842624)).
Proof. apply (A21_q_clamp_lo 2487088007473649 1125899906842624 10 1); vm_compute; reflexivity. Qed.
Lemma d_A21_1115c : close ctol (10 / 1) (clamp A21_lo A21_hi (4588100510728091 / 562949953421312)).
Proof. apply (A21_q_clamp_lo 4588100510728091 562949953421312 10 1); vm_compute; reflexivity. Qed.
Lemma d_A21_1123c : close ctol (1280648565642015 / 70368744177664) (clamp A21_lo A21_hi (1280648565642015 / 70368744177664)).
Proof. apply (A21_q_clamp_mid 1280648565642015 70368744177664 1280648565642015 70368744177664); vm_compute; reflexivity. Qed.
Lemma d_A21_1131c : close ctol (80 / 1) (clamp A21_lo A21_hi (2955303013384987 / 1099511627776)).
Proof. apply (A21_q_clamp_hi 2955303013384987 1099511627776 80 1); vm_compute; reflexivity. Qed.
Lemma d_A21_1139c : close ctol (10 / 1) (clamp A21_lo A21_hi (4591551189509913 / 562949953421312)).
Proof. apply (A21_q_clamp_lo 4591551189509913 562949953421312 10 1); vm_compute; reflexivity. Qed.
Lemma d_A21_1147c : close ctol (80 / 1) (clamp A21_lo A21_hi (7499693198476163 / 35184372088832)).
Proof. apply (A21_q_clamp_hi 7499693198476163 35184372088832 80 1); vm_compute; reflexivity. Qed.
Lemma d_A21_1155c : close ctol (80 / 1) (clamp A21_lo A21_hi (84 / 1)).
Proof. apply (A21_q_clamp_hi 84 1 80 1); vm_compute; reflexivity. Qed.
Lemma d_A21_1163c : close ctol (1605130305531091 / 35184372088832) (clamp A21_lo A21_hi (6420521222124363 / 140737488355328)).
Proof. apply (A21_q_clamp_mid 6420521222124363 140737488355328 1605130305531091 35184372088832); vm_compute; reflexivity. Qed.
Lemma d_A21_1171c : close ctol (2548211758938703 / 35184372088832) (clamp A21_lo A21_hi (5096423517877405 / 70368744177664)).
Proof. apply (A21_q_clamp_mid 5096423517877405 70368744177664 2548211758938703 35184372088832); vm_compute; reflexivity. Qed.
Lemma d_A21_1179c : close ctol (2546561448433681 / 35184372088832) (clamp A21_lo A21_hi (2546561448433681 / 35184372088832)).
Proof. apply (A21_q_clamp_mid 2546561448433681 35184372088832 2546561448433681 35184372088832); vm_compute; reflexivity. Qed.
Lemma d_A21_1187c : close ctol (1783596444396137 / 70368744177664) (clamp A21_lo A21_hi (1783596444396137 / 70368744177664)).
Proof. apply (A21_q_clamp_mid 1783596444396137 70368744177664 1783596444396137 70368744177664); vm_compute; reflexivity. Qed.
Lemma d_A21_1195c : close ctol (2838150866814949 / 140737488355328) (clamp A21_lo A21_hi (2838150866814949 / 140737488355328)).
Proof. apply (A21_q_clamp_mid 2838150866814949 140737488355328 2838150866814949 140737488355328); vm_compute; reflexivity. Qed.
Lemma d_A21_1203c : close ctol (6094403476484215 / 281474976710656) (clamp A21_lo A21_hi (761800434560527 / 35184372088832)).
Proof. apply (A21_q_clamp_mid 761800434560527 35184372088832 6094403476484215 281474976710656); vm_compute; reflexivity. Qed.
Lemma d_A21_1211c : close ctol (4439576739998763 / 140737488355328) (clamp A21_lo A21_hi (8879153479997525 / 281474976710656)).
Proof. apply (A21_q_clamp_mid 8879153479997525 281474976710656 4439576739998763 140737488355328); vm_compute; reflexivity. Qed.
Lemma d_A21_1219c : close ctol (10 / 1) (clamp A21_lo A21_hi (7561869417550663 / 18014398509481984)).
Proof. apply (A21_q_clamp_lo 7561869417550663 18014398509481984 10 1); vm_compute; reflexivity. Qed.
Lemma d_A21_1227c : close ctol (7062516587267811 / 140737488355328) (clamp A21_lo A21_hi (7062516587267811 / 140737488355328)).
Proof. apply (A21_q_clamp_mid 7062516587267811 140737488355328 7062516587267811 140737488355328); vm_compute; reflexivity. Qed.
Lemma d_A21_1235c : close ctol (3327997155203299 / 70368744177664) (clamp A21_lo A21_hi (3327997155203299 / 70368744177664)).
Proof. apply (A21_q_clamp_mid 3327997155203299 70368744177664 3327997155203299 70368744177664); vm_compute; reflexivity. Qed.
Lemma d_A21_1243c : close ctol (4573782733827459 / 140737488355328) (clamp A21_lo A21_hi (4573782733827459 / 140737488355328)).
Proof. apply (A21_q_clamp_mid 4573782733827459 140737488355328 4573782733827459 140737488355328); vm_compute; reflexivity. Qed.
Lemma d_A21_1251c : close ctol (1205239452278703 / 17592186044416) (clamp A21_lo A21_hi (1205239452278703 / 17592186044416)).
Proof. apply (A21_q_clamp_mid 1205239452278703 17592186044416 1205239452278703 17592186044416); vm_compute; reflexivity. Qed.
Lemma d_A21_1259c : close ctol (3883243445384153 / 70368744177664) (clamp A21_lo A21_hi (3883243445384153 / 70368744177664)).
Proof. apply (A21_q_clamp_mid 3883243445384153 70368744177664 3883243445384153 70368744177664); vm_compute; reflexivity. Qed.
Lemma d_A21_1267c : close ctol (5992518918239703 / 140737488355328) (clamp A21_lo A21_hi (5992518918239703 / 140737488355328)).
Proof. apply (A21_q_clamp_mid 5992518918239703 140737488355328 5992518918239703 140737488355328); vm_compute; reflexivity. Qed.
Lemma d_A21_1275c : close ctol (80 / 1) (clamp A21_lo A21_hi (753673425734333 / 4398046511104)).
Proof. apply (A21_q_clamp_hi 753673425734333 4398046511104 80 1); vm_compute; reflexivity. Qed.
Lemma d_A21_1283c : close ctol (10 / 1) (clamp A21_lo A21_hi (4745145564688715 / 2305843009213693952)).
Proof. apply (A21_q_clamp_lo 4745145564688715 2305843009213693952 10 1); vm_compute; reflexivity. Qed.
Lemma d_A21_1291c : close ctol (2963726062079627 / 70368744177664) (clamp A21_lo A21_hi (2963726062079627 / 70368744177664)).
Proof. apply (A21_q_clamp_mid 2963726062079627 70368744177664 2963726062079627 70368744177664); vm_compute; reflexivity. Qed.
Lemma d_A21_1299c : close ctol (10 / 1) (clamp A21_lo A21_hi (5552451936597621 / 4503599627370496)).
Proof. apply (A21_q_clamp_lo 5552451936597621 4503599627370496 10 1); vm_compute; reflexivity. Qed.
Lemma d_A21_1307c : close ctol (10 / 1) (clamp A21_lo A21_hi (660964963532321 / 281474976710656)).
Proof. apply (A21_q_clamp_lo 660964963532321 281474976710656 10 1); vm_compute; reflexivity. Qed.
Lemma d_A21_1315c : close ctol (1190197890856607 / 17592186044416) (clamp A21_lo A21_hi (1190197890856607 / 17592186044416)).
Proof. apply (A21_q_clamp_mid 1190197890856607 17592186044416 1190197890856607 17592186044416); vm_compute; reflexivity. Qed.
Lemma d_A21_1323c : close ctol (3979725604696609 / 70368744177664) (clamp A21_lo A21_hi (124366425146769 / 2199023255552)).
Proof. apply (A21_q_clamp_mid 124366425146769 2199023255552 3979725604696609 70368744177664); vm_compute; reflexivity. Qed.
Lemma d_A21_1331c : close ctol (7464945290001091 / 562949953421312) (clamp A21_lo A21_hi (7464945290001091 / 562949953421312)).
Proof. apply (A21_q_clamp_mid 7464945290001091 562949953421312 7464945290001091 562949953421312); vm_compute; reflexivity. Qed.
Lemma r_A41_867 : rio_reads A41_c A41_e A41_lo A41_hi floor_volts ctol (Build_rio (Fin (6032057205060441 / 6032057205060440848842124543157735677050252251748505781796615064961622344493727293370973578138265743708225425014400837164813540499979063179105919597766951022193355091707896034850684039059079180396788349106095584290087446076413771468940477241550670753145517602931224392424029547429993824129889235158145614364972941312)) (Fin (0 / 1)) (Fin (3715469692580659 / 1125899906842624)) (Fin (6 / 1)) (Fin (12 / 1)) true true true ((Fin (0 / 1)) :: (Fin (0 / 1)) :: (Fin (0 / 1)) :: (Fin (0 / 1)) :: (Fin (27 / 4)) :: (Fin (45 / 1)) :: nil)) (35 / 1).
Proof. apply (A41_rio_fin _ (6032057205060441 / 6032057205060440848842124543157735677050252251748505781796615064961622344493727293370973578138265743708225425014400837164813540499979063179105919597766951022193355091707896034850684039059079180396788349106095584290087446076413771468940477241550670753145517602931224392424029547429993824129889235158145614364972941312)); [reflexivity | apply (A41_q_floor 6032057205060441 6032057205060440848842124543157735677050252251748505781796615064961622344493727293370973578138265743708225425014400837164813540499979063179105919597766951022193355091707896034850684039059079180396788349106095584290087446076413771468940477241550670753145517602931224392424029547429993824129889235158145614364972941312 35 1); vm_compute; reflexivity]. Qed.
Lemma r_A41_1265 : rio_reads A41_c A41_e A41_lo A41_hi floor_volts ctol (Build_rio (Fin (5498259280876721 / 18889465931478580854784)) (Fin (4477 / 1024)) (Fin (3715469692580659 / 1125899906842624)) (Fin (2799 / 512)) (Fin (12649 / 1024)) true false true ((Fin (2651 / 1024)) :: (Fin (1367 / 1024)) :: (Fin (903 / 1024)) :: (Fin (35211 / 1024)) :: (Fin (1255 / 256)) :: (Fin (2905 / 32)) :: nil)) (35 / 1).
Proof. apply (A41_rio_fin _ (5498259280876721 / 18889465931478580854784)); [reflexivity | apply (A41_q_floor 5498259280876721 18889465931478580854784 35 1); vm_compute; reflexivity]. Qed.
Lemma d_A41_1340c : close ctol (30 / 1) (clamp A41_lo A41_hi (30 / 1)).
Proof. apply (A41_q_clamp_mid 30 1 30 1); vm_compute; reflexivity. Qed.
Lemma d_A41_1348c : close ctol (35 / 1) (clamp A41_lo A41_hi (35 / 1)).
Proof. apply (A41_q_clamp_hi 35 1 35 1); vm_compute; reflexivity. Qed.
Lemma d_A41_1356c : close ctol (9 / 2) (clamp A41_lo A41_hi ((-100000000000000001097906362944045541740492309677311846336810682903157585404911491537163328978494688899061249669721172515611590283743140088328307009198146046031271664502933027185697489699588559043338384466165001178426897626212945177628091195786707458122783970171784415105291802893207873272974885715430223118336) / 1)).
Proof. apply (A41_q_clamp_lo (-100000000000000001097906362944045541740492309677311846336810682903157585404911491537163328978494688899061249669721172515611590283743140088328307009198146046031271664502933027185697489699588559043338384466165001178426897626212945177628091195786707458122783970171784415105291802893207873272974885715430223118336) 1 9 2); vm_compute; reflexivity. Qed.
Lemma d_A41_1364c : close ctol (30 / 1) (clamp A41_lo A41_hi (30 / 1)).
Proof. apply (A41_q_clamp_mid 30 1 30 1); vm_compute; reflexivity. Qed.
Lemma d_A41_1372c : close ctol (35 / 1) (clamp A41_lo A41_hi (179769313486231570814527423731704356798070567525844996598917476803157260780028538760589558632766878171540458953514382464234321326889464182768467546703537516986049910576551282076245490090389328944075868508455133942304583236903222948165808559332123348274797826204144723168738177180919299881250404026184124858368 / 1)).
Proof. apply (A41_q_clamp_hi 179769313486231570814527423731704356798070567525844996598917476803157260780028538760589558632766878171540458953514382464234321326889464182768467546703537516986049910576551282076245490090389328944075868508455133942304583236903222948165808559332123348274797826204144723168738177180919299881250404026184124858368 1 35 1); vm_compute; reflexivity. Qed.
Lemma d_A41_1381c : close ctol (9 / 2) (clamp A41_lo A41_hi (5066549575725259 / 1125899906842624)).
Proof. apply (A41_q_clamp_lo 5066549575725259 1125899906842624 9 2); vm_compute; reflexivity. Qed.
Lemma d_A41_1389c : close ctol (79 / 4) (clamp A41_lo A41_hi (79 / 4)).
Proof. apply (A41_q_clamp_mid 79 4 79 4); vm_compute; reflexivity. Qed.
Lemma d_A41_1397c : close ctol (7318065612077031 / 1125899906842624) (clamp A41_lo A41_hi (7318065612077031 / 1125899906842624)).
Proof. apply (A41_q_clamp_mid 7318065612077031 1125899906842624 7318065612077031 1125899906842624); vm_compute; reflexivity. Qed.
Lemma d_A41_1405c : close ctol (7340077654783723 / 281474976710656) (clamp A41_lo A41_hi (3670038827391861 / 140737488355328)).
Proof. apply (A41_q_clamp_mid 3670038827391861 140737488355328 7340077654783723 281474976710656); vm_compute; reflexivity. Qed.
Lemma d_A41_1413c : close ctol (1995715374003221 / 70368744177664) (clamp A41_lo A41_hi (7982861496012883 / 281474976710656)).
Proof. apply (A41_q_clamp_mid 7982861496012883 281474976710656 1995715374003221 70368744177664); vm_compute; reflexivity. Qed.
Lemma d_A41_1421c : close ctol (8990059498308121 / 281474976710656) (clamp A41_lo A41_hi (8990059498308119 / 281474976710656)).
Proof. apply (A41_q_clamp_mid 8990059498308119 281474976710656 8990059498308121 281474976710656); vm_compute; reflexivity. Qed.
Lemma d_A41_1429c : close ctol (4536590192241197 / 140737488355328) (clamp A41_lo A41_hi (1134147548060299 / 35184372088832)).
Proof. apply (A41_q_clamp_mid 1134147548060299 35184372088832 4536590192241197 140737488355328); vm_compute; reflexivity. Qed.
Lemma d_A41_1437c : close ctol (8407292878914877 / 562949953421312) (clamp A41_lo A41_hi (8407292878914877 / 562949953421312)).
Proof. apply (A41_q_clamp_mid 8407292878914877 562949953421312 8407292878914877 562949953421312); vm_compute; reflexivity. Qed.
Lemma d_A41_1445c : close ctol (1638230211786777 / 70368744177664) (clamp A41_lo A41_hi (1638230211786777 / 70368744177664)).
Proof. apply (A41_q_clamp_mid 1638230211786777 70368744177664 1638230211786777 70368744177664); vm_compute; reflexivity. Qed.
Lemma d_A41_1453c : close ctol (35 / 1) (clamp A41_lo A41_hi (1265721627819565 / 17592186044416)).
Proof. apply (A41_q_clamp_hi 1265721627819565 17592186044416 35 1); vm_compute; reflexivity. Qed.
Lemma d_A41_1461c : close ctol (9 / 2) (clamp A41_lo A41_hi ((-906826335249765) / 1125899906842624)).
Proof. apply (A41_q_clamp_lo (-906826335249765) 1125899906842624 9 2); vm_compute; reflexivity. Qed.
Lemma d_A41_1469c : close ctol (4836969860929485 / 140737488355328) (clamp A41_lo A41_hi (1209242465232371 / 35184372088832)).
Proof. apply (A41_q_clamp_mid 1209242465232371 35184372088832 4836969860929485 140737488355328); vm_compute; reflexivity. Qed.
Lemma d_A41_1477c : close ctol (7421917694875625 / 562949953421312) (clamp A41_lo A41_hi (3710958847437813 / 281474976710656)).
Proof. apply (A41_q_clamp_mid 3710958847437813 281474976710656 7421917694875625 562949953421312); vm_compute; reflexivity. Qed.
Lemma d_A41_1485c : close ctol (5234389108061903 / 281474976710656) (clamp A41_lo A41_hi (5234389108061903 / 281474976710656)).
Proof. apply (A41_q_clamp_mid 5234389108061903 281474976710656 5234389108061903 281474976710656); vm_compute; reflexivity. Qed.
Lemma d_A41_1493c : close ctol (3447133459590943 / 140737488355328) (clamp A41_lo A41_hi (3447133459590943 / 140737488355328)).
Proof. apply (A41_q_clamp_mid 3447133459590943 140737488355328 3447133459590943 140737488355328); vm_compute; reflexivity. Qed.
Lemma d_A41_1501c : close ctol (1587296405053957 / 140737488355328) (clamp A41_lo A41_hi (1587296405053957 / 140737488355328)).
Proof. apply (A41_q_clamp_mid 1587296405053957 140737488355328 1587296405053957 140737488355328); vm_compute; reflexivity. Qed.
Lemma d_A41_1509c : close ctol (2781132601576767 / 562949953421312) (clamp A41_lo A41_hi (2781132601576767 / 562949953421312)).
Proof. apply (A41_q_clamp_mid 2781132601576767 562949953421312 2781132601576767 562949953421312); vm_compute; reflexivity. Qed.
Lemma d_A41_1517c : close ctol (9 / 2) (clamp A41_lo A41_hi (2505920685181833 / 562949953421312)).
Proof. apply (A41_q_clamp_lo 2505920685181833 562949953421312 9 2); vm_compute; reflexivity. Qed.
Lemma d_A41_1525c : close ctol (2258402179018505 / 140737488355328) (clamp A41_lo A41_hi (2258402179018505 / 140737488355328)).
Proof. apply (A41_q_clamp_mid 2258402179018505 140737488355328 2258402179018505 140737488355328); vm_compute; reflexivity. Qed.
Lemma d_A41_1533c : close ctol (4282805240930069 / 281474976710656) (clamp A41_lo A41_hi (4282805240930069 / 281474976710656)).
Proof. apply (A41_q_clamp_mid 4282805240930069 281474976710656 4282805240930069 281474976710656); vm_compute; reflexivity. Qed.
Lemma d_A41_1541c : close ctol (2378126425723785 / 70368744177664) (clamp A41_lo A41_hi (2378126425723785 / 70368744177664)).
Proof. apply (A41_q_clamp_mid 2378126425723785 70368744177664 2378126425723785 70368744177664); vm_compute; reflexivity. Qed.
Lemma d_A41_1549c : close ctol (9 / 2) (clamp A41_lo A41_hi (4164206402451473 / 1125899906842624)).
Proof. apply (A41_q_clamp_lo 4164206402451473 1125899906842624 9 2); vm_compute; reflexivity. Qed.
Lemma d_A41_1557c : close ctol (35 / 1) (clamp A41_lo A41_hi (900780918159063 / 17592186044416)).
Proof. apply (A41_q_clamp_hi 900780918159063 17592186044416 35 1); vm_compute; reflexivity. Qed.
Lemma d_A41_1565c : close ctol (6224469294799971 / 281474976710656) (clamp A41_lo A41_hi (6224469294799971 / 281474976710656)).
Proof. apply (A41_q_clamp_mid 6224469294799971 281474976710656 6224469294799971 281474976710656); vm_compute; reflexivity. Qed.
Lemma d_A41_1573c : close ctol (5309980560284811 / 562949953421312) (clamp A41_lo A41_hi (5309980560284811 / 562949953421312)).
Proof. apply (A41_q_clamp_mid 5309980560284811 562949953421312 5309980560284811 562949953421312); vm_compute; reflexivity. Qed.
Lemma d_A41_1581c : close ctol (8198130462769565 / 562949953421312) (clamp A41_lo A41_hi (8198130462769565 / 562949953421312)).
Proof. apply (A41_q_clamp_mid 8198130462769565 562949953421312 8198130462769565 562949953421312); vm_compute; reflexivity. Qed.
Lemma d_A41_1589c : close ctol (9 / 2) (clamp A41_lo A41_hi (3892230759512529 / 36028797018963968)).
Proof. apply (A41_q_clamp_lo 3892230759512529 36028797018963968 9 2); vm_compute; reflexivity. Qed.
Lemma d_A41_1597c : close ctol (9 / 2) (clamp A41_lo A41_hi (346621755701677 / 1125899906842624)).
Proof. apply (A41_q_clamp_lo 346621755701677 1125899906842624 9 2); vm_compute; reflexivity. Qed.
Lemma d_A41_1605c : close ctol (1342626024346911 / 70368744177664) (clamp A41_lo A41_hi (1342626024346911 / 70368744177664)).
Proof. apply (A41_q_clamp_mid 1342626024346911 70368744177664 1342626024346911 70368744177664); vm_compute; reflexivity. Qed.
Lemma d_A41_1613c : close ctol (6617576654015561 / 281474976710656) (clamp A41_lo A41_hi (6617576654015561 / 281474976710656)).
Proof. apply (A41_q_clamp_mid 6617576654015561 281474976710656 6617576654015561 281474976710656); vm_compute; reflexivity. Qed.
Lemma d_A41_1621c : close ctol (909343526851375 / 70368744177664) (clamp A41_lo A41_hi (7274748214811001 / 562949953421312)).
Proof. apply (A41_q_clamp_mid 7274748214811001 562949953421312 909343526851375 70368744177664); vm_compute; reflexivity. Qed.
Lemma d_A41_1629c : close ctol (35 / 1) (clamp A41_lo A41_hi (67 / 1)).
Proof. apply (A41_q_clamp_hi 67 1 35 1); vm_compute; reflexivity. Qed.
Lemma d_A41_1637c : close ctol (8971847583716145 / 281474976710656) (clamp A41_lo A41_hi (8971847583716145 / 281474976710656)).
Proof. apply (A41_q_clamp_mid 8971847583716145 281474976710656 8971847583716145 281474976710656); vm_compute; reflexivity. Qed.
Lemma d_A41_1645c : close ctol (8721287477986087 / 281474976710656) (clamp A41_lo A41_hi (8721287477986087 / 281474976710656)).
Proof. apply (A41_q_clamp_mid 8721287477986087 281474976710656 8721287477986087 281474976710656); vm_compute; reflexivity. Qed.
Lemma d_A41_1653c : close ctol (35 / 1) (clamp A41_lo A41_hi (8022686517689539 / 137438953472)).
Proof. apply (A41_q_clamp_hi 8022686517689539 137438953472 35 1); vm_compute; reflexivity. Qed.
Lemma d_A41_1661c : close ctol (1861289734249257 / 70368744177664) (clamp A41_lo A41_hi (7445158936997027 / 281474976710656)).
Proof. apply (A41_q_clamp_mid 7445158936997027 281474976710656 1861289734249257 70368744177664); vm_compute; reflexivity. Qed.
Lemma d_A41_1669c : close ctol (3082493013930081 / 140737488355328) (clamp A41_lo A41_hi (3082493013930081 / 140737488355328)).
Proof. apply (A41_q_clamp_mid 3082493013930081 140737488355328 3082493013930081 140737488355328); vm_compute; reflexivity. Qed.
Lemma d_A41_1677c : close ctol (7106582774039749 / 281474976710656) (clamp A41_lo A41_hi (1776645693509937 / 70368744177664)).
Proof. apply (A41_q_clamp_mid 1776645693509937 70368744177664 7106582774039749 281474976710656); vm_compute; reflexivity. Qed.
Lemma d_A41_1685c : close ctol (2281187733035171 / 140737488355328) (clamp A41_lo A41_hi (2281187733035171 / 140737488355328)).
Proof. apply (A41_q_clamp_mid 2281187733035171 140737488355328 2281187733035171 140737488355328); vm_compute; reflexivity. Qed.
Lemma d_A41_1693c : close ctol (3292493208773129 / 281474976710656) (clamp A41_lo A41_hi (3292493208773129 / 281474976710656)).
Proof. apply (A41_q_clamp_mid 3292493208773129 281474976710656 3292493208773129 281474976710656); vm_compute; reflexivity. Qed.
Lemma d_A41_1701c : close ctol (35 / 1) (clamp A41_lo A41_hi (1814010409102541 / 17592186044416)).
Proof. apply (A41_q_clamp_hi 1814010409102541 17592186044416 35 1); vm_compute; reflexivity. Qed.
Lemma d_A41_1709c : close ctol (35 / 1) (clamp A41_lo A41_hi (6479860490575161 / 70368744177664)).
Proof. apply (A41_q_clamp_hi 6479860490575161 70368744177664 35 1); vm_compute; reflexivity. Qed.
Lemma d_A41_1717c : close ctol (6474693291515661 / 562949953421312) (clamp A41_lo A41_hi (3237346645757831 / 281474976710656)).
Proof. apply (A41_q_clamp_mid 3237346645757831 281474976710656 6474693291515661 562949953421312); vm_compute; reflexivity. Qed.
Lemma d_A41_1725c : close ctol (6791321800163505 / 281474976710656) (clamp A41_lo A41_hi (424457612510219 / 17592186044416)).
Proof. apply (A41_q_clamp_mid 424457612510219 17592186044416 6791321800163505 281474976710656); vm_compute; reflexivity. Qed.
Lemma d_A41_1733c : close ctol (35 / 1) (clamp A41_lo A41_hi (36 / 1)).
Proof. apply (A41_q_clamp_hi 36 1 35 1); vm_compute; reflexivity. Qed.
Lemma d_A41_1741c : close ctol (7195309572463649 / 281474976710656) (clamp A41_lo A41_hi (7195309572463649 / 281474976710656)).
Proof. apply (A41_q_clamp_mid 7195309572463649 281474976710656 7195309572463649 281474976710656); vm_compute; reflexivity. Qed.
Lemma d_A41_1749c : close ctol (3142296707788645 / 281474976710656) (clamp A41_lo A41_hi (3142296707788645 / 281474976710656)).
Proof. apply (A41_q_clamp_mid 3142296707788645 281474976710656 3142296707788645 281474976710656); vm_compute; reflexivity. Qed.
Lemma d_A41_1757c : close ctol (3378552391694623 / 140737488355328) (clamp A41_lo A41_hi (6757104783389245 / 281474976710656)).
Proof. apply (A41_q_clamp_mid 6757104783389245 281474976710656 3378552391694623 140737488355328); vm_compute; reflexivity. Qed.
Lemma d_A41_1765c : close ctol (445894698493749 / 17592186044416) (clamp A41_lo A41_hi (445894698493749 / 17592186044416)).
Proof. apply (A41_q_clamp_mid 445894698493749 17592186044416 445894698493749 17592186044416); vm_compute; reflexivity. Qed.
Lemma d_A41_1773c : close ctol (5139852062274811 / 281474976710656) (clamp A41_lo A41_hi (5139852062274811 / 281474976710656)).
Proof. apply (A41_q_clamp_mid 5139852062274811 281474976710656 5139852062274811 281474976710656); vm_compute; reflexivity. Qed.
Lemma d_A41_1781c : close ctol (3647700276274329 / 140737488355328) (clamp A41_lo A41_hi (3647700276274329 / 140737488355328)).
Proof. apply (A41_q_clamp_mid 3647700276274329 140737488355328 3647700276274329 140737488355328); vm_compute; reflexivity. Qed.
Lemma d_A41_1789c : close ctol (7089708260875383 / 281474976710656) (clamp A41_lo A41_hi (3544854130437691 / 140737488355328)).
Proof. apply (A41_q_clamp_mid 3544854130437691 140737488355328 7089708260875383 281474976710656); vm_compute; reflexivity. Qed.
Lemma d_A41_1797c : close ctol (267966835778481 / 8796093022208) (clamp A41_lo A41_hi (267966835778481 / 8796093022208)).
Proof. apply (A41_q_clamp_mid 267966835778481 8796093022208 267966835778481 8796093022208); vm_compute; reflexivity. Qed.
Lemma d_A41_1805c : close ctol (35 / 1) (clamp A41_lo A41_hi (38 / 1)).
Proof. apply (A41_q_clamp_hi 38 1 35 1); vm_compute; reflexivity. Qed.
Lemma d_A41_1813c : close ctol (4880465415981109 / 281474976710656) (clamp A41_lo A41_hi (4880465415981109 / 281474976710656)).
Proof. apply (A41_q_clamp_mid 4880465415981109 281474976710656 4880465415981109 281474976710656); vm_compute; reflexivity. Qed.
Lemma d_A41_1821c : close ctol (4649593534892701 / 140737488355328) (clamp A41_lo A41_hi (4649593534892701 / 140737488355328)).
Proof. apply (A41_q_clamp_mid 4649593534892701 140737488355328 4649593534892701 140737488355328); vm_compute; reflexivity. Qed.
Lemma d_A41_1829c : close ctol (35 / 1) (clamp A41_lo A41_hi (5216109570272091 / 1099511627776)).
Proof. apply (A41_q_clamp_hi 5216109570272091 1099511627776 35 1); vm_compute; reflexivity. Qed.
Lemma d_A41_1837c : close ctol (1740932142449497 / 140737488355328) (clamp A41_lo A41_hi (6963728569797987 / 562949953421312)).
Proof. apply (A41_q_clamp_mid 6963728569797987 562949953421312 1740932142449497 140737488355328); vm_compute; reflexivity. Qed.
Lemma d_A41_1845c : close ctol (35 / 1) (clamp A41_lo A41_hi (6097745308339431 / 549755813888)).
Proof. apply (A41_q_clamp_hi 6097745308339431 549755813888 35 1); vm_compute; reflexivity. Qed.
Lemma d_A41_1853c : close ctol (35 / 1) (clamp A41_lo A41_hi (6584708332136561 / 70368744177664)).
Proof. apply (A41_q_clamp_hi 6584708332136561 70368744177664 35 1); vm_compute; reflexivity. Qed.
Lemma d_A41_1861c : close ctol (9 / 2) (clamp A41_lo A41_hi ((-2167412493919607) / 2251799813685248)).
Proof. apply (A41_q_clamp_lo (-2167412493919607) 2251799813685248 9 2); vm_compute; reflexivity. Qed.
Lemma d_A41_1869c : close ctol (4648686628912679 / 562949953421312) (clamp A41_lo A41_hi (4648686628912679 / 562949953421312)).
Proof. apply (A41_q_clamp_mid 4648686628912679 562949953421312 4648686628912679 562949953421312); vm_compute; reflexivity. Qed.
Lemma d_A41_1877c : close ctol (7543327688131869 / 281474976710656) (clamp A41_lo A41_hi (7543327688131869 / 281474976710656)).
Proof. apply (A41_q_clamp_mid 7543327688131869 281474976710656 7543327688131869 281474976710656); vm_compute; reflexivity. Qed.
Lemma d_A41_1885c : close ctol (1174612673192003 / 70368744177664) (clamp A41_lo A41_hi (1174612673192003 / 70368744177664)).
Proof. apply (A41_q_clamp_mid 1174612673192003 70368744177664 1174612673192003 70368744177664); vm_compute; reflexivity. Qed.
Lemma d_A41_1893c : close ctol (35 / 1) (clamp A41_lo A41_hi (40 / 1)).
Proof. apply (A41_q_clamp_hi 40 1 35 1); vm_compute; reflexivity. Qed.
Lemma d_A41_1901c : close ctol (35 / 1) (clamp A41_lo A41_hi (5280639585560391 / 8796093022208)).
Proof. apply (A41_q_clamp_hi 5280639585560391 8796093022208 35 1); vm_compute; reflexivity. Qed.
Lemma d_A41_1909c : close ctol (9 / 2) (clamp A41_lo A41_hi (5628834529867057 / 36028797018963968)).
Proof. apply (A41_q_clamp_lo 5628834529867057 36028797018963968 9 2); vm_compute; reflexivity. Qed.
Lemma d_A41_1917c : close ctol (9 / 2) (clamp A41_lo A41_hi ((-751590055063515) / 2251799813685248)).
Proof. apply (A41_q_clamp_lo (-751590055063515) 2251799813685248 9 2); vm_compute; reflexivity. Qed.
Lemma d_A41_1925c : close ctol (35 / 1) (clamp A41_lo A41_hi (2317586161548337 / 35184372088832)).
Proof. apply (A41_q_clamp_hi 2317586161548337 35184372088832 35 1); vm_compute; reflexivity. Qed.
Lemma d_A41_1933c : close ctol (1830968579742101 / 140737488355328) (clamp A41_lo A41_hi (1830968579742101 / 140737488355328)).
Proof. apply (A41_q_clamp_mid 1830968579742101 140737488355328 1830968579742101 140737488355328); vm_compute; reflexivity. Qed.
Lemma d_A41_1941c : close ctol (1433877040400965 / 70368744177664) (clamp A41_lo A41_hi (1433877040400965 / 70368744177664)).
Proof. apply (A41_q_clamp_mid 1433877040400965 70368744177664 1433877040400965 70368744177664); vm_compute; reflexivity. Qed.
Lemma d_A41_1949c : close ctol (4738978608930827 / 281474976710656) (clamp A41_lo A41_hi (4738978608930827 / 281474976710656)).
Proof. apply (A41_q_clamp_mid 4738978608930827 281474976710656 4738978608930827 281474976710656); vm_compute; reflexivity. Qed.
Lemma d_A41_1957c : close ctol (2484975625987223 / 140737488355328) (clamp A41_lo A41_hi (2484975625987223 / 140737488355328)).
Proof. apply (A41_q_clamp_mid 2484975625987223 140737488355328 2484975625987223 140737488355328); vm_compute; reflexivity. Qed.
Lemma d_A41_1965c : close ctol (6209252246829459 / 281474976710656) (clamp A41_lo A41_hi (6209252246829459 / 281474976710656)).
Proof. apply (A41_q_clamp_mid 6209252246829459 281474976710656 6209252246829459 281474976710656); vm_compute; reflexivity. Qed.
Lemma d_A41_1973c : close ctol (1563824029086007 / 70368744177664) (clamp A41_lo A41_hi (1563824029086007 / 70368744177664)).
Proof. apply (A41_q_clamp_mid 1563824029086007 70368744177664 1563824029086007 70368744177664); vm_compute; reflexivity. Qed.
Lemma d_A41_1981c : close ctol (1795291667399403 / 140737488355328) (clamp A41_lo A41_hi (7181166669597611 / 562949953421312)).
Proof. apply (A41_q_clamp_mid 7181166669597611 562949953421312 1795291667399403 140737488355328); vm_compute; reflexivity. Qed.
Lemma d_A41_1989c : close ctol (3194920628263851 / 140737488355328) (clamp A41_lo A41_hi (3194920628263851 / 140737488355328)).
Proof. apply (A41_q_clamp_mid 3194920628263851 140737488355328 3194920628263851 140737488355328); vm_compute; reflexivity. Qed.
Lemma d_A41_1997c : close ctol (2299179338425331 / 140737488355328) (clamp A41_lo A41_hi (2299179338425331 / 140737488355328)).
Proof. apply (A41_q_clamp_mid 2299179338425331 140737488355328 2299179338425331 140737488355328); vm_compute; reflexivity. Qed.
Check d_A41_1997c.
