From Coq Require Import Reals Lra.
From Interval Require Import Tactic.
From RV Require Import IR.Model IR.Proofs.
Open Scope R_scope.
Lemma r_A02_30 : rio_reads A02_c A02_e A02_lo A02_hi floor_volts ctol (Build_rio (Fin (1152921504606847 / 1152921504606846976)) (Fin (5 / 1)) (Fin (5 / 1)) (Fin (6 / 1)) (Fin (12 / 1)) true true true ((Fin (0 / 1)) :: (Fin (0 / 1)) :: (Fin (0 / 1)) :: (Fin (0 / 1)) :: (Fin (27 / 4)) :: (Fin (45 / 1)) :: nil)) (145 / 1).
Proof. apply (A02_rio_fin _ (1152921504606847 / 1152921504606846976)); [reflexivity | apply (A02_q_hi 1152921504606847 1152921504606846976 145 1); [vm_compute; reflexivity | unfold fr, ctol, A02_hi, A02_c, A02_e; interval with (i_prec 80)]]. Qed.
Lemma r_A02_48 : rio_reads A02_c A02_e A02_lo A02_hi floor_volts ctol (Build_rio (Fin (5720628913841775 / 2251799813685248)) (Fin (5 / 1)) (Fin (3715469692580659 / 1125899906842624)) (Fin (6 / 1)) (Fin (12 / 1)) true true true ((Fin (0 / 1)) :: (Fin (0 / 1)) :: (Fin (0 / 1)) :: (Fin (40 / 1)) :: (Fin (27 / 4)) :: (Fin (45 / 1)) :: nil)) (6333186975989761 / 281474976710656).
Proof. apply (A02_rio_fin _ (5720628913841775 / 2251799813685248)); [reflexivity | apply (A02_q_mid 5720628913841775 2251799813685248 6333186975989761 281474976710656); [vm_compute; reflexivity | unfold fr, close, ctol, A02_c, A02_e; interval with (i_prec 80)]]. Qed.
Lemma r_A02_64 : rio_reads A02_c A02_e A02_lo A02_hi floor_volts ctol (Build_rio (Fin (10415 / 4096)) (Fin (1 / 1)) (Fin (1 / 1)) (Fin (1 / 1)) (Fin (1 / 1)) true true true ((Fin (0 / 1)) :: (Fin (0 / 1)) :: (Fin (0 / 1)) :: (Fin (0 / 1)) :: (Fin (1 / 1)) :: (Fin (45 / 1)) :: nil)) (45 / 2).
Proof. apply (A02_rio_fin _ (10415 / 4096)); [reflexivity | apply (A02_q_lo 10415 4096 45 2); [vm_compute; reflexivity | unfold fr, ctol, A02_lo, A02_c, A02_e; interval with (i_prec 80)]]. Qed.
Lemma r_A02_80 : rio_reads A02_c A02_e A02_lo A02_hi floor_volts ctol (Build_rio (Fin (65 / 256)) (Fin (5 / 1)) (Fin (3419 / 1024)) (Fin (6 / 1)) (Fin (12 / 1)) false true true ((Fin (235 / 512)) :: (Fin (397 / 1024)) :: (Fin (275 / 1024)) :: (Fin (61477 / 512)) :: (Fin (187 / 32)) :: (Fin (1617 / 32)) :: nil)) (145 / 1).
Proof. apply (A02_rio_fin _ (65 / 256)); [reflexivity | apply (A02_q_hi 65 256 145 1); [vm_compute; reflexivity | unfold fr, ctol, A02_hi, A02_c, A02_e; interval with (i_prec 80)]]. Qed.
Lemma r_A02_96 : rio_reads A02_c A02_e A02_lo A02_hi floor_volts ctol (Build_rio (Fin (145 / 256)) (Fin (4961 / 1024)) (Fin ((-1) / 1)) (Fin (2691 / 512)) (Fin (1581 / 128)) false true false ((Fin (1217 / 1024)) :: (Fin (1885 / 1024)) :: (Fin (191 / 1024)) :: (Fin (84739 / 1024)) :: (Fin (7405 / 1024)) :: (Fin (34529 / 1024)) :: nil)) (2038227218159139 / 17592186044416).
Proof. apply (A02_rio_fin _ (145 / 256)); [reflexivity | apply (A02_q_mid 145 256 2038227218159139 17592186044416); [vm_compute; reflexivity | unfold fr, close, ctol, A02_c, A02_e; interval with (i_prec 80)]]. Qed.
Lemma r_A02_112 : rio_reads A02_c A02_e A02_lo A02_hi floor_volts ctol (Build_rio (Fin (225 / 256)) (Fin (5021 / 1024)) (Fin (3337 / 1024)) (Fin (1323 / 256)) (Fin (12 / 1)) true true false ((Fin (873 / 1024)) :: (Fin (501 / 256)) :: (Fin (1093 / 1024)) :: (Fin (3699 / 128)) :: (Fin (6365 / 1024)) :: (Fin (95497 / 1024)) :: nil)) (1261488063438425 / 17592186044416).
Proof. apply (A02_rio_fin _ (225 / 256)); [reflexivity | apply (A02_q_mid 225 256 1261488063438425 17592186044416); [vm_compute; reflexivity | unfold fr, close, ctol, A02_c, A02_e; interval with (i_prec 80)]]. Qed.
Lemma r_A02_128 : rio_reads A02_c A02_e A02_lo A02_hi floor_volts ctol (Build_rio (Fin (305 / 256)) (Fin (1265 / 256)) (Fin (1209 / 512)) (Fin (2967 / 256)) (Fin (0 / 1)) true false true ((Fin (2339 / 1024)) :: (Fin (285 / 1024)) :: (Fin (703 / 512)) :: (Fin (9289 / 64)) :: (Fin (3449 / 512)) :: (Fin (83783 / 1024)) :: nil)) (1809843516502041 / 35184372088832).
Proof. apply (A02_rio_fin _ (305 / 256)); [reflexivity | apply (A02_q_mid 305 256 1809843516502041 35184372088832); [vm_compute; reflexivity | unfold fr, close, ctol, A02_c, A02_e; interval with (i_prec 80)]]. Qed.
Lemma r_A02_144 : rio_reads A02_c A02_e A02_lo A02_hi floor_volts ctol (Build_rio (Fin (385 / 256)) (Fin (1181 / 256)) (Fin (381 / 128)) (Fin (2465 / 512)) (Fin (12 / 1)) true false true ((Fin (1093 / 512)) :: (Fin (267 / 256)) :: (Fin (2755 / 1024)) :: (Fin (94895 / 512)) :: (Fin (2101 / 256)) :: (Fin (1749 / 128)) :: nil)) (350843425745187 / 8796093022208).
Proof. apply (A02_rio_fin _ (385 / 256)); [reflexivity | apply (A02_q_mid 385 256 350843425745187 8796093022208); [vm_compute; reflexivity | unfold fr, close, ctol, A02_c, A02_e; interval with (i_prec 80)]]. Qed.
Lemma r_A02_160 : rio_reads A02_c A02_e A02_lo A02_hi floor_volts ctol (Build_rio (Fin (465 / 256)) (Fin (4677 / 1024)) (Fin (109 / 32)) (Fin (0 / 1)) (Fin (1301 / 1024)) false true false ((Fin (1527 / 1024)) :: (Fin (5 / 32)) :: (Fin (1487 / 512)) :: (Fin (204289 / 1024)) :: (Fin (4893 / 1024)) :: (Fin (65771 / 1024)) :: nil)) (4567702580301137 / 140737488355328).
Proof. apply (A02_rio_fin _ (465 / 256)); [reflexivity | apply (A02_q_mid 465 256 4567702580301137 140737488355328); [vm_compute; reflexivity | unfold fr, close, ctol, A02_c, A02_e; interval with (i_prec 80)]]. Qed.
Lemma r_A02_176 : rio_reads A02_c A02_e A02_lo A02_hi floor_volts ctol (Build_rio (Fin (545 / 256)) (Fin (2793 / 512)) (Fin (100000000000000001097906362944045541740492309677311846336810682903157585404911491537163328978494688899061249669721172515611590283743140088328307009198146046031271664502933027185697489699588559043338384466165001178426897626212945177628091195786707458122783970171784415105291802893207873272974885715430223118336 / 1)) (Fin (1249 / 256)) (Fin (100000000000000001097906362944045541740492309677311846336810682903157585404911491537163328978494688899061249669721172515611590283743140088328307009198146046031271664502933027185697489699588559043338384466165001178426897626212945177628091195786707458122783970171784415105291802893207873272974885715430223118336 / 1)) false false true ((Fin (525 / 1024)) :: (Fin (1543 / 1024)) :: (Fin (13 / 16)) :: (Fin (91123 / 512)) :: (Fin (8323 / 1024)) :: (Fin (14031 / 512)) :: nil)) (7681419036981361 / 281474976710656).
Proof. apply (A02_rio_fin _ (545 / 256)); [reflexivity | apply (A02_q_mid 545 256 7681419036981361 281474976710656); [vm_compute; reflexivity | unfold fr, close, ctol, A02_c, A02_e; interval with (i_prec 80)]]. Qed.
Lemma r_A02_192 : rio_reads A02_c A02_e A02_lo A02_hi floor_volts ctol (Build_rio (Fin (625 / 256)) (Fin (1357 / 256)) (Fin (993 / 1024)) (Fin (6177 / 1024)) (Fin (11057 / 1024)) true true true ((Fin (247 / 256)) :: (Fin (317 / 1024)) :: (Fin (2069 / 1024)) :: (Fin (153681 / 1024)) :: (Fin (2555 / 512)) :: (Fin ((-10651) / 1024)) :: nil)) (1653580977569113 / 70368744177664).
Proof. apply (A02_rio_fin _ (625 / 256)); [reflexivity | apply (A02_q_mid 625 256 1653580977569113 70368744177664); [vm_compute; reflexivity | unfold fr, close, ctol, A02_c, A02_e; interval with (i_prec 80)]]. Qed.
Lemma r_A02_208 : rio_reads A02_c A02_e A02_lo A02_hi floor_volts ctol (Build_rio (Fin (355 / 128)) (Fin (2107 / 512)) (Fin (171 / 64)) (Fin (6 / 1)) (Fin (5405 / 512)) false true true ((Fin (139 / 128)) :: (Fin (269 / 256)) :: (Fin (1643 / 1024)) :: (Fin (202763 / 1024)) :: (Fin (7199 / 1024)) :: (Fin (11761 / 1024)) :: nil)) (45 / 2).
Proof. apply (A02_rio_fin _ (355 / 128)); [reflexivity | apply (A02_q_lo 355 128 45 2); [vm_compute; reflexivity | unfold fr, ctol, A02_lo, A02_c, A02_e; interval with (i_prec 80)]]. Qed.
Lemma r_A02_224 : rio_reads A02_c A02_e A02_lo A02_hi floor_volts ctol (Build_rio (Fin (395 / 128)) (Fin (0 / 1)) (Fin (3349 / 1024)) (Fin (2821 / 512)) (Fin (12 / 1)) true true true ((Fin (1895 / 1024)) :: (Fin (547 / 1024)) :: (Fin (1131 / 1024)) :: (Fin (99811 / 512)) :: (Fin (5151 / 1024)) :: (Fin (85691 / 1024)) :: nil)) (45 / 2).
Proof. apply (A02_rio_fin _ (395 / 128)); [reflexivity | apply (A02_q_lo 395 128 45 2); [vm_compute; reflexivity | unfold fr, ctol, A02_lo, A02_c, A02_e; interval with (i_prec 80)]]. Qed.
Lemma r_A02_240 : rio_reads A02_c A02_e A02_lo A02_hi floor_volts ctol (Build_rio (Fin (435 / 128)) (Fin (4299 / 1024)) (Fin (395 / 128)) (Fin (669 / 128)) (Fin (12 / 1)) true true true ((Fin (763 / 512)) :: (Fin (1341 / 1024)) :: (Fin (1291 / 1024)) :: (Fin (162283 / 1024)) :: (Fin (2701 / 512)) :: (Fin ((-15999) / 1024)) :: nil)) (45 / 2).
Proof. apply (A02_rio_fin _ (435 / 128)); [reflexivity | apply (A02_q_lo 435 128 45 2); [vm_compute; reflexivity | unfold fr, ctol, A02_lo, A02_c, A02_e; interval with (i_prec 80)]]. Qed.
Lemma r_A02_256 : rio_reads A02_c A02_e A02_lo A02_hi floor_volts ctol (Build_rio (Fin (475 / 128)) (Fin (2597 / 512)) (Fin (3261 / 1024)) (Fin (2993 / 512)) (Fin (11421 / 1024)) false true true ((Fin (893 / 1024)) :: (Fin (1177 / 1024)) :: (Fin (183 / 512)) :: (Fin (143929 / 1024)) :: (Fin (1883 / 512)) :: (Fin (16201 / 512)) :: nil)) (45 / 2).
Proof. apply (A02_rio_fin _ (475 / 128)); [reflexivity | apply (A02_q_lo 475 128 45 2); [vm_compute; reflexivity | unfold fr, ctol, A02_lo, A02_c, A02_e; interval with (i_prec 80)]]. Qed.
Lemma r_A02_272 : rio_reads A02_c A02_e A02_lo A02_hi floor_volts ctol (Build_rio (Fin (515 / 128)) (Fin (5 / 1)) (Fin (1409 / 512)) (Fin (3317 / 512)) (Fin (12615 / 1024)) true true false ((Fin (339 / 1024)) :: (Fin (265 / 256)) :: (Fin (741 / 256)) :: (Fin (4001 / 32)) :: (Fin (4949 / 1024)) :: (Fin (100183 / 1024)) :: nil)) (45 / 2).
Proof. apply (A02_rio_fin _ (515 / 128)); [reflexivity | apply (A02_q_lo 515 128 45 2); [vm_compute; reflexivity | unfold fr, ctol, A02_lo, A02_c, A02_e; interval with (i_prec 80)]]. Qed.
Lemma r_A02_288 : rio_reads A02_c A02_e A02_lo A02_hi floor_volts ctol (Build_rio (Fin (555 / 128)) (Fin (14973 / 1024)) (Fin (3715469692580659 / 1125899906842624)) (Fin (6091 / 1024)) (Fin (12 / 1)) false true true ((Fin (3029 / 1024)) :: (Fin (663 / 1024)) :: (Fin (9 / 128)) :: (Fin (146809 / 1024)) :: (Fin (8911 / 1024)) :: (Fin (3383 / 128)) :: nil)) (45 / 2).
Proof. apply (A02_rio_fin _ (555 / 128)); [reflexivity | apply (A02_q_lo 555 128 45 2); [vm_compute; reflexivity | unfold fr, ctol, A02_lo, A02_c, A02_e; interval with (i_prec 80)]]. Qed.
Lemma r_A02_304 : rio_reads A02_c A02_e A02_lo A02_hi floor_volts ctol (Build_rio (Fin (595 / 128)) (Fin (1229 / 256)) (Fin (1595 / 512)) (Fin (7399 / 512)) (Fin (765 / 64)) true true true ((Fin (2249 / 1024)) :: (Fin (365 / 512)) :: (Fin (1495 / 1024)) :: (Fin (109885 / 1024)) :: (Fin (8273 / 1024)) :: (Fin (5743 / 256)) :: nil)) (45 / 2).
Proof. apply (A02_rio_fin _ (595 / 128)); [reflexivity | apply (A02_q_lo 595 128 45 2); [vm_compute; reflexivity | unfold fr, ctol, A02_lo, A02_c, A02_e; interval with (i_prec 80)]]. Qed.
Lemma r_A02_320 : rio_reads A02_c A02_e A02_lo A02_hi floor_volts ctol (Build_rio (Fin (635 / 128)) (Fin (5 / 1)) (Fin (0 / 1)) (Fin (6543 / 1024)) (Fin (6553 / 512)) true false true ((Fin (1451 / 512)) :: (Fin (211 / 128)) :: (Fin (635 / 256)) :: (Fin (179131 / 1024)) :: (Fin (15 / 4)) :: (Fin (46819 / 512)) :: nil)) (45 / 2).
Proof. apply (A02_rio_fin _ (635 / 128)); [reflexivity | apply (A02_q_lo 635 128 45 2); [vm_compute; reflexivity | unfold fr, ctol, A02_lo, A02_c, A02_e; interval with (i_prec 80)]]. Qed.
Lemma r_A02_336 : rio_reads A02_c A02_e A02_lo A02_hi floor_volts ctol (Build_rio (Fin (1761966133666725 / 9007199254740992)) (Fin (1 / 1)) (Fin (387 / 128)) (Fin (2657 / 512)) (Fin (2525 / 256)) true true true ((Fin (823 / 1024)) :: (Fin (443 / 512)) :: (Fin (225 / 256)) :: (Fin (18063 / 512)) :: (Fin (2115 / 512)) :: (Fin (8509 / 128)) :: nil)) (145 / 1).
Proof. apply (A02_rio_fin _ (1761966133666725 / 9007199254740992)); [reflexivity | apply (A02_q_hi 1761966133666725 9007199254740992 145 1); [vm_compute; reflexivity | unfold fr, ctol, A02_hi, A02_c, A02_e; interval with (i_prec 80)]]. Qed.
Lemma r_A02_352 : rio_reads A02_c A02_e A02_lo A02_hi floor_volts ctol (Build_rio (Fin (725964422030235 / 9007199254740992)) (Fin (5902958103587057 / 590295810358705651712)) (Fin (115 / 32)) (Fin (95 / 16)) (Fin ((-1) / 1)) true false true ((Fin (2955 / 1024)) :: (Fin (1909 / 1024)) :: (Fin (309 / 1024)) :: (Fin (198445 / 1024)) :: (Fin (9163 / 1024)) :: (Fin (533 / 16)) :: nil)) (145 / 1).
Proof. apply (A02_rio_fin _ (725964422030235 / 9007199254740992)); [reflexivity | apply (A02_q_hi 725964422030235 9007199254740992 145 1); [vm_compute; reflexivity | unfold fr, ctol, A02_hi, A02_c, A02_e; interval with (i_prec 80)]]. Qed.
Lemma r_A02_368 : rio_reads A02_c A02_e A02_lo A02_hi floor_volts ctol (Build_rio (Fin (3138659134997469 / 1125899906842624)) (Fin (5 / 1)) (Fin (1505 / 512)) (Fin (6 / 1)) (Fin (0 / 1)) true true true ((Fin (1617 / 1024)) :: (Fin (613 / 1024)) :: (Fin (551 / 512)) :: (Fin (28351 / 256)) :: (Fin (1147 / 128)) :: (Fin (35103 / 1024)) :: nil)) (45 / 2).
Proof. apply (A02_rio_fin _ (3138659134997469 / 1125899906842624)); [reflexivity | apply (A02_q_lo 3138659134997469 1125899906842624 45 2); [vm_compute; reflexivity | unfold fr, ctol, A02_lo, A02_c, A02_e; interval with (i_prec 80)]]. Qed.
Lemma r_A02_385 : rio_reads A02_c A02_e A02_lo A02_hi floor_volts ctol (Build_rio (Fin (4494757516805911 / 281474976710656)) (Fin (5261 / 1024)) (Fin (5902958103587057 / 590295810358705651712)) (Fin (6609 / 1024)) (Fin (13809 / 1024)) true true true ((Fin (1835 / 1024)) :: (Fin (5 / 1024)) :: (Fin (913 / 512)) :: (Fin (20257 / 1024)) :: (Fin (2813 / 512)) :: (Fin (60869 / 1024)) :: nil)) (45 / 2).
Proof. apply (A02_rio_fin _ (4494757516805911 / 281474976710656)); [reflexivity | apply (A02_q_lo 4494757516805911 281474976710656 45 2); [vm_compute; reflexivity | unfold fr, ctol, A02_lo, A02_c, A02_e; interval with (i_prec 80)]]. Qed.
Lemma r_A02_404 : rio_reads A02_c A02_e A02_lo A02_hi floor_volts ctol (Build_rio (Fin (3384476454411449 / 2305843009213693952)) (Fin (4165 / 1024)) (Fin (3397 / 1024)) (Fin ((-1) / 1)) (Fin (5667 / 512)) true true false ((Fin (1015 / 512)) :: (Fin (339 / 512)) :: (Fin (2097 / 1024)) :: (Fin (54335 / 1024)) :: (Fin (1727 / 256)) :: (Fin (4615 / 1024)) :: nil)) (145 / 1).
Proof. apply (A02_rio_fin _ (3384476454411449 / 2305843009213693952)); [reflexivity | apply (A02_q_hi 3384476454411449 2305843009213693952 145 1); [vm_compute; reflexivity | unfold fr, ctol, A02_hi, A02_c, A02_e; interval with (i_prec 80)]]. Qed.
Lemma d_A02_1u : close ctol (357539307115111 / 140737488355328) (volts_A02 (0 / 1)).
Proof. apply (A02_q_volts_lo 0 1 357539307115111 140737488355328); [vm_compute; reflexivity | unfold fr, close, ctol, A02_lo, A02_hi, A02_c, A02_e; interval with (i_prec 80)]. Qed.
Lemma d_A02_9u : close ctol (2330035404855731 / 2251799813685248) (volts_A02 (60 / 1)).
Proof. apply (A02_q_volts_mid 60 1 2330035404855731 2251799813685248); [vm_compute; reflexivity | unfold fr, close, ctol, A02_lo, A02_hi, A02_c, A02_e; interval with (i_prec 80)]. Qed.
Lemma d_A02_17u : close ctol (357539307115111 / 140737488355328) (volts_A02 (9 / 2)).
Proof. apply (A02_q_volts_lo 9 2 357539307115111 140737488355328); [vm_compute; reflexivity | unfold fr, close, ctol, A02_lo, A02_hi, A02_c, A02_e; interval with (i_prec 80)]. Qed.
Lemma d_A02_25u : close ctol (357539307115111 / 140737488355328) (volts_A02 (1 / 202402253307310618352495346718917307049556649764142118356901358027430339567995346891960383701437124495187077864316811911389808737385793476867013399940738509921517424276566361364466907742093216341239767678472745068562007483424692698618103355649159556340810056512358769552333414615230502532186327508646006263307707741093494784)).
Proof. apply (A02_q_volts_lo 1 202402253307310618352495346718917307049556649764142118356901358027430339567995346891960383701437124495187077864316811911389808737385793476867013399940738509921517424276566361364466907742093216341239767678472745068562007483424692698618103355649159556340810056512358769552333414615230502532186327508646006263307707741093494784 357539307115111 140737488355328); [vm_compute; reflexivity | unfold fr, close, ctol, A02_lo, A02_hi, A02_c, A02_e; interval with (i_prec 80)]. Qed.
Lemma d_A02_33u : close ctol (5506844515100971 / 4503599627370496) (volts_A02 (50 / 1)).
Proof. apply (A02_q_volts_mid 50 1 5506844515100971 4503599627370496); [vm_compute; reflexivity | unfold fr, close, ctol, A02_lo, A02_hi, A02_c, A02_e; interval with (i_prec 80)]. Qed.
Lemma d_A02_41u : close ctol (8308476880671015 / 18014398509481984) (volts_x A02_c A02_e A02_lo A02_hi PInf).
Proof. apply (corr_volts_pinf _ _ _ _ _ A02_admissible _ ctol_ok); unfold fr, close, ctol, A02_lo, A02_hi, A02_c, A02_e; interval with (i_prec 80). Qed.
Lemma d_A02_49u : close ctol (357539307115111 / 140737488355328) (volts_A02 (6333186969656573 / 281474976710656)).
Proof. apply (A02_q_volts_lo 6333186969656573 281474976710656 357539307115111 140737488355328); [vm_compute; reflexivity | unfold fr, close, ctol, A02_lo, A02_hi, A02_c, A02_e; interval with (i_prec 80)]. Qed.
Lemma d_A02_57u : close ctol (6867379400535637 / 9007199254740992) (volts_A02 (335 / 4)).
Proof. apply (A02_q_volts_mid 335 4 6867379400535637 9007199254740992); [vm_compute; reflexivity | unfold fr, close, ctol, A02_lo, A02_hi, A02_c, A02_e; interval with (i_prec 80)]. Qed.
Lemma d_A02_69u : close ctol (3209791200407297 / 2251799813685248) (volts_A02 (2975899612834297 / 70368744177664)).
Proof. apply (A02_q_volts_mid 2975899612834297 70368744177664 3209791200407297 2251799813685248); [vm_compute; reflexivity | unfold fr, close, ctol, A02_lo, A02_hi, A02_c, A02_e; interval with (i_prec 80)]. Qed.
Lemma d_A02_82u : close ctol (8308476880671015 / 18014398509481984) (volts_A02 (4169234637805477 / 17592186044416)).
Proof. apply (A02_q_volts_hi 4169234637805477 17592186044416 8308476880671015 18014398509481984); [vm_compute; reflexivity | unfold fr, close, ctol, A02_lo, A02_hi, A02_c, A02_e; interval with (i_prec 80)]. Qed.
Lemma d_A02_95u : close ctol (2255967416258009 / 4503599627370496) (volts_A02 (4661720596129359 / 35184372088832)).
Proof. apply (A02_q_volts_mid 4661720596129359 35184372088832 2255967416258009 4503599627370496); [vm_compute; reflexivity | unfold fr, close, ctol, A02_lo, A02_hi, A02_c, A02_e; interval with (i_prec 80)]. Qed.
Lemma d_A02_108u : close ctol (8308476880671015 / 18014398509481984) (volts_A02 (167 / 1)).
Proof. apply (A02_q_volts_hi 167 1 8308476880671015 18014398509481984); [vm_compute; reflexivity | unfold fr, close, ctol, A02_lo, A02_hi, A02_c, A02_e; interval with (i_prec 80)]. Qed.
Lemma d_A02_120r : rio_reads A02_c A02_e A02_lo A02_hi floor_volts ctol (Build_rio (Fin (628859442067433 / 1125899906842624)) (Fin (5 / 1)) (Fin (0 / 1)) (Fin (5263 / 1024)) (Fin (12 / 1)) true true false ((Fin (1315 / 1024)) :: (Fin (17 / 64)) :: (Fin (17 / 16)) :: (Fin (9133 / 64)) :: (Fin (447 / 128)) :: (Fin (18941 / 256)) :: nil)) (4139192801187715 / 35184372088832).
Proof. apply (A02_rio_fin _ (628859442067433 / 1125899906842624)); [reflexivity | apply (A02_q_mid 628859442067433 1125899906842624 4139192801187715 35184372088832); [vm_compute; reflexivity | unfold fr, close, ctol, A02_c, A02_e; interval with (i_prec 80)]]. Qed.
Lemma d_A02_133u : close ctol (1058970372130431 / 2251799813685248) (volts_A02 (4994451581360871 / 35184372088832)).
Proof. apply (A02_q_volts_mid 4994451581360871 35184372088832 1058970372130431 2251799813685248); [vm_compute; reflexivity | unfold fr, close, ctol, A02_lo, A02_hi, A02_c, A02_e; interval with (i_prec 80)]. Qed.
Lemma d_A02_146u : close ctol (8308476880671015 / 18014398509481984) (volts_A02 (257 / 1)).
Proof. apply (A02_q_volts_hi 257 1 8308476880671015 18014398509481984); [vm_compute; reflexivity | unfold fr, close, ctol, A02_lo, A02_hi, A02_c, A02_e; interval with (i_prec 80)]. Qed.
Lemma d_A02_159u : close ctol (8308476880671015 / 18014398509481984) (volts_A02 (85232732355163 / 17179869184)).
Proof. apply (A02_q_volts_hi 85232732355163 17179869184 8308476880671015 18014398509481984); [vm_compute; reflexivity | unfold fr, close, ctol, A02_lo, A02_hi, A02_c, A02_e; interval with (i_prec 80)]. Qed.
Lemma d_A02_172u : close ctol (2517716703236519 / 2251799813685248) (volts_A02 (7759280039883183 / 140737488355328)).
Proof. apply (A02_q_volts_mid 7759280039883183 140737488355328 2517716703236519 2251799813685248); [vm_compute; reflexivity | unfold fr, close, ctol, A02_lo, A02_hi, A02_c, A02_e; interval with (i_prec 80)]. Qed.
Lemma d_A02_184r : rio_reads A02_c A02_e A02_lo A02_hi floor_volts ctol (Build_rio (Fin (1485056244358083 / 2251799813685248)) (Fin (43 / 8)) (Fin (51 / 16)) (Fin (6 / 1)) (Fin (6541 / 512)) false true false ((Fin (349 / 256)) :: (Fin (1607 / 1024)) :: (Fin (531 / 256)) :: (Fin (146335 / 1024)) :: (Fin (4281 / 1024)) :: (Fin (49971 / 1024)) :: nil)) (6904745468762349 / 70368744177664).
Proof. apply (A02_rio_fin _ (1485056244358083 / 2251799813685248)); [reflexivity | apply (A02_q_mid 1485056244358083 2251799813685248 6904745468762349 70368744177664); [vm_compute; reflexivity | unfold fr, close, ctol, A02_c, A02_e; interval with (i_prec 80)]]. Qed.
Lemma d_A02_197u : close ctol (357539307115111 / 140737488355328) (volts_A02 (3256396125156907 / 4503599627370496)).
Proof. apply (A02_q_volts_lo 3256396125156907 4503599627370496 357539307115111 140737488355328); [vm_compute; reflexivity | unfold fr, close, ctol, A02_lo, A02_hi, A02_c, A02_e; interval with (i_prec 80)]. Qed.
Lemma d_A02_210u : close ctol (6199237968895261 / 9007199254740992) (volts_A02 (6590327565891087 / 70368744177664)).
Proof. apply (A02_q_volts_mid 6590327565891087 70368744177664 6199237968895261 9007199254740992); [vm_compute; reflexivity | unfold fr, close, ctol, A02_lo, A02_hi, A02_c, A02_e; interval with (i_prec 80)]. Qed.
Lemma d_A02_223u : close ctol (2261788493961245 / 4503599627370496) (volts_A02 (2324310335310371 / 17592186044416)).
Proof. apply (A02_q_volts_mid 2324310335310371 17592186044416 2261788493961245 4503599627370496); [vm_compute; reflexivity | unfold fr, close, ctol, A02_lo, A02_hi, A02_c, A02_e; interval with (i_prec 80)]. Qed.
Lemma d_A02_236u : close ctol (5149419696404421 / 2251799813685248) (volts_A02 (444008085824291 / 17592186044416)).
Proof. apply (A02_q_volts_mid 444008085824291 17592186044416 5149419696404421 2251799813685248); [vm_compute; reflexivity | unfold fr, close, ctol, A02_lo, A02_hi, A02_c, A02_e; interval with (i_prec 80)]. Qed.
Lemma d_A02_248r : rio_reads A02_c A02_e A02_lo A02_hi floor_volts ctol (Build_rio (Fin (4536531467416171 / 9007199254740992)) (Fin (5 / 1)) (Fin (1607 / 512)) (Fin (5811 / 1024)) (Fin (11221 / 1024)) true false true ((Fin (41 / 1024)) :: (Fin (125 / 512)) :: (Fin (59 / 1024)) :: (Fin (50081 / 1024)) :: (Fin (6747 / 1024)) :: (Fin (50097 / 1024)) :: nil)) (4634126756398687 / 35184372088832).
Proof. apply (A02_rio_fin _ (4536531467416171 / 9007199254740992)); [reflexivity | apply (A02_q_mid 4536531467416171 9007199254740992 4634126756398687 35184372088832); [vm_compute; reflexivity | unfold fr, close, ctol, A02_c, A02_e; interval with (i_prec 80)]]. Qed.
Lemma d_A02_261u : close ctol (8308476880671015 / 18014398509481984) (volts_A02 (4125789951327509 / 17592186044416)).
Proof. apply (A02_q_volts_hi 4125789951327509 17592186044416 8308476880671015 18014398509481984); [vm_compute; reflexivity | unfold fr, close, ctol, A02_lo, A02_hi, A02_c, A02_e; interval with (i_prec 80)]. Qed.
Lemma d_A02_274u : close ctol (8308476880671015 / 18014398509481984) (volts_A02 (4982093706037829 / 137438953472)).
Proof. apply (A02_q_volts_hi 4982093706037829 137438953472 8308476880671015 18014398509481984); [vm_compute; reflexivity | unfold fr, close, ctol, A02_lo, A02_hi, A02_c, A02_e; interval with (i_prec 80)]. Qed.
Lemma d_A02_287u : close ctol (8308476880671015 / 18014398509481984) (volts_A02 (2788215405915999 / 17592186044416)).
Proof. apply (A02_q_volts_hi 2788215405915999 17592186044416 8308476880671015 18014398509481984); [vm_compute; reflexivity | unfold fr, close, ctol, A02_lo, A02_hi, A02_c, A02_e; interval with (i_prec 80)]. Qed.
Lemma d_A02_300u : close ctol (8379907855962159 / 18014398509481984) (volts_A02 (2527132097463467 / 17592186044416)).
Proof. apply (A02_q_volts_mid 2527132097463467 17592186044416 8379907855962159 18014398509481984); [vm_compute; reflexivity | unfold fr, close, ctol, A02_lo, A02_hi, A02_c, A02_e; interval with (i_prec 80)]. Qed.
Lemma d_A02_312r : rio_reads A02_c A02_e A02_lo A02_hi floor_volts ctol (Build_rio (Fin (4891323652016973 / 4503599627370496)) (Fin (4437 / 1024)) (Fin (2929 / 1024)) (Fin (1641 / 256)) NInf true true true ((Fin (1233 / 512)) :: (Fin (319 / 512)) :: (Fin (233 / 512)) :: (Fin (92529 / 1024)) :: (Fin (1419 / 256)) :: (Fin (82671 / 1024)) :: nil)) (8009253590954351 / 140737488355328).
Proof. apply (A02_rio_fin _ (4891323652016973 / 4503599627370496)); [reflexivity | apply (A02_q_mid 4891323652016973 4503599627370496 8009253590954351 140737488355328); [vm_compute; reflexivity | unfold fr, close, ctol, A02_c, A02_e; interval with (i_prec 80)]]. Qed.
Lemma d_A02_325u : close ctol (484915239175759 / 562949953421312) (volts_A02 (2579077112900815 / 35184372088832)).
Proof. apply (A02_q_volts_mid 2579077112900815 35184372088832 484915239175759 562949953421312); [vm_compute; reflexivity | unfold fr, close, ctol, A02_lo, A02_hi, A02_c, A02_e; interval with (i_prec 80)]. Qed.
Lemma d_A02_338u : close ctol (765043093828011 / 562949953421312) (volts_A02 (3135136185483823 / 70368744177664)).
Proof. apply (A02_q_volts_mid 3135136185483823 70368744177664 765043093828011 562949953421312); [vm_compute; reflexivity | unfold fr, close, ctol, A02_lo, A02_hi, A02_c, A02_e; interval with (i_prec 80)]. Qed.
Lemma d_A02_351u : close ctol (2303204211892615 / 4503599627370496) (volts_A02 (2278707888490685 / 17592186044416)).
Proof. apply (A02_q_volts_mid 2278707888490685 17592186044416 2303204211892615 4503599627370496); [vm_compute; reflexivity | unfold fr, close, ctol, A02_lo, A02_hi, A02_c, A02_e; interval with (i_prec 80)]. Qed.
Lemma d_A02_364u : close ctol (8308476880671015 / 18014398509481984) (volts_A02 (6749059579787073 / 35184372088832)).
Proof. apply (A02_q_volts_hi 6749059579787073 35184372088832 8308476880671015 18014398509481984); [vm_compute; reflexivity | unfold fr, close, ctol, A02_lo, A02_hi, A02_c, A02_e; interval with (i_prec 80)]. Qed.
Lemma d_A02_376r : rio_reads A02_c A02_e A02_lo A02_hi floor_volts ctol (Build_rio (Fin (6234558023077967 / 9007199254740992)) (Fin (15057 / 1024)) (Fin (3651 / 1024)) (Fin (5709 / 1024)) (Fin (12 / 1)) true true false ((Fin (1045 / 1024)) :: (Fin (791 / 1024)) :: (Fin (2295 / 1024)) :: (Fin (73131 / 512)) :: (Fin (1841 / 256)) :: (Fin (52759 / 1024)) :: nil)) (3274783887682999 / 35184372088832).
Proof. apply (A02_rio_fin _ (6234558023077967 / 9007199254740992)); [reflexivity | apply (A02_q_mid 6234558023077967 9007199254740992 3274783887682999 35184372088832); [vm_compute; reflexivity | unfold fr, close, ctol, A02_c, A02_e; interval with (i_prec 80)]]. Qed.
Lemma d_A02_389u : close ctol (4780268855007705 / 9007199254740992) (volts_A02 (8753434705957161 / 70368744177664)).
Proof. apply (A02_q_volts_mid 8753434705957161 70368744177664 4780268855007705 9007199254740992); [vm_compute; reflexivity | unfold fr, close, ctol, A02_lo, A02_hi, A02_c, A02_e; interval with (i_prec 80)]. Qed.
Lemma d_A02_402u : close ctol (4710323590621735 / 2251799813685248) (volts_A02 (1957579963323113 / 70368744177664)).
Proof. apply (A02_q_volts_mid 1957579963323113 70368744177664 4710323590621735 2251799813685248); [vm_compute; reflexivity | unfold fr, close, ctol, A02_lo, A02_hi, A02_c, A02_e; interval with (i_prec 80)]. Qed.
Lemma d_A02_415u : close ctol (674041227061959 / 281474976710656) (volts_A02 (24 / 1)).
Proof. apply (A02_q_volts_mid 24 1 674041227061959 281474976710656); [vm_compute; reflexivity | unfold fr, close, ctol, A02_lo, A02_hi, A02_c, A02_e; interval with (i_prec 80)]. Qed.
Lemma d_A02_428u : close ctol (5625793755555865 / 9007199254740992) (volts_A02 (3663614092780491 / 35184372088832)).
Proof. apply (A02_q_volts_mid 3663614092780491 35184372088832 5625793755555865 9007199254740992); [vm_compute; reflexivity | unfold fr, close, ctol, A02_lo, A02_hi, A02_c, A02_e; interval with (i_prec 80)]. Qed.
Lemma d_A02_440r : rio_reads A02_c A02_e A02_lo A02_hi floor_volts ctol (Build_rio (Fin (8562910344804273 / 18014398509481984)) (Fin (0 / 1)) (Fin (0 / 1)) (Fin (5539 / 1024)) (Fin (10643 / 1024)) false true false ((Fin (2545 / 1024)) :: (Fin (1675 / 1024)) :: (Fin (35 / 128)) :: (Fin (185453 / 1024)) :: (Fin (4631 / 1024)) :: (Fin (5639 / 1024)) :: nil)) (1234106490354553 / 8796093022208).
Proof. apply (A02_rio_fin _ (8562910344804273 / 18014398509481984)); [reflexivity | apply (A02_q_mid 8562910344804273 18014398509481984 1234106490354553 8796093022208); [vm_compute; reflexivity | unfold fr, close, ctol, A02_c, A02_e; interval with (i_prec 80)]]. Qed.
Lemma d_A02_453u : close ctol (285596302010811 / 562949953421312) (volts_A02 (4597583226342411 / 35184372088832)).
Proof. apply (A02_q_volts_mid 4597583226342411 35184372088832 285596302010811 562949953421312); [vm_compute; reflexivity | unfold fr, close, ctol, A02_lo, A02_hi, A02_c, A02_e; interval with (i_prec 80)]. Qed.
Lemma d_A02_466u : close ctol (5885785568755627 / 9007199254740992) (volts_A02 (3487257314825841 / 35184372088832)).
Proof. apply (A02_q_volts_mid 3487257314825841 35184372088832 5885785568755627 9007199254740992); [vm_compute; reflexivity | unfold fr, close, ctol, A02_lo, A02_hi, A02_c, A02_e; interval with (i_prec 80)]. Qed.
Lemma d_A02_479u : close ctol (8308476880671015 / 18014398509481984) (volts_A02 (7087857860981019 / 17592186044416)).
Proof. apply (A02_q_volts_hi 7087857860981019 17592186044416 8308476880671015 18014398509481984); [vm_compute; reflexivity | unfold fr, close, ctol, A02_lo, A02_hi, A02_c, A02_e; interval with (i_prec 80)]. Qed.
Lemma d_A02_492u : close ctol (4803252354966823 / 9007199254740992) (volts_A02 (2176926572611671 / 17592186044416)).
Proof. apply (A02_q_volts_mid 2176926572611671 17592186044416 4803252354966823 9007199254740992); [vm_compute; reflexivity | unfold fr, close, ctol, A02_lo, A02_hi, A02_c, A02_e; interval with (i_prec 80)]. Qed.
Lemma d_A02_504r : rio_reads A02_c A02_e A02_lo A02_hi floor_volts ctol (Build_rio (Fin (89095659024099 / 140737488355328)) (Fin (2419 / 512)) (Fin (3171 / 1024)) (Fin (3355 / 512)) (Fin (3329 / 256)) true true true ((Fin (81 / 1024)) :: (Fin (521 / 512)) :: (Fin (751 / 256)) :: (Fin (24959 / 128)) :: (Fin (63 / 8)) :: (Fin (20247 / 512)) :: nil)) (3610094409784411 / 35184372088832).
Proof. apply (A02_rio_fin _ (89095659024099 / 140737488355328)); [reflexivity | apply (A02_q_mid 89095659024099 140737488355328 3610094409784411 35184372088832); [vm_compute; reflexivity | unfold fr, close, ctol, A02_c, A02_e; interval with (i_prec 80)]]. Qed.
Lemma d_A02_517u : close ctol (357539307115111 / 140737488355328) (volts_A02 (1600241497522495 / 140737488355328)).
Proof. apply (A02_q_volts_lo 1600241497522495 140737488355328 357539307115111 140737488355328); [vm_compute; reflexivity | unfold fr, close, ctol, A02_lo, A02_hi, A02_c, A02_e; interval with (i_prec 80)]. Qed.
Lemma d_A02_530u : close ctol (4309294118127999 / 9007199254740992) (volts_A02 (1225403017263985 / 8796093022208)).
Proof. apply (A02_q_volts_mid 1225403017263985 8796093022208 4309294118127999 9007199254740992); [vm_compute; reflexivity | unfold fr, close, ctol, A02_lo, A02_hi, A02_c, A02_e; interval with (i_prec 80)]. Qed.
Lemma d_A02_543u : close ctol (8308476880671015 / 18014398509481984) (volts_A02 (6148302945689905 / 17592186044416)).
Proof. apply (A02_q_volts_hi 6148302945689905 17592186044416 8308476880671015 18014398509481984); [vm_compute; reflexivity | unfold fr, close, ctol, A02_lo, A02_hi, A02_c, A02_e; interval with (i_prec 80)]. Qed.
Lemma d_A02_556u : close ctol (5894176654768235 / 9007199254740992) (volts_A02 (6963672784526801 / 70368744177664)).
Proof. apply (A02_q_volts_mid 6963672784526801 70368744177664 5894176654768235 9007199254740992); [vm_compute; reflexivity | unfold fr, close, ctol, A02_lo, A02_hi, A02_c, A02_e; interval with (i_prec 80)]. Qed.
Lemma d_A02_568r : rio_reads A02_c A02_e A02_lo A02_hi floor_volts ctol (Build_rio (Fin (8308476880671015 / 18014398509481984)) (Fin (2131 / 512)) (Fin (3715469692580659 / 1125899906842624)) (Fin (3651 / 256)) (Fin (1131 / 256)) true false true ((Fin (529 / 256)) :: (Fin (143 / 128)) :: (Fin (285 / 512)) :: (Fin (158349 / 1024)) :: (Fin (6 / 1)) :: (Fin (15111 / 1024)) :: nil)) (145 / 1).
Proof. apply (A02_rio_fin _ (8308476880671015 / 18014398509481984)); [reflexivity | apply (A02_q_hi 8308476880671015 18014398509481984 145 1); [vm_compute; reflexivity | unfold fr, ctol, A02_hi, A02_c, A02_e; interval with (i_prec 80)]]. Qed.
Lemma d_A02_581u : close ctol (4641269407510071 / 4503599627370496) (volts_A02 (1060201282025541 / 17592186044416)).
Proof. apply (A02_q_volts_mid 1060201282025541 17592186044416 4641269407510071 4503599627370496); [vm_compute; reflexivity | unfold fr, close, ctol, A02_lo, A02_hi, A02_c, A02_e; interval with (i_prec 80)]. Qed.
Lemma d_A02_594u : close ctol (7327475452200461 / 4503599627370496) (volts_A02 (1287821016161447 / 35184372088832)).
Proof. apply (A02_q_volts_mid 1287821016161447 35184372088832 7327475452200461 4503599627370496); [vm_compute; reflexivity | unfold fr, close, ctol, A02_lo, A02_hi, A02_c, A02_e; interval with (i_prec 80)]. Qed.
Lemma d_A02_607u : close ctol (260208906003517 / 562949953421312) (volts_A02 (2544776384533179 / 17592186044416)).
Proof. apply (A02_q_volts_mid 2544776384533179 17592186044416 260208906003517 562949953421312); [vm_compute; reflexivity | unfold fr, close, ctol, A02_lo, A02_hi, A02_c, A02_e; interval with (i_prec 80)]. Qed.
Lemma d_A02_620u : close ctol (5152511268501461 / 9007199254740992) (volts_A02 (8065211112137669 / 70368744177664)).
Proof. apply (A02_q_volts_mid 8065211112137669 70368744177664 5152511268501461 9007199254740992); [vm_compute; reflexivity | unfold fr, close, ctol, A02_lo, A02_hi, A02_c, A02_e; interval with (i_prec 80)]. Qed.
Lemma d_A02_632r : rio_reads A02_c A02_e A02_lo A02_hi floor_volts ctol (Build_rio (Fin (2137355102971657 / 2251799813685248)) (Fin (1341 / 512)) (Fin (3101 / 1024)) (Fin (6 / 1)) (Fin (5149 / 512)) true true true ((Fin (69 / 128)) :: (Fin (787 / 512)) :: (Fin (1913 / 1024)) :: (Fin (75733 / 1024)) :: (Fin (3907 / 512)) :: (Fin (89 / 16)) :: nil)) (4639440248091207 / 70368744177664).
Proof. apply (A02_rio_fin _ (2137355102971657 / 2251799813685248)); [reflexivity | apply (A02_q_mid 2137355102971657 2251799813685248 4639440248091207 70368744177664); [vm_compute; reflexivity | unfold fr, close, ctol, A02_c, A02_e; interval with (i_prec 80)]]. Qed.
Lemma d_A02_645u : close ctol (1138900791279433 / 2251799813685248) (volts_A02 (4612945570755249 / 35184372088832)).
Proof. apply (A02_q_volts_mid 4612945570755249 35184372088832 1138900791279433 2251799813685248); [vm_compute; reflexivity | unfold fr, close, ctol, A02_lo, A02_hi, A02_c, A02_e; interval with (i_prec 80)]. Qed.
Lemma d_A02_658u : close ctol (4936844051422181 / 9007199254740992) (volts_A02 (8450719356254165 / 70368744177664)).
Proof. apply (A02_q_volts_mid 8450719356254165 70368744177664 4936844051422181 9007199254740992); [vm_compute; reflexivity | unfold fr, close, ctol, A02_lo, A02_hi, A02_c, A02_e; interval with (i_prec 80)]. Qed.
Lemma r_A21_429 : rio_reads A21_c A21_e A21_lo A21_hi floor_volts ctol (Build_rio (Fin (357539307115111 / 140737488355328)) (Fin (5 / 1)) (Fin (3715469692580659 / 1125899906842624)) (Fin (6 / 1)) (Fin (12 / 1)) true true true ((Fin (0 / 1)) :: (Fin (0 / 1)) :: (Fin (0 / 1)) :: (Fin (0 / 1)) :: (Fin (27 / 4)) :: (Fin (45 / 1)) :: nil)) (10 / 1).
Proof. apply (A21_rio_fin _ (357539307115111 / 140737488355328)); [reflexivity | apply (A21_q_lo 357539307115111 140737488355328 10 1); [vm_compute; reflexivity | unfold fr, ctol, A21_lo, A21_c, A21_e; interval with (i_prec 80)]]. Qed.
Lemma r_A21_460 : rio_reads A21_c A21_e A21_lo A21_hi floor_volts ctol (Build_rio (Fin (179769313486231570814527423731704356798070567525844996598917476803157260780028538760589558632766878171540458953514382464234321326889464182768467546703537516986049910576551282076245490090389328944075868508455133942304583236903222948165808559332123348274797826204144723168738177180919299881250404026184124858368 / 1)) (Fin (5 / 1)) (Fin (0 / 1)) (Fin (6 / 1)) (Fin (12 / 1)) true true true ((Fin (0 / 1)) :: (Fin (0 / 1)) :: (Fin (0 / 1)) :: (Fin (0 / 1)) :: (Fin (27 / 4)) :: (Fin (45 / 1)) :: nil)) (10 / 1).
Proof. apply (A21_rio_fin _ (179769313486231570814527423731704356798070567525844996598917476803157260780028538760589558632766878171540458953514382464234321326889464182768467546703537516986049910576551282076245490090389328944075868508455133942304583236903222948165808559332123348274797826204144723168738177180919299881250404026184124858368 / 1)); [reflexivity | apply (A21_q_lo 179769313486231570814527423731704356798070567525844996598917476803157260780028538760589558632766878171540458953514382464234321326889464182768467546703537516986049910576551282076245490090389328944075868508455133942304583236903222948165808559332123348274797826204144723168738177180919299881250404026184124858368 1 10 1); [vm_compute; reflexivity | unfold fr, ctol, A21_lo, A21_c, A21_e; interval with (i_prec 80)]]. Qed.
Lemma r_A21_478 : rio_reads A21_c A21_e A21_lo A21_hi floor_volts ctol (Build_rio (Fin (1655 / 4096)) (Fin (5 / 1)) (Fin (3715469692580659 / 1125899906842624)) (Fin (6 / 1)) (Fin (12 / 1)) true true true ((Fin (0 / 1)) :: (Fin (0 / 1)) :: (Fin (0 / 1)) :: (Fin (180 / 1)) :: (Fin (27 / 4)) :: (Fin (45 / 1)) :: nil)) (80 / 1).
Proof. apply (A21_rio_fin _ (1655 / 4096)); [reflexivity | apply (A21_q_hi 1655 4096 80 1); [vm_compute; reflexivity | unfold fr, ctol, A21_hi, A21_c, A21_e; interval with (i_prec 80)]]. Qed.
Lemma r_A21_494 : rio_reads A21_c A21_e A21_lo A21_hi floor_volts ctol (Build_rio (Fin (5 / 64)) PInf (Fin (11977 / 1024)) (Fin (3049 / 512)) (Fin (1851 / 1024)) true true true ((Fin (1243 / 1024)) :: (Fin (319 / 1024)) :: (Fin (169 / 512)) :: (Fin (92869 / 512)) :: (Fin (8249 / 1024)) :: (Fin ((-5989) / 1024)) :: nil)) (80 / 1).
Proof. apply (A21_rio_fin _ (5 / 64)); [reflexivity | apply (A21_q_hi 5 64 80 1); [vm_compute; reflexivity | unfold fr, ctol, A21_hi, A21_c, A21_e; interval with (i_prec 80)]]. Qed.
Lemma r_A21_510 : rio_reads A21_c A21_e A21_lo A21_hi floor_volts ctol (Build_rio (Fin (25 / 64)) (Fin (611 / 128)) (Fin (1749 / 512)) NInf (Fin (12 / 1)) true false true ((Fin (1393 / 512)) :: (Fin (167 / 512)) :: (Fin (385 / 1024)) :: (Fin (903 / 256)) :: (Fin (7445 / 1024)) :: (Fin ((-4013) / 1024)) :: nil)) (80 / 1).
Proof. apply (A21_rio_fin _ (25 / 64)); [reflexivity | apply (A21_q_hi 25 64 80 1); [vm_compute; reflexivity | unfold fr, ctol, A21_hi, A21_c, A21_e; interval with (i_prec 80)]]. Qed.
Lemma r_A21_526 : rio_reads A21_c A21_e A21_lo A21_hi floor_volts ctol (Build_rio (Fin (45 / 64)) (Fin (2709 / 512)) (Fin (3323 / 1024)) (Fin (6319 / 1024)) (Fin (4833 / 512)) true true true ((Fin (47 / 1024)) :: (Fin (429 / 512)) :: (Fin (2043 / 1024)) :: (Fin (100831 / 1024)) :: (Fin (8721 / 1024)) :: (Fin (15207 / 256)) :: nil)) (5732672859285315 / 140737488355328).
Proof. apply (A21_rio_fin _ (45 / 64)); [reflexivity | apply (A21_q_mid 45 64 5732672859285315 140737488355328); [vm_compute; reflexivity | unfold fr, close, ctol, A21_c, A21_e; interval with (i_prec 80)]]. Qed.
Lemma r_A21_542 : rio_reads A21_c A21_e A21_lo A21_hi floor_volts ctol (Build_rio (Fin (65 / 64)) (Fin (4617 / 1024)) (Fin (3667 / 1024)) (Fin (4077 / 512)) (Fin (645 / 64)) true false true ((Fin (103 / 512)) :: (Fin (35 / 32)) :: (Fin (183 / 1024)) :: (Fin (2927 / 16)) :: (Fin (447 / 64)) :: (Fin ((-3821) / 256)) :: nil)) (3652278827649525 / 140737488355328).
Proof. apply (A21_rio_fin _ (65 / 64)); [reflexivity | apply (A21_q_mid 65 64 3652278827649525 140737488355328); [vm_compute; reflexivity | unfold fr, close, ctol, A21_c, A21_e; interval with (i_prec 80)]]. Qed.
Lemma r_A21_558 : rio_reads A21_c A21_e A21_lo A21_hi floor_volts ctol (Build_rio (Fin (85 / 64)) (Fin (4105 / 1024)) (Fin (3137 / 1024)) (Fin (3253 / 512)) (Fin (12869 / 1024)) false true true ((Fin (549 / 512)) :: (Fin (771 / 512)) :: (Fin (667 / 512)) :: (Fin (46081 / 256)) :: (Fin (5993 / 1024)) :: (Fin (91319 / 1024)) :: nil)) (5257243511338227 / 281474976710656).
Proof. apply (A21_rio_fin _ (85 / 64)); [reflexivity | apply (A21_q_mid 85 64 5257243511338227 281474976710656); [vm_compute; reflexivity | unfold fr, close, ctol, A21_c, A21_e; interval with (i_prec 80)]]. Qed.
Lemma r_A21_574 : rio_reads A21_c A21_e A21_lo A21_hi floor_volts ctol (Build_rio (Fin (105 / 64)) (Fin ((-1) / 1)) (Fin (3715469692580659 / 1125899906842624)) (Fin (6 / 1)) (Fin (12 / 1)) true true false ((Fin (1815 / 1024)) :: (Fin (1473 / 1024)) :: (Fin (1335 / 1024)) :: (Fin (11619 / 128)) :: (Fin (3631 / 1024)) :: (Fin (52549 / 1024)) :: nil)) (4057398047959629 / 281474976710656).
Proof. apply (A21_rio_fin _ (105 / 64)); [reflexivity | apply (A21_q_mid 105 64 4057398047959629 281474976710656); [vm_compute; reflexivity | unfold fr, close, ctol, A21_c, A21_e; interval with (i_prec 80)]]. Qed.
Lemma r_A21_590 : rio_reads A21_c A21_e A21_lo A21_hi floor_volts ctol (Build_rio (Fin (125 / 64)) (Fin (5585 / 1024)) (Fin (1485 / 1024)) (Fin (2803 / 512)) (Fin (12 / 1)) false false true ((Fin (877 / 512)) :: (Fin (491 / 256)) :: (Fin (1425 / 1024)) :: (Fin (117773 / 1024)) :: (Fin (4029 / 1024)) :: (Fin (26883 / 512)) :: nil)) (3276529033659893 / 281474976710656).
Proof. apply (A21_rio_fin _ (125 / 64)); [reflexivity | apply (A21_q_mid 125 64 3276529033659893 281474976710656); [vm_compute; reflexivity | unfold fr, close, ctol, A21_c, A21_e; interval with (i_prec 80)]]. Qed.
Lemma r_A21_606 : rio_reads A21_c A21_e A21_lo A21_hi floor_volts ctol (Build_rio (Fin (145 / 64)) (Fin (5 / 1)) (Fin (1357 / 512)) (Fin (6721 / 1024)) (Fin (9999 / 1024)) true true false ((Fin (1995 / 1024)) :: (Fin (605 / 512)) :: (Fin (359 / 512)) :: (Fin (6857 / 512)) :: (Fin (2263 / 256)) :: (Fin (65707 / 1024)) :: nil)) (10 / 1).
Proof. apply (A21_rio_fin _ (145 / 64)); [reflexivity | apply (A21_q_lo 145 64 10 1); [vm_compute; reflexivity | unfold fr, ctol, A21_lo, A21_c, A21_e; interval with (i_prec 80)]]. Qed.
Lemma r_A21_622 : rio_reads A21_c A21_e A21_lo A21_hi floor_volts ctol (Build_rio (Fin (165 / 64)) (Fin (1085 / 256)) (Fin (2407 / 512)) PInf (Fin (5902958103587057 / 590295810358705651712)) true false true ((Fin (2855 / 1024)) :: (Fin (295 / 512)) :: (Fin (309 / 1024)) :: (Fin (24659 / 512)) :: (Fin (3165 / 1024)) :: (Fin ((-14327) / 1024)) :: nil)) (10 / 1).
Proof. apply (A21_rio_fin _ (165 / 64)); [reflexivity | apply (A21_q_lo 165 64 10 1); [vm_compute; reflexivity | unfold fr, ctol, A21_lo, A21_c, A21_e; interval with (i_prec 80)]]. Qed.
Lemma r_A21_638 : rio_reads A21_c A21_e A21_lo A21_hi floor_volts ctol (Build_rio (Fin (185 / 64)) (Fin ((-12) / 1)) (Fin (1443 / 512)) (Fin (4893 / 1024)) (Fin (653 / 64)) true true false ((Fin (133 / 64)) :: (Fin (411 / 1024)) :: (Fin (417 / 256)) :: (Fin (29235 / 256)) :: (Fin (7403 / 1024)) :: (Fin (24647 / 512)) :: nil)) (10 / 1).
Proof. apply (A21_rio_fin _ (185 / 64)); [reflexivity | apply (A21_q_lo 185 64 10 1); [vm_compute; reflexivity | unfold fr, ctol, A21_lo, A21_c, A21_e; interval with (i_prec 80)]]. Qed.
Lemma r_A21_654 : rio_reads A21_c A21_e A21_lo A21_hi floor_volts ctol (Build_rio (Fin (205 / 64)) (Fin (3145 / 1024)) (Fin (8957 / 1024)) (Fin (5603 / 1024)) (Fin (0 / 1)) false true true ((Fin (71 / 1024)) :: (Fin (427 / 256)) :: (Fin (3053 / 1024)) :: (Fin (1269 / 128)) :: (Fin (243 / 32)) :: (Fin (11961 / 1024)) :: nil)) (10 / 1).
Proof. apply (A21_rio_fin _ (205 / 64)); [reflexivity | apply (A21_q_lo 205 64 10 1); [vm_compute; reflexivity | unfold fr, ctol, A21_lo, A21_c, A21_e; interval with (i_prec 80)]]. Qed.
Lemma r_A21_670 : rio_reads A21_c A21_e A21_lo A21_hi floor_volts ctol (Build_rio (Fin (225 / 64)) (Fin (4895 / 1024)) (Fin (13765 / 1024)) PInf (Fin (2011 / 256)) true false true ((Fin (221 / 512)) :: (Fin (1419 / 1024)) :: (Fin (15 / 16)) :: (Fin (305 / 16)) :: (Fin (4197 / 1024)) :: (Fin (16301 / 512)) :: nil)) (10 / 1).
Proof. apply (A21_rio_fin _ (225 / 64)); [reflexivity | apply (A21_q_lo 225 64 10 1); [vm_compute; reflexivity | unfold fr, ctol, A21_lo, A21_c, A21_e; interval with (i_prec 80)]]. Qed.
Lemma r_A21_686 : rio_reads A21_c A21_e A21_lo A21_hi floor_volts ctol (Build_rio (Fin (245 / 64)) (Fin (5902958103587057 / 590295810358705651712)) (Fin (1 / 1)) (Fin (11411 / 1024)) (Fin (100000000000000001097906362944045541740492309677311846336810682903157585404911491537163328978494688899061249669721172515611590283743140088328307009198146046031271664502933027185697489699588559043338384466165001178426897626212945177628091195786707458122783970171784415105291802893207873272974885715430223118336 / 1)) true true true ((Fin (261 / 1024)) :: (Fin (1353 / 1024)) :: (Fin (2643 / 1024)) :: (Fin (43381 / 256)) :: (Fin (1123 / 256)) :: (Fin (32141 / 512)) :: nil)) (10 / 1).
Proof. apply (A21_rio_fin _ (245 / 64)); [reflexivity | apply (A21_q_lo 245 64 10 1); [vm_compute; reflexivity | unfold fr, ctol, A21_lo, A21_c, A21_e; interval with (i_prec 80)]]. Qed.
Lemma r_A21_702 : rio_reads A21_c A21_e A21_lo A21_hi floor_volts ctol (Build_rio (Fin (265 / 64)) (Fin (4277 / 1024)) (Fin (1569 / 512)) (Fin (6967 / 1024)) (Fin (1441 / 256)) false true true ((Fin (839 / 1024)) :: (Fin (633 / 1024)) :: (Fin (741 / 256)) :: (Fin (36555 / 1024)) :: (Fin (2331 / 512)) :: (Fin (73701 / 1024)) :: nil)) (10 / 1).
Proof. apply (A21_rio_fin _ (265 / 64)); [reflexivity | apply (A21_q_lo 265 64 10 1); [vm_compute; reflexivity | unfold fr, ctol, A21_lo, A21_c, A21_e; interval with (i_prec 80)]]. Qed.
Lemma r_A21_718 : rio_reads A21_c A21_e A21_lo A21_hi floor_volts ctol (Build_rio (Fin (285 / 64)) (Fin (5309 / 1024)) (Fin (3307 / 1024)) (Fin (5851 / 1024)) (Fin (2929 / 256)) false true true ((Fin (1717 / 1024)) :: (Fin (365 / 256)) :: (Fin (1175 / 512)) :: (Fin (166309 / 1024)) :: (Fin (6911 / 1024)) :: (Fin (64531 / 1024)) :: nil)) (10 / 1).
Proof. apply (A21_rio_fin _ (285 / 64)); [reflexivity | apply (A21_q_lo 285 64 10 1); [vm_compute; reflexivity | unfold fr, ctol, A21_lo, A21_c, A21_e; interval with (i_prec 80)]]. Qed.
Lemma r_A21_734 : rio_reads A21_c A21_e A21_lo A21_hi floor_volts ctol (Build_rio (Fin (305 / 64)) (Fin (2505 / 512)) (Fin (1845 / 512)) (Fin (419 / 64)) (Fin (13325 / 1024)) true true true ((Fin (615 / 512)) :: (Fin (1967 / 1024)) :: (Fin (57 / 512)) :: (Fin (114081 / 1024)) :: (Fin (6065 / 1024)) :: (Fin (23949 / 1024)) :: nil)) (10 / 1).
Proof. apply (A21_rio_fin _ (305 / 64)); [reflexivity | apply (A21_q_lo 305 64 10 1); [vm_compute; reflexivity | unfold fr, ctol, A21_lo, A21_c, A21_e; interval with (i_prec 80)]]. Qed.
Lemma r_A21_750 : rio_reads A21_c A21_e A21_lo A21_hi floor_volts ctol (Build_rio (Fin (6862856129770285 / 2251799813685248)) (Fin (2299 / 512)) (Fin (1557 / 512)) (Fin (3675 / 256)) (Fin (12 / 1)) true true false ((Fin (1005 / 512)) :: (Fin (1413 / 1024)) :: (Fin (701 / 512)) :: (Fin (202181 / 1024)) :: (Fin (3863 / 1024)) :: (Fin (78181 / 1024)) :: nil)) (10 / 1).
Proof. apply (A21_rio_fin _ (6862856129770285 / 2251799813685248)); [reflexivity | apply (A21_q_lo 6862856129770285 2251799813685248 10 1); [vm_compute; reflexivity | unfold fr, ctol, A21_lo, A21_c, A21_e; interval with (i_prec 80)]]. Qed.
Lemma r_A21_766 : rio_reads A21_c A21_e A21_lo A21_hi floor_volts ctol (Build_rio (Fin (5793078125812345 / 9007199254740992)) (Fin (631 / 128)) (Fin (787 / 64)) (Fin (3225 / 512)) (Fin (3331 / 256)) true false false ((Fin (1321 / 512)) :: (Fin (1473 / 1024)) :: (Fin (993 / 512)) :: (Fin (44017 / 512)) :: (Fin (105 / 32)) :: (Fin ((-2537) / 256)) :: nil)) (1598671427988063 / 35184372088832).
Proof. apply (A21_rio_fin _ (5793078125812345 / 9007199254740992)); [reflexivity | apply (A21_q_mid 5793078125812345 9007199254740992 1598671427988063 35184372088832); [vm_compute; reflexivity | unfold fr, close, ctol, A21_c, A21_e; interval with (i_prec 80)]]. Qed.
Lemma r_A21_782 : rio_reads A21_c A21_e A21_lo A21_hi floor_volts ctol (Build_rio (Fin (2677827925425981 / 1125899906842624)) (Fin (5 / 1)) (Fin (3389 / 1024)) (Fin (6 / 1)) (Fin (9419 / 1024)) true true true ((Fin (711 / 1024)) :: (Fin (929 / 512)) :: (Fin (1739 / 1024)) :: (Fin (106329 / 1024)) :: (Fin (1685 / 512)) :: (Fin (8741 / 256)) :: nil)) (10 / 1).
Proof. apply (A21_rio_fin _ (2677827925425981 / 1125899906842624)); [reflexivity | apply (A21_q_lo 2677827925425981 1125899906842624 10 1); [vm_compute; reflexivity | unfold fr, ctol, A21_lo, A21_c, A21_e; interval with (i_prec 80)]]. Qed.
Lemma r_A21_798 : rio_reads A21_c A21_e A21_lo A21_hi floor_volts ctol (Build_rio (Fin (3773256533504491 / 1125899906842624)) (Fin (4597 / 1024)) (Fin (0 / 1)) (Fin (471 / 256)) (Fin (12697 / 1024)) true true true ((Fin (1077 / 512)) :: (Fin (317 / 256)) :: (Fin (751 / 1024)) :: (Fin (64773 / 512)) :: (Fin (1943 / 256)) :: (Fin (23483 / 512)) :: nil)) (10 / 1).
Proof. apply (A21_rio_fin _ (3773256533504491 / 1125899906842624)); [reflexivity | apply (A21_q_lo 3773256533504491 1125899906842624 10 1); [vm_compute; reflexivity | unfold fr, ctol, A21_lo, A21_c, A21_e; interval with (i_prec 80)]]. Qed.
Lemma r_A21_814 : rio_reads A21_c A21_e A21_lo A21_hi floor_volts ctol (Build_rio (Fin (3203918079084127 / 144115188075855872)) (Fin (277 / 64)) (Fin (857 / 256)) (Fin (5127 / 1024)) (Fin (6599 / 512)) true false true ((Fin (2825 / 1024)) :: (Fin (1083 / 1024)) :: (Fin (959 / 512)) :: (Fin (104673 / 1024)) :: (Fin (3669 / 1024)) :: (Fin (49925 / 512)) :: nil)) (80 / 1).
Proof. apply (A21_rio_fin _ (3203918079084127 / 144115188075855872)); [reflexivity | apply (A21_q_hi 3203918079084127 144115188075855872 80 1); [vm_compute; reflexivity | unfold fr, ctol, A21_hi, A21_c, A21_e; interval with (i_prec 80)]]. Qed.
Lemma r_A21_838 : rio_reads A21_c A21_e A21_lo A21_hi floor_volts ctol (Build_rio (Fin (2452600562413605 / 35184372088832)) (Fin (0 / 1)) (Fin (3715469692580659 / 1125899906842624)) (Fin (5902958103587057 / 590295810358705651712)) (Fin (12 / 1)) true true true ((Fin (193 / 128)) :: (Fin (403 / 512)) :: (Fin (47 / 128)) :: (Fin (60945 / 512)) :: (Fin (4611 / 1024)) :: (Fin (19139 / 256)) :: nil)) (10 / 1).
Proof. apply (A21_rio_fin _ (2452600562413605 / 35184372088832)); [reflexivity | apply (A21_q_lo 2452600562413605 35184372088832 10 1); [vm_compute; reflexivity | unfold fr, ctol, A21_lo, A21_c, A21_e; interval with (i_prec 80)]]. Qed.
Lemma d_A21_671r : rio_reads A21_c A21_e A21_lo A21_hi floor_volts ctol (Build_rio (Fin (5358090456764289 / 9007199254740992)) (Fin (1 / 1)) (Fin (1 / 1)) (Fin (1 / 1)) (Fin (1 / 1)) true true true ((Fin (0 / 1)) :: (Fin (0 / 1)) :: (Fin (0 / 1)) :: (Fin (0 / 1)) :: (Fin (1 / 1)) :: (Fin (45 / 1)) :: nil)) (50 / 1).
Proof. apply (A21_rio_fin _ (5358090456764289 / 9007199254740992)); [reflexivity | apply (A21_q_mid 5358090456764289 9007199254740992 50 1); [vm_compute; reflexivity | unfold fr, close, ctol, A21_c, A21_e; interval with (i_prec 80)]]. Qed.
Lemma d_A21_679r : rio_reads A21_c A21_e A21_lo A21_hi floor_volts ctol (Build_rio (Fin (5138554465803671 / 4503599627370496)) (Fin (10 / 1)) (Fin (3715469692580659 / 1125899906842624)) (Fin (6 / 1)) (Fin (12 / 1)) true true true ((Fin (0 / 1)) :: (Fin (0 / 1)) :: (Fin (0 / 1)) :: (Fin (0 / 1)) :: (Fin (27 / 4)) :: (Fin (45 / 1)) :: nil)) (6333186975989761 / 281474976710656).
Proof. apply (A21_rio_fin _ (5138554465803671 / 4503599627370496)); [reflexivity | apply (A21_q_mid 5138554465803671 4503599627370496 6333186975989761 281474976710656); [vm_compute; reflexivity | unfold fr, close, ctol, A21_c, A21_e; interval with (i_prec 80)]]. Qed.
Lemma d_A21_687r : rio_reads A21_c A21_e A21_lo A21_hi floor_volts ctol (Build_rio (Fin (2489100355631953 / 1125899906842624)) (Fin (100000000000000001097906362944045541740492309677311846336810682903157585404911491537163328978494688899061249669721172515611590283743140088328307009198146046031271664502933027185697489699588559043338384466165001178426897626212945177628091195786707458122783970171784415105291802893207873272974885715430223118336 / 1)) (Fin (3715469692580659 / 1125899906842624)) (Fin (6 / 1)) (Fin (12 / 1)) true true true ((Fin (0 / 1)) :: (Fin (0 / 1)) :: (Fin (0 / 1)) :: (Fin (0 / 1)) :: (Fin (27 / 4)) :: (Fin (45 / 1)) :: nil)) (10 / 1).
Proof. apply (A21_rio_fin _ (2489100355631953 / 1125899906842624)); [reflexivity | apply (A21_q_lo 2489100355631953 1125899906842624 10 1); [vm_compute; reflexivity | unfold fr, ctol, A21_lo, A21_c, A21_e; interval with (i_prec 80)]]. Qed.
Lemma d_A21_695r : rio_reads A21_c A21_e A21_lo A21_hi floor_volts ctol (Build_rio (Fin (2489100355631953 / 1125899906842624)) (Fin (5 / 1)) (Fin (3715469692580659 / 1125899906842624)) (Fin (6 / 1)) (Fin (0 / 1)) true true true ((Fin (0 / 1)) :: (Fin (0 / 1)) :: (Fin (0 / 1)) :: (Fin (0 / 1)) :: (Fin (27 / 4)) :: (Fin (45 / 1)) :: nil)) (10 / 1).
Proof. apply (A21_rio_fin _ (2489100355631953 / 1125899906842624)); [reflexivity | apply (A21_q_lo 2489100355631953 1125899906842624 10 1); [vm_compute; reflexivity | unfold fr, ctol, A21_lo, A21_c, A21_e; interval with (i_prec 80)]]. Qed.
Lemma d_A21_703r : rio_reads A21_c A21_e A21_lo A21_hi floor_volts ctol (Build_rio (Fin (7303775102731699 / 18014398509481984)) (Fin (5 / 1)) (Fin (0 / 1)) (Fin (6 / 1)) (Fin (12 / 1)) true true true ((Fin (0 / 1)) :: (Fin (0 / 1)) :: (Fin (0 / 1)) :: (Fin (0 / 1)) :: (Fin (27 / 4)) :: (Fin (45 / 1)) :: nil)) (80 / 1).
Proof. apply (A21_rio_fin _ (7303775102731699 / 18014398509481984)); [reflexivity | apply (A21_q_hi 7303775102731699 18014398509481984 80 1); [vm_compute; reflexivity | unfold fr, ctol, A21_hi, A21_c, A21_e; interval with (i_prec 80)]]. Qed.
Lemma d_A21_711r : rio_reads A21_c A21_e A21_lo A21_hi floor_volts ctol (Build_rio (Fin (2489100355631953 / 1125899906842624)) (Fin (5 / 1)) (Fin (3715469692580659 / 1125899906842624)) PInf (Fin (12 / 1)) true true true ((Fin (0 / 1)) :: (Fin (0 / 1)) :: (Fin (0 / 1)) :: (Fin (0 / 1)) :: (Fin (27 / 4)) :: (Fin (45 / 1)) :: nil)) (10 / 1).
Proof. apply (A21_rio_fin _ (2489100355631953 / 1125899906842624)); [reflexivity | apply (A21_q_lo 2489100355631953 1125899906842624 10 1); [vm_compute; reflexivity | unfold fr, ctol, A21_lo, A21_c, A21_e; interval with (i_prec 80)]]. Qed.
Lemma d_A21_719r : rio_reads A21_c A21_e A21_lo A21_hi floor_volts ctol (Build_rio (Fin (7303775102731699 / 18014398509481984)) (Fin (5 / 1)) (Fin (3715469692580659 / 1125899906842624)) (Fin (6 / 1)) (Fin (12 / 1)) true true true ((Fin (0 / 1)) :: (Fin (0 / 1)) :: (Fin (2476979795053773 / 1125899906842624)) :: (Fin (0 / 1)) :: (Fin (27 / 4)) :: (Fin (45 / 1)) :: nil)) (80 / 1).
Proof. apply (A21_rio_fin _ (7303775102731699 / 18014398509481984)); [reflexivity | apply (A21_q_hi 7303775102731699 18014398509481984 80 1); [vm_compute; reflexivity | unfold fr, ctol, A21_hi, A21_c, A21_e; interval with (i_prec 80)]]. Qed.
Lemma d_A21_729u : close ctol (6488625067219607 / 4503599627370496) (volts_A21 (4646374270017 / 274877906944)).
Proof. apply (A21_q_volts_mid 4646374270017 274877906944 6488625067219607 4503599627370496); [vm_compute; reflexivity | unfold fr, close, ctol, A21_lo, A21_hi, A21_c, A21_e; interval with (i_prec 80)]. Qed.
Lemma d_A21_742u : close ctol (4024580927028915 / 9007199254740992) (volts_A21 (1249305319436711 / 17592186044416)).
Proof. apply (A21_q_volts_mid 1249305319436711 17592186044416 4024580927028915 9007199254740992); [vm_compute; reflexivity | unfold fr, close, ctol, A21_lo, A21_hi, A21_c, A21_e; interval with (i_prec 80)]. Qed.
Lemma d_A21_755u : close ctol (7451047929897161 / 9007199254740992) (volts_A21 (4696860173165913 / 140737488355328)).
Proof. apply (A21_q_volts_mid 4696860173165913 140737488355328 7451047929897161 9007199254740992); [vm_compute; reflexivity | unfold fr, close, ctol, A21_lo, A21_hi, A21_c, A21_e; interval with (i_prec 80)]. Qed.
Lemma d_A21_768u : close ctol (3718511177472783 / 9007199254740992) (volts_A21 (2753046924661741 / 35184372088832)).
Proof. apply (A21_q_volts_mid 2753046924661741 35184372088832 3718511177472783 9007199254740992); [vm_compute; reflexivity | unfold fr, close, ctol, A21_lo, A21_hi, A21_c, A21_e; interval with (i_prec 80)]. Qed.
Lemma d_A21_780r : rio_reads A21_c A21_e A21_lo A21_hi floor_volts ctol (Build_rio (Fin (5901439357400127 / 9007199254740992)) (Fin (5 / 1)) (Fin (10213 / 1024)) (Fin (2785 / 512)) (Fin (9903 / 1024)) true false true ((Fin (507 / 1024)) :: (Fin (75 / 64)) :: (Fin (705 / 512)) :: (Fin (61615 / 512)) :: (Fin (8347 / 1024)) :: (Fin (2753 / 32)) :: nil)) (1562757797826255 / 35184372088832).
Proof. apply (A21_rio_fin _ (5901439357400127 / 9007199254740992)); [reflexivity | apply (A21_q_mid 5901439357400127 9007199254740992 1562757797826255 35184372088832); [vm_compute; reflexivity | unfold fr, close, ctol, A21_c, A21_e; interval with (i_prec 80)]]. Qed.
Lemma d_A21_793u : close ctol (6539716182712029 / 9007199254740992) (volts_A21 (2755756897201581 / 70368744177664)).
Proof. apply (A21_q_volts_mid 2755756897201581 70368744177664 6539716182712029 9007199254740992); [vm_compute; reflexivity | unfold fr, close, ctol, A21_lo, A21_hi, A21_c, A21_e; interval with (i_prec 80)]. Qed.
Lemma d_A21_806u : close ctol (2489100355631953 / 1125899906842624) (volts_A21 (4909639544171229 / 562949953421312)).
Proof. apply (A21_q_volts_lo 4909639544171229 562949953421312 2489100355631953 1125899906842624); [vm_compute; reflexivity | unfold fr, close, ctol, A21_lo, A21_hi, A21_c, A21_e; interval with (i_prec 80)]. Qed.
Lemma d_A21_819u : close ctol (2489100355631953 / 1125899906842624) (volts_A21 (7676246624467467 / 2305843009213693952)).
Proof. apply (A21_q_volts_lo 7676246624467467 2305843009213693952 2489100355631953 1125899906842624); [vm_compute; reflexivity | unfold fr, close, ctol, A21_lo, A21_hi, A21_c, A21_e; interval with (i_prec 80)]. Qed.
Lemma d_A21_832u : close ctol (5158010911495055 / 9007199254740992) (volts_A21 (3686488376425845 / 70368744177664)).
Proof. apply (A21_q_volts_mid 3686488376425845 70368744177664 5158010911495055 9007199254740992); [vm_compute; reflexivity | unfold fr, close, ctol, A21_lo, A21_hi, A21_c, A21_e; interval with (i_prec 80)]. Qed.
Lemma d_A21_844r : rio_reads A21_c A21_e A21_lo A21_hi floor_volts ctol (Build_rio (Fin (8451482832871667 / 18014398509481984)) (Fin (5549 / 1024)) (Fin (3543 / 1024)) NInf (Fin (11803 / 1024)) true true true ((Fin (2477 / 1024)) :: (Fin (1663 / 1024)) :: (Fin (2601 / 1024)) :: (Fin (188921 / 1024)) :: (Fin (5943 / 1024)) :: (Fin (91341 / 1024)) :: nil)) (4707161922839461 / 70368744177664).
Proof. apply (A21_rio_fin _ (8451482832871667 / 18014398509481984)); [reflexivity | apply (A21_q_mid 8451482832871667 18014398509481984 4707161922839461 70368744177664); [vm_compute; reflexivity | unfold fr, close, ctol, A21_c, A21_e; interval with (i_prec 80)]]. Qed.
Lemma d_A21_857u : close ctol (965414510776453 / 1125899906842624) (volts_A21 (2247339293615661 / 70368744177664)).
Proof. apply (A21_q_volts_mid 2247339293615661 70368744177664 965414510776453 1125899906842624); [vm_compute; reflexivity | unfold fr, close, ctol, A21_lo, A21_hi, A21_c, A21_e; interval with (i_prec 80)]. Qed.
Lemma d_A21_870u : close ctol (1196122194157131 / 2251799813685248) (volts_A21 (2021192823298797 / 35184372088832)).
Proof. apply (A21_q_volts_mid 2021192823298797 35184372088832 1196122194157131 2251799813685248); [vm_compute; reflexivity | unfold fr, close, ctol, A21_lo, A21_hi, A21_c, A21_e; interval with (i_prec 80)]. Qed.
Lemma d_A21_883u : close ctol (804899423008599 / 562949953421312) (volts_A21 (4802703620137735 / 281474976710656)).
Proof. apply (A21_q_volts_mid 4802703620137735 281474976710656 804899423008599 562949953421312); [vm_compute; reflexivity | unfold fr, close, ctol, A21_lo, A21_hi, A21_c, A21_e; interval with (i_prec 80)]. Qed.
Lemma d_A21_896u : close ctol (8330614639180437 / 18014398509481984) (volts_A21 (1197757341203871 / 17592186044416)).
Proof. apply (A21_q_volts_mid 1197757341203871 17592186044416 8330614639180437 18014398509481984); [vm_compute; reflexivity | unfold fr, close, ctol, A21_lo, A21_hi, A21_c, A21_e; interval with (i_prec 80)]. Qed.
Lemma d_A21_908r : rio_reads A21_c A21_e A21_lo A21_hi floor_volts ctol (Build_rio (Fin (5223157335281757 / 4503599627370496)) (Fin ((-1) / 1)) (Fin (3163 / 1024)) (Fin (735 / 1024)) (Fin (15141 / 1024)) true true false ((Fin (551 / 1024)) :: (Fin (1983 / 1024)) :: (Fin (1521 / 1024)) :: (Fin (193551 / 1024)) :: (Fin (4265 / 512)) :: (Fin (34401 / 1024)) :: nil)) (6207651700289697 / 281474976710656).
Proof. apply (A21_rio_fin _ (5223157335281757 / 4503599627370496)); [reflexivity | apply (A21_q_mid 5223157335281757 4503599627370496 6207651700289697 281474976710656); [vm_compute; reflexivity | unfold fr, close, ctol, A21_c, A21_e; interval with (i_prec 80)]]. Qed.
Lemma d_A21_921u : close ctol (7385497484443277 / 4503599627370496) (volts_A21 (253722960562389 / 17592186044416)).
Proof. apply (A21_q_volts_mid 253722960562389 17592186044416 7385497484443277 4503599627370496); [vm_compute; reflexivity | unfold fr, close, ctol, A21_lo, A21_hi, A21_c, A21_e; interval with (i_prec 80)]. Qed.
Lemma d_A21_934u : close ctol (627178011807959 / 1125899906842624) (volts_A21 (3813525380023147 / 70368744177664)).
Proof. apply (A21_q_volts_mid 3813525380023147 70368744177664 627178011807959 1125899906842624); [vm_compute; reflexivity | unfold fr, close, ctol, A21_lo, A21_hi, A21_c, A21_e; interval with (i_prec 80)]. Qed.
Lemma d_A21_947u : close ctol (7303775102731699 / 18014398509481984) (volts_A21 (517104375310947 / 2199023255552)).
Proof. apply (A21_q_volts_hi 517104375310947 2199023255552 7303775102731699 18014398509481984); [vm_compute; reflexivity | unfold fr, close, ctol, A21_lo, A21_hi, A21_c, A21_e; interval with (i_prec 80)]. Qed.
Lemma d_A21_960u : close ctol (8056805246947269 / 4503599627370496) (volts_A21 (7297727695746655 / 562949953421312)).
Proof. apply (A21_q_volts_mid 7297727695746655 562949953421312 8056805246947269 4503599627370496); [vm_compute; reflexivity | unfold fr, close, ctol, A21_lo, A21_hi, A21_c, A21_e; interval with (i_prec 80)]. Qed.
Lemma d_A21_972r : rio_reads A21_c A21_e A21_lo A21_hi floor_volts ctol (Build_rio (Fin (4857937768300019 / 9007199254740992)) (Fin (5902958103587057 / 590295810358705651712)) (Fin (3243 / 1024)) (Fin (10145 / 1024)) (Fin (1403 / 128)) true true true ((Fin (491 / 512)) :: (Fin (141 / 1024)) :: (Fin (109 / 1024)) :: (Fin (34789 / 256)) :: (Fin (3541 / 512)) :: (Fin (39715 / 512)) :: nil)) (3967583069010131 / 70368744177664).
Proof. apply (A21_rio_fin _ (4857937768300019 / 9007199254740992)); [reflexivity | apply (A21_q_mid 4857937768300019 9007199254740992 3967583069010131 70368744177664); [vm_compute; reflexivity | unfold fr, close, ctol, A21_c, A21_e; interval with (i_prec 80)]]. Qed.
Lemma d_A21_985u : close ctol (2489100355631953 / 1125899906842624) (volts_A21 ((-1959091685223537) / 562949953421312)).
Proof. apply (A21_q_volts_lo (-1959091685223537) 562949953421312 2489100355631953 1125899906842624); [vm_compute; reflexivity | unfold fr, close, ctol, A21_lo, A21_hi, A21_c, A21_e; interval with (i_prec 80)]. Qed.
Lemma d_A21_998u : close ctol (7923630338328163 / 18014398509481984) (volts_A21 (2547227986317173 / 35184372088832)).
Proof. apply (A21_q_volts_mid 2547227986317173 35184372088832 7923630338328163 18014398509481984); [vm_compute; reflexivity | unfold fr, close, ctol, A21_lo, A21_hi, A21_c, A21_e; interval with (i_prec 80)]. Qed.
Lemma d_A21_1011u : close ctol (815798834813753 / 562949953421312) (volts_A21 (590519392205019 / 35184372088832)).
Proof. apply (A21_q_volts_mid 590519392205019 35184372088832 815798834813753 562949953421312); [vm_compute; reflexivity | unfold fr, close, ctol, A21_lo, A21_hi, A21_c, A21_e; interval with (i_prec 80)]. Qed.
Lemma d_A21_1024u : close ctol (767684103599371 / 1125899906842624) (volts_A21 (5952836897620715 / 140737488355328)).
Proof. apply (A21_q_volts_mid 5952836897620715 140737488355328 767684103599371 1125899906842624); [vm_compute; reflexivity | unfold fr, close, ctol, A21_lo, A21_hi, A21_c, A21_e; interval with (i_prec 80)]. Qed.
Lemma d_A21_1036r : rio_reads A21_c A21_e A21_lo A21_hi floor_volts ctol (Build_rio (Fin (2489100355631953 / 1125899906842624)) (Fin (5 / 1)) (Fin (29 / 512)) (Fin (5943 / 1024)) (Fin (11155 / 1024)) false true true ((Fin (1341 / 1024)) :: (Fin (1 / 64)) :: (Fin (543 / 1024)) :: (Fin (35289 / 512)) :: (Fin (423 / 64)) :: (Fin (99197 / 1024)) :: nil)) (10 / 1).
Proof. apply (A21_rio_fin _ (2489100355631953 / 1125899906842624)); [reflexivity | apply (A21_q_lo 2489100355631953 1125899906842624 10 1); [vm_compute; reflexivity | unfold fr, ctol, A21_lo, A21_c, A21_e; interval with (i_prec 80)]]. Qed.
Lemma d_A21_1049u : close ctol (7416593033523183 / 18014398509481984) (volts_A21 (5524694093059221 / 70368744177664)).
Proof. apply (A21_q_volts_mid 5524694093059221 70368744177664 7416593033523183 18014398509481984); [vm_compute; reflexivity | unfold fr, close, ctol, A21_lo, A21_hi, A21_c, A21_e; interval with (i_prec 80)]. Qed.
Lemma d_A21_1062u : close ctol (4712640720112141 / 2251799813685248) (volts_A21 (3010429679159253 / 281474976710656)).
Proof. apply (A21_q_volts_mid 3010429679159253 281474976710656 4712640720112141 2251799813685248); [vm_compute; reflexivity | unfold fr, close, ctol, A21_lo, A21_hi, A21_c, A21_e; interval with (i_prec 80)]. Qed.
Lemma d_A21_1075u : close ctol (1199678489154907 / 2251799813685248) (volts_A21 (8055398482733847 / 140737488355328)).
Proof. apply (A21_q_volts_mid 8055398482733847 140737488355328 1199678489154907 2251799813685248); [vm_compute; reflexivity | unfold fr, close, ctol, A21_lo, A21_hi, A21_c, A21_e; interval with (i_prec 80)]. Qed.
Lemma d_A21_1088u : close ctol (7303775102731699 / 18014398509481984) (volts_A21 (453755931552897 / 4398046511104)).
Proof. apply (A21_q_volts_hi 453755931552897 4398046511104 7303775102731699 18014398509481984); [vm_compute; reflexivity | unfold fr, close, ctol, A21_lo, A21_hi, A21_c, A21_e; interval with (i_prec 80)]. Qed.
Lemma d_A21_1100r : rio_reads A21_c A21_e A21_lo A21_hi floor_volts ctol (Build_rio (Fin (1966708241758847 / 4503599627370496)) (Fin (1 / 1)) (Fin (1 / 202402253307310618352495346718917307049556649764142118356901358027430339567995346891960383701437124495187077864316811911389808737385793476867013399940738509921517424276566361364466907742093216341239767678472745068562007483424692698618103355649159556340810056512358769552333414615230502532186327508646006263307707741093494784)) (Fin (6 / 1)) (Fin (100000000000000001097906362944045541740492309677311846336810682903157585404911491537163328978494688899061249669721172515611590283743140088328307009198146046031271664502933027185697489699588559043338384466165001178426897626212945177628091195786707458122783970171784415105291802893207873272974885715430223118336 / 1)) true false false ((Fin (339 / 1024)) :: (Fin (829 / 1024)) :: (Fin (1225 / 1024)) :: (Fin (117967 / 1024)) :: (Fin (5547 / 1024)) :: (Fin (10621 / 256)) :: nil)) (2569793234230839 / 35184372088832).
Proof. apply (A21_rio_fin _ (1966708241758847 / 4503599627370496)); [reflexivity | apply (A21_q_mid 1966708241758847 4503599627370496 2569793234230839 35184372088832); [vm_compute; reflexivity | unfold fr, close, ctol, A21_c, A21_e; interval with (i_prec 80)]]. Qed.
Lemma d_A21_1113u : close ctol (2489100355631953 / 1125899906842624) (volts_A21 (2794433771677021 / 562949953421312)).
Proof. apply (A21_q_volts_lo 2794433771677021 562949953421312 2489100355631953 1125899906842624); [vm_compute; reflexivity | unfold fr, close, ctol, A21_lo, A21_hi, A21_c, A21_e; interval with (i_prec 80)]. Qed.
Lemma d_A21_1126u : close ctol (3110464416486871 / 4503599627370496) (volts_A21 (366234803073845 / 8796093022208)).
Proof. apply (A21_q_volts_mid 366234803073845 8796093022208 3110464416486871 4503599627370496); [vm_compute; reflexivity | unfold fr, close, ctol, A21_lo, A21_hi, A21_c, A21_e; interval with (i_prec 80)]. Qed.
Lemma d_A21_1139u : close ctol (2489100355631953 / 1125899906842624) (volts_A21 (4591551189509913 / 562949953421312)).
Proof. apply (A21_q_volts_lo 4591551189509913 562949953421312 2489100355631953 1125899906842624); [vm_compute; reflexivity | unfold fr, close, ctol, A21_lo, A21_hi, A21_c, A21_e; interval with (i_prec 80)]. Qed.
Lemma d_A21_1152u : close ctol (2489100355631953 / 1125899906842624) (volts_A21 (468217889474795 / 562949953421312)).
Proof. apply (A21_q_volts_lo 468217889474795 562949953421312 2489100355631953 1125899906842624); [vm_compute; reflexivity | unfold fr, close, ctol, A21_lo, A21_hi, A21_c, A21_e; interval with (i_prec 80)]. Qed.
Lemma d_A21_1164r : rio_reads A21_c A21_e A21_lo A21_hi floor_volts ctol (Build_rio (Fin (8867572856266341 / 18014398509481984)) (Fin (5 / 1)) (Fin (0 / 1)) (Fin (3329 / 512)) (Fin (12 / 1)) false true true ((Fin (755 / 1024)) :: (Fin (799 / 1024)) :: (Fin (2775 / 1024)) :: (Fin (56523 / 1024)) :: (Fin (6727 / 1024)) :: (Fin (82127 / 1024)) :: nil)) (8875651541093771 / 140737488355328).
Proof. apply (A21_rio_fin _ (8867572856266341 / 18014398509481984)); [reflexivity | apply (A21_q_mid 8867572856266341 18014398509481984 8875651541093771 140737488355328); [vm_compute; reflexivity | unfold fr, close, ctol, A21_c, A21_e; interval with (i_prec 80)]]. Qed.
Lemma d_A21_1177u : close ctol (4618211139757705 / 4503599627370496) (volts_A21 (1804714388659253 / 70368744177664)).
Proof. apply (A21_q_volts_mid 1804714388659253 70368744177664 4618211139757705 4503599627370496); [vm_compute; reflexivity | unfold fr, close, ctol, A21_lo, A21_hi, A21_c, A21_e; interval with (i_prec 80)]. Qed.
Lemma d_A21_1190u : close ctol (6655848326922331 / 9007199254740992) (volts_A21 (337115514292921 / 8796093022208)).
Proof. apply (A21_q_volts_mid 337115514292921 8796093022208 6655848326922331 9007199254740992); [vm_compute; reflexivity | unfold fr, close, ctol, A21_lo, A21_hi, A21_c, A21_e; interval with (i_prec 80)]. Qed.
Lemma d_A21_1203u : close ctol (5302189482179967 / 4503599627370496) (volts_A21 (761800434560527 / 35184372088832)).
Proof. apply (A21_q_volts_mid 761800434560527 35184372088832 5302189482179967 4503599627370496); [vm_compute; reflexivity | unfold fr, close, ctol, A21_lo, A21_hi, A21_c, A21_e; interval with (i_prec 80)]. Qed.
Lemma d_A21_1216u : close ctol (3697105336904903 / 9007199254740992) (volts_A21 (5545203880860017 / 70368744177664)).
Proof. apply (A21_q_volts_mid 5545203880860017 70368744177664 3697105336904903 9007199254740992); [vm_compute; reflexivity | unfold fr, close, ctol, A21_lo, A21_hi, A21_c, A21_e; interval with (i_prec 80)]. Qed.
Lemma d_A21_1228r : rio_reads A21_c A21_e A21_lo A21_hi floor_volts ctol (Build_rio (Fin (7537124263410389 / 9007199254740992)) (Fin (10387 / 1024)) (Fin (5902958103587057 / 590295810358705651712)) (Fin (3451 / 1024)) PInf true false true ((Fin (823 / 512)) :: (Fin (657 / 512)) :: (Fin (63 / 512)) :: (Fin (46147 / 1024)) :: (Fin (2377 / 512)) :: (Fin (27901 / 512)) :: nil)) (1157795778175191 / 35184372088832).
Proof. apply (A21_rio_fin _ (7537124263410389 / 9007199254740992)); [reflexivity | apply (A21_q_mid 7537124263410389 9007199254740992 1157795778175191 35184372088832); [vm_compute; reflexivity | unfold fr, close, ctol, A21_c, A21_e; interval with (i_prec 80)]]. Qed.
Lemma d_A21_1241u : close ctol (243838313285841 / 562949953421312) (volts_A21 (5191322764573153 / 70368744177664)).
Proof. apply (A21_q_volts_mid 5191322764573153 70368744177664 243838313285841 562949953421312); [vm_compute; reflexivity | unfold fr, close, ctol, A21_lo, A21_hi, A21_c, A21_e; interval with (i_prec 80)]. Qed.
Lemma d_A21_1254u : close ctol (4527925729256699 / 4503599627370496) (volts_A21 (7395725728057707 / 281474976710656)).
Proof. apply (A21_q_volts_mid 7395725728057707 281474976710656 4527925729256699 4503599627370496); [vm_compute; reflexivity | unfold fr, close, ctol, A21_lo, A21_hi, A21_c, A21_e; interval with (i_prec 80)]. Qed.
Lemma d_A21_1267u : close ctol (1527070232243617 / 2251799813685248) (volts_A21 (5992518918239703 / 140737488355328)).
Proof. apply (A21_q_volts_mid 5992518918239703 140737488355328 1527070232243617 2251799813685248); [vm_compute; reflexivity | unfold fr, close, ctol, A21_lo, A21_hi, A21_c, A21_e; interval with (i_prec 80)]. Qed.
Lemma d_A21_1280u : close ctol (3627846757826693 / 2251799813685248) (volts_A21 (2074392667748477 / 140737488355328)).
Proof. apply (A21_q_volts_mid 2074392667748477 140737488355328 3627846757826693 2251799813685248); [vm_compute; reflexivity | unfold fr, close, ctol, A21_lo, A21_hi, A21_c, A21_e; interval with (i_prec 80)]. Qed.
Lemma d_A21_1292r : rio_reads A21_c A21_e A21_lo A21_hi floor_volts ctol (Build_rio (Fin (7303775102731699 / 18014398509481984)) (Fin (4245 / 1024)) (Fin (3351 / 1024)) (Fin (189 / 32)) (Fin (2625 / 1024)) true true false ((Fin (1167 / 512)) :: (Fin (1079 / 1024)) :: (Fin (277 / 512)) :: (Fin (114601 / 1024)) :: (Fin (7031 / 1024)) :: (Fin (9417 / 1024)) :: nil)) (80 / 1).
Proof. apply (A21_rio_fin _ (7303775102731699 / 18014398509481984)); [reflexivity | apply (A21_q_hi 7303775102731699 18014398509481984 80 1); [vm_compute; reflexivity | unfold fr, ctol, A21_hi, A21_c, A21_e; interval with (i_prec 80)]]. Qed.
Lemma d_A21_1305u : close ctol (7303775102731699 / 18014398509481984) (volts_A21 (7080899085613269 / 70368744177664)).
Proof. apply (A21_q_volts_hi 7080899085613269 70368744177664 7303775102731699 18014398509481984); [vm_compute; reflexivity | unfold fr, close, ctol, A21_lo, A21_hi, A21_c, A21_e; interval with (i_prec 80)]. Qed.
Lemma d_A21_1318u : close ctol (4046697677909987 / 2251799813685248) (volts_A21 (7257299078691115 / 562949953421312)).
Proof. apply (A21_q_volts_mid 7257299078691115 562949953421312 4046697677909987 2251799813685248); [vm_compute; reflexivity | unfold fr, close, ctol, A21_lo, A21_hi, A21_c, A21_e; interval with (i_prec 80)]. Qed.
Lemma d_A21_1331u : close ctol (3954645921642069 / 2251799813685248) (volts_A21 (7464945290001091 / 562949953421312)).
Proof. apply (A21_q_volts_mid 7464945290001091 562949953421312 3954645921642069 2251799813685248); [vm_compute; reflexivity | unfold fr, close, ctol, A21_lo, A21_hi, A21_c, A21_e; interval with (i_prec 80)]. Qed.
Lemma r_A41_876 : rio_reads A41_c A41_e A41_lo A41_hi floor_volts ctol (Build_rio (Fin (5 / 1)) NInf (Fin (3715469692580659 / 1125899906842624)) (Fin (6 / 1)) (Fin (12 / 1)) true true true ((Fin (0 / 1)) :: (Fin (0 / 1)) :: (Fin (0 / 1)) :: (Fin (0 / 1)) :: (Fin (27 / 4)) :: (Fin (45 / 1)) :: nil)) (9 / 2).
Proof. apply (A41_rio_fin _ (5 / 1)); [reflexivity | apply (A41_q_lo 5 1 9 2); [vm_compute; reflexivity | unfold fr, ctol, A41_lo, A41_c, A41_e; interval with (i_prec 80)]]. Qed.
Lemma r_A41_894 : rio_reads A41_c A41_e A41_lo A41_hi floor_volts ctol (Build_rio (Fin (1636741441258383 / 562949953421312)) (Fin (5 / 1)) (Fin (3715469692580659 / 1125899906842624)) (Fin (13 / 2)) (Fin (12 / 1)) true true true ((Fin (0 / 1)) :: (Fin (0 / 1)) :: (Fin (0 / 1)) :: (Fin (0 / 1)) :: (Fin (27 / 4)) :: (Fin (45 / 1)) :: nil)) (9 / 2).
Proof. apply (A41_rio_fin _ (1636741441258383 / 562949953421312)); [reflexivity | apply (A41_q_lo 1636741441258383 562949953421312 9 2); [vm_compute; reflexivity | unfold fr, ctol, A41_lo, A41_c, A41_e; interval with (i_prec 80)]]. Qed.
Lemma r_A41_910 : rio_reads A41_c A41_e A41_lo A41_hi floor_volts ctol (Build_rio (Fin (5955 / 2048)) (Fin (5 / 1)) (Fin (3715469692580659 / 1125899906842624)) (Fin (6 / 1)) (Fin (12 / 1)) true true true ((Fin (0 / 1)) :: (Fin (0 / 1)) :: (Fin (0 / 1)) :: (Fin (0 / 1)) :: (Fin (0 / 1)) :: (Fin (45 / 1)) :: nil)) (9 / 2).
Proof. apply (A41_rio_fin _ (5955 / 2048)); [reflexivity | apply (A41_q_lo 5955 2048 9 2); [vm_compute; reflexivity | unfold fr, ctol, A41_lo, A41_c, A41_e; interval with (i_prec 80)]]. Qed.
Lemma r_A41_926 : rio_reads A41_c A41_e A41_lo A41_hi floor_volts ctol (Build_rio (Fin (15 / 64)) (Fin (5451 / 1024)) (Fin (10127 / 1024)) (Fin (6 / 1)) (Fin (11247 / 1024)) true true true ((Fin (1895 / 1024)) :: (Fin (1419 / 1024)) :: (Fin (25 / 1024)) :: (Fin (57 / 64)) :: (Fin (1099 / 128)) :: (Fin (29397 / 1024)) :: nil)) (35 / 1).
Proof. apply (A41_rio_fin _ (15 / 64)); [reflexivity | apply (A41_q_hi 15 64 35 1); [vm_compute; reflexivity | unfold fr, ctol, A41_hi, A41_c, A41_e; interval with (i_prec 80)]]. Qed.
Lemma r_A41_942 : rio_reads A41_c A41_e A41_lo A41_hi floor_volts ctol (Build_rio (Fin (35 / 64)) (Fin (5 / 1)) NInf (Fin (6 / 1)) (Fin (10333 / 1024)) true true true ((Fin (1903 / 1024)) :: (Fin (221 / 512)) :: (Fin (1997 / 1024)) :: (Fin (173737 / 1024)) :: (Fin (9145 / 1024)) :: (Fin (44489 / 1024)) :: nil)) (6538883130378253 / 281474976710656).
Proof. apply (A41_rio_fin _ (35 / 64)); [reflexivity | apply (A41_q_mid 35 64 6538883130378253 281474976710656); [vm_compute; reflexivity | unfold fr, close, ctol, A41_c, A41_e; interval with (i_prec 80)]]. Qed.
Lemma r_A41_958 : rio_reads A41_c A41_e A41_lo A41_hi floor_volts ctol (Build_rio (Fin (55 / 64)) (Fin (5 / 1)) NInf (Fin ((-1) / 1)) (Fin (5455 / 512)) true true true ((Fin (597 / 1024)) :: (Fin (223 / 512)) :: (Fin (89 / 128)) :: (Fin (47871 / 1024)) :: (Fin (8665 / 1024)) :: (Fin (24017 / 256)) :: nil)) (8388681617019989 / 562949953421312).
Proof. apply (A41_rio_fin _ (55 / 64)); [reflexivity | apply (A41_q_mid 55 64 8388681617019989 562949953421312); [vm_compute; reflexivity | unfold fr, close, ctol, A41_c, A41_e; interval with (i_prec 80)]]. Qed.
Lemma r_A41_974 : rio_reads A41_c A41_e A41_lo A41_hi floor_volts ctol (Build_rio (Fin (75 / 64)) (Fin (5499 / 1024)) (Fin (3135 / 1024)) (Fin (5545 / 1024)) (Fin (5899 / 512)) true true true ((Fin (1 / 1)) :: (Fin (1493 / 1024)) :: (Fin (1031 / 1024)) :: (Fin (115569 / 1024)) :: (Fin (6719 / 1024)) :: (Fin (92275 / 1024)) :: nil)) (3092686060597469 / 281474976710656).
Proof. apply (A41_rio_fin _ (75 / 64)); [reflexivity | apply (A41_q_mid 75 64 3092686060597469 281474976710656); [vm_compute; reflexivity | unfold fr, close, ctol, A41_c, A41_e; interval with (i_prec 80)]]. Qed.
Lemma r_A41_990 : rio_reads A41_c A41_e A41_lo A41_hi floor_volts ctol (Build_rio (Fin (95 / 64)) (Fin (5363 / 1024)) (Fin (3715469692580659 / 1125899906842624)) NInf (Fin (11585 / 1024)) false true true ((Fin (211 / 128)) :: (Fin (185 / 1024)) :: (Fin (89 / 1024)) :: (Fin (31497 / 1024)) :: (Fin (4589 / 1024)) :: (Fin (35271 / 1024)) :: nil)) (4903547062657549 / 562949953421312).
Proof. apply (A41_rio_fin _ (95 / 64)); [reflexivity | apply (A41_q_mid 95 64 4903547062657549 562949953421312); [vm_compute; reflexivity | unfold fr, close, ctol, A41_c, A41_e; interval with (i_prec 80)]]. Qed.
Lemma r_A41_1006 : rio_reads A41_c A41_e A41_lo A41_hi floor_volts ctol (Build_rio (Fin (115 / 64)) (Fin (0 / 1)) (Fin (431 / 1024)) (Fin (379 / 512)) (Fin (10117 / 1024)) true true false ((Fin (129 / 128)) :: (Fin (691 / 1024)) :: (Fin (155 / 64)) :: (Fin (156965 / 1024)) :: (Fin (3621 / 1024)) :: (Fin (24655 / 256)) :: nil)) (2032200077929477 / 281474976710656).
Proof. apply (A41_rio_fin _ (115 / 64)); [reflexivity | apply (A41_q_mid 115 64 2032200077929477 281474976710656); [vm_compute; reflexivity | unfold fr, close, ctol, A41_c, A41_e; interval with (i_prec 80)]]. Qed.
Lemma r_A41_1022 : rio_reads A41_c A41_e A41_lo A41_hi floor_volts ctol (Build_rio (Fin (135 / 64)) (Fin (5 / 1)) (Fin (3239 / 1024)) (Fin (6 / 1)) (Fin (12 / 1)) true false true ((Fin (1527 / 1024)) :: (Fin (1407 / 1024)) :: (Fin (1067 / 512)) :: (Fin (21413 / 1024)) :: (Fin (8615 / 1024)) :: (Fin (141 / 2)) :: nil)) (6944102443816767 / 1125899906842624).
Proof. apply (A41_rio_fin _ (135 / 64)); [reflexivity | apply (A41_q_mid 135 64 6944102443816767 1125899906842624); [vm_compute; reflexivity | unfold fr, close, ctol, A41_c, A41_e; interval with (i_prec 80)]]. Qed.
Lemma r_A41_1038 : rio_reads A41_c A41_e A41_lo A41_hi floor_volts ctol (Build_rio (Fin (155 / 64)) (Fin (5 / 1)) (Fin (825 / 256)) (Fin (5245 / 1024)) (Fin (3091 / 256)) true true true ((Fin (21 / 8)) :: (Fin (327 / 512)) :: (Fin (1419 / 1024)) :: (Fin (96409 / 512)) :: (Fin (2949 / 512)) :: (Fin ((-15081) / 1024)) :: nil)) (3031406359896313 / 562949953421312).
Proof. apply (A41_rio_fin _ (155 / 64)); [reflexivity | apply (A41_q_mid 155 64 3031406359896313 562949953421312); [vm_compute; reflexivity | unfold fr, close, ctol, A41_c, A41_e; interval with (i_prec 80)]]. Qed.
Lemma r_A41_1054 : rio_reads A41_c A41_e A41_lo A41_hi floor_volts ctol (Build_rio (Fin (175 / 64)) (Fin (5 / 1)) (Fin ((-12) / 1)) (Fin (5902958103587057 / 590295810358705651712)) (Fin (12531 / 1024)) true true true ((Fin (2989 / 1024)) :: (Fin (519 / 512)) :: (Fin (2073 / 1024)) :: (Fin (90909 / 1024)) :: (Fin (3835 / 512)) :: (Fin (63091 / 1024)) :: nil)) (1345350495477161 / 281474976710656).
Proof. apply (A41_rio_fin _ (175 / 64)); [reflexivity | apply (A41_q_mid 175 64 1345350495477161 281474976710656); [vm_compute; reflexivity | unfold fr, close, ctol, A41_c, A41_e; interval with (i_prec 80)]]. Qed.
Lemma r_A41_1070 : rio_reads A41_c A41_e A41_lo A41_hi floor_volts ctol (Build_rio (Fin (785 / 256)) (Fin (2799 / 512)) (Fin (0 / 1)) (Fin (5043 / 1024)) (Fin (1491 / 128)) true true false ((Fin (437 / 256)) :: (Fin (317 / 512)) :: (Fin (899 / 1024)) :: (Fin (20903 / 1024)) :: (Fin (3339 / 512)) :: (Fin (16779 / 512)) :: nil)) (9 / 2).
Proof. apply (A41_rio_fin _ (785 / 256)); [reflexivity | apply (A41_q_lo 785 256 9 2); [vm_compute; reflexivity | unfold fr, ctol, A41_lo, A41_c, A41_e; interval with (i_prec 80)]]. Qed.
Lemma r_A41_1086 : rio_reads A41_c A41_e A41_lo A41_hi floor_volts ctol (Build_rio (Fin (865 / 256)) (Fin (4633 / 1024)) (Fin (1845 / 512)) (Fin (5215 / 1024)) (Fin ((-1) / 1)) true false false ((Fin (335 / 256)) :: (Fin (67 / 1024)) :: (Fin (557 / 256)) :: (Fin (39 / 1)) :: (Fin (7467 / 1024)) :: (Fin ((-7283) / 512)) :: nil)) (9 / 2).
Proof. apply (A41_rio_fin _ (865 / 256)); [reflexivity | apply (A41_q_lo 865 256 9 2); [vm_compute; reflexivity | unfold fr, ctol, A41_lo, A41_c, A41_e; interval with (i_prec 80)]]. Qed.
Lemma r_A41_1102 : rio_reads A41_c A41_e A41_lo A41_hi floor_volts ctol (Build_rio (Fin (945 / 256)) (Fin (4937 / 1024)) (Fin (3327 / 1024)) (Fin (5167 / 1024)) (Fin (12303 / 1024)) true true true ((Fin (1621 / 1024)) :: (Fin (177 / 512)) :: (Fin (1137 / 1024)) :: (Fin (77521 / 1024)) :: (Fin (2365 / 512)) :: (Fin (609 / 32)) :: nil)) (9 / 2).
Proof. apply (A41_rio_fin _ (945 / 256)); [reflexivity | apply (A41_q_lo 945 256 9 2); [vm_compute; reflexivity | unfold fr, ctol, A41_lo, A41_c, A41_e; interval with (i_prec 80)]]. Qed.
Lemma r_A41_1118 : rio_reads A41_c A41_e A41_lo A41_hi floor_volts ctol (Build_rio (Fin (1025 / 256)) (Fin (4589 / 1024)) (Fin (383 / 128)) (Fin (3081 / 512)) (Fin (12879 / 1024)) false false false ((Fin (383 / 128)) :: (Fin (833 / 512)) :: (Fin (2235 / 1024)) :: (Fin (127401 / 1024)) :: (Fin (4593 / 512)) :: (Fin (59393 / 1024)) :: nil)) (9 / 2).
Proof. apply (A41_rio_fin _ (1025 / 256)); [reflexivity | apply (A41_q_lo 1025 256 9 2); [vm_compute; reflexivity | unfold fr, ctol, A41_lo, A41_c, A41_e; interval with (i_prec 80)]]. Qed.
Lemma r_A41_1134 : rio_reads A41_c A41_e A41_lo A41_hi floor_volts ctol (Build_rio (Fin (1105 / 256)) (Fin ((-12) / 1)) (Fin (1367 / 256)) (Fin (2995 / 512)) (Fin (12 / 1)) true true true ((Fin (2411 / 1024)) :: (Fin (805 / 1024)) :: (Fin (725 / 256)) :: (Fin (85451 / 512)) :: (Fin (4621 / 1024)) :: (Fin (31339 / 1024)) :: nil)) (9 / 2).
Proof. apply (A41_rio_fin _ (1105 / 256)); [reflexivity | apply (A41_q_lo 1105 256 9 2); [vm_compute; reflexivity | unfold fr, ctol, A41_lo, A41_c, A41_e; interval with (i_prec 80)]]. Qed.
Lemma r_A41_1150 : rio_reads A41_c A41_e A41_lo A41_hi floor_volts ctol (Build_rio (Fin (1185 / 256)) (Fin (2769 / 512)) (Fin (3715469692580659 / 1125899906842624)) (Fin (5391 / 1024)) (Fin (12 / 1)) true false false ((Fin (469 / 1024)) :: (Fin (1085 / 1024)) :: (Fin (1067 / 1024)) :: (Fin (94021 / 512)) :: (Fin (2151 / 512)) :: (Fin ((-3631) / 512)) :: nil)) (9 / 2).
Proof. apply (A41_rio_fin _ (1185 / 256)); [reflexivity | apply (A41_q_lo 1185 256 9 2); [vm_compute; reflexivity | unfold fr, ctol, A41_lo, A41_c, A41_e; interval with (i_prec 80)]]. Qed.
Lemma r_A41_1166 : rio_reads A41_c A41_e A41_lo A41_hi floor_volts ctol (Build_rio (Fin (1265 / 256)) (Fin (1225 / 256)) (Fin (3157 / 1024)) (Fin (5199 / 1024)) (Fin (5902958103587057 / 590295810358705651712)) true false true ((Fin (1943 / 1024)) :: (Fin (1373 / 1024)) :: (Fin (49 / 256)) :: (Fin (155359 / 1024)) :: (Fin (1095 / 256)) :: (Fin (36785 / 1024)) :: nil)) (9 / 2).
Proof. apply (A41_rio_fin _ (1265 / 256)); [reflexivity | apply (A41_q_lo 1265 256 9 2); [vm_compute; reflexivity | unfold fr, ctol, A41_lo, A41_c, A41_e; interval with (i_prec 80)]]. Qed.
Lemma r_A41_1182 : rio_reads A41_c A41_e A41_lo A41_hi floor_volts ctol (Build_rio (Fin (30079683035555 / 35184372088832)) (Fin (261 / 64)) (Fin (2829 / 1024)) (Fin (603 / 128)) (Fin (12949 / 1024)) true true true ((Fin (957 / 1024)) :: (Fin (115 / 64)) :: (Fin (373 / 1024)) :: (Fin (23531 / 128)) :: (Fin (2157 / 512)) :: (Fin (1101 / 32)) :: nil)) (2107915619662929 / 140737488355328).
Proof. apply (A41_rio_fin _ (30079683035555 / 35184372088832)); [reflexivity | apply (A41_q_mid 30079683035555 35184372088832 2107915619662929 140737488355328); [vm_compute; reflexivity | unfold fr, close, ctol, A41_c, A41_e; interval with (i_prec 80)]]. Qed.
Lemma r_A41_1198 : rio_reads A41_c A41_e A41_lo A41_hi floor_volts ctol (Build_rio (Fin (5248197277026705 / 1125899906842624)) (Fin (5329 / 1024)) (Fin (2715 / 1024)) (Fin (5875 / 1024)) (Fin (12 / 1)) false true true ((Fin (109 / 128)) :: (Fin (1099 / 1024)) :: (Fin (27 / 512)) :: (Fin (32901 / 256)) :: (Fin (4437 / 512)) :: (Fin (73931 / 1024)) :: nil)) (9 / 2).
Proof. apply (A41_rio_fin _ (5248197277026705 / 1125899906842624)); [reflexivity | apply (A41_q_lo 5248197277026705 1125899906842624 9 2); [vm_compute; reflexivity | unfold fr, ctol, A41_lo, A41_c, A41_e; interval with (i_prec 80)]]. Qed.
Lemma r_A41_1214 : rio_reads A41_c A41_e A41_lo A41_hi floor_volts ctol (Build_rio (Fin (2612699106781325 / 4503599627370496)) (Fin (1055 / 256)) (Fin (3715469692580659 / 1125899906842624)) (Fin ((-12) / 1)) (Fin ((-12) / 1)) true true true ((Fin (675 / 256)) :: (Fin (3 / 16)) :: (Fin (267 / 1024)) :: (Fin (76135 / 1024)) :: (Fin (2519 / 512)) :: (Fin (97553 / 1024)) :: nil)) (6170399947888199 / 281474976710656).
Proof. apply (A41_rio_fin _ (2612699106781325 / 4503599627370496)); [reflexivity | apply (A41_q_mid 2612699106781325 4503599627370496 6170399947888199 281474976710656); [vm_compute; reflexivity | unfold fr, close, ctol, A41_c, A41_e; interval with (i_prec 80)]]. Qed.
Lemma r_A41_1230 : rio_reads A41_c A41_e A41_lo A41_hi floor_volts ctol (Build_rio (Fin (7271034265222545 / 8796093022208)) (Fin (1337 / 256)) (Fin (3259 / 1024)) (Fin (1499 / 256)) (Fin (12 / 1)) true true true ((Fin (205 / 128)) :: (Fin (209 / 1024)) :: (Fin (1231 / 1024)) :: (Fin (184795 / 1024)) :: (Fin (5659 / 1024)) :: (Fin ((-4971) / 512)) :: nil)) (9 / 2).
Proof. apply (A41_rio_fin _ (7271034265222545 / 8796093022208)); [reflexivity | apply (A41_q_lo 7271034265222545 8796093022208 9 2); [vm_compute; reflexivity | unfold fr, ctol, A41_lo, A41_c, A41_e; interval with (i_prec 80)]]. Qed.
Lemma r_A41_1252 : rio_reads A41_c A41_e A41_lo A41_hi floor_volts ctol (Build_rio (Fin (6153724609471445 / 4611686018427387904)) (Fin (5 / 1)) (Fin (1819 / 512)) (Fin (1197 / 256)) (Fin (13229 / 1024)) false true true ((Fin (2545 / 1024)) :: (Fin (1083 / 1024)) :: (Fin (993 / 512)) :: (Fin (24225 / 256)) :: (Fin (5997 / 1024)) :: (Fin (31879 / 512)) :: nil)) (35 / 1).
Proof. apply (A41_rio_fin _ (6153724609471445 / 4611686018427387904)); [reflexivity | apply (A41_q_hi 6153724609471445 4611686018427387904 35 1); [vm_compute; reflexivity | unfold fr, ctol, A41_hi, A41_c, A41_e; interval with (i_prec 80)]]. Qed.
Lemma d_A41_1335u : close ctol (2904288656509173 / 2251799813685248) (volts_A41 (10 / 1)).
Proof. apply (A41_q_volts_mid 10 1 2904288656509173 2251799813685248); [vm_compute; reflexivity | unfold fr, close, ctol, A41_lo, A41_hi, A41_c, A41_e; interval with (i_prec 80)]. Qed.
Lemma d_A41_1343u : close ctol (4571203366206447 / 9007199254740992) (volts_A41 (25 / 1)).
Proof. apply (A41_q_volts_mid 25 1 4571203366206447 9007199254740992); [vm_compute; reflexivity | unfold fr, close, ctol, A41_lo, A41_hi, A41_c, A41_e; interval with (i_prec 80)]. Qed.
Lemma d_A41_1351u : close ctol (1636741441258383 / 562949953421312) (volts_A41 (0 / 1)).
Proof. apply (A41_q_volts_lo 0 1 1636741441258383 562949953421312); [vm_compute; reflexivity | unfold fr, close, ctol, A41_lo, A41_hi, A41_c, A41_e; interval with (i_prec 80)]. Qed.
Lemma d_A41_1359u : close ctol (1636741441258383 / 562949953421312) (volts_A41 (1 / 1)).
Proof. apply (A41_q_volts_lo 1 1 1636741441258383 562949953421312); [vm_compute; reflexivity | unfold fr, close, ctol, A41_lo, A41_hi, A41_c, A41_e; interval with (i_prec 80)]. Qed.
Lemma d_A41_1367u : close ctol (6491044311201869 / 18014398509481984) (volts_A41 (100 / 1)).
Proof. apply (A41_q_volts_hi 100 1 6491044311201869 18014398509481984); [vm_compute; reflexivity | unfold fr, close, ctol, A41_lo, A41_hi, A41_c, A41_e; interval with (i_prec 80)]. Qed.
Lemma d_A41_1375u : close ctol (1636741441258383 / 562949953421312) (volts_A41 (9 / 2)).
Proof. apply (A41_q_volts_lo 9 2 1636741441258383 562949953421312); [vm_compute; reflexivity | unfold fr, close, ctol, A41_lo, A41_hi, A41_c, A41_e; interval with (i_prec 80)]. Qed.
Lemma d_A41_1383u : close ctol (3245522158904601 / 9007199254740992) (volts_A41 (1231453021877667 / 35184372088832)).
Proof. apply (A41_q_volts_mid 1231453021877667 35184372088832 3245522158904601 9007199254740992); [vm_compute; reflexivity | unfold fr, close, ctol, A41_lo, A41_hi, A41_c, A41_e; interval with (i_prec 80)]. Qed.
Lemma d_A41_1392u : close ctol (2747948450082509 / 4503599627370496) (volts_A41 (5871916994782295 / 281474976710656)).
Proof. apply (A41_q_volts_mid 5871916994782295 281474976710656 2747948450082509 4503599627370496); [vm_compute; reflexivity | unfold fr, close, ctol, A41_lo, A41_hi, A41_c, A41_e; interval with (i_prec 80)]. Qed.
Lemma d_A41_1404r : rio_reads A41_c A41_e A41_lo A41_hi floor_volts ctol (Build_rio (Fin (2413911274103497 / 4503599627370496)) (Fin (14331 / 1024)) (Fin (3505 / 1024)) (Fin ((-12) / 1)) (Fin (12875 / 1024)) true true false ((Fin (2053 / 1024)) :: (Fin (1283 / 1024)) :: (Fin (319 / 1024)) :: (Fin (13199 / 512)) :: (Fin (2417 / 512)) :: (Fin (21561 / 1024)) :: nil)) (3334621410261577 / 140737488355328).
Proof. apply (A41_rio_fin _ (2413911274103497 / 4503599627370496)); [reflexivity | apply (A41_q_mid 2413911274103497 4503599627370496 3334621410261577 140737488355328); [vm_compute; reflexivity | unfold fr, close, ctol, A41_c, A41_e; interval with (i_prec 80)]]. Qed.
Lemma d_A41_1417u : close ctol (2280547862672219 / 2251799813685248) (volts_A41 (7138753143724297 / 562949953421312)).
Proof. apply (A41_q_volts_mid 7138753143724297 562949953421312 2280547862672219 2251799813685248); [vm_compute; reflexivity | unfold fr, close, ctol, A41_lo, A41_hi, A41_c, A41_e; interval with (i_prec 80)]. Qed.
Lemma d_A41_1430u : close ctol (3679098338328543 / 4503599627370496) (volts_A41 (4408365454660809 / 281474976710656)).
Proof. apply (A41_q_volts_mid 4408365454660809 281474976710656 3679098338328543 4503599627370496); [vm_compute; reflexivity | unfold fr, close, ctol, A41_lo, A41_hi, A41_c, A41_e; interval with (i_prec 80)]. Qed.
Lemma d_A41_1443u : close ctol (6107375665204893 / 4503599627370496) (volts_A41 (2679404888254723 / 281474976710656)).
Proof. apply (A41_q_volts_mid 2679404888254723 281474976710656 6107375665204893 4503599627370496); [vm_compute; reflexivity | unfold fr, close, ctol, A41_lo, A41_hi, A41_c, A41_e; interval with (i_prec 80)]. Qed.
Lemma d_A41_1456u : close ctol (1042575538735917 / 1125899906842624) (volts_A41 (7795417140698615 / 562949953421312)).
Proof. apply (A41_q_volts_mid 7795417140698615 562949953421312 1042575538735917 1125899906842624); [vm_compute; reflexivity | unfold fr, close, ctol, A41_lo, A41_hi, A41_c, A41_e; interval with (i_prec 80)]. Qed.
Lemma d_A41_1468r : rio_reads A41_c A41_e A41_lo A41_hi floor_volts ctol (Build_rio (Fin (1636741441258383 / 562949953421312)) (Fin (85 / 16)) (Fin (0 / 1)) (Fin (1 / 1)) (Fin (5143 / 512)) true true true ((Fin (427 / 512)) :: (Fin (1009 / 512)) :: (Fin (49 / 512)) :: (Fin (188379 / 1024)) :: (Fin (7791 / 1024)) :: (Fin (48035 / 512)) :: nil)) (9 / 2).
Proof. apply (A41_rio_fin _ (1636741441258383 / 562949953421312)); [reflexivity | apply (A41_q_lo 1636741441258383 562949953421312 9 2); [vm_compute; reflexivity | unfold fr, ctol, A41_lo, A41_c, A41_e; interval with (i_prec 80)]]. Qed.
Lemma d_A41_1481u : close ctol (7618598761630891 / 18014398509481984) (volts_A41 (4208638056154537 / 140737488355328)).
Proof. apply (A41_q_volts_mid 4208638056154537 140737488355328 7618598761630891 18014398509481984); [vm_compute; reflexivity | unfold fr, close, ctol, A41_lo, A41_hi, A41_c, A41_e; interval with (i_prec 80)]. Qed.
Lemma d_A41_1494u : close ctol (3278596868660699 / 9007199254740992) (volts_A41 (4876990387108745 / 140737488355328)).
Proof. apply (A41_q_volts_mid 4876990387108745 140737488355328 3278596868660699 9007199254740992); [vm_compute; reflexivity | unfold fr, close, ctol, A41_lo, A41_hi, A41_c, A41_e; interval with (i_prec 80)]. Qed.
Lemma d_A41_1507u : close ctol (6491044311201869 / 18014398509481984) (volts_A41 (4062839306111591 / 70368744177664)).
Proof. apply (A41_q_volts_hi 4062839306111591 70368744177664 6491044311201869 18014398509481984); [vm_compute; reflexivity | unfold fr, close, ctol, A41_lo, A41_hi, A41_c, A41_e; interval with (i_prec 80)]. Qed.
Lemma d_A41_1520u : close ctol (1636741441258383 / 562949953421312) (volts_A41 (6313433767125435 / 18014398509481984)).
Proof. apply (A41_q_volts_lo 6313433767125435 18014398509481984 1636741441258383 562949953421312); [vm_compute; reflexivity | unfold fr, close, ctol, A41_lo, A41_hi, A41_c, A41_e; interval with (i_prec 80)]. Qed.
Lemma d_A41_1532r : rio_reads A41_c A41_e A41_lo A41_hi floor_volts ctol (Build_rio (Fin (791339374514847 / 562949953421312)) (Fin (5 / 1)) (Fin (3715469692580659 / 1125899906842624)) (Fin (6 / 1)) (Fin (12 / 1)) true true true ((Fin (0 / 1)) :: (Fin (0 / 1)) :: (Fin (0 / 1)) :: (Fin (0 / 1)) :: (Fin (27 / 4)) :: (Fin (45 / 1)) :: nil)) (2586513469368067 / 281474976710656).
Proof. apply (A41_rio_fin _ (791339374514847 / 562949953421312)); [reflexivity | apply (A41_q_mid 791339374514847 562949953421312 2586513469368067 281474976710656); [vm_compute; reflexivity | unfold fr, close, ctol, A41_c, A41_e; interval with (i_prec 80)]]. Qed.
Lemma d_A41_1545u : close ctol (6491044311201869 / 18014398509481984) (volts_A41 (7189992083037363 / 70368744177664)).
Proof. apply (A41_q_volts_hi 7189992083037363 70368744177664 6491044311201869 18014398509481984); [vm_compute; reflexivity | unfold fr, close, ctol, A41_lo, A41_hi, A41_c, A41_e; interval with (i_prec 80)]. Qed.
Lemma d_A41_1558u : close ctol (5903205285049111 / 9007199254740992) (volts_A41 (1368412633864389 / 70368744177664)).
Proof. apply (A41_q_volts_mid 1368412633864389 70368744177664 5903205285049111 9007199254740992); [vm_compute; reflexivity | unfold fr, close, ctol, A41_lo, A41_hi, A41_c, A41_e; interval with (i_prec 80)]. Qed.
Lemma d_A41_1571u : close ctol (1636741441258383 / 562949953421312) (volts_A41 (47815505580843 / 35184372088832)).
Proof. apply (A41_q_volts_lo 47815505580843 35184372088832 1636741441258383 562949953421312); [vm_compute; reflexivity | unfold fr, close, ctol, A41_lo, A41_hi, A41_c, A41_e; interval with (i_prec 80)]. Qed.
Lemma d_A41_1584u : close ctol (1729688940217855 / 1125899906842624) (volts_A41 (4740764987714675 / 562949953421312)).
Proof. apply (A41_q_volts_mid 4740764987714675 562949953421312 1729688940217855 1125899906842624); [vm_compute; reflexivity | unfold fr, close, ctol, A41_lo, A41_hi, A41_c, A41_e; interval with (i_prec 80)]. Qed.
Lemma d_A41_1596r : rio_reads A41_c A41_e A41_lo A41_hi floor_volts ctol (Build_rio (Fin (3117844685805321 / 2251799813685248)) (Fin (5009 / 1024)) (Fin (2761 / 1024)) (Fin (6083 / 1024)) (Fin (12287 / 1024)) true true true ((Fin (2441 / 1024)) :: (Fin (729 / 512)) :: (Fin (887 / 1024)) :: (Fin (22077 / 1024)) :: (Fin (6811 / 1024)) :: (Fin (28271 / 1024)) :: nil)) (1312615221932385 / 140737488355328).
Proof. apply (A41_rio_fin _ (3117844685805321 / 2251799813685248)); [reflexivity | apply (A41_q_mid 3117844685805321 2251799813685248 1312615221932385 140737488355328); [vm_compute; reflexivity | unfold fr, close, ctol, A41_c, A41_e; interval with (i_prec 80)]]. Qed.
Lemma d_A41_1609u : close ctol (1636741441258383 / 562949953421312) (volts_A41 (1283825509186917 / 2251799813685248)).
Proof. apply (A41_q_volts_lo 1283825509186917 2251799813685248 1636741441258383 562949953421312); [vm_compute; reflexivity | unfold fr, close, ctol, A41_lo, A41_hi, A41_c, A41_e; interval with (i_prec 80)]. Qed.
Lemma d_A41_1622u : close ctol (6645530240406857 / 9007199254740992) (volts_A41 (4872374805969445 / 281474976710656)).
Proof. apply (A41_q_volts_mid 4872374805969445 281474976710656 6645530240406857 9007199254740992); [vm_compute; reflexivity | unfold fr, close, ctol, A41_lo, A41_hi, A41_c, A41_e; interval with (i_prec 80)]. Qed.
Lemma d_A41_1635u : close ctol (2074062809907867 / 4503599627370496) (volts_A41 (7741339238691227 / 281474976710656)).
Proof. apply (A41_q_volts_mid 7741339238691227 281474976710656 2074062809907867 4503599627370496); [vm_compute; reflexivity | unfold fr, close, ctol, A41_lo, A41_hi, A41_c, A41_e; interval with (i_prec 80)]. Qed.
Lemma d_A41_1648u : close ctol (5788251143171317 / 4503599627370496) (volts_A41 (2824459849716789 / 281474976710656)).
Proof. apply (A41_q_volts_mid 2824459849716789 281474976710656 5788251143171317 4503599627370496); [vm_compute; reflexivity | unfold fr, close, ctol, A41_lo, A41_hi, A41_c, A41_e; interval with (i_prec 80)]. Qed.
Lemma d_A41_1660r : rio_reads A41_c A41_e A41_lo A41_hi floor_volts ctol (Build_rio (Fin (1636741441258383 / 562949953421312)) (Fin (5239 / 1024)) (Fin (3321 / 1024)) (Fin (6275 / 1024)) (Fin (1 / 202402253307310618352495346718917307049556649764142118356901358027430339567995346891960383701437124495187077864316811911389808737385793476867013399940738509921517424276566361364466907742093216341239767678472745068562007483424692698618103355649159556340810056512358769552333414615230502532186327508646006263307707741093494784)) false true true ((Fin (573 / 1024)) :: (Fin (125 / 128)) :: (Fin (425 / 256)) :: (Fin (164467 / 1024)) :: (Fin (6735 / 1024)) :: (Fin (46617 / 512)) :: nil)) (9 / 2).
Proof. apply (A41_rio_fin _ (1636741441258383 / 562949953421312)); [reflexivity | apply (A41_q_lo 1636741441258383 562949953421312 9 2); [vm_compute; reflexivity | unfold fr, ctol, A41_lo, A41_c, A41_e; interval with (i_prec 80)]]. Qed.
Lemma d_A41_1673u : close ctol (1636741441258383 / 562949953421312) (volts_A41 (267226042330407 / 70368744177664)).
Proof. apply (A41_q_volts_lo 267226042330407 70368744177664 1636741441258383 562949953421312); [vm_compute; reflexivity | unfold fr, close, ctol, A41_lo, A41_hi, A41_c, A41_e; interval with (i_prec 80)]. Qed.
Lemma d_A41_1686u : close ctol (1636741441258383 / 562949953421312) (volts_A41 (6593261555833195 / 1152921504606846976)).
Proof. apply (A41_q_volts_lo 6593261555833195 1152921504606846976 1636741441258383 562949953421312); [vm_compute; reflexivity | unfold fr, close, ctol, A41_lo, A41_hi, A41_c, A41_e; interval with (i_prec 80)]. Qed.
Lemma d_A41_1699u : close ctol (3566154998240295 / 9007199254740992) (volts_A41 (8980743948860953 / 281474976710656)).
Proof. apply (A41_q_volts_mid 8980743948860953 281474976710656 3566154998240295 9007199254740992); [vm_compute; reflexivity | unfold fr, close, ctol, A41_lo, A41_hi, A41_c, A41_e; interval with (i_prec 80)]. Qed.
Lemma d_A41_1712u : close ctol (4741369464398371 / 9007199254740992) (volts_A41 (3394344506493731 / 140737488355328)).
Proof. apply (A41_q_volts_mid 3394344506493731 140737488355328 4741369464398371 9007199254740992); [vm_compute; reflexivity | unfold fr, close, ctol, A41_lo, A41_hi, A41_c, A41_e; interval with (i_prec 80)]. Qed.
Lemma d_A41_1724r : rio_reads A41_c A41_e A41_lo A41_hi floor_volts ctol (Build_rio (Fin (6491044311201869 / 18014398509481984)) (Fin (5 / 1)) (Fin (3715469692580659 / 1125899906842624)) (Fin (6 / 1)) (Fin (12 / 1)) true true true ((Fin (0 / 1)) :: (Fin (0 / 1)) :: (Fin (0 / 1)) :: (Fin (0 / 1)) :: (Fin (27 / 4)) :: (Fin (45 / 1)) :: nil)) (35 / 1).
Proof. apply (A41_rio_fin _ (6491044311201869 / 18014398509481984)); [reflexivity | apply (A41_q_hi 6491044311201869 18014398509481984 35 1); [vm_compute; reflexivity | unfold fr, ctol, A41_hi, A41_c, A41_e; interval with (i_prec 80)]]. Qed.
Lemma d_A41_1737u : close ctol (6934260230391139 / 18014398509481984) (volts_A41 (288520822597467 / 8796093022208)).
Proof. apply (A41_q_volts_mid 288520822597467 8796093022208 6934260230391139 18014398509481984); [vm_compute; reflexivity | unfold fr, close, ctol, A41_lo, A41_hi, A41_c, A41_e; interval with (i_prec 80)]. Qed.
Lemma d_A41_1750u : close ctol (4475148121022365 / 9007199254740992) (volts_A41 (7185228799004585 / 281474976710656)).
Proof. apply (A41_q_volts_mid 7185228799004585 281474976710656 4475148121022365 9007199254740992); [vm_compute; reflexivity | unfold fr, close, ctol, A41_lo, A41_hi, A41_c, A41_e; interval with (i_prec 80)]. Qed.
Lemma d_A41_1763u : close ctol (6491044311201869 / 18014398509481984) (volts_A41 (6308584266862409 / 140737488355328)).
Proof. apply (A41_q_volts_hi 6308584266862409 140737488355328 6491044311201869 18014398509481984); [vm_compute; reflexivity | unfold fr, close, ctol, A41_lo, A41_hi, A41_c, A41_e; interval with (i_prec 80)]. Qed.
Lemma d_A41_1776u : close ctol (7801224976653949 / 18014398509481984) (volts_A41 (2055914005240769 / 70368744177664)).
Proof. apply (A41_q_volts_mid 2055914005240769 70368744177664 7801224976653949 18014398509481984); [vm_compute; reflexivity | unfold fr, close, ctol, A41_lo, A41_hi, A41_c, A41_e; interval with (i_prec 80)]. Qed.
Lemma d_A41_1788r : rio_reads A41_c A41_e A41_lo A41_hi floor_volts ctol (Build_rio (Fin (222566363811629 / 140737488355328)) (Fin (5 / 1)) (Fin (445 / 128)) (Fin (2685 / 512)) (Fin (1195 / 128)) true true false ((Fin (725 / 1024)) :: (Fin (2017 / 1024)) :: (Fin (819 / 1024)) :: (Fin (69909 / 512)) :: (Fin (1779 / 256)) :: (Fin (3661 / 256)) :: nil)) (4607744105817243 / 562949953421312).
Proof. apply (A41_rio_fin _ (222566363811629 / 140737488355328)); [reflexivity | apply (A41_q_mid 222566363811629 140737488355328 4607744105817243 562949953421312); [vm_compute; reflexivity | unfold fr, close, ctol, A41_c, A41_e; interval with (i_prec 80)]]. Qed.
Lemma d_A41_1801u : close ctol (1665398064560627 / 4503599627370496) (volts_A41 (1200473598588081 / 35184372088832)).
Proof. apply (A41_q_volts_mid 1200473598588081 35184372088832 1665398064560627 4503599627370496); [vm_compute; reflexivity | unfold fr, close, ctol, A41_lo, A41_hi, A41_c, A41_e; interval with (i_prec 80)]. Qed.
Lemma d_A41_1814u : close ctol (4882071473257029 / 4503599627370496) (volts_A41 (3338698774097781 / 281474976710656)).
Proof. apply (A41_q_volts_mid 3338698774097781 281474976710656 4882071473257029 4503599627370496); [vm_compute; reflexivity | unfold fr, close, ctol, A41_lo, A41_hi, A41_c, A41_e; interval with (i_prec 80)]. Qed.
Lemma d_A41_1827u : close ctol (6491044311201869 / 18014398509481984) (volts_A41 (7388164456412603 / 2199023255552)).
Proof. apply (A41_q_volts_hi 7388164456412603 2199023255552 6491044311201869 18014398509481984); [vm_compute; reflexivity | unfold fr, close, ctol, A41_lo, A41_hi, A41_c, A41_e; interval with (i_prec 80)]. Qed.
Lemma d_A41_1840u : close ctol (760195257418481 / 1125899906842624) (volts_A41 (2657953224531405 / 140737488355328)).
Proof. apply (A41_q_volts_mid 2657953224531405 140737488355328 760195257418481 1125899906842624); [vm_compute; reflexivity | unfold fr, close, ctol, A41_lo, A41_hi, A41_c, A41_e; interval with (i_prec 80)]. Qed.
Lemma d_A41_1852r : rio_reads A41_c A41_e A41_lo A41_hi floor_volts ctol (Build_rio (Fin (1837277353318289 / 4503599627370496)) (Fin (1 / 202402253307310618352495346718917307049556649764142118356901358027430339567995346891960383701437124495187077864316811911389808737385793476867013399940738509921517424276566361364466907742093216341239767678472745068562007483424692698618103355649159556340810056512358769552333414615230502532186327508646006263307707741093494784)) (Fin (3715469692580659 / 1125899906842624)) (Fin (3043 / 512)) (Fin (10439 / 1024)) true true true ((Fin (2147 / 1024)) :: (Fin (123 / 64)) :: (Fin (41 / 32)) :: (Fin (4345 / 256)) :: (Fin (2067 / 512)) :: (Fin (11391 / 1024)) :: nil)) (8720405724714939 / 281474976710656).
Proof. apply (A41_rio_fin _ (1837277353318289 / 4503599627370496)); [reflexivity | apply (A41_q_mid 1837277353318289 4503599627370496 8720405724714939 281474976710656); [vm_compute; reflexivity | unfold fr, close, ctol, A41_c, A41_e; interval with (i_prec 80)]]. Qed.
Lemma d_A41_1865u : close ctol (1328381394010017 / 2251799813685248) (volts_A41 (3034923662118613 / 140737488355328)).
Proof. apply (A41_q_volts_mid 3034923662118613 140737488355328 1328381394010017 2251799813685248); [vm_compute; reflexivity | unfold fr, close, ctol, A41_lo, A41_hi, A41_c, A41_e; interval with (i_prec 80)]. Qed.
Lemma d_A41_1878u : close ctol (6491044311201869 / 18014398509481984) (volts_A41 (8367891079188121 / 549755813888)).
Proof. apply (A41_q_volts_hi 8367891079188121 549755813888 6491044311201869 18014398509481984); [vm_compute; reflexivity | unfold fr, close, ctol, A41_lo, A41_hi, A41_c, A41_e; interval with (i_prec 80)]. Qed.
Lemma d_A41_1891u : close ctol (5133867843957435 / 2251799813685248) (volts_A41 (1608382029020161 / 281474976710656)).
Proof. apply (A41_q_volts_mid 1608382029020161 281474976710656 5133867843957435 2251799813685248); [vm_compute; reflexivity | unfold fr, close, ctol, A41_lo, A41_hi, A41_c, A41_e; interval with (i_prec 80)]. Qed.
Lemma d_A41_1904u : close ctol (6491044311201869 / 18014398509481984) (volts_A41 (5557871072679875 / 8796093022208)).
Proof. apply (A41_q_volts_hi 5557871072679875 8796093022208 6491044311201869 18014398509481984); [vm_compute; reflexivity | unfold fr, close, ctol, A41_lo, A41_hi, A41_c, A41_e; interval with (i_prec 80)]. Qed.
Lemma d_A41_1916r : rio_reads A41_c A41_e A41_lo A41_hi floor_volts ctol (Build_rio (Fin (6548584511019023 / 18014398509481984)) (Fin (5 / 1)) (Fin (3715469692580659 / 1125899906842624)) (Fin (6 / 1)) (Fin (12 / 1)) true true true ((Fin (0 / 1)) :: (Fin (0 / 1)) :: (Fin (0 / 1)) :: (Fin (0 / 1)) :: (Fin (27 / 4)) :: (Fin (45 / 1)) :: nil)) (4883289101533491 / 140737488355328).
Proof. apply (A41_rio_fin _ (6548584511019023 / 18014398509481984)); [reflexivity | apply (A41_q_mid 6548584511019023 18014398509481984 4883289101533491 140737488355328); [vm_compute; reflexivity | unfold fr, close, ctol, A41_c, A41_e; interval with (i_prec 80)]]. Qed.
Lemma d_A41_1929u : close ctol (4667927222348925 / 9007199254740992) (volts_A41 (6893603703268405 / 281474976710656)).
Proof. apply (A41_q_volts_mid 6893603703268405 281474976710656 4667927222348925 9007199254740992); [vm_compute; reflexivity | unfold fr, close, ctol, A41_lo, A41_hi, A41_c, A41_e; interval with (i_prec 80)]. Qed.
Lemma d_A41_1942u : close ctol (3442216998164175 / 9007199254740992) (volts_A41 (2324576926566441 / 70368744177664)).
Proof. apply (A41_q_volts_mid 2324576926566441 70368744177664 3442216998164175 9007199254740992); [vm_compute; reflexivity | unfold fr, close, ctol, A41_lo, A41_hi, A41_c, A41_e; interval with (i_prec 80)]. Qed.
Lemma d_A41_1955u : close ctol (603087024533409 / 562949953421312) (volts_A41 (12 / 1)).
Proof. apply (A41_q_volts_mid 12 1 603087024533409 562949953421312); [vm_compute; reflexivity | unfold fr, close, ctol, A41_lo, A41_hi, A41_c, A41_e; interval with (i_prec 80)]. Qed.
Lemma d_A41_1968u : close ctol (1467073349921681 / 2251799813685248) (volts_A41 (344102487300935 / 17592186044416)).
Proof. apply (A41_q_volts_mid 344102487300935 17592186044416 1467073349921681 2251799813685248); [vm_compute; reflexivity | unfold fr, close, ctol, A41_lo, A41_hi, A41_c, A41_e; interval with (i_prec 80)]. Qed.
Lemma d_A41_1980r : rio_reads A41_c A41_e A41_lo A41_hi floor_volts ctol (Build_rio (Fin (1382852097436669 / 2251799813685248)) (Fin (0 / 1)) (Fin (847 / 256)) (Fin (2881 / 512)) (Fin (4009 / 512)) true true false ((Fin (2937 / 1024)) :: (Fin (27 / 64)) :: (Fin (515 / 512)) :: (Fin (79539 / 512)) :: (Fin (3263 / 512)) :: (Fin (48827 / 1024)) :: nil)) (2917440414645847 / 140737488355328).
Proof. apply (A41_rio_fin _ (1382852097436669 / 2251799813685248)); [reflexivity | apply (A41_q_mid 1382852097436669 2251799813685248 2917440414645847 140737488355328); [vm_compute; reflexivity | unfold fr, close, ctol, A41_c, A41_e; interval with (i_prec 80)]]. Qed.
Lemma d_A41_1993u : close ctol (3548509035677575 / 4503599627370496) (volts_A41 (4567692200769835 / 281474976710656)).
Proof. apply (A41_q_volts_mid 4567692200769835 281474976710656 3548509035677575 4503599627370496); [vm_compute; reflexivity | unfold fr, close, ctol, A41_lo, A41_hi, A41_c, A41_e; interval with (i_prec 80)]. Qed.
Lemma r_A02_19 : rio_reads A02_c A02_e A02_lo A02_hi floor_volts ctol (Build_rio (Fin (1 / 202402253307310618352495346718917307049556649764142118356901358027430339567995346891960383701437124495187077864316811911389808737385793476867013399940738509921517424276566361364466907742093216341239767678472745068562007483424692698618103355649159556340810056512358769552333414615230502532186327508646006263307707741093494784)) (Fin (5 / 1)) (Fin (3715469692580659 / 1125899906842624)) (Fin (6 / 1)) (Fin (7 / 1)) true true true ((Fin (0 / 1)) :: (Fin (0 / 1)) :: (Fin (0 / 1)) :: (Fin (0 / 1)) :: (Fin (27 / 4)) :: (Fin (45 / 1)) :: nil)) (145 / 1).
Proof. apply (A02_rio_fin _ (1 / 202402253307310618352495346718917307049556649764142118356901358027430339567995346891960383701437124495187077864316811911389808737385793476867013399940738509921517424276566361364466907742093216341239767678472745068562007483424692698618103355649159556340810056512358769552333414615230502532186327508646006263307707741093494784)); [reflexivity | apply (A02_q_floor 1 202402253307310618352495346718917307049556649764142118356901358027430339567995346891960383701437124495187077864316811911389808737385793476867013399940738509921517424276566361364466907742093216341239767678472745068562007483424692698618103355649159556340810056512358769552333414615230502532186327508646006263307707741093494784 145 1); vm_compute; reflexivity]. Qed.
Lemma r_A02_402 : rio_reads A02_c A02_e A02_lo A02_hi floor_volts ctol (Build_rio (Fin (661761659942523 / 73786976294838206464)) (Fin (5007 / 1024)) NInf (Fin (3061 / 512)) (Fin (4991 / 512)) true true false ((Fin (179 / 128)) :: (Fin (125 / 256)) :: (Fin (723 / 256)) :: (Fin (46471 / 1024)) :: (Fin (7095 / 1024)) :: (Fin (18597 / 512)) :: nil)) (145 / 1).
Proof. apply (A02_rio_fin _ (661761659942523 / 73786976294838206464)); [reflexivity | apply (A02_q_floor 661761659942523 73786976294838206464 145 1); vm_compute; reflexivity]. Qed.
Lemma d_A02_6c : close ctol (7036874417766401 / 70368744177664) (clamp A02_lo A02_hi (100 / 1)).
Proof. apply (A02_q_clamp_mid 100 1 7036874417766401 70368744177664); vm_compute; reflexivity. Qed.
Lemma d_A02_12g : get_distance (set_distance A02_c A02_e A02_lo A02_hi sim_init (145 / 1)) = (145 / 1).
Proof. cbn [get_distance set_distance sim_distance]. first [reflexivity | lra]. Qed.
Lemma d_A02_19c : close ctol (45 / 2) (clamp A02_lo A02_hi (0 / 1)).
Proof. apply (A02_q_clamp_lo 0 1 45 2); vm_compute; reflexivity. Qed.
Lemma d_A02_25g : get_distance (set_distance A02_c A02_e A02_lo A02_hi sim_init (1 / 202402253307310618352495346718917307049556649764142118356901358027430339567995346891960383701437124495187077864316811911389808737385793476867013399940738509921517424276566361364466907742093216341239767678472745068562007483424692698618103355649159556340810056512358769552333414615230502532186327508646006263307707741093494784)) = (1 / 202402253307310618352495346718917307049556649764142118356901358027430339567995346891960383701437124495187077864316811911389808737385793476867013399940738509921517424276566361364466907742093216341239767678472745068562007483424692698618103355649159556340810056512358769552333414615230502532186327508646006263307707741093494784).
Proof. cbn [get_distance set_distance sim_distance]. first [reflexivity | lra]. Qed.
Lemma d_A02_33g : get_distance (set_distance A02_c A02_e A02_lo A02_hi sim_init (50 / 1)) = (50 / 1).
Proof. cbn [get_distance set_distance sim_distance]. first [reflexivity | lra]. Qed.
Lemma d_A02_42c : close ctol (45 / 2) (clamp_x A02_lo A02_hi NInf).
Proof. apply (corr_clamp_ninf _ _ _ _ _ A02_admissible _ ctol_ok); apply close_rat; unfold ctol, A02_lo, A02_hi; lra. Qed.
Lemma d_A02_50g : get_distance (set_distance A02_c A02_e A02_lo A02_hi sim_init (1583296745580737 / 70368744177664)) = (1583296745580737 / 70368744177664).
Proof. cbn [get_distance set_distance sim_distance]. first [reflexivity | lra]. Qed.
Lemma d_A02_58g : get_distance (set_distance A02_c A02_e A02_lo A02_hi sim_init (3439115733843889 / 17592186044416)) = (3439115733843889 / 17592186044416).
Proof. cbn [get_distance set_distance sim_distance]. first [reflexivity | lra]. Qed.
Lemma d_A02_66g : get_distance (set_distance A02_c A02_e A02_lo A02_hi sim_init (766273723524341 / 8796093022208)) = (766273723524341 / 8796093022208).
Proof. cbn [get_distance set_distance sim_distance]. first [reflexivity | lra]. Qed.
Lemma d_A02_74g : get_distance (set_distance A02_c A02_e A02_lo A02_hi sim_init (4688400890467489 / 35184372088832)) = (4688400890467489 / 35184372088832).
Proof. cbn [get_distance set_distance sim_distance]. first [reflexivity | lra]. Qed.
Lemma d_A02_82g : get_distance (set_distance A02_c A02_e A02_lo A02_hi sim_init (4169234637805477 / 17592186044416)) = (4169234637805477 / 17592186044416).
Proof. cbn [get_distance set_distance sim_distance]. first [reflexivity | lra]. Qed.
Lemma d_A02_90g : get_distance (set_distance A02_c A02_e A02_lo A02_hi sim_init (7097297711230941 / 70368744177664)) = (7097297711230941 / 70368744177664).
Proof. cbn [get_distance set_distance sim_distance]. first [reflexivity | lra]. Qed.
Lemma d_A02_98g : get_distance (set_distance A02_c A02_e A02_lo A02_hi sim_init (78637385982289 / 549755813888)) = (78637385982289 / 549755813888).
Proof. cbn [get_distance set_distance sim_distance]. first [reflexivity | lra]. Qed.
Lemma d_A02_106g : get_distance (set_distance A02_c A02_e A02_lo A02_hi sim_init (2780066739491461 / 35184372088832)) = (2780066739491461 / 35184372088832).
Proof. cbn [get_distance set_distance sim_distance]. first [reflexivity | lra]. Qed.
Lemma d_A02_114g : get_distance (set_distance A02_c A02_e A02_lo A02_hi sim_init (1147486753329747 / 8796093022208)) = (1147486753329747 / 8796093022208).
Proof. cbn [get_distance set_distance sim_distance]. first [reflexivity | lra]. Qed.
Lemma d_A02_122g : get_distance (set_distance A02_c A02_e A02_lo A02_hi sim_init (1717154548608173 / 35184372088832)) = (1717154548608173 / 35184372088832).
Proof. cbn [get_distance set_distance sim_distance]. first [reflexivity | lra]. Qed.
Lemma d_A02_130g : get_distance (set_distance A02_c A02_e A02_lo A02_hi sim_init (7383368706127635 / 70368744177664)) = (7383368706127635 / 70368744177664).
Proof. cbn [get_distance set_distance sim_distance]. first [reflexivity | lra]. Qed.
Lemma d_A02_138g : get_distance (set_distance A02_c A02_e A02_lo A02_hi sim_init (2646589640640367 / 70368744177664)) = (2646589640640367 / 70368744177664).
Proof. cbn [get_distance set_distance sim_distance]. first [reflexivity | lra]. Qed.
Lemma d_A02_146g : get_distance (set_distance A02_c A02_e A02_lo A02_hi sim_init (257 / 1)) = (257 / 1).
Proof. cbn [get_distance set_distance sim_distance]. first [reflexivity | lra]. Qed.
Lemma d_A02_154g : get_distance (set_distance A02_c A02_e A02_lo A02_hi sim_init (153 / 1)) = (153 / 1).
Proof. cbn [get_distance set_distance sim_distance]. first [reflexivity | lra]. Qed.
Lemma d_A02_162g : get_distance (set_distance A02_c A02_e A02_lo A02_hi sim_init (4775319914472953 / 281474976710656)) = (4775319914472953 / 281474976710656).
Proof. cbn [get_distance set_distance sim_distance]. first [reflexivity | lra]. Qed.
Lemma d_A02_170g : get_distance (set_distance A02_c A02_e A02_lo A02_hi sim_init (8401228069763423 / 281474976710656)) = (8401228069763423 / 281474976710656).
Proof. cbn [get_distance set_distance sim_distance]. first [reflexivity | lra]. Qed.
Lemma d_A02_178g : get_distance (set_distance A02_c A02_e A02_lo A02_hi sim_init ((-322885894205073) / 281474976710656)) = ((-322885894205073) / 281474976710656).
Proof. cbn [get_distance set_distance sim_distance]. first [reflexivity | lra]. Qed.
Lemma d_A02_186g : get_distance (set_distance A02_c A02_e A02_lo A02_hi sim_init (162481630517293 / 2199023255552)) = (162481630517293 / 2199023255552).
Proof. cbn [get_distance set_distance sim_distance]. first [reflexivity | lra]. Qed.
Lemma d_A02_194g : get_distance (set_distance A02_c A02_e A02_lo A02_hi sim_init (7001289423051021 / 70368744177664)) = (7001289423051021 / 70368744177664).
Proof. cbn [get_distance set_distance sim_distance]. first [reflexivity | lra]. Qed.
Lemma d_A02_202g : get_distance (set_distance A02_c A02_e A02_lo A02_hi sim_init (8719466056070089 / 70368744177664)) = (8719466056070089 / 70368744177664).
Proof. cbn [get_distance set_distance sim_distance]. first [reflexivity | lra]. Qed.
Lemma d_A02_210g : get_distance (set_distance A02_c A02_e A02_lo A02_hi sim_init (6590327565891087 / 70368744177664)) = (6590327565891087 / 70368744177664).
Proof. cbn [get_distance set_distance sim_distance]. first [reflexivity | lra]. Qed.
Lemma d_A02_218g : get_distance (set_distance A02_c A02_e A02_lo A02_hi sim_init (7372872902236827 / 140737488355328)) = (7372872902236827 / 140737488355328).
Proof. cbn [get_distance set_distance sim_distance]. first [reflexivity | lra]. Qed.
Lemma d_A02_226g : get_distance (set_distance A02_c A02_e A02_lo A02_hi sim_init (212 / 1)) = (212 / 1).
Proof. cbn [get_distance set_distance sim_distance]. first [reflexivity | lra]. Qed.
Lemma d_A02_234g : get_distance (set_distance A02_c A02_e A02_lo A02_hi sim_init (637580589919941 / 17592186044416)) = (637580589919941 / 17592186044416).
Proof. cbn [get_distance set_distance sim_distance]. first [reflexivity | lra]. Qed.
Lemma d_A02_242g : get_distance (set_distance A02_c A02_e A02_lo A02_hi sim_init (7552239152838223 / 17592186044416)) = (7552239152838223 / 17592186044416).
Proof. cbn [get_distance set_distance sim_distance]. first [reflexivity | lra]. Qed.
Lemma d_A02_250g : get_distance (set_distance A02_c A02_e A02_lo A02_hi sim_init (95278893573091 / 549755813888)) = (95278893573091 / 549755813888).
Proof. cbn [get_distance set_distance sim_distance]. first [reflexivity | lra]. Qed.
Lemma d_A02_258g : get_distance (set_distance A02_c A02_e A02_lo A02_hi sim_init (200 / 1)) = (200 / 1).
Proof. cbn [get_distance set_distance sim_distance]. first [reflexivity | lra]. Qed.
Lemma d_A02_266g : get_distance (set_distance A02_c A02_e A02_lo A02_hi sim_init (165 / 1)) = (165 / 1).
Proof. cbn [get_distance set_distance sim_distance]. first [reflexivity | lra]. Qed.
Lemma d_A02_274g : get_distance (set_distance A02_c A02_e A02_lo A02_hi sim_init (4982093706037829 / 137438953472)) = (4982093706037829 / 137438953472).
Proof. cbn [get_distance set_distance sim_distance]. first [reflexivity | lra]. Qed.
Lemma d_A02_282g : get_distance (set_distance A02_c A02_e A02_lo A02_hi sim_init (1133418103791233 / 8796093022208)) = (1133418103791233 / 8796093022208).
Proof. cbn [get_distance set_distance sim_distance]. first [reflexivity | lra]. Qed.
Lemma d_A02_290g : get_distance (set_distance A02_c A02_e A02_lo A02_hi sim_init (21 / 1)) = (21 / 1).
Proof. cbn [get_distance set_distance sim_distance]. first [reflexivity | lra]. Qed.
Lemma d_A02_298g : get_distance (set_distance A02_c A02_e A02_lo A02_hi sim_init (7364679419600887 / 70368744177664)) = (7364679419600887 / 70368744177664).
Proof. cbn [get_distance set_distance sim_distance]. first [reflexivity | lra]. Qed.
Lemma d_A02_306g : get_distance (set_distance A02_c A02_e A02_lo A02_hi sim_init (1258321803932997 / 8796093022208)) = (1258321803932997 / 8796093022208).
Proof. cbn [get_distance set_distance sim_distance]. first [reflexivity | lra]. Qed.
Lemma d_A02_314g : get_distance (set_distance A02_c A02_e A02_lo A02_hi sim_init (2264081187475875 / 17592186044416)) = (2264081187475875 / 17592186044416).
Proof. cbn [get_distance set_distance sim_distance]. first [reflexivity | lra]. Qed.
Lemma d_A02_322g : get_distance (set_distance A02_c A02_e A02_lo A02_hi sim_init (2897635428241407 / 70368744177664)) = (2897635428241407 / 70368744177664).
Proof. cbn [get_distance set_distance sim_distance]. first [reflexivity | lra]. Qed.
Lemma d_A02_330g : get_distance (set_distance A02_c A02_e A02_lo A02_hi sim_init (1352936512217653 / 17592186044416)) = (1352936512217653 / 17592186044416).
Proof. cbn [get_distance set_distance sim_distance]. first [reflexivity | lra]. Qed.
Lemma d_A02_338g : get_distance (set_distance A02_c A02_e A02_lo A02_hi sim_init (3135136185483823 / 70368744177664)) = (3135136185483823 / 70368744177664).
Proof. cbn [get_distance set_distance sim_distance]. first [reflexivity | lra]. Qed.
Lemma d_A02_346g : get_distance (set_distance A02_c A02_e A02_lo A02_hi sim_init (1850972084428433 / 562949953421312)) = (1850972084428433 / 562949953421312).
Proof. cbn [get_distance set_distance sim_distance]. first [reflexivity | lra]. Qed.
Lemma d_A02_354g : get_distance (set_distance A02_c A02_e A02_lo A02_hi sim_init (4644237538700767 / 35184372088832)) = (4644237538700767 / 35184372088832).
Proof. cbn [get_distance set_distance sim_distance]. first [reflexivity | lra]. Qed.
Lemma d_A02_362g : get_distance (set_distance A02_c A02_e A02_lo A02_hi sim_init (8422313043535949 / 35184372088832)) = (8422313043535949 / 35184372088832).
Proof. cbn [get_distance set_distance sim_distance]. first [reflexivity | lra]. Qed.
Lemma d_A02_370g : get_distance (set_distance A02_c A02_e A02_lo A02_hi sim_init (2974544122368067 / 8796093022208)) = (2974544122368067 / 8796093022208).
Proof. cbn [get_distance set_distance sim_distance]. first [reflexivity | lra]. Qed.
Lemma d_A02_378g : get_distance (set_distance A02_c A02_e A02_lo A02_hi sim_init (6340232257287477 / 70368744177664)) = (6340232257287477 / 70368744177664).
Proof. cbn [get_distance set_distance sim_distance]. first [reflexivity | lra]. Qed.
Lemma d_A02_386g : get_distance (set_distance A02_c A02_e A02_lo A02_hi sim_init (6641211855397059 / 281474976710656)) = (6641211855397059 / 281474976710656).
Proof. cbn [get_distance set_distance sim_distance]. first [reflexivity | lra]. Qed.
Lemma d_A02_394g : get_distance (set_distance A02_c A02_e A02_lo A02_hi sim_init (3119733867728325 / 18014398509481984)) = (3119733867728325 / 18014398509481984).
Proof. cbn [get_distance set_distance sim_distance]. first [reflexivity | lra]. Qed.
Lemma d_A02_402g : get_distance (set_distance A02_c A02_e A02_lo A02_hi sim_init (1957579963323113 / 70368744177664)) = (1957579963323113 / 70368744177664).
Proof. cbn [get_distance set_distance sim_distance]. first [reflexivity | lra]. Qed.
Lemma d_A02_410g : get_distance (set_distance A02_c A02_e A02_lo A02_hi sim_init (6975535040796193 / 140737488355328)) = (6975535040796193 / 140737488355328).
Proof. cbn [get_distance set_distance sim_distance]. first [reflexivity | lra]. Qed.
Lemma d_A02_418g : get_distance (set_distance A02_c A02_e A02_lo A02_hi sim_init (1865581628400043 / 35184372088832)) = (1865581628400043 / 35184372088832).
Proof. cbn [get_distance set_distance sim_distance]. first [reflexivity | lra]. Qed.
Lemma d_A02_426g : get_distance (set_distance A02_c A02_e A02_lo A02_hi sim_init (3400393997820701 / 70368744177664)) = (3400393997820701 / 70368744177664).
Proof. cbn [get_distance set_distance sim_distance]. first [reflexivity | lra]. Qed.
Lemma d_A02_434g : get_distance (set_distance A02_c A02_e A02_lo A02_hi sim_init (372564041796689 / 8796093022208)) = (372564041796689 / 8796093022208).
Proof. cbn [get_distance set_distance sim_distance]. first [reflexivity | lra]. Qed.
Lemma d_A02_442g : get_distance (set_distance A02_c A02_e A02_lo A02_hi sim_init (1976053454897295 / 35184372088832)) = (1976053454897295 / 35184372088832).
Proof. cbn [get_distance set_distance sim_distance]. first [reflexivity | lra]. Qed.
Lemma d_A02_450g : get_distance (set_distance A02_c A02_e A02_lo A02_hi sim_init (209052561541205 / 549755813888)) = (209052561541205 / 549755813888).
Proof. cbn [get_distance set_distance sim_distance]. first [reflexivity | lra]. Qed.
Lemma d_A02_458g : get_distance (set_distance A02_c A02_e A02_lo A02_hi sim_init (17590185605815 / 274877906944)) = (17590185605815 / 274877906944).
Proof. cbn [get_distance set_distance sim_distance]. first [reflexivity | lra]. Qed.
Lemma d_A02_466g : get_distance (set_distance A02_c A02_e A02_lo A02_hi sim_init (3487257314825841 / 35184372088832)) = (3487257314825841 / 35184372088832).
Proof. cbn [get_distance set_distance sim_distance]. first [reflexivity | lra]. Qed.
Lemma d_A02_474g : get_distance (set_distance A02_c A02_e A02_lo A02_hi sim_init (1800500396763955 / 17592186044416)) = (1800500396763955 / 17592186044416).
Proof. cbn [get_distance set_distance sim_distance]. first [reflexivity | lra]. Qed.
Lemma d_A02_482g : get_distance (set_distance A02_c A02_e A02_lo A02_hi sim_init (960775237709841 / 8796093022208)) = (960775237709841 / 8796093022208).
Proof. cbn [get_distance set_distance sim_distance]. first [reflexivity | lra]. Qed.
Lemma d_A02_490g : get_distance (set_distance A02_c A02_e A02_lo A02_hi sim_init (4295305904719359 / 140737488355328)) = (4295305904719359 / 140737488355328).
Proof. cbn [get_distance set_distance sim_distance]. first [reflexivity | lra]. Qed.
Lemma d_A02_498g : get_distance (set_distance A02_c A02_e A02_lo A02_hi sim_init (4881005779345205 / 70368744177664)) = (4881005779345205 / 70368744177664).
Proof. cbn [get_distance set_distance sim_distance]. first [reflexivity | lra]. Qed.
Lemma d_A02_506g : get_distance (set_distance A02_c A02_e A02_lo A02_hi sim_init (3622579261343553 / 35184372088832)) = (3622579261343553 / 35184372088832).
Proof. cbn [get_distance set_distance sim_distance]. first [reflexivity | lra]. Qed.
Lemma d_A02_514g : get_distance (set_distance A02_c A02_e A02_lo A02_hi sim_init (3941724317383577 / 35184372088832)) = (3941724317383577 / 35184372088832).
Proof. cbn [get_distance set_distance sim_distance]. first [reflexivity | lra]. Qed.
Lemma d_A02_522g : get_distance (set_distance A02_c A02_e A02_lo A02_hi sim_init (6590509064835029 / 140737488355328)) = (6590509064835029 / 140737488355328).
Proof. cbn [get_distance set_distance sim_distance]. first [reflexivity | lra]. Qed.
Lemma d_A02_530g : get_distance (set_distance A02_c A02_e A02_lo A02_hi sim_init (1225403017263985 / 8796093022208)) = (1225403017263985 / 8796093022208).
Proof. cbn [get_distance set_distance sim_distance]. first [reflexivity | lra]. Qed.
Lemma d_A02_538g : get_distance (set_distance A02_c A02_e A02_lo A02_hi sim_init (6020658487792351 / 70368744177664)) = (6020658487792351 / 70368744177664).
Proof. cbn [get_distance set_distance sim_distance]. first [reflexivity | lra]. Qed.
Lemma d_A02_546g : get_distance (set_distance A02_c A02_e A02_lo A02_hi sim_init (2434647576928157 / 17592186044416)) = (2434647576928157 / 17592186044416).
Proof. cbn [get_distance set_distance sim_distance]. first [reflexivity | lra]. Qed.
Lemma d_A02_554g : get_distance (set_distance A02_c A02_e A02_lo A02_hi sim_init (217 / 1)) = (217 / 1).
Proof. cbn [get_distance set_distance sim_distance]. first [reflexivity | lra]. Qed.
Lemma d_A02_562g : get_distance (set_distance A02_c A02_e A02_lo A02_hi sim_init (2632154978576971 / 17592186044416)) = (2632154978576971 / 17592186044416).
Proof. cbn [get_distance set_distance sim_distance]. first [reflexivity | lra]. Qed.
Lemma d_A02_570g : get_distance (set_distance A02_c A02_e A02_lo A02_hi sim_init (1661521172120967 / 35184372088832)) = (1661521172120967 / 35184372088832).
Proof. cbn [get_distance set_distance sim_distance]. first [reflexivity | lra]. Qed.
Lemma d_A02_578g : get_distance (set_distance A02_c A02_e A02_lo A02_hi sim_init (7690831323374215 / 140737488355328)) = (7690831323374215 / 140737488355328).
Proof. cbn [get_distance set_distance sim_distance]. first [reflexivity | lra]. Qed.
Lemma d_A02_586g : get_distance (set_distance A02_c A02_e A02_lo A02_hi sim_init (3640186315478883 / 140737488355328)) = (3640186315478883 / 140737488355328).
Proof. cbn [get_distance set_distance sim_distance]. first [reflexivity | lra]. Qed.
Lemma d_A02_594g : get_distance (set_distance A02_c A02_e A02_lo A02_hi sim_init (1287821016161447 / 35184372088832)) = (1287821016161447 / 35184372088832).
Proof. cbn [get_distance set_distance sim_distance]. first [reflexivity | lra]. Qed.
Lemma d_A02_602g : get_distance (set_distance A02_c A02_e A02_lo A02_hi sim_init (3086405613263385 / 70368744177664)) = (3086405613263385 / 70368744177664).
Proof. cbn [get_distance set_distance sim_distance]. first [reflexivity | lra]. Qed.
Lemma d_A02_610g : get_distance (set_distance A02_c A02_e A02_lo A02_hi sim_init (6759407724606099 / 70368744177664)) = (6759407724606099 / 70368744177664).
Proof. cbn [get_distance set_distance sim_distance]. first [reflexivity | lra]. Qed.
Lemma d_A02_618g : get_distance (set_distance A02_c A02_e A02_lo A02_hi sim_init (8207501103679153 / 70368744177664)) = (8207501103679153 / 70368744177664).
Proof. cbn [get_distance set_distance sim_distance]. first [reflexivity | lra]. Qed.
Lemma d_A02_626g : get_distance (set_distance A02_c A02_e A02_lo A02_hi sim_init (3284354023360165 / 70368744177664)) = (3284354023360165 / 70368744177664).
Proof. cbn [get_distance set_distance sim_distance]. first [reflexivity | lra]. Qed.
Lemma d_A02_634g : get_distance (set_distance A02_c A02_e A02_lo A02_hi sim_init (282 / 1)) = (282 / 1).
Proof. cbn [get_distance set_distance sim_distance]. first [reflexivity | lra]. Qed.
Lemma d_A02_642g : get_distance (set_distance A02_c A02_e A02_lo A02_hi sim_init (2492149721787521 / 17592186044416)) = (2492149721787521 / 17592186044416).
Proof. cbn [get_distance set_distance sim_distance]. first [reflexivity | lra]. Qed.
Lemma d_A02_650g : get_distance (set_distance A02_c A02_e A02_lo A02_hi sim_init (122613544009767 / 2199023255552)) = (122613544009767 / 2199023255552).
Proof. cbn [get_distance set_distance sim_distance]. first [reflexivity | lra]. Qed.
Lemma d_A02_658g : get_distance (set_distance A02_c A02_e A02_lo A02_hi sim_init (8450719356254165 / 70368744177664)) = (8450719356254165 / 70368744177664).
Proof. cbn [get_distance set_distance sim_distance]. first [reflexivity | lra]. Qed.
Lemma d_A02_666g : get_distance (set_distance A02_c A02_e A02_lo A02_hi sim_init (262 / 1)) = (262 / 1).
Proof. cbn [get_distance set_distance sim_distance]. first [reflexivity | lra]. Qed.
Lemma r_A21_446 : rio_reads A21_c A21_e A21_lo A21_hi floor_volts ctol (Build_rio (Fin (2951183903888349 / 295147905179352825856)) NInf (Fin (3715469692580659 / 1125899906842624)) (Fin (6 / 1)) (Fin (12 / 1)) true true true ((Fin (0 / 1)) :: (Fin (0 / 1)) :: (Fin (0 / 1)) :: (Fin (0 / 1)) :: (Fin (27 / 4)) :: (Fin (45 / 1)) :: nil)) (80 / 1).
Proof. apply (A21_rio_fin _ (2951183903888349 / 295147905179352825856)); [reflexivity | apply (A21_q_floor 2951183903888349 295147905179352825856 80 1); vm_compute; reflexivity]. Qed.
Lemma d_A21_668g : get_distance (set_distance A21_c A21_e A21_lo A21_hi sim_init ((-5) / 1)) = ((-5) / 1).
Proof. cbn [get_distance set_distance sim_distance]. first [reflexivity | lra]. Qed.
Lemma d_A21_676g : get_distance (set_distance A21_c A21_e A21_lo A21_hi sim_init (2 / 1)) = (2 / 1).
Proof. cbn [get_distance set_distance sim_distance]. first [reflexivity | lra]. Qed.
Lemma d_A21_684g : get_distance (set_distance A21_c A21_e A21_lo A21_hi sim_init (1000000000000000052504760255204420248704468581108159154915854115511802457988908195786371375080447864043704443832883878176942523235360430575644792184786706982848387200926575803737830233794788090059368953234970799945081119038967640880074652742780142494579258788820056842838115669472196386865459400540160 / 1)) = (1000000000000000052504760255204420248704468581108159154915854115511802457988908195786371375080447864043704443832883878176942523235360430575644792184786706982848387200926575803737830233794788090059368953234970799945081119038967640880074652742780142494579258788820056842838115669472196386865459400540160 / 1).
Proof. cbn [get_distance set_distance sim_distance]. first [reflexivity | lra]. Qed.
Lemma d_A21_692g : get_distance (set_distance A21_c A21_e A21_lo A21_hi sim_init (6032057205060441 / 6032057205060440848842124543157735677050252251748505781796615064961622344493727293370973578138265743708225425014400837164813540499979063179105919597766951022193355091707896034850684039059079180396788349106095584290087446076413771468940477241550670753145517602931224392424029547429993824129889235158145614364972941312)) = (6032057205060441 / 6032057205060440848842124543157735677050252251748505781796615064961622344493727293370973578138265743708225425014400837164813540499979063179105919597766951022193355091707896034850684039059079180396788349106095584290087446076413771468940477241550670753145517602931224392424029547429993824129889235158145614364972941312).
Proof. cbn [get_distance set_distance sim_distance]. first [reflexivity | lra]. Qed.
Lemma d_A21_700g : get_distance (set_distance A21_c A21_e A21_lo A21_hi sim_init (60 / 1)) = (60 / 1).
Proof. cbn [get_distance set_distance sim_distance]. first [reflexivity | lra]. Qed.
Lemma d_A21_709g : get_distance (set_distance A21_c A21_e A21_lo A21_hi sim_init (10 / 1)) = (10 / 1).
Proof. cbn [get_distance set_distance sim_distance]. first [reflexivity | lra]. Qed.
Lemma d_A21_717g : get_distance (set_distance A21_c A21_e A21_lo A21_hi sim_init (5629499528583621 / 70368744177664)) = (5629499528583621 / 70368744177664).
Proof. cbn [get_distance set_distance sim_distance]. first [reflexivity | lra]. Qed.
Lemma d_A21_725g : get_distance (set_distance A21_c A21_e A21_lo A21_hi sim_init (8111348463907377 / 17592186044416)) = (8111348463907377 / 17592186044416).
Proof. cbn [get_distance set_distance sim_distance]. first [reflexivity | lra]. Qed.
Lemma d_A21_733g : get_distance (set_distance A21_c A21_e A21_lo A21_hi sim_init ((-41772812889819) / 140737488355328)) = ((-41772812889819) / 140737488355328).
Proof. cbn [get_distance set_distance sim_distance]. first [reflexivity | lra]. Qed.
Lemma d_A21_741g : get_distance (set_distance A21_c A21_e A21_lo A21_hi sim_init (1546025403569033 / 17592186044416)) = (1546025403569033 / 17592186044416).
Proof. cbn [get_distance set_distance sim_distance]. first [reflexivity | lra]. Qed.
Lemma d_A21_749g : get_distance (set_distance A21_c A21_e A21_lo A21_hi sim_init (152125029673989 / 2199023255552)) = (152125029673989 / 2199023255552).
Proof. cbn [get_distance set_distance sim_distance]. first [reflexivity | lra]. Qed.
Lemma d_A21_757g : get_distance (set_distance A21_c A21_e A21_lo A21_hi sim_init (3029693008609445 / 1099511627776)) = (3029693008609445 / 1099511627776).
Proof. cbn [get_distance set_distance sim_distance]. first [reflexivity | lra]. Qed.
Lemma d_A21_765g : get_distance (set_distance A21_c A21_e A21_lo A21_hi sim_init (4746487684748871 / 35184372088832)) = (4746487684748871 / 35184372088832).
Proof. cbn [get_distance set_distance sim_distance]. first [reflexivity | lra]. Qed.
Lemma d_A21_773g : get_distance (set_distance A21_c A21_e A21_lo A21_hi sim_init (8777594455050329 / 281474976710656)) = (8777594455050329 / 281474976710656).
Proof. cbn [get_distance set_distance sim_distance]. first [reflexivity | lra]. Qed.
Lemma d_A21_781g : get_distance (set_distance A21_c A21_e A21_lo A21_hi sim_init (3003696392095773 / 70368744177664)) = (3003696392095773 / 70368744177664).
Proof. cbn [get_distance set_distance sim_distance]. first [reflexivity | lra]. Qed.
Lemma d_A21_789g : get_distance (set_distance A21_c A21_e A21_lo A21_hi sim_init (8358007799861677 / 140737488355328)) = (8358007799861677 / 140737488355328).
Proof. cbn [get_distance set_distance sim_distance]. first [reflexivity | lra]. Qed.
Lemma d_A21_797g : get_distance (set_distance A21_c A21_e A21_lo A21_hi sim_init (4797549353994125 / 70368744177664)) = (4797549353994125 / 70368744177664).
Proof. cbn [get_distance set_distance sim_distance]. first [reflexivity | lra]. Qed.
Lemma d_A21_805g : get_distance (set_distance A21_c A21_e A21_lo A21_hi sim_init (2449242728751001 / 4398046511104)) = (2449242728751001 / 4398046511104).
Proof. cbn [get_distance set_distance sim_distance]. first [reflexivity | lra]. Qed.
Lemma d_A21_813g : get_distance (set_distance A21_c A21_e A21_lo A21_hi sim_init (6281022200752331 / 562949953421312)) = (6281022200752331 / 562949953421312).
Proof. cbn [get_distance set_distance sim_distance]. first [reflexivity | lra]. Qed.
Lemma d_A21_821g : get_distance (set_distance A21_c A21_e A21_lo A21_hi sim_init (575606350087047 / 281474976710656)) = (575606350087047 / 281474976710656).
Proof. cbn [get_distance set_distance sim_distance]. first [reflexivity | lra]. Qed.
Lemma d_A21_829g : get_distance (set_distance A21_c A21_e A21_lo A21_hi sim_init (290537538128677 / 4398046511104)) = (290537538128677 / 4398046511104).
Proof. cbn [get_distance set_distance sim_distance]. first [reflexivity | lra]. Qed.
Lemma d_A21_837g : get_distance (set_distance A21_c A21_e A21_lo A21_hi sim_init (1317939952738427 / 8796093022208)) = (1317939952738427 / 8796093022208).
Proof. cbn [get_distance set_distance sim_distance]. first [reflexivity | lra]. Qed.
Lemma d_A21_845g : get_distance (set_distance A21_c A21_e A21_lo A21_hi sim_init (2451643319617977 / 281474976710656)) = (2451643319617977 / 281474976710656).
Proof. cbn [get_distance set_distance sim_distance]. first [reflexivity | lra]. Qed.
Lemma d_A21_853g : get_distance (set_distance A21_c A21_e A21_lo A21_hi sim_init (1994042419174615 / 140737488355328)) = (1994042419174615 / 140737488355328).
Proof. cbn [get_distance set_distance sim_distance]. first [reflexivity | lra]. Qed.
Lemma d_A21_861g : get_distance (set_distance A21_c A21_e A21_lo A21_hi sim_init (150 / 1)) = (150 / 1).
Proof. cbn [get_distance set_distance sim_distance]. first [reflexivity | lra]. Qed.
Lemma d_A21_869g : get_distance (set_distance A21_c A21_e A21_lo A21_hi sim_init (7232827277301929 / 140737488355328)) = (7232827277301929 / 140737488355328).
Proof. cbn [get_distance set_distance sim_distance]. first [reflexivity | lra]. Qed.
Lemma d_A21_877g : get_distance (set_distance A21_c A21_e A21_lo A21_hi sim_init (7488940775923881 / 281474976710656)) = (7488940775923881 / 281474976710656).
Proof. cbn [get_distance set_distance sim_distance]. first [reflexivity | lra]. Qed.
Lemma d_A21_885g : get_distance (set_distance A21_c A21_e A21_lo A21_hi sim_init (2501409000213591 / 35184372088832)) = (2501409000213591 / 35184372088832).
Proof. cbn [get_distance set_distance sim_distance]. first [reflexivity | lra]. Qed.
Lemma d_A21_893g : get_distance (set_distance A21_c A21_e A21_lo A21_hi sim_init (2727286170131395 / 1099511627776)) = (2727286170131395 / 1099511627776).
Proof. cbn [get_distance set_distance sim_distance]. first [reflexivity | lra]. Qed.
Lemma d_A21_901g : get_distance (set_distance A21_c A21_e A21_lo A21_hi sim_init (7847006058836033 / 562949953421312)) = (7847006058836033 / 562949953421312).
Proof. cbn [get_distance set_distance sim_distance]. first [reflexivity | lra]. Qed.
Lemma d_A21_909g : get_distance (set_distance A21_c A21_e A21_lo A21_hi sim_init (2671088136157921 / 70368744177664)) = (2671088136157921 / 70368744177664).
Proof. cbn [get_distance set_distance sim_distance]. first [reflexivity | lra]. Qed.
Lemma d_A21_917g : get_distance (set_distance A21_c A21_e A21_lo A21_hi sim_init (342843795769941 / 4398046511104)) = (342843795769941 / 4398046511104).
Proof. cbn [get_distance set_distance sim_distance]. first [reflexivity | lra]. Qed.
Lemma d_A21_925g : get_distance (set_distance A21_c A21_e A21_lo A21_hi sim_init (3390238068545955 / 281474976710656)) = (3390238068545955 / 281474976710656).
Proof. cbn [get_distance set_distance sim_distance]. first [reflexivity | lra]. Qed.
Lemma d_A21_933g : get_distance (set_distance A21_c A21_e A21_lo A21_hi sim_init (8240541931634019 / 281474976710656)) = (8240541931634019 / 281474976710656).
Proof. cbn [get_distance set_distance sim_distance]. first [reflexivity | lra]. Qed.
Lemma d_A21_941g : get_distance (set_distance A21_c A21_e A21_lo A21_hi sim_init (1628733520825901 / 70368744177664)) = (1628733520825901 / 70368744177664).
Proof. cbn [get_distance set_distance sim_distance]. first [reflexivity | lra]. Qed.
Lemma d_A21_949g : get_distance (set_distance A21_c A21_e A21_lo A21_hi sim_init (5000218074465583 / 140737488355328)) = (5000218074465583 / 140737488355328).
Proof. cbn [get_distance set_distance sim_distance]. first [reflexivity | lra]. Qed.
Lemma d_A21_957g : get_distance (set_distance A21_c A21_e A21_lo A21_hi sim_init (2419679324231089 / 70368744177664)) = (2419679324231089 / 70368744177664).
Proof. cbn [get_distance set_distance sim_distance]. first [reflexivity | lra]. Qed.
Lemma d_A21_965g : get_distance (set_distance A21_c A21_e A21_lo A21_hi sim_init (357510600712641 / 8796093022208)) = (357510600712641 / 8796093022208).
Proof. cbn [get_distance set_distance sim_distance]. first [reflexivity | lra]. Qed.
Lemma d_A21_973g : get_distance (set_distance A21_c A21_e A21_lo A21_hi sim_init (3133925835152205 / 70368744177664)) = (3133925835152205 / 70368744177664).
Proof. cbn [get_distance set_distance sim_distance]. first [reflexivity | lra]. Qed.
Lemma d_A21_981g : get_distance (set_distance A21_c A21_e A21_lo A21_hi sim_init (1455516568757959 / 35184372088832)) = (1455516568757959 / 35184372088832).
Proof. cbn [get_distance set_distance sim_distance]. first [reflexivity | lra]. Qed.
Lemma d_A21_989g : get_distance (set_distance A21_c A21_e A21_lo A21_hi sim_init (301094646713363 / 8796093022208)) = (301094646713363 / 8796093022208).
Proof. cbn [get_distance set_distance sim_distance]. first [reflexivity | lra]. Qed.
Lemma d_A21_997g : get_distance (set_distance A21_c A21_e A21_lo A21_hi sim_init (2604689896622813 / 70368744177664)) = (2604689896622813 / 70368744177664).
Proof. cbn [get_distance set_distance sim_distance]. first [reflexivity | lra]. Qed.
Lemma d_A21_1005g : get_distance (set_distance A21_c A21_e A21_lo A21_hi sim_init (3159990020176731 / 70368744177664)) = (3159990020176731 / 70368744177664).
Proof. cbn [get_distance set_distance sim_distance]. first [reflexivity | lra]. Qed.
Lemma d_A21_1013g : get_distance (set_distance A21_c A21_e A21_lo A21_hi sim_init (1227635065900567 / 17592186044416)) = (1227635065900567 / 17592186044416).
Proof. cbn [get_distance set_distance sim_distance]. first [reflexivity | lra]. Qed.
Lemma d_A21_1021g : get_distance (set_distance A21_c A21_e A21_lo A21_hi sim_init (2553358067812495 / 562949953421312)) = (2553358067812495 / 562949953421312).
Proof. cbn [get_distance set_distance sim_distance]. first [reflexivity | lra]. Qed.
Lemma d_A21_1029g : get_distance (set_distance A21_c A21_e A21_lo A21_hi sim_init (2469144365901227 / 70368744177664)) = (2469144365901227 / 70368744177664).
Proof. cbn [get_distance set_distance sim_distance]. first [reflexivity | lra]. Qed.
Lemma d_A21_1037g : get_distance (set_distance A21_c A21_e A21_lo A21_hi sim_init (8386563475221295 / 35184372088832)) = (8386563475221295 / 35184372088832).
Proof. cbn [get_distance set_distance sim_distance]. first [reflexivity | lra]. Qed.
Lemma d_A21_1045g : get_distance (set_distance A21_c A21_e A21_lo A21_hi sim_init (623492265361577 / 17592186044416)) = (623492265361577 / 17592186044416).
Proof. cbn [get_distance set_distance sim_distance]. first [reflexivity | lra]. Qed.
Lemma d_A21_1053g : get_distance (set_distance A21_c A21_e A21_lo A21_hi sim_init (2465780924458773 / 35184372088832)) = (2465780924458773 / 35184372088832).
Proof. cbn [get_distance set_distance sim_distance]. first [reflexivity | lra]. Qed.
Lemma d_A21_1061g : get_distance (set_distance A21_c A21_e A21_lo A21_hi sim_init (7005498509722655 / 140737488355328)) = (7005498509722655 / 140737488355328).
Proof. cbn [get_distance set_distance sim_distance]. first [reflexivity | lra]. Qed.
Lemma d_A21_1069g : get_distance (set_distance A21_c A21_e A21_lo A21_hi sim_init (8454258816619625 / 140737488355328)) = (8454258816619625 / 140737488355328).
Proof. cbn [get_distance set_distance sim_distance]. first [reflexivity | lra]. Qed.
Lemma d_A21_1077g : get_distance (set_distance A21_c A21_e A21_lo A21_hi sim_init (2550225387390855 / 35184372088832)) = (2550225387390855 / 35184372088832).
Proof. cbn [get_distance set_distance sim_distance]. first [reflexivity | lra]. Qed.
Lemma d_A21_1085g : get_distance (set_distance A21_c A21_e A21_lo A21_hi sim_init (3404689076904849 / 281474976710656)) = (3404689076904849 / 281474976710656).
Proof. cbn [get_distance set_distance sim_distance]. first [reflexivity | lra]. Qed.
Lemma d_A21_1093g : get_distance (set_distance A21_c A21_e A21_lo A21_hi sim_init (4245092154954019 / 70368744177664)) = (4245092154954019 / 70368744177664).
Proof. cbn [get_distance set_distance sim_distance]. first [reflexivity | lra]. Qed.
Lemma d_A21_1101g : get_distance (set_distance A21_c A21_e A21_lo A21_hi sim_init (8121471804736457 / 140737488355328)) = (8121471804736457 / 140737488355328).
Proof. cbn [get_distance set_distance sim_distance]. first [reflexivity | lra]. Qed.
Lemma d_A21_1109g : get_distance (set_distance A21_c A21_e A21_lo A21_hi sim_init (3231503839827901 / 1125899906842624)) = (3231503839827901 / 1125899906842624).
Proof. cbn [get_distance set_distance sim_distance]. first [reflexivity | lra]. Qed.
Lemma d_A21_1117g : get_distance (set_distance A21_c A21_e A21_lo A21_hi sim_init (2381102989813211 / 70368744177664)) = (2381102989813211 / 70368744177664).
Proof. cbn [get_distance set_distance sim_distance]. first [reflexivity | lra]. Qed.
Lemma d_A21_1125g : get_distance (set_distance A21_c A21_e A21_lo A21_hi sim_init (343747704387317 / 8796093022208)) = (343747704387317 / 8796093022208).
Proof. cbn [get_distance set_distance sim_distance]. first [reflexivity | lra]. Qed.
Lemma d_A21_1133g : get_distance (set_distance A21_c A21_e A21_lo A21_hi sim_init (2465520995030541 / 35184372088832)) = (2465520995030541 / 35184372088832).
Proof. cbn [get_distance set_distance sim_distance]. first [reflexivity | lra]. Qed.
Lemma d_A21_1141g : get_distance (set_distance A21_c A21_e A21_lo A21_hi sim_init (702349378783485 / 17592186044416)) = (702349378783485 / 17592186044416).
Proof. cbn [get_distance set_distance sim_distance]. first [reflexivity | lra]. Qed.
Lemma d_A21_1149g : get_distance (set_distance A21_c A21_e A21_lo A21_hi sim_init (2617286084763553 / 137438953472)) = (2617286084763553 / 137438953472).
Proof. cbn [get_distance set_distance sim_distance]. first [reflexivity | lra]. Qed.
Lemma d_A21_1157g : get_distance (set_distance A21_c A21_e A21_lo A21_hi sim_init (1399973153103221 / 17592186044416)) = (1399973153103221 / 17592186044416).
Proof. cbn [get_distance set_distance sim_distance]. first [reflexivity | lra]. Qed.
Lemma d_A21_1165g : get_distance (set_distance A21_c A21_e A21_lo A21_hi sim_init (122 / 1)) = (122 / 1).
Proof. cbn [get_distance set_distance sim_distance]. first [reflexivity | lra]. Qed.
Lemma d_A21_1173g : get_distance (set_distance A21_c A21_e A21_lo A21_hi sim_init (3060770201820825 / 70368744177664)) = (3060770201820825 / 70368744177664).
Proof. cbn [get_distance set_distance sim_distance]. first [reflexivity | lra]. Qed.
Lemma d_A21_1181g : get_distance (set_distance A21_c A21_e A21_lo A21_hi sim_init (2477396666030329 / 70368744177664)) = (2477396666030329 / 70368744177664).
Proof. cbn [get_distance set_distance sim_distance]. first [reflexivity | lra]. Qed.
Lemma d_A21_1189g : get_distance (set_distance A21_c A21_e A21_lo A21_hi sim_init (4367703658935779 / 70368744177664)) = (4367703658935779 / 70368744177664).
Proof. cbn [get_distance set_distance sim_distance]. first [reflexivity | lra]. Qed.
Lemma d_A21_1197g : get_distance (set_distance A21_c A21_e A21_lo A21_hi sim_init (2489384924749623 / 35184372088832)) = (2489384924749623 / 35184372088832).
Proof. cbn [get_distance set_distance sim_distance]. first [reflexivity | lra]. Qed.
Lemma d_A21_1205g : get_distance (set_distance A21_c A21_e A21_lo A21_hi sim_init (4779806932377633 / 288230376151711744)) = (4779806932377633 / 288230376151711744).
Proof. cbn [get_distance set_distance sim_distance]. first [reflexivity | lra]. Qed.
Lemma d_A21_1213g : get_distance (set_distance A21_c A21_e A21_lo A21_hi sim_init (87 / 1)) = (87 / 1).
Proof. cbn [get_distance set_distance sim_distance]. first [reflexivity | lra]. Qed.
Lemma d_A21_1221g : get_distance (set_distance A21_c A21_e A21_lo A21_hi sim_init (4131159345003011 / 140737488355328)) = (4131159345003011 / 140737488355328).
Proof. cbn [get_distance set_distance sim_distance]. first [reflexivity | lra]. Qed.
Lemma d_A21_1229g : get_distance (set_distance A21_c A21_e A21_lo A21_hi sim_init (2674260247227971 / 140737488355328)) = (2674260247227971 / 140737488355328).
Proof. cbn [get_distance set_distance sim_distance]. first [reflexivity | lra]. Qed.
Lemma d_A21_1237g : get_distance (set_distance A21_c A21_e A21_lo A21_hi sim_init (3982847859477137 / 17592186044416)) = (3982847859477137 / 17592186044416).
Proof. cbn [get_distance set_distance sim_distance]. first [reflexivity | lra]. Qed.
Lemma d_A21_1245g : get_distance (set_distance A21_c A21_e A21_lo A21_hi sim_init (3276274656305397 / 70368744177664)) = (3276274656305397 / 70368744177664).
Proof. cbn [get_distance set_distance sim_distance]. first [reflexivity | lra]. Qed.
Lemma d_A21_1253g : get_distance (set_distance A21_c A21_e A21_lo A21_hi sim_init (975346136621525 / 70368744177664)) = (975346136621525 / 70368744177664).
Proof. cbn [get_distance set_distance sim_distance]. first [reflexivity | lra]. Qed.
Lemma d_A21_1261g : get_distance (set_distance A21_c A21_e A21_lo A21_hi sim_init (3231565397249539 / 17592186044416)) = (3231565397249539 / 17592186044416).
Proof. cbn [get_distance set_distance sim_distance]. first [reflexivity | lra]. Qed.
Lemma d_A21_1269g : get_distance (set_distance A21_c A21_e A21_lo A21_hi sim_init (1498878938809255 / 35184372088832)) = (1498878938809255 / 35184372088832).
Proof. cbn [get_distance set_distance sim_distance]. first [reflexivity | lra]. Qed.
Lemma d_A21_1277g : get_distance (set_distance A21_c A21_e A21_lo A21_hi sim_init (4379458357632709 / 140737488355328)) = (4379458357632709 / 140737488355328).
Proof. cbn [get_distance set_distance sim_distance]. first [reflexivity | lra]. Qed.
Lemma d_A21_1285g : get_distance (set_distance A21_c A21_e A21_lo A21_hi sim_init (8991069592710877 / 562949953421312)) = (8991069592710877 / 562949953421312).
Proof. cbn [get_distance set_distance sim_distance]. first [reflexivity | lra]. Qed.
Lemma d_A21_1293g : get_distance (set_distance A21_c A21_e A21_lo A21_hi sim_init (7323171676073215 / 281474976710656)) = (7323171676073215 / 281474976710656).
Proof. cbn [get_distance set_distance sim_distance]. first [reflexivity | lra]. Qed.
Lemma d_A21_1301g : get_distance (set_distance A21_c A21_e A21_lo A21_hi sim_init (1541831378888581 / 35184372088832)) = (1541831378888581 / 35184372088832).
Proof. cbn [get_distance set_distance sim_distance]. first [reflexivity | lra]. Qed.
Lemma d_A21_1309g : get_distance (set_distance A21_c A21_e A21_lo A21_hi sim_init (834058363335471 / 35184372088832)) = (834058363335471 / 35184372088832).
Proof. cbn [get_distance set_distance sim_distance]. first [reflexivity | lra]. Qed.
Lemma d_A21_1317g : get_distance (set_distance A21_c A21_e A21_lo A21_hi sim_init (1692002098391975 / 70368744177664)) = (1692002098391975 / 70368744177664).
Proof. cbn [get_distance set_distance sim_distance]. first [reflexivity | lra]. Qed.
Lemma d_A21_1325g : get_distance (set_distance A21_c A21_e A21_lo A21_hi sim_init (298626619442571 / 4398046511104)) = (298626619442571 / 4398046511104).
Proof. cbn [get_distance set_distance sim_distance]. first [reflexivity | lra]. Qed.
Lemma r_A41_847 : rio_reads A41_c A41_e A41_lo A41_hi floor_volts ctol (Build_rio (Fin ((-1) / 1)) (Fin (5 / 1)) (Fin (3715469692580659 / 1125899906842624)) (Fin (6 / 1)) (Fin (12 / 1)) true true true ((Fin (0 / 1)) :: (Fin (0 / 1)) :: (Fin (0 / 1)) :: (Fin (0 / 1)) :: (Fin (27 / 4)) :: (Fin (0 / 1)) :: nil)) (9 / 2).
Proof. apply (A41_rio_fin _ ((-1) / 1)); [reflexivity | apply (A41_q_floor (-1) 1 9 2); vm_compute; reflexivity]. Qed.
Lemma r_A41_885 : rio_distance_opt A41_c A41_e A41_lo A41_hi floor_volts (Build_rio PInf (Fin (5 / 1)) (Fin (3715469692580659 / 1125899906842624)) (Fin (6 / 1)) PInf true true true ((Fin (0 / 1)) :: (Fin (0 / 1)) :: (Fin (0 / 1)) :: (Fin (0 / 1)) :: (Fin (27 / 4)) :: (Fin (45 / 1)) :: nil)) = Some (9 / 2).
Proof. apply (A41_rio_x _ PInf); [reflexivity | apply (corr_v_pinf _ _ _ _ _ A41_admissible); unfold A41_lo; lra]. Qed.
Lemma d_A41_1334g : get_distance (set_distance A41_c A41_e A41_lo A41_hi sim_init ((-5) / 1)) = ((-5) / 1).
Proof. cbn [get_distance set_distance sim_distance]. first [reflexivity | lra]. Qed.
Lemma d_A41_1342g : get_distance (set_distance A41_c A41_e A41_lo A41_hi sim_init (2 / 1)) = (2 / 1).
Proof. cbn [get_distance set_distance sim_distance]. first [reflexivity | lra]. Qed.
Lemma d_A41_1350g : get_distance (set_distance A41_c A41_e A41_lo A41_hi sim_init (1000000000000000052504760255204420248704468581108159154915854115511802457988908195786371375080447864043704443832883878176942523235360430575644792184786706982848387200926575803737830233794788090059368953234970799945081119038967640880074652742780142494579258788820056842838115669472196386865459400540160 / 1)) = (1000000000000000052504760255204420248704468581108159154915854115511802457988908195786371375080447864043704443832883878176942523235360430575644792184786706982848387200926575803737830233794788090059368953234970799945081119038967640880074652742780142494579258788820056842838115669472196386865459400540160 / 1).
Proof. cbn [get_distance set_distance sim_distance]. first [reflexivity | lra]. Qed.
Lemma d_A41_1358g : get_distance (set_distance A41_c A41_e A41_lo A41_hi sim_init (6032057205060441 / 6032057205060440848842124543157735677050252251748505781796615064961622344493727293370973578138265743708225425014400837164813540499979063179105919597766951022193355091707896034850684039059079180396788349106095584290087446076413771468940477241550670753145517602931224392424029547429993824129889235158145614364972941312)) = (6032057205060441 / 6032057205060440848842124543157735677050252251748505781796615064961622344493727293370973578138265743708225425014400837164813540499979063179105919597766951022193355091707896034850684039059079180396788349106095584290087446076413771468940477241550670753145517602931224392424029547429993824129889235158145614364972941312).
Proof. cbn [get_distance set_distance sim_distance]. first [reflexivity | lra]. Qed.
Lemma d_A41_1366g : get_distance (set_distance A41_c A41_e A41_lo A41_hi sim_init (60 / 1)) = (60 / 1).
Proof. cbn [get_distance set_distance sim_distance]. first [reflexivity | lra]. Qed.
Lemma d_A41_1375g : get_distance (set_distance A41_c A41_e A41_lo A41_hi sim_init (9 / 2)) = (9 / 2).
Proof. cbn [get_distance set_distance sim_distance]. first [reflexivity | lra]. Qed.
Lemma d_A41_1383g : get_distance (set_distance A41_c A41_e A41_lo A41_hi sim_init (1231453021877667 / 35184372088832)) = (1231453021877667 / 35184372088832).
Proof. cbn [get_distance set_distance sim_distance]. first [reflexivity | lra]. Qed.
Lemma d_A41_1391g : get_distance (set_distance A41_c A41_e A41_lo A41_hi sim_init (4363522865407385 / 281474976710656)) = (4363522865407385 / 281474976710656).
Proof. cbn [get_distance set_distance sim_distance]. first [reflexivity | lra]. Qed.
Lemma d_A41_1399g : get_distance (set_distance A41_c A41_e A41_lo A41_hi sim_init (7916798658209367 / 281474976710656)) = (7916798658209367 / 281474976710656).
Proof. cbn [get_distance set_distance sim_distance]. first [reflexivity | lra]. Qed.
Lemma d_A41_1407g : get_distance (set_distance A41_c A41_e A41_lo A41_hi sim_init (6698414135434303 / 1125899906842624)) = (6698414135434303 / 1125899906842624).
Proof. cbn [get_distance set_distance sim_distance]. first [reflexivity | lra]. Qed.
Lemma d_A41_1415g : get_distance (set_distance A41_c A41_e A41_lo A41_hi sim_init (5935108999885331 / 281474976710656)) = (5935108999885331 / 281474976710656).
Proof. cbn [get_distance set_distance sim_distance]. first [reflexivity | lra]. Qed.
Lemma d_A41_1423g : get_distance (set_distance A41_c A41_e A41_lo A41_hi sim_init (3825262453411151 / 140737488355328)) = (3825262453411151 / 140737488355328).
Proof. cbn [get_distance set_distance sim_distance]. first [reflexivity | lra]. Qed.
Lemma d_A41_1431g : get_distance (set_distance A41_c A41_e A41_lo A41_hi sim_init (5817140747175295 / 281474976710656)) = (5817140747175295 / 281474976710656).
Proof. cbn [get_distance set_distance sim_distance]. first [reflexivity | lra]. Qed.
Lemma d_A41_1439g : get_distance (set_distance A41_c A41_e A41_lo A41_hi sim_init (1875515429462095 / 562949953421312)) = (1875515429462095 / 562949953421312).
Proof. cbn [get_distance set_distance sim_distance]. first [reflexivity | lra]. Qed.
Lemma d_A41_1447g : get_distance (set_distance A41_c A41_e A41_lo A41_hi sim_init (2144917022879055 / 562949953421312)) = (2144917022879055 / 562949953421312).
Proof. cbn [get_distance set_distance sim_distance]. first [reflexivity | lra]. Qed.
Lemma d_A41_1455g : get_distance (set_distance A41_c A41_e A41_lo A41_hi sim_init (86372862150949 / 2251799813685248)) = (86372862150949 / 2251799813685248).
Proof. cbn [get_distance set_distance sim_distance]. first [reflexivity | lra]. Qed.
Lemma d_A41_1463g : get_distance (set_distance A41_c A41_e A41_lo A41_hi sim_init (1358315637239487 / 140737488355328)) = (1358315637239487 / 140737488355328).
Proof. cbn [get_distance set_distance sim_distance]. first [reflexivity | lra]. Qed.
Lemma d_A41_1471g : get_distance (set_distance A41_c A41_e A41_lo A41_hi sim_init ((-820287751530233) / 562949953421312)) = ((-820287751530233) / 562949953421312).
Proof. cbn [get_distance set_distance sim_distance]. first [reflexivity | lra]. Qed.
Lemma d_A41_1479g : get_distance (set_distance A41_c A41_e A41_lo A41_hi sim_init (1193555884030629 / 35184372088832)) = (1193555884030629 / 35184372088832).
Proof. cbn [get_distance set_distance sim_distance]. first [reflexivity | lra]. Qed.
Lemma d_A41_1487g : get_distance (set_distance A41_c A41_e A41_lo A41_hi sim_init (1141322332104161 / 70368744177664)) = (1141322332104161 / 70368744177664).
Proof. cbn [get_distance set_distance sim_distance]. first [reflexivity | lra]. Qed.
Lemma d_A41_1495g : get_distance (set_distance A41_c A41_e A41_lo A41_hi sim_init (8902238337713825 / 281474976710656)) = (8902238337713825 / 281474976710656).
Proof. cbn [get_distance set_distance sim_distance]. first [reflexivity | lra]. Qed.
Lemma d_A41_1503g : get_distance (set_distance A41_c A41_e A41_lo A41_hi sim_init (3854776784650923 / 140737488355328)) = (3854776784650923 / 140737488355328).
Proof. cbn [get_distance set_distance sim_distance]. first [reflexivity | lra]. Qed.
Lemma d_A41_1511g : get_distance (set_distance A41_c A41_e A41_lo A41_hi sim_init (1562768085620347 / 281474976710656)) = (1562768085620347 / 281474976710656).
Proof. cbn [get_distance set_distance sim_distance]. first [reflexivity | lra]. Qed.
Lemma d_A41_1519g : get_distance (set_distance A41_c A41_e A41_lo A41_hi sim_init (1395845547769351 / 140737488355328)) = (1395845547769351 / 140737488355328).
Proof. cbn [get_distance set_distance sim_distance]. first [reflexivity | lra]. Qed.
Lemma d_A41_1527g : get_distance (set_distance A41_c A41_e A41_lo A41_hi sim_init (3814856147815671 / 70368744177664)) = (3814856147815671 / 70368744177664).
Proof. cbn [get_distance set_distance sim_distance]. first [reflexivity | lra]. Qed.
Lemma d_A41_1535g : get_distance (set_distance A41_c A41_e A41_lo A41_hi sim_init (2826080585634263 / 140737488355328)) = (2826080585634263 / 140737488355328).
Proof. cbn [get_distance set_distance sim_distance]. first [reflexivity | lra]. Qed.
Lemma d_A41_1543g : get_distance (set_distance A41_c A41_e A41_lo A41_hi sim_init (278339882788499 / 8796093022208)) = (278339882788499 / 8796093022208).
Proof. cbn [get_distance set_distance sim_distance]. first [reflexivity | lra]. Qed.
Lemma d_A41_1551g : get_distance (set_distance A41_c A41_e A41_lo A41_hi sim_init (1556068728951251 / 70368744177664)) = (1556068728951251 / 70368744177664).
Proof. cbn [get_distance set_distance sim_distance]. first [reflexivity | lra]. Qed.
Lemma d_A41_1559g : get_distance (set_distance A41_c A41_e A41_lo A41_hi sim_init (6421163796444195 / 1125899906842624)) = (6421163796444195 / 1125899906842624).
Proof. cbn [get_distance set_distance sim_distance]. first [reflexivity | lra]. Qed.
Lemma d_A41_1567g : get_distance (set_distance A41_c A41_e A41_lo A41_hi sim_init (4647968793921923 / 1125899906842624)) = (4647968793921923 / 1125899906842624).
Proof. cbn [get_distance set_distance sim_distance]. first [reflexivity | lra]. Qed.
Lemma d_A41_1575g : get_distance (set_distance A41_c A41_e A41_lo A41_hi sim_init (4087591700920437 / 140737488355328)) = (4087591700920437 / 140737488355328).
Proof. cbn [get_distance set_distance sim_distance]. first [reflexivity | lra]. Qed.
Lemma d_A41_1583g : get_distance (set_distance A41_c A41_e A41_lo A41_hi sim_init (943851527737471 / 1125899906842624)) = (943851527737471 / 1125899906842624).
Proof. cbn [get_distance set_distance sim_distance]. first [reflexivity | lra]. Qed.
Lemma d_A41_1591g : get_distance (set_distance A41_c A41_e A41_lo A41_hi sim_init (3965595498400533 / 281474976710656)) = (3965595498400533 / 281474976710656).
Proof. cbn [get_distance set_distance sim_distance]. first [reflexivity | lra]. Qed.
Lemma d_A41_1599g : get_distance (set_distance A41_c A41_e A41_lo A41_hi sim_init (7 / 1)) = (7 / 1).
Proof. cbn [get_distance set_distance sim_distance]. first [reflexivity | lra]. Qed.
Lemma d_A41_1607g : get_distance (set_distance A41_c A41_e A41_lo A41_hi sim_init (19 / 1)) = (19 / 1).
Proof. cbn [get_distance set_distance sim_distance]. first [reflexivity | lra]. Qed.
Lemma d_A41_1615g : get_distance (set_distance A41_c A41_e A41_lo A41_hi sim_init (681661593174141 / 35184372088832)) = (681661593174141 / 35184372088832).
Proof. cbn [get_distance set_distance sim_distance]. first [reflexivity | lra]. Qed.
Lemma d_A41_1623g : get_distance (set_distance A41_c A41_e A41_lo A41_hi sim_init ((-859948306407849) / 562949953421312)) = ((-859948306407849) / 562949953421312).
Proof. cbn [get_distance set_distance sim_distance]. first [reflexivity | lra]. Qed.
Lemma d_A41_1631g : get_distance (set_distance A41_c A41_e A41_lo A41_hi sim_init (7464692899719775 / 281474976710656)) = (7464692899719775 / 281474976710656).
Proof. cbn [get_distance set_distance sim_distance]. first [reflexivity | lra]. Qed.
Lemma d_A41_1639g : get_distance (set_distance A41_c A41_e A41_lo A41_hi sim_init (1833245158310377 / 70368744177664)) = (1833245158310377 / 70368744177664).
Proof. cbn [get_distance set_distance sim_distance]. first [reflexivity | lra]. Qed.
Lemma d_A41_1647g : get_distance (set_distance A41_c A41_e A41_lo A41_hi sim_init (1503984349596377 / 140737488355328)) = (1503984349596377 / 140737488355328).
Proof. cbn [get_distance set_distance sim_distance]. first [reflexivity | lra]. Qed.
Lemma d_A41_1655g : get_distance (set_distance A41_c A41_e A41_lo A41_hi sim_init (4299421311940667 / 1125899906842624)) = (4299421311940667 / 1125899906842624).
Proof. cbn [get_distance set_distance sim_distance]. first [reflexivity | lra]. Qed.
Lemma d_A41_1663g : get_distance (set_distance A41_c A41_e A41_lo A41_hi sim_init (4794865447515157 / 140737488355328)) = (4794865447515157 / 140737488355328).
Proof. cbn [get_distance set_distance sim_distance]. first [reflexivity | lra]. Qed.
Lemma d_A41_1671g : get_distance (set_distance A41_c A41_e A41_lo A41_hi sim_init (32 / 1)) = (32 / 1).
Proof. cbn [get_distance set_distance sim_distance]. first [reflexivity | lra]. Qed.
Lemma d_A41_1679g : get_distance (set_distance A41_c A41_e A41_lo A41_hi sim_init (8256667487303115 / 281474976710656)) = (8256667487303115 / 281474976710656).
Proof. cbn [get_distance set_distance sim_distance]. first [reflexivity | lra]. Qed.
Lemma d_A41_1687g : get_distance (set_distance A41_c A41_e A41_lo A41_hi sim_init (1136553612039411 / 35184372088832)) = (1136553612039411 / 35184372088832).
Proof. cbn [get_distance set_distance sim_distance]. first [reflexivity | lra]. Qed.
Lemma d_A41_1695g : get_distance (set_distance A41_c A41_e A41_lo A41_hi sim_init (5144056408608541 / 281474976710656)) = (5144056408608541 / 281474976710656).
Proof. cbn [get_distance set_distance sim_distance]. first [reflexivity | lra]. Qed.
Lemma d_A41_1703g : get_distance (set_distance A41_c A41_e A41_lo A41_hi sim_init (6050210959804233 / 281474976710656)) = (6050210959804233 / 281474976710656).
Proof. cbn [get_distance set_distance sim_distance]. first [reflexivity | lra]. Qed.
Lemma d_A41_1711g : get_distance (set_distance A41_c A41_e A41_lo A41_hi sim_init (375686832442591 / 17592186044416)) = (375686832442591 / 17592186044416).
Proof. cbn [get_distance set_distance sim_distance]. first [reflexivity | lra]. Qed.
Lemma d_A41_1719g : get_distance (set_distance A41_c A41_e A41_lo A41_hi sim_init (2502754996758091 / 1125899906842624)) = (2502754996758091 / 1125899906842624).
Proof. cbn [get_distance set_distance sim_distance]. first [reflexivity | lra]. Qed.
Lemma d_A41_1727g : get_distance (set_distance A41_c A41_e A41_lo A41_hi sim_init (323571018755525 / 4398046511104)) = (323571018755525 / 4398046511104).
Proof. cbn [get_distance set_distance sim_distance]. first [reflexivity | lra]. Qed.
Lemma d_A41_1735g : get_distance (set_distance A41_c A41_e A41_lo A41_hi sim_init (4281055358535371 / 281474976710656)) = (4281055358535371 / 281474976710656).
Proof. cbn [get_distance set_distance sim_distance]. first [reflexivity | lra]. Qed.
Lemma d_A41_1743g : get_distance (set_distance A41_c A41_e A41_lo A41_hi sim_init (301224855275509 / 2251799813685248)) = (301224855275509 / 2251799813685248).
Proof. cbn [get_distance set_distance sim_distance]. first [reflexivity | lra]. Qed.
Lemma d_A41_1751g : get_distance (set_distance A41_c A41_e A41_lo A41_hi sim_init (2288488094939117 / 140737488355328)) = (2288488094939117 / 140737488355328).
Proof. cbn [get_distance set_distance sim_distance]. first [reflexivity | lra]. Qed.
Lemma d_A41_1759g : get_distance (set_distance A41_c A41_e A41_lo A41_hi sim_init (6845603004857965 / 281474976710656)) = (6845603004857965 / 281474976710656).
Proof. cbn [get_distance set_distance sim_distance]. first [reflexivity | lra]. Qed.
Lemma d_A41_1767g : get_distance (set_distance A41_c A41_e A41_lo A41_hi sim_init (6021120246977077 / 281474976710656)) = (6021120246977077 / 281474976710656).
Proof. cbn [get_distance set_distance sim_distance]. first [reflexivity | lra]. Qed.
Lemma d_A41_1775g : get_distance (set_distance A41_c A41_e A41_lo A41_hi sim_init (5227235278867067 / 281474976710656)) = (5227235278867067 / 281474976710656).
Proof. cbn [get_distance set_distance sim_distance]. first [reflexivity | lra]. Qed.
Lemma d_A41_1783g : get_distance (set_distance A41_c A41_e A41_lo A41_hi sim_init (4275219667681999 / 70368744177664)) = (4275219667681999 / 70368744177664).
Proof. cbn [get_distance set_distance sim_distance]. first [reflexivity | lra]. Qed.
Lemma d_A41_1791g : get_distance (set_distance A41_c A41_e A41_lo A41_hi sim_init (3 / 1)) = (3 / 1).
Proof. cbn [get_distance set_distance sim_distance]. first [reflexivity | lra]. Qed.
Lemma d_A41_1799g : get_distance (set_distance A41_c A41_e A41_lo A41_hi sim_init (5287300726498305 / 281474976710656)) = (5287300726498305 / 281474976710656).
Proof. cbn [get_distance set_distance sim_distance]. first [reflexivity | lra]. Qed.
Lemma d_A41_1807g : get_distance (set_distance A41_c A41_e A41_lo A41_hi sim_init (2263028022524341 / 140737488355328)) = (2263028022524341 / 140737488355328).
Proof. cbn [get_distance set_distance sim_distance]. first [reflexivity | lra]. Qed.
Lemma d_A41_1815g : get_distance (set_distance A41_c A41_e A41_lo A41_hi sim_init (1898705987129869 / 35184372088832)) = (1898705987129869 / 35184372088832).
Proof. cbn [get_distance set_distance sim_distance]. first [reflexivity | lra]. Qed.
Lemma d_A41_1823g : get_distance (set_distance A41_c A41_e A41_lo A41_hi sim_init (523960724962109 / 2251799813685248)) = (523960724962109 / 2251799813685248).
Proof. cbn [get_distance set_distance sim_distance]. first [reflexivity | lra]. Qed.
Lemma d_A41_1831g : get_distance (set_distance A41_c A41_e A41_lo A41_hi sim_init (2578764303429171 / 140737488355328)) = (2578764303429171 / 140737488355328).
Proof. cbn [get_distance set_distance sim_distance]. first [reflexivity | lra]. Qed.
Lemma d_A41_1839g : get_distance (set_distance A41_c A41_e A41_lo A41_hi sim_init (63 / 1)) = (63 / 1).
Proof. cbn [get_distance set_distance sim_distance]. first [reflexivity | lra]. Qed.
Lemma d_A41_1847g : get_distance (set_distance A41_c A41_e A41_lo A41_hi sim_init (578841243529709 / 17592186044416)) = (578841243529709 / 17592186044416).
Proof. cbn [get_distance set_distance sim_distance]. first [reflexivity | lra]. Qed.
Lemma d_A41_1855g : get_distance (set_distance A41_c A41_e A41_lo A41_hi sim_init (8482186170091501 / 562949953421312)) = (8482186170091501 / 562949953421312).
Proof. cbn [get_distance set_distance sim_distance]. first [reflexivity | lra]. Qed.
Lemma d_A41_1863g : get_distance (set_distance A41_c A41_e A41_lo A41_hi sim_init (6286579440088063 / 281474976710656)) = (6286579440088063 / 281474976710656).
Proof. cbn [get_distance set_distance sim_distance]. first [reflexivity | lra]. Qed.
Lemma d_A41_1871g : get_distance (set_distance A41_c A41_e A41_lo A41_hi sim_init (2341827269707047 / 70368744177664)) = (2341827269707047 / 70368744177664).
Proof. cbn [get_distance set_distance sim_distance]. first [reflexivity | lra]. Qed.
Lemma d_A41_1879g : get_distance (set_distance A41_c A41_e A41_lo A41_hi sim_init (5982419661447367 / 1125899906842624)) = (5982419661447367 / 1125899906842624).
Proof. cbn [get_distance set_distance sim_distance]. first [reflexivity | lra]. Qed.
Lemma d_A41_1887g : get_distance (set_distance A41_c A41_e A41_lo A41_hi sim_init ((-4) / 1)) = ((-4) / 1).
Proof. cbn [get_distance set_distance sim_distance]. first [reflexivity | lra]. Qed.
Lemma d_A41_1895g : get_distance (set_distance A41_c A41_e A41_lo A41_hi sim_init ((-5812117673990787) / 4503599627370496)) = ((-5812117673990787) / 4503599627370496).
Proof. cbn [get_distance set_distance sim_distance]. first [reflexivity | lra]. Qed.
Lemma d_A41_1903g : get_distance (set_distance A41_c A41_e A41_lo A41_hi sim_init (8585570718110081 / 281474976710656)) = (8585570718110081 / 281474976710656).
Proof. cbn [get_distance set_distance sim_distance]. first [reflexivity | lra]. Qed.
Lemma d_A41_1911g : get_distance (set_distance A41_c A41_e A41_lo A41_hi sim_init (7066428229227311 / 281474976710656)) = (7066428229227311 / 281474976710656).
Proof. cbn [get_distance set_distance sim_distance]. first [reflexivity | lra]. Qed.
Lemma d_A41_1919g : get_distance (set_distance A41_c A41_e A41_lo A41_hi sim_init (791714388370051 / 70368744177664)) = (791714388370051 / 70368744177664).
Proof. cbn [get_distance set_distance sim_distance]. first [reflexivity | lra]. Qed.
Lemma d_A41_1927g : get_distance (set_distance A41_c A41_e A41_lo A41_hi sim_init (3520374353468251 / 562949953421312)) = (3520374353468251 / 562949953421312).
Proof. cbn [get_distance set_distance sim_distance]. first [reflexivity | lra]. Qed.
Lemma d_A41_1935g : get_distance (set_distance A41_c A41_e A41_lo A41_hi sim_init (2387207659544285 / 140737488355328)) = (2387207659544285 / 140737488355328).
Proof. cbn [get_distance set_distance sim_distance]. first [reflexivity | lra]. Qed.
Lemma d_A41_1943g : get_distance (set_distance A41_c A41_e A41_lo A41_hi sim_init ((-87389835934433) / 281474976710656)) = ((-87389835934433) / 281474976710656).
Proof. cbn [get_distance set_distance sim_distance]. first [reflexivity | lra]. Qed.
Lemma d_A41_1951g : get_distance (set_distance A41_c A41_e A41_lo A41_hi sim_init (2400182516186265 / 70368744177664)) = (2400182516186265 / 70368744177664).
Proof. cbn [get_distance set_distance sim_distance]. first [reflexivity | lra]. Qed.
Lemma d_A41_1959g : get_distance (set_distance A41_c A41_e A41_lo A41_hi sim_init (1185984086905725 / 1125899906842624)) = (1185984086905725 / 1125899906842624).
Proof. cbn [get_distance set_distance sim_distance]. first [reflexivity | lra]. Qed.
Lemma d_A41_1967g : get_distance (set_distance A41_c A41_e A41_lo A41_hi sim_init (8053420196199343 / 281474976710656)) = (8053420196199343 / 281474976710656).
Proof. cbn [get_distance set_distance sim_distance]. first [reflexivity | lra]. Qed.
Lemma d_A41_1975g : get_distance (set_distance A41_c A41_e A41_lo A41_hi sim_init (74893763699447 / 8796093022208)) = (74893763699447 / 8796093022208).
Proof. cbn [get_distance set_distance sim_distance]. first [reflexivity | lra]. Qed.
Lemma d_A41_1983g : get_distance (set_distance A41_c A41_e A41_lo A41_hi sim_init (1220824122977081 / 35184372088832)) = (1220824122977081 / 35184372088832).
Proof. cbn [get_distance set_distance sim_distance]. first [reflexivity | lra]. Qed.
Lemma d_A41_1991g : get_distance (set_distance A41_c A41_e A41_lo A41_hi sim_init (596911625950791 / 17592186044416)) = (596911625950791 / 17592186044416).
Proof. cbn [get_distance set_distance sim_distance]. first [reflexivity | lra]. Qed.
Check d_A41_1991g.
