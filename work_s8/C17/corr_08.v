From Coq Require Import Reals Lra.
From Interval Require Import Tactic.
From RV Require Import IR.Model IR.Proofs.
Open Scope R_scope.
Lemma r_A02_11 : rio_reads A02_c A02_e A02_lo A02_hi floor_volts ctol (Build_rio (Fin (5559999489923579 / 4503599627370496)) (Fin (5629499534213121 / 1125899906842624)) (Fin (3715469692580659 / 1125899906842624)) (Fin (6 / 1)) (Fin (12 / 1)) true true true ((Fin (0 / 1)) :: (Fin (0 / 1)) :: (Fin (0 / 1)) :: (Fin (0 / 1)) :: (Fin (27 / 4)) :: (Fin (45 / 1)) :: nil)) (435215207548285 / 8796093022208).
Proof. apply (A02_rio_fin _ (5559999489923579 / 4503599627370496)); [reflexivity | apply (A02_q_mid 5559999489923579 4503599627370496 435215207548285 8796093022208); [vm_compute; reflexivity | unfold fr, close, ctol, A02_c, A02_e; interval with (i_prec 80)]]. Qed.
Lemma r_A02_44 : rio_reads A02_c A02_e A02_lo A02_hi floor_volts ctol (Build_rio (Fin (4154238436181269 / 9007199254740992)) (Fin (5 / 1)) (Fin (3715469692580659 / 1125899906842624)) (Fin (6 / 1)) (Fin (12 / 1)) true true true ((Fin (2 / 1)) :: (Fin (0 / 1)) :: (Fin (0 / 1)) :: (Fin (0 / 1)) :: (Fin (27 / 4)) :: (Fin (45 / 1)) :: nil)) (145 / 1).
Proof. apply (A02_rio_fin _ (4154238436181269 / 9007199254740992)); [reflexivity | apply (A02_q_hi 4154238436181269 9007199254740992 145 1); [vm_compute; reflexivity | unfold fr, ctol, A02_hi, A02_c, A02_e; interval with (i_prec 80)]]. Qed.
Lemma r_A02_60 : rio_reads A02_c A02_e A02_lo A02_hi floor_volts ctol (Build_rio (Fin (10395 / 4096)) (Fin (2589569785738035 / 562949953421312)) (Fin (3 / 1)) (Fin (11 / 2)) (Fin (21 / 2)) true true true ((Fin (3 / 2)) :: (Fin (3602879701896397 / 4503599627370496)) :: (Fin (2 / 1)) :: (Fin (90 / 1)) :: (Fin (27 / 4)) :: (Fin (70 / 1)) :: nil)) (1585087059818587 / 70368744177664).
Proof. apply (A02_rio_fin _ (10395 / 4096)); [reflexivity | apply (A02_q_mid 10395 4096 1585087059818587 70368744177664); [vm_compute; reflexivity | unfold fr, close, ctol, A02_c, A02_e; interval with (i_prec 80)]]. Qed.
Lemma r_A02_76 : rio_reads A02_c A02_e A02_lo A02_hi floor_volts ctol (Build_rio (Fin (45 / 256)) (Fin (5 / 1)) (Fin (1 / 1)) (Fin (6 / 1)) (Fin (12 / 1)) true false true ((Fin (2443 / 1024)) :: (Fin (149 / 128)) :: (Fin (431 / 512)) :: (Fin (162603 / 1024)) :: (Fin (981 / 256)) :: (Fin (41155 / 1024)) :: nil)) (145 / 1).
Proof. apply (A02_rio_fin _ (45 / 256)); [reflexivity | apply (A02_q_hi 45 256 145 1); [vm_compute; reflexivity | unfold fr, ctol, A02_hi, A02_c, A02_e; interval with (i_prec 80)]]. Qed.
Lemma r_A02_92 : rio_reads A02_c A02_e A02_lo A02_hi floor_volts ctol (Build_rio (Fin (125 / 256)) (Fin (2095 / 512)) (Fin (3715469692580659 / 1125899906842624)) (Fin (103 / 8)) (Fin (3967 / 512)) true true true ((Fin (1415 / 1024)) :: (Fin (897 / 512)) :: (Fin (971 / 1024)) :: (Fin (101171 / 512)) :: (Fin (7901 / 1024)) :: (Fin (45385 / 1024)) :: nil)) (4793698512318125 / 35184372088832).
Proof. apply (A02_rio_fin _ (125 / 256)); [reflexivity | apply (A02_q_mid 125 256 4793698512318125 35184372088832); [vm_compute; reflexivity | unfold fr, close, ctol, A02_c, A02_e; interval with (i_prec 80)]]. Qed.
Lemma r_A02_108 : rio_reads A02_c A02_e A02_lo A02_hi floor_volts ctol (Build_rio (Fin (205 / 256)) (Fin (4823 / 1024)) (Fin (3715469692580659 / 1125899906842624)) (Fin (321 / 32)) (Fin (5902958103587057 / 590295810358705651712)) false true true ((Fin (1895 / 1024)) :: (Fin (997 / 512)) :: (Fin (2411 / 1024)) :: (Fin (869 / 128)) :: (Fin (8921 / 1024)) :: (Fin ((-4521) / 1024)) :: nil)) (698234402974433 / 8796093022208).
Proof. apply (A02_rio_fin _ (205 / 256)); [reflexivity | apply (A02_q_mid 205 256 698234402974433 8796093022208); [vm_compute; reflexivity | unfold fr, close, ctol, A02_c, A02_e; interval with (i_prec 80)]]. Qed.
Lemma r_A02_124 : rio_reads A02_c A02_e A02_lo A02_hi floor_volts ctol (Build_rio (Fin (285 / 256)) (Fin (5 / 1)) (Fin (3427 / 1024)) (Fin (5205 / 1024)) (Fin (3243 / 256)) true false true ((Fin (1627 / 1024)) :: (Fin (815 / 512)) :: (Fin (473 / 256)) :: (Fin (4865 / 1024)) :: (Fin (973 / 128)) :: (Fin (23933 / 512)) :: nil)) (7795892737488157 / 140737488355328).
Proof. apply (A02_rio_fin _ (285 / 256)); [reflexivity | apply (A02_q_mid 285 256 7795892737488157 140737488355328); [vm_compute; reflexivity | unfold fr, close, ctol, A02_c, A02_e; interval with (i_prec 80)]]. Qed.
Lemma r_A02_140 : rio_reads A02_c A02_e A02_lo A02_hi floor_volts ctol (Build_rio (Fin (365 / 256)) (Fin (2795 / 512)) (Fin (1441 / 512)) (Fin (5959 / 1024)) (Fin (5301 / 512)) true true true ((Fin (1127 / 512)) :: (Fin (9 / 32)) :: (Fin (2571 / 1024)) :: (Fin (114005 / 1024)) :: (Fin (815 / 128)) :: (Fin (42481 / 512)) :: nil)) (185944208388009 / 4398046511104).
Proof. apply (A02_rio_fin _ (365 / 256)); [reflexivity | apply (A02_q_mid 365 256 185944208388009 4398046511104); [vm_compute; reflexivity | unfold fr, close, ctol, A02_c, A02_e; interval with (i_prec 80)]]. Qed.
Lemma r_A02_156 : rio_reads A02_c A02_e A02_lo A02_hi floor_volts ctol (Build_rio (Fin (445 / 256)) (Fin (2253 / 512)) (Fin (2321 / 1024)) (Fin ((-12) / 1)) (Fin (12 / 1)) true true true ((Fin (895 / 512)) :: (Fin (119 / 1024)) :: (Fin (71 / 64)) :: (Fin (9651 / 128)) :: (Fin (4553 / 512)) :: (Fin (9353 / 256)) :: nil)) (4792336557838381 / 140737488355328).
Proof. apply (A02_rio_fin _ (445 / 256)); [reflexivity | apply (A02_q_mid 445 256 4792336557838381 140737488355328); [vm_compute; reflexivity | unfold fr, close, ctol, A02_c, A02_e; interval with (i_prec 80)]]. Qed.
Lemma r_A02_172 : rio_reads A02_c A02_e A02_lo A02_hi floor_volts ctol (Build_rio (Fin (525 / 256)) NInf (Fin ((-1) / 1)) (Fin (5902958103587057 / 590295810358705651712)) (Fin (5695 / 512)) true false false ((Fin (97 / 64)) :: (Fin (1 / 32)) :: (Fin (567 / 1024)) :: (Fin (19785 / 256)) :: (Fin (857 / 256)) :: (Fin ((-5353) / 1024)) :: nil)) (8001519695318081 / 281474976710656).
Proof. apply (A02_rio_fin _ (525 / 256)); [reflexivity | apply (A02_q_mid 525 256 8001519695318081 281474976710656); [vm_compute; reflexivity | unfold fr, close, ctol, A02_c, A02_e; interval with (i_prec 80)]]. Qed.
Lemma r_A02_188 : rio_reads A02_c A02_e A02_lo A02_hi floor_volts ctol (Build_rio (Fin (605 / 256)) (Fin (2099 / 512)) (Fin (417 / 256)) (Fin (1429 / 256)) (Fin (13115 / 1024)) false true true ((Fin (485 / 512)) :: (Fin (261 / 256)) :: (Fin (377 / 256)) :: (Fin (87201 / 512)) :: (Fin (1857 / 512)) :: (Fin (8951 / 512)) :: nil)) (6853455051092021 / 281474976710656).
Proof. apply (A02_rio_fin _ (605 / 256)); [reflexivity | apply (A02_q_mid 605 256 6853455051092021 281474976710656); [vm_compute; reflexivity | unfold fr, close, ctol, A02_c, A02_e; interval with (i_prec 80)]]. Qed.
Lemma r_A02_204 : rio_reads A02_c A02_e A02_lo A02_hi floor_volts ctol (Build_rio (Fin (345 / 128)) (Fin (1047 / 256)) (Fin (3203 / 1024)) (Fin (6353 / 1024)) (Fin (1679 / 128)) true false true ((Fin (719 / 256)) :: (Fin (105 / 64)) :: (Fin (2081 / 1024)) :: (Fin (2807 / 128)) :: (Fin (7735 / 1024)) :: (Fin ((-7801) / 1024)) :: nil)) (45 / 2).
Proof. apply (A02_rio_fin _ (345 / 128)); [reflexivity | apply (A02_q_lo 345 128 45 2); [vm_compute; reflexivity | unfold fr, ctol, A02_lo, A02_c, A02_e; interval with (i_prec 80)]]. Qed.
Lemma r_A02_220 : rio_reads A02_c A02_e A02_lo A02_hi floor_volts ctol (Build_rio (Fin (385 / 128)) (Fin (4561 / 1024)) (Fin (2867 / 1024)) (Fin (0 / 1)) (Fin (13 / 1)) true true false ((Fin (1275 / 512)) :: (Fin (47 / 64)) :: (Fin (69 / 128)) :: (Fin (55761 / 1024)) :: (Fin (575 / 128)) :: (Fin (55007 / 1024)) :: nil)) (45 / 2).
Proof. apply (A02_rio_fin _ (385 / 128)); [reflexivity | apply (A02_q_lo 385 128 45 2); [vm_compute; reflexivity | unfold fr, ctol, A02_lo, A02_c, A02_e; interval with (i_prec 80)]]. Qed.
Lemma r_A02_236 : rio_reads A02_c A02_e A02_lo A02_hi floor_volts ctol (Build_rio (Fin (425 / 128)) (Fin (5219 / 1024)) (Fin (1 / 202402253307310618352495346718917307049556649764142118356901358027430339567995346891960383701437124495187077864316811911389808737385793476867013399940738509921517424276566361364466907742093216341239767678472745068562007483424692698618103355649159556340810056512358769552333414615230502532186327508646006263307707741093494784)) (Fin (3303 / 512)) (Fin (12103 / 1024)) true true false ((Fin (1323 / 512)) :: (Fin (1097 / 1024)) :: (Fin (1821 / 1024)) :: (Fin (599 / 32)) :: (Fin (8233 / 1024)) :: (Fin (5257 / 512)) :: nil)) (45 / 2).
Proof. apply (A02_rio_fin _ (425 / 128)); [reflexivity | apply (A02_q_lo 425 128 45 2); [vm_compute; reflexivity | unfold fr, ctol, A02_lo, A02_c, A02_e; interval with (i_prec 80)]]. Qed.
Lemma r_A02_252 : rio_reads A02_c A02_e A02_lo A02_hi floor_volts ctol (Build_rio (Fin (465 / 128)) (Fin (5 / 1)) (Fin (3545 / 1024)) (Fin (6 / 1)) (Fin (12433 / 1024)) false false false ((Fin (1445 / 1024)) :: (Fin (629 / 1024)) :: (Fin (1159 / 512)) :: (Fin (1265 / 128)) :: (Fin (2681 / 512)) :: (Fin (84681 / 1024)) :: nil)) (45 / 2).
Proof. apply (A02_rio_fin _ (465 / 128)); [reflexivity | apply (A02_q_lo 465 128 45 2); [vm_compute; reflexivity | unfold fr, ctol, A02_lo, A02_c, A02_e; interval with (i_prec 80)]]. Qed.
Lemma r_A02_268 : rio_reads A02_c A02_e A02_lo A02_hi floor_volts ctol (Build_rio (Fin (505 / 128)) (Fin ((-1) / 1)) (Fin (3571 / 1024)) (Fin (777 / 128)) (Fin (5893 / 512)) true false true ((Fin (671 / 256)) :: (Fin (1197 / 1024)) :: (Fin (509 / 256)) :: (Fin (120 / 1)) :: (Fin (1547 / 256)) :: (Fin ((-675) / 64)) :: nil)) (45 / 2).
Proof. apply (A02_rio_fin _ (505 / 128)); [reflexivity | apply (A02_q_lo 505 128 45 2); [vm_compute; reflexivity | unfold fr, ctol, A02_lo, A02_c, A02_e; interval with (i_prec 80)]]. Qed.
Lemma r_A02_284 : rio_reads A02_c A02_e A02_lo A02_hi floor_volts ctol (Build_rio (Fin (545 / 128)) (Fin (4283 / 1024)) NInf (Fin (10945 / 1024)) (Fin (13071 / 1024)) true true true ((Fin (2933 / 1024)) :: (Fin (467 / 1024)) :: (Fin (1471 / 1024)) :: (Fin (405 / 512)) :: (Fin (8413 / 1024)) :: (Fin (30405 / 512)) :: nil)) (45 / 2).
Proof. apply (A02_rio_fin _ (545 / 128)); [reflexivity | apply (A02_q_lo 545 128 45 2); [vm_compute; reflexivity | unfold fr, ctol, A02_lo, A02_c, A02_e; interval with (i_prec 80)]]. Qed.
Lemma r_A02_300 : rio_reads A02_c A02_e A02_lo A02_hi floor_volts ctol (Build_rio (Fin (585 / 128)) (Fin (5209 / 1024)) (Fin (5902958103587057 / 590295810358705651712)) (Fin (100000000000000001097906362944045541740492309677311846336810682903157585404911491537163328978494688899061249669721172515611590283743140088328307009198146046031271664502933027185697489699588559043338384466165001178426897626212945177628091195786707458122783970171784415105291802893207873272974885715430223118336 / 1)) (Fin (5657 / 512)) true false true ((Fin (591 / 512)) :: (Fin (1759 / 1024)) :: (Fin (1053 / 512)) :: (Fin (20703 / 256)) :: (Fin (2679 / 512)) :: (Fin (77375 / 1024)) :: nil)) (45 / 2).
Proof. apply (A02_rio_fin _ (585 / 128)); [reflexivity | apply (A02_q_lo 585 128 45 2); [vm_compute; reflexivity | unfold fr, ctol, A02_lo, A02_c, A02_e; interval with (i_prec 80)]]. Qed.
Lemma r_A02_316 : rio_reads A02_c A02_e A02_lo A02_hi floor_volts ctol (Build_rio (Fin (625 / 128)) (Fin (4925 / 1024)) (Fin (3715469692580659 / 1125899906842624)) (Fin (4801 / 512)) (Fin (1385 / 128)) false true false ((Fin (2269 / 1024)) :: (Fin (357 / 1024)) :: (Fin (17 / 32)) :: (Fin (164475 / 1024)) :: (Fin (5105 / 1024)) :: (Fin (23865 / 256)) :: nil)) (45 / 2).
Proof. apply (A02_rio_fin _ (625 / 128)); [reflexivity | apply (A02_q_lo 625 128 45 2); [vm_compute; reflexivity | unfold fr, ctol, A02_lo, A02_c, A02_e; interval with (i_prec 80)]]. Qed.
Lemma r_A02_332 : rio_reads A02_c A02_e A02_lo A02_hi floor_volts ctol (Build_rio (Fin (2124055191804645 / 9007199254740992)) (Fin (317 / 64)) (Fin (3325 / 1024)) (Fin (6557 / 1024)) (Fin (5371 / 512)) true true true ((Fin (523 / 1024)) :: (Fin (29 / 1024)) :: (Fin (77 / 1024)) :: (Fin (85455 / 512)) :: (Fin (2391 / 512)) :: (Fin (37147 / 512)) :: nil)) (145 / 1).
Proof. apply (A02_rio_fin _ (2124055191804645 / 9007199254740992)); [reflexivity | apply (A02_q_hi 2124055191804645 9007199254740992 145 1); [vm_compute; reflexivity | unfold fr, ctol, A02_hi, A02_c, A02_e; interval with (i_prec 80)]]. Qed.
Lemma r_A02_348 : rio_reads A02_c A02_e A02_lo A02_hi floor_volts ctol (Build_rio (Fin (564661479531785 / 281474976710656)) (Fin (1153 / 256)) (Fin (4661 / 1024)) (Fin (5081 / 1024)) (Fin (12 / 1)) false false false ((Fin (1607 / 1024)) :: (Fin (265 / 1024)) :: (Fin (275 / 256)) :: (Fin (199299 / 1024)) :: (Fin (1013 / 256)) :: (Fin ((-4591) / 1024)) :: nil)) (8196415687489461 / 281474976710656).
Proof. apply (A02_rio_fin _ (564661479531785 / 281474976710656)); [reflexivity | apply (A02_q_mid 564661479531785 281474976710656 8196415687489461 281474976710656); [vm_compute; reflexivity | unfold fr, close, ctol, A02_c, A02_e; interval with (i_prec 80)]]. Qed.
Lemma r_A02_364 : rio_reads A02_c A02_e A02_lo A02_hi floor_volts ctol (Build_rio (Fin (3118023592568859 / 1125899906842624)) (Fin (1089 / 256)) (Fin (3701 / 1024)) (Fin (109 / 32)) (Fin (1349 / 256)) true true false ((Fin (2039 / 1024)) :: (Fin (745 / 512)) :: (Fin (851 / 512)) :: (Fin (147581 / 1024)) :: (Fin (1707 / 256)) :: (Fin (81805 / 1024)) :: nil)) (45 / 2).
Proof. apply (A02_rio_fin _ (3118023592568859 / 1125899906842624)); [reflexivity | apply (A02_q_lo 3118023592568859 1125899906842624 45 2); [vm_compute; reflexivity | unfold fr, ctol, A02_lo, A02_c, A02_e; interval with (i_prec 80)]]. Qed.
Lemma r_A02_380 : rio_reads A02_c A02_e A02_lo A02_hi floor_volts ctol (Build_rio (Fin (5444312714247281 / 1125899906842624)) (Fin (1355 / 512)) (Fin (1665 / 512)) (Fin (6303 / 1024)) (Fin (5823 / 512)) false true true ((Fin (3009 / 1024)) :: (Fin (167 / 128)) :: (Fin (111 / 512)) :: (Fin (107687 / 1024)) :: (Fin (2131 / 512)) :: (Fin (16543 / 512)) :: nil)) (45 / 2).
Proof. apply (A02_rio_fin _ (5444312714247281 / 1125899906842624)); [reflexivity | apply (A02_q_lo 5444312714247281 1125899906842624 45 2); [vm_compute; reflexivity | unfold fr, ctol, A02_lo, A02_c, A02_e; interval with (i_prec 80)]]. Qed.
Lemma r_A02_399 : rio_reads A02_c A02_e A02_lo A02_hi floor_volts ctol (Build_rio (Fin (1378635831844775 / 576460752303423488)) (Fin (75 / 16)) (Fin (3713 / 1024)) (Fin (5157 / 1024)) (Fin (1253 / 128)) true true true ((Fin (431 / 512)) :: (Fin (1659 / 1024)) :: (Fin (199 / 1024)) :: (Fin (5941 / 512)) :: (Fin (4559 / 1024)) :: (Fin (7335 / 128)) :: nil)) (145 / 1).
Proof. apply (A02_rio_fin _ (1378635831844775 / 576460752303423488)); [reflexivity | apply (A02_q_hi 1378635831844775 576460752303423488 145 1); [vm_compute; reflexivity | unfold fr, ctol, A02_hi, A02_c, A02_e; interval with (i_prec 80)]]. Qed.
Lemma r_A02_418 : rio_reads A02_c A02_e A02_lo A02_hi floor_volts ctol (Build_rio (Fin (991859327832755 / 9007199254740992)) (Fin ((-1) / 1)) (Fin (3251 / 256)) (Fin (6729 / 1024)) (Fin (12 / 1)) true true true ((Fin (1039 / 1024)) :: (Fin (553 / 512)) :: (Fin (2449 / 1024)) :: (Fin (25403 / 256)) :: (Fin (2369 / 512)) :: (Fin ((-805) / 512)) :: nil)) (145 / 1).
Proof. apply (A02_rio_fin _ (991859327832755 / 9007199254740992)); [reflexivity | apply (A02_q_hi 991859327832755 9007199254740992 145 1); [vm_compute; reflexivity | unfold fr, ctol, A02_hi, A02_c, A02_e; interval with (i_prec 80)]]. Qed.
Lemma d_A02_7u : close ctol (357539307115111 / 140737488355328) (volts_A02 (5 / 1)).
Proof. apply (A02_q_volts_lo 5 1 357539307115111 140737488355328); [vm_compute; reflexivity | unfold fr, close, ctol, A02_lo, A02_hi, A02_c, A02_e; interval with (i_prec 80)]. Qed.
Lemma d_A02_15u : close ctol (1790398715945009 / 2251799813685248) (volts_A02 (80 / 1)).
Proof. apply (A02_q_volts_mid 80 1 1790398715945009 2251799813685248); [vm_compute; reflexivity | unfold fr, close, ctol, A02_lo, A02_hi, A02_c, A02_e; interval with (i_prec 80)]. Qed.
Lemma d_A02_23u : close ctol (357539307115111 / 140737488355328) (volts_A02 ((-5) / 1)).
Proof. apply (A02_q_volts_lo (-5) 1 357539307115111 140737488355328); [vm_compute; reflexivity | unfold fr, close, ctol, A02_lo, A02_hi, A02_c, A02_e; interval with (i_prec 80)]. Qed.
Lemma d_A02_31u : close ctol (1298617710960269 / 562949953421312) (volts_A02 (25 / 1)).
Proof. apply (A02_q_volts_mid 25 1 1298617710960269 562949953421312); [vm_compute; reflexivity | unfold fr, close, ctol, A02_lo, A02_hi, A02_c, A02_e; interval with (i_prec 80)]. Qed.
Lemma d_A02_39u : close ctol (8308476880671015 / 18014398509481984) (volts_A02 (1000000000000000052504760255204420248704468581108159154915854115511802457988908195786371375080447864043704443832883878176942523235360430575644792184786706982848387200926575803737830233794788090059368953234970799945081119038967640880074652742780142494579258788820056842838115669472196386865459400540160 / 1)).
Proof. apply (A02_q_volts_hi 1000000000000000052504760255204420248704468581108159154915854115511802457988908195786371375080447864043704443832883878176942523235360430575644792184786706982848387200926575803737830233794788090059368953234970799945081119038967640880074652742780142494579258788820056842838115669472196386865459400540160 1 8308476880671015 18014398509481984); [vm_compute; reflexivity | unfold fr, close, ctol, A02_lo, A02_hi, A02_c, A02_e; interval with (i_prec 80)]. Qed.
Lemma d_A02_47u : close ctol (8308476880671017 / 18014398509481984) (volts_A02 (5101733952880639 / 35184372088832)).
Proof. apply (A02_q_volts_mid 5101733952880639 35184372088832 8308476880671017 18014398509481984); [vm_compute; reflexivity | unfold fr, close, ctol, A02_lo, A02_hi, A02_c, A02_e; interval with (i_prec 80)]. Qed.
Lemma d_A02_55u : close ctol (357539307115111 / 140737488355328) (volts_A02 (22 / 1)).
Proof. apply (A02_q_volts_lo 22 1 357539307115111 140737488355328); [vm_compute; reflexivity | unfold fr, close, ctol, A02_lo, A02_hi, A02_c, A02_e; interval with (i_prec 80)]. Qed.
Lemma d_A02_66u : close ctol (1656010893210335 / 2251799813685248) (volts_A02 (766273723524341 / 8796093022208)).
Proof. apply (A02_q_volts_mid 766273723524341 8796093022208 1656010893210335 2251799813685248); [vm_compute; reflexivity | unfold fr, close, ctol, A02_lo, A02_hi, A02_c, A02_e; interval with (i_prec 80)]. Qed.
Lemma d_A02_79u : close ctol (2679794647325261 / 2251799813685248) (volts_A02 (3624132507725329 / 70368744177664)).
Proof. apply (A02_q_volts_mid 3624132507725329 70368744177664 2679794647325261 2251799813685248); [vm_compute; reflexivity | unfold fr, close, ctol, A02_lo, A02_hi, A02_c, A02_e; interval with (i_prec 80)]. Qed.
Lemma d_A02_92u : close ctol (2311079850690097 / 4503599627370496) (volts_A02 (1135114743504083 / 8796093022208)).
Proof. apply (A02_q_volts_mid 1135114743504083 8796093022208 2311079850690097 4503599627370496); [vm_compute; reflexivity | unfold fr, close, ctol, A02_lo, A02_hi, A02_c, A02_e; interval with (i_prec 80)]. Qed.
Lemma d_A02_104r : rio_reads A02_c A02_e A02_lo A02_hi floor_volts ctol (Build_rio (Fin (1642878348986087 / 2251799813685248)) (Fin (5143 / 1024)) (Fin (8009 / 1024)) (Fin (4981 / 1024)) (Fin (295 / 1024)) false true false ((Fin (1361 / 512)) :: (Fin (91 / 64)) :: (Fin (583 / 1024)) :: (Fin (31713 / 512)) :: (Fin (6669 / 1024)) :: (Fin (855 / 1024)) :: nil)) (3091860021043789 / 35184372088832).
Proof. apply (A02_rio_fin _ (1642878348986087 / 2251799813685248)); [reflexivity | apply (A02_q_mid 1642878348986087 2251799813685248 3091860021043789 35184372088832); [vm_compute; reflexivity | unfold fr, close, ctol, A02_c, A02_e; interval with (i_prec 80)]]. Qed.
Lemma d_A02_117u : close ctol (8414827023718855 / 18014398509481984) (volts_A02 (143 / 1)).
Proof. apply (A02_q_volts_mid 143 1 8414827023718855 18014398509481984); [vm_compute; reflexivity | unfold fr, close, ctol, A02_lo, A02_hi, A02_c, A02_e; interval with (i_prec 80)]. Qed.
Lemma d_A02_130u : close ctol (2793304257685647 / 4503599627370496) (volts_A02 (7383368706127635 / 70368744177664)).
Proof. apply (A02_q_volts_mid 7383368706127635 70368744177664 2793304257685647 4503599627370496); [vm_compute; reflexivity | unfold fr, close, ctol, A02_lo, A02_hi, A02_c, A02_e; interval with (i_prec 80)]. Qed.
Lemma d_A02_143u : close ctol (5453375863503087 / 9007199254740992) (volts_A02 (3790284299270655 / 35184372088832)).
Proof. apply (A02_q_volts_mid 3790284299270655 35184372088832 5453375863503087 9007199254740992); [vm_compute; reflexivity | unfold fr, close, ctol, A02_lo, A02_hi, A02_c, A02_e; interval with (i_prec 80)]. Qed.
Lemma d_A02_156u : close ctol (4745200601021235 / 9007199254740992) (volts_A02 (4412050147765665 / 35184372088832)).
Proof. apply (A02_q_volts_mid 4412050147765665 35184372088832 4745200601021235 9007199254740992); [vm_compute; reflexivity | unfold fr, close, ctol, A02_lo, A02_hi, A02_c, A02_e; interval with (i_prec 80)]. Qed.
Lemma d_A02_168r : rio_reads A02_c A02_e A02_lo A02_hi floor_volts ctol (Build_rio (Fin (2459710488842993 / 1125899906842624)) (Fin (5 / 1)) (Fin (2829 / 1024)) (Fin (6673 / 1024)) (Fin (10551 / 1024)) false true true ((Fin (1395 / 1024)) :: (Fin (869 / 1024)) :: (Fin (107 / 512)) :: (Fin (64991 / 512)) :: (Fin (5949 / 1024)) :: (Fin (8145 / 1024)) :: nil)) (7467596415660777 / 281474976710656).
Proof. apply (A02_rio_fin _ (2459710488842993 / 1125899906842624)); [reflexivity | apply (A02_q_mid 2459710488842993 1125899906842624 7467596415660777 281474976710656); [vm_compute; reflexivity | unfold fr, close, ctol, A02_c, A02_e; interval with (i_prec 80)]]. Qed.
Lemma d_A02_181u : close ctol (1156688566135587 / 2251799813685248) (volts_A02 (2267767757418099 / 17592186044416)).
Proof. apply (A02_q_volts_mid 2267767757418099 17592186044416 1156688566135587 2251799813685248); [vm_compute; reflexivity | unfold fr, close, ctol, A02_lo, A02_hi, A02_c, A02_e; interval with (i_prec 80)]. Qed.
Lemma d_A02_194u : close ctol (5865169780315101 / 9007199254740992) (volts_A02 (7001289423051021 / 70368744177664)).
Proof. apply (A02_q_volts_mid 7001289423051021 70368744177664 5865169780315101 9007199254740992); [vm_compute; reflexivity | unfold fr, close, ctol, A02_lo, A02_hi, A02_c, A02_e; interval with (i_prec 80)]. Qed.
Lemma d_A02_207u : close ctol (8308476880671015 / 18014398509481984) (volts_A02 (6911053060436107 / 35184372088832)).
Proof. apply (A02_q_volts_hi 6911053060436107 35184372088832 8308476880671015 18014398509481984); [vm_compute; reflexivity | unfold fr, close, ctol, A02_lo, A02_hi, A02_c, A02_e; interval with (i_prec 80)]. Qed.
Lemma d_A02_220u : close ctol (5167513376131115 / 4503599627370496) (volts_A02 (117858845434677 / 2199023255552)).
Proof. apply (A02_q_volts_mid 117858845434677 2199023255552 5167513376131115 4503599627370496); [vm_compute; reflexivity | unfold fr, close, ctol, A02_lo, A02_hi, A02_c, A02_e; interval with (i_prec 80)]. Qed.
Lemma d_A02_232r : rio_reads A02_c A02_e A02_lo A02_hi floor_volts ctol (Build_rio (Fin (8308476880671015 / 18014398509481984)) (Fin (4909 / 1024)) (Fin (2779 / 1024)) (Fin (5919 / 1024)) (Fin (6199 / 512)) true true false ((Fin (207 / 512)) :: (Fin (79 / 256)) :: (Fin (447 / 256)) :: (Fin (87285 / 1024)) :: (Fin (1179 / 256)) :: (Fin (22145 / 512)) :: nil)) (145 / 1).
Proof. apply (A02_rio_fin _ (8308476880671015 / 18014398509481984)); [reflexivity | apply (A02_q_hi 8308476880671015 18014398509481984 145 1); [vm_compute; reflexivity | unfold fr, ctol, A02_hi, A02_c, A02_e; interval with (i_prec 80)]]. Qed.
Lemma d_A02_245u : close ctol (1171380592401295 / 1125899906842624) (volts_A02 (524635818838153 / 8796093022208)).
Proof. apply (A02_q_volts_mid 524635818838153 8796093022208 1171380592401295 1125899906842624); [vm_compute; reflexivity | unfold fr, close, ctol, A02_lo, A02_hi, A02_c, A02_e; interval with (i_prec 80)]. Qed.
Lemma d_A02_258u : close ctol (8308476880671015 / 18014398509481984) (volts_A02 (200 / 1)).
Proof. apply (A02_q_volts_hi 200 1 8308476880671015 18014398509481984); [vm_compute; reflexivity | unfold fr, close, ctol, A02_lo, A02_hi, A02_c, A02_e; interval with (i_prec 80)]. Qed.
Lemma d_A02_271u : close ctol (2400792779454067 / 4503599627370496) (volts_A02 (544437948818467 / 4398046511104)).
Proof. apply (A02_q_volts_mid 544437948818467 4398046511104 2400792779454067 4503599627370496); [vm_compute; reflexivity | unfold fr, close, ctol, A02_lo, A02_hi, A02_c, A02_e; interval with (i_prec 80)]. Qed.
Lemma d_A02_284u : close ctol (5091207486145663 / 9007199254740992) (volts_A02 (510707388583633 / 4398046511104)).
Proof. apply (A02_q_volts_mid 510707388583633 4398046511104 5091207486145663 9007199254740992); [vm_compute; reflexivity | unfold fr, close, ctol, A02_lo, A02_hi, A02_c, A02_e; interval with (i_prec 80)]. Qed.
Lemma d_A02_296r : rio_reads A02_c A02_e A02_lo A02_hi floor_volts ctol (Build_rio (Fin (6774839317841925 / 9007199254740992)) NInf (Fin (225 / 64)) (Fin (5815 / 1024)) (Fin (3303 / 256)) true true true ((Fin (1893 / 1024)) :: (Fin (1975 / 1024)) :: (Fin (465 / 512)) :: (Fin (103349 / 1024)) :: (Fin (4481 / 512)) :: (Fin (44923 / 512)) :: nil)) (85 / 1).
Proof. apply (A02_rio_fin _ (6774839317841925 / 9007199254740992)); [reflexivity | apply (A02_q_mid 6774839317841925 9007199254740992 85 1); [vm_compute; reflexivity | unfold fr, close, ctol, A02_c, A02_e; interval with (i_prec 80)]]. Qed.
Lemma d_A02_309u : close ctol (1136221594272677 / 1125899906842624) (volts_A02 (2169554346519917 / 35184372088832)).
Proof. apply (A02_q_volts_mid 2169554346519917 35184372088832 1136221594272677 1125899906842624); [vm_compute; reflexivity | unfold fr, close, ctol, A02_lo, A02_hi, A02_c, A02_e; interval with (i_prec 80)]. Qed.
Lemma d_A02_322u : close ctol (3289093141759015 / 2251799813685248) (volts_A02 (2897635428241407 / 70368744177664)).
Proof. apply (A02_q_volts_mid 2897635428241407 70368744177664 3289093141759015 2251799813685248); [vm_compute; reflexivity | unfold fr, close, ctol, A02_lo, A02_hi, A02_c, A02_e; interval with (i_prec 80)]. Qed.
Lemma d_A02_335u : close ctol (5198643216798587 / 4503599627370496) (volts_A02 (1873414117324525 / 35184372088832)).
Proof. apply (A02_q_volts_mid 1873414117324525 35184372088832 5198643216798587 4503599627370496); [vm_compute; reflexivity | unfold fr, close, ctol, A02_lo, A02_hi, A02_c, A02_e; interval with (i_prec 80)]. Qed.
Lemma d_A02_348u : close ctol (6827806112041677 / 9007199254740992) (volts_A02 (2965346099580493 / 35184372088832)).
Proof. apply (A02_q_volts_mid 2965346099580493 35184372088832 6827806112041677 9007199254740992); [vm_compute; reflexivity | unfold fr, close, ctol, A02_lo, A02_hi, A02_c, A02_e; interval with (i_prec 80)]. Qed.
Lemma d_A02_360r : rio_reads A02_c A02_e A02_lo A02_hi floor_volts ctol (Build_rio (Fin (8751698084225027 / 18014398509481984)) (Fin (1405 / 256)) (Fin (225 / 64)) (Fin (2665 / 256)) (Fin (10821 / 1024)) false true false ((Fin (535 / 512)) :: (Fin (213 / 128)) :: (Fin (337 / 256)) :: (Fin (20815 / 512)) :: (Fin (1837 / 512)) :: (Fin ((-4751) / 512)) :: nil)) (137 / 1).
Proof. apply (A02_rio_fin _ (8751698084225027 / 18014398509481984)); [reflexivity | apply (A02_q_mid 8751698084225027 18014398509481984 137 1); [vm_compute; reflexivity | unfold fr, close, ctol, A02_c, A02_e; interval with (i_prec 80)]]. Qed.
Lemma d_A02_373u : close ctol (6497568694323765 / 9007199254740992) (volts_A02 (6260607438102903 / 70368744177664)).
Proof. apply (A02_q_volts_mid 6260607438102903 70368744177664 6497568694323765 9007199254740992); [vm_compute; reflexivity | unfold fr, close, ctol, A02_lo, A02_hi, A02_c, A02_e; interval with (i_prec 80)]. Qed.
Lemma d_A02_386u : close ctol (5477172156654919 / 2251799813685248) (volts_A02 (6641211855397059 / 281474976710656)).
Proof. apply (A02_q_volts_mid 6641211855397059 281474976710656 5477172156654919 2251799813685248); [vm_compute; reflexivity | unfold fr, close, ctol, A02_lo, A02_hi, A02_c, A02_e; interval with (i_prec 80)]. Qed.
Lemma d_A02_399u : close ctol (4161179857775087 / 9007199254740992) (volts_A02 (2546220660031989 / 17592186044416)).
Proof. apply (A02_q_volts_mid 2546220660031989 17592186044416 4161179857775087 9007199254740992); [vm_compute; reflexivity | unfold fr, close, ctol, A02_lo, A02_hi, A02_c, A02_e; interval with (i_prec 80)]. Qed.
Lemma d_A02_412u : close ctol (5323154017904145 / 9007199254740992) (volts_A02 (7783301438137761 / 70368744177664)).
Proof. apply (A02_q_volts_mid 7783301438137761 70368744177664 5323154017904145 9007199254740992); [vm_compute; reflexivity | unfold fr, close, ctol, A02_lo, A02_hi, A02_c, A02_e; interval with (i_prec 80)]. Qed.
Lemma d_A02_424r : rio_reads A02_c A02_e A02_lo A02_hi floor_volts ctol (Build_rio (Fin (357539307115111 / 140737488355328)) (Fin (4887 / 1024)) (Fin (3715469692580659 / 1125899906842624)) (Fin (4559 / 512)) PInf true true true ((Fin (815 / 512)) :: (Fin (863 / 512)) :: (Fin (1429 / 512)) :: (Fin (97455 / 512)) :: (Fin (661 / 128)) :: (Fin (26269 / 512)) :: nil)) (45 / 2).
Proof. apply (A02_rio_fin _ (357539307115111 / 140737488355328)); [reflexivity | apply (A02_q_lo 357539307115111 140737488355328 45 2); [vm_compute; reflexivity | unfold fr, ctol, A02_lo, A02_c, A02_e; interval with (i_prec 80)]]. Qed.
Lemma d_A02_437u : close ctol (8308476880671015 / 18014398509481984) (volts_A02 (662862792209369 / 2199023255552)).
Proof. apply (A02_q_volts_hi 662862792209369 2199023255552 8308476880671015 18014398509481984); [vm_compute; reflexivity | unfold fr, close, ctol, A02_lo, A02_hi, A02_c, A02_e; interval with (i_prec 80)]. Qed.
Lemma d_A02_450u : close ctol (8308476880671015 / 18014398509481984) (volts_A02 (209052561541205 / 549755813888)).
Proof. apply (A02_q_volts_hi 209052561541205 549755813888 8308476880671015 18014398509481984); [vm_compute; reflexivity | unfold fr, close, ctol, A02_lo, A02_hi, A02_c, A02_e; interval with (i_prec 80)]. Qed.
Lemma d_A02_463u : close ctol (357539307115111 / 140737488355328) (volts_A02 (801120656302947 / 281474976710656)).
Proof. apply (A02_q_volts_lo 801120656302947 281474976710656 357539307115111 140737488355328); [vm_compute; reflexivity | unfold fr, close, ctol, A02_lo, A02_hi, A02_c, A02_e; interval with (i_prec 80)]. Qed.
Lemma d_A02_476u : close ctol (8308476880671015 / 18014398509481984) (volts_A02 (194995996403015 / 549755813888)).
Proof. apply (A02_q_volts_hi 194995996403015 549755813888 8308476880671015 18014398509481984); [vm_compute; reflexivity | unfold fr, close, ctol, A02_lo, A02_hi, A02_c, A02_e; interval with (i_prec 80)]. Qed.
Lemma d_A02_488r : rio_reads A02_c A02_e A02_lo A02_hi floor_volts ctol (Build_rio (Fin (4251855519985263 / 9007199254740992)) PInf (Fin (1407 / 512)) (Fin (6493 / 1024)) (Fin (14477 / 1024)) false true true ((Fin (45 / 16)) :: (Fin (323 / 512)) :: (Fin (1617 / 1024)) :: (Fin (59597 / 512)) :: (Fin (6509 / 1024)) :: (Fin (57 / 256)) :: nil)) (4973964913062931 / 35184372088832).
Proof. apply (A02_rio_fin _ (4251855519985263 / 9007199254740992)); [reflexivity | apply (A02_q_mid 4251855519985263 9007199254740992 4973964913062931 35184372088832); [vm_compute; reflexivity | unfold fr, close, ctol, A02_c, A02_e; interval with (i_prec 80)]]. Qed.
Lemma d_A02_501u : close ctol (6175357749294755 / 9007199254740992) (volts_A02 (3309081019033911 / 35184372088832)).
Proof. apply (A02_q_volts_mid 3309081019033911 35184372088832 6175357749294755 9007199254740992); [vm_compute; reflexivity | unfold fr, close, ctol, A02_lo, A02_hi, A02_c, A02_e; interval with (i_prec 80)]. Qed.
Lemma d_A02_514u : close ctol (5261195308510663 / 9007199254740992) (volts_A02 (3941724317383577 / 35184372088832)).
Proof. apply (A02_q_volts_mid 3941724317383577 35184372088832 5261195308510663 9007199254740992); [vm_compute; reflexivity | unfold fr, close, ctol, A02_lo, A02_hi, A02_c, A02_e; interval with (i_prec 80)]. Qed.
Lemma d_A02_527u : close ctol (3772917768797105 / 4503599627370496) (volts_A02 (5317212574852757 / 70368744177664)).
Proof. apply (A02_q_volts_mid 5317212574852757 70368744177664 3772917768797105 4503599627370496); [vm_compute; reflexivity | unfold fr, close, ctol, A02_lo, A02_hi, A02_c, A02_e; interval with (i_prec 80)]. Qed.
Lemma d_A02_540u : close ctol (3863168159451315 / 2251799813685248) (volts_A02 (4861591827957119 / 140737488355328)).
Proof. apply (A02_q_volts_mid 4861591827957119 140737488355328 3863168159451315 2251799813685248); [vm_compute; reflexivity | unfold fr, close, ctol, A02_lo, A02_hi, A02_c, A02_e; interval with (i_prec 80)]. Qed.
Lemma d_A02_552r : rio_reads A02_c A02_e A02_lo A02_hi floor_volts ctol (Build_rio (Fin (4306017416362629 / 9007199254740992)) (Fin (4873 / 1024)) (Fin (459 / 128)) (Fin (7317 / 1024)) (Fin (12 / 1)) true true true ((Fin (2323 / 1024)) :: (Fin (495 / 1024)) :: (Fin (1031 / 512)) :: (Fin (26577 / 1024)) :: (Fin (6929 / 1024)) :: (Fin (51397 / 1024)) :: nil)) (1226421322355163 / 8796093022208).
Proof. apply (A02_rio_fin _ (4306017416362629 / 9007199254740992)); [reflexivity | apply (A02_q_mid 4306017416362629 9007199254740992 1226421322355163 8796093022208); [vm_compute; reflexivity | unfold fr, close, ctol, A02_c, A02_e; interval with (i_prec 80)]]. Qed.
Lemma d_A02_565u : close ctol (8308476880671015 / 18014398509481984) (volts_A02 (3912807494409493 / 17592186044416)).
Proof. apply (A02_q_volts_hi 3912807494409493 17592186044416 8308476880671015 18014398509481984); [vm_compute; reflexivity | unfold fr, close, ctol, A02_lo, A02_hi, A02_c, A02_e; interval with (i_prec 80)]. Qed.
Lemma d_A02_578u : close ctol (1269114491117115 / 1125899906842624) (volts_A02 (7690831323374215 / 140737488355328)).
Proof. apply (A02_q_volts_mid 7690831323374215 140737488355328 1269114491117115 1125899906842624); [vm_compute; reflexivity | unfold fr, close, ctol, A02_lo, A02_hi, A02_c, A02_e; interval with (i_prec 80)]. Qed.
Lemma d_A02_591u : close ctol (7781312655473733 / 9007199254740992) (volts_A02 (5141747008840373 / 70368744177664)).
Proof. apply (A02_q_volts_mid 5141747008840373 70368744177664 7781312655473733 9007199254740992); [vm_compute; reflexivity | unfold fr, close, ctol, A02_lo, A02_hi, A02_c, A02_e; interval with (i_prec 80)]. Qed.
Lemma d_A02_604u : close ctol (2830604345233575 / 2251799813685248) (volts_A02 (6827612519260485 / 140737488355328)).
Proof. apply (A02_q_volts_mid 6827612519260485 140737488355328 2830604345233575 2251799813685248); [vm_compute; reflexivity | unfold fr, close, ctol, A02_lo, A02_hi, A02_c, A02_e; interval with (i_prec 80)]. Qed.
Lemma d_A02_616r : rio_reads A02_c A02_e A02_lo A02_hi floor_volts ctol (Build_rio (Fin (6497777397626151 / 9007199254740992)) PInf (Fin (217 / 64)) (Fin ((-12) / 1)) (Fin (9275 / 1024)) true true false ((Fin (55 / 32)) :: (Fin (203 / 512)) :: (Fin (591 / 256)) :: (Fin (198217 / 1024)) :: (Fin (1565 / 256)) :: (Fin (31497 / 1024)) :: nil)) (6260387852955399 / 70368744177664).
Proof. apply (A02_rio_fin _ (6497777397626151 / 9007199254740992)); [reflexivity | apply (A02_q_mid 6497777397626151 9007199254740992 6260387852955399 70368744177664); [vm_compute; reflexivity | unfold fr, close, ctol, A02_c, A02_e; interval with (i_prec 80)]]. Qed.
Lemma d_A02_629u : close ctol (4512840278939213 / 9007199254740992) (volts_A02 (582587404863307 / 4398046511104)).
Proof. apply (A02_q_volts_mid 582587404863307 4398046511104 4512840278939213 9007199254740992); [vm_compute; reflexivity | unfold fr, close, ctol, A02_lo, A02_hi, A02_c, A02_e; interval with (i_prec 80)]. Qed.
Lemma d_A02_642u : close ctol (8487563348576171 / 18014398509481984) (volts_A02 (2492149721787521 / 17592186044416)).
Proof. apply (A02_q_volts_mid 2492149721787521 17592186044416 8487563348576171 18014398509481984); [vm_compute; reflexivity | unfold fr, close, ctol, A02_lo, A02_hi, A02_c, A02_e; interval with (i_prec 80)]. Qed.
Lemma d_A02_655u : close ctol (8308476880671015 / 18014398509481984) (volts_A02 (4579607412190219 / 17592186044416)).
Proof. apply (A02_q_volts_hi 4579607412190219 17592186044416 8308476880671015 18014398509481984); [vm_compute; reflexivity | unfold fr, close, ctol, A02_lo, A02_hi, A02_c, A02_e; interval with (i_prec 80)]. Qed.
Lemma r_A21_425 : rio_reads A21_c A21_e A21_lo A21_hi floor_volts ctol (Build_rio (Fin (8106479329266893 / 18014398509481984)) (Fin (5854679515581645 / 1125899906842624)) (Fin (7656119366529843 / 2251799813685248)) (Fin (6980579422424269 / 1125899906842624)) (Fin (27 / 2)) true true true ((Fin (0 / 1)) :: (Fin (0 / 1)) :: (Fin (0 / 1)) :: (Fin (0 / 1)) :: (Fin (27 / 4)) :: (Fin (45 / 1)) :: nil)) (2476968705157603 / 35184372088832).
Proof. apply (A21_rio_fin _ (8106479329266893 / 18014398509481984)); [reflexivity | apply (A21_q_mid 8106479329266893 18014398509481984 2476968705157603 35184372088832); [vm_compute; reflexivity | unfold fr, close, ctol, A21_c, A21_e; interval with (i_prec 80)]]. Qed.
Lemma r_A21_456 : rio_reads A21_c A21_e A21_lo A21_hi floor_volts ctol (Build_rio (Fin (100 / 1)) (Fin (5 / 1)) (Fin (3715469692580659 / 1125899906842624)) (Fin (6 / 1)) NInf true true true ((Fin (0 / 1)) :: (Fin (0 / 1)) :: (Fin (0 / 1)) :: (Fin (0 / 1)) :: (Fin (27 / 4)) :: (Fin (45 / 1)) :: nil)) (10 / 1).
Proof. apply (A21_rio_fin _ (100 / 1)); [reflexivity | apply (A21_q_lo 100 1 10 1); [vm_compute; reflexivity | unfold fr, ctol, A21_lo, A21_c, A21_e; interval with (i_prec 80)]]. Qed.
Lemma r_A21_474 : rio_reads A21_c A21_e A21_lo A21_hi floor_volts ctol (Build_rio (Fin (4978200716242107 / 2251799813685248)) (Fin (5 / 1)) (Fin (3715469692580659 / 1125899906842624)) (Fin (6 / 1)) (Fin (12 / 1)) true true true (PInf :: (Fin (0 / 1)) :: (Fin (0 / 1)) :: (Fin (0 / 1)) :: (Fin (27 / 4)) :: (Fin (45 / 1)) :: nil)) (10 / 1).
Proof. apply (A21_rio_fin _ (4978200716242107 / 2251799813685248)); [reflexivity | apply (A21_q_lo 4978200716242107 2251799813685248 10 1); [vm_compute; reflexivity | unfold fr, ctol, A21_lo, A21_c, A21_e; interval with (i_prec 80)]]. Qed.
Lemma r_A21_490 : rio_reads A21_c A21_e A21_lo A21_hi floor_volts ctol (Build_rio (Fin (5 / 2048)) (Fin (2695 / 512)) (Fin (5719 / 1024)) (Fin (319 / 64)) (Fin (6995 / 512)) true false true ((Fin (787 / 1024)) :: (Fin (409 / 512)) :: (Fin (867 / 1024)) :: (Fin (46157 / 512)) :: (Fin (4471 / 512)) :: (Fin (20709 / 1024)) :: nil)) (80 / 1).
Proof. apply (A21_rio_fin _ (5 / 2048)); [reflexivity | apply (A21_q_hi 5 2048 80 1); [vm_compute; reflexivity | unfold fr, ctol, A21_hi, A21_c, A21_e; interval with (i_prec 80)]]. Qed.
Lemma r_A21_506 : rio_reads A21_c A21_e A21_lo A21_hi floor_volts ctol (Build_rio (Fin (5 / 16)) (Fin (2121 / 512)) PInf (Fin (1555 / 1024)) (Fin (1 / 202402253307310618352495346718917307049556649764142118356901358027430339567995346891960383701437124495187077864316811911389808737385793476867013399940738509921517424276566361364466907742093216341239767678472745068562007483424692698618103355649159556340810056512358769552333414615230502532186327508646006263307707741093494784)) true true true ((Fin (425 / 1024)) :: (Fin (41 / 512)) :: (Fin (215 / 128)) :: (Fin (3955 / 128)) :: (Fin (925 / 128)) :: (Fin ((-2027) / 1024)) :: nil)) (80 / 1).
Proof. apply (A21_rio_fin _ (5 / 16)); [reflexivity | apply (A21_q_hi 5 16 80 1); [vm_compute; reflexivity | unfold fr, ctol, A21_hi, A21_c, A21_e; interval with (i_prec 80)]]. Qed.
Lemma r_A21_522 : rio_reads A21_c A21_e A21_lo A21_hi floor_volts ctol (Build_rio (Fin (5 / 8)) (Fin (13069 / 1024)) (Fin (0 / 1)) (Fin (3255 / 256)) (Fin (12 / 1)) true true true ((Fin (389 / 256)) :: (Fin (925 / 512)) :: (Fin (2873 / 1024)) :: (Fin (72687 / 1024)) :: (Fin (2985 / 512)) :: (Fin (16567 / 1024)) :: nil)) (6623234801204329 / 140737488355328).
Proof. apply (A21_rio_fin _ (5 / 8)); [reflexivity | apply (A21_q_mid 5 8 6623234801204329 140737488355328); [vm_compute; reflexivity | unfold fr, close, ctol, A21_c, A21_e; interval with (i_prec 80)]]. Qed.
Lemma r_A21_538 : rio_reads A21_c A21_e A21_lo A21_hi floor_volts ctol (Build_rio (Fin (15 / 16)) (Fin (5423 / 1024)) (Fin ((-1) / 1)) (Fin (100000000000000001097906362944045541740492309677311846336810682903157585404911491537163328978494688899061249669721172515611590283743140088328307009198146046031271664502933027185697489699588559043338384466165001178426897626212945177628091195786707458122783970171784415105291802893207873272974885715430223118336 / 1)) (Fin (6547 / 512)) true false true ((Fin (1585 / 1024)) :: (Fin (701 / 512)) :: (Fin (117 / 64)) :: (Fin (145237 / 1024)) :: (Fin (2585 / 512)) :: (Fin ((-8755) / 1024)) :: nil)) (8057721701779399 / 281474976710656).
Proof. apply (A21_rio_fin _ (15 / 16)); [reflexivity | apply (A21_q_mid 15 16 8057721701779399 281474976710656); [vm_compute; reflexivity | unfold fr, close, ctol, A21_c, A21_e; interval with (i_prec 80)]]. Qed.
Lemma r_A21_554 : rio_reads A21_c A21_e A21_lo A21_hi floor_volts ctol (Build_rio (Fin (5 / 4)) (Fin (4311 / 1024)) (Fin (2731 / 1024)) (Fin (1479 / 256)) (Fin (10091 / 1024)) true true true ((Fin (763 / 1024)) :: (Fin (479 / 512)) :: (Fin (351 / 512)) :: (Fin (5487 / 64)) :: (Fin (3159 / 1024)) :: (Fin (2645 / 32)) :: nil)) (5662880179719609 / 281474976710656).
Proof. apply (A21_rio_fin _ (5 / 4)); [reflexivity | apply (A21_q_mid 5 4 5662880179719609 281474976710656); [vm_compute; reflexivity | unfold fr, close, ctol, A21_c, A21_e; interval with (i_prec 80)]]. Qed.
Lemma r_A21_570 : rio_reads A21_c A21_e A21_lo A21_hi floor_volts ctol (Build_rio (Fin (25 / 16)) (Fin (4983 / 1024)) (Fin (3591 / 1024)) (Fin ((-1) / 1)) (Fin (9129 / 1024)) true true true ((Fin (1755 / 1024)) :: (Fin (1439 / 1024)) :: (Fin (47 / 64)) :: (Fin (61683 / 1024)) :: (Fin (4193 / 512)) :: (Fin (5465 / 64)) :: nil)) (8615008142303395 / 562949953421312).
Proof. apply (A21_rio_fin _ (25 / 16)); [reflexivity | apply (A21_q_mid 25 16 8615008142303395 562949953421312); [vm_compute; reflexivity | unfold fr, close, ctol, A21_c, A21_e; interval with (i_prec 80)]]. Qed.
Lemma r_A21_586 : rio_reads A21_c A21_e A21_lo A21_hi floor_volts ctol (Build_rio (Fin (15 / 8)) (Fin (11127 / 1024)) (Fin (3785 / 512)) (Fin (5902958103587057 / 590295810358705651712)) (Fin (13053 / 1024)) false false false ((Fin (213 / 256)) :: (Fin (15 / 16)) :: (Fin (1639 / 1024)) :: (Fin (50309 / 512)) :: (Fin (6745 / 1024)) :: (Fin (11653 / 256)) :: nil)) (53823200030225 / 4398046511104).
Proof. apply (A21_rio_fin _ (15 / 8)); [reflexivity | apply (A21_q_mid 15 8 53823200030225 4398046511104); [vm_compute; reflexivity | unfold fr, close, ctol, A21_c, A21_e; interval with (i_prec 80)]]. Qed.
Lemma r_A21_602 : rio_reads A21_c A21_e A21_lo A21_hi floor_volts ctol (Build_rio (Fin (35 / 16)) (Fin (5565 / 1024)) (Fin (3715469692580659 / 1125899906842624)) (Fin (0 / 1)) (Fin (1673 / 128)) true true true ((Fin (2577 / 1024)) :: (Fin (1809 / 1024)) :: (Fin (1381 / 512)) :: (Fin (16975 / 1024)) :: (Fin (3911 / 512)) :: (Fin (28637 / 512)) :: nil)) (5702991450287905 / 562949953421312).
Proof. apply (A21_rio_fin _ (35 / 16)); [reflexivity | apply (A21_q_mid 35 16 5702991450287905 562949953421312); [vm_compute; reflexivity | unfold fr, close, ctol, A21_c, A21_e; interval with (i_prec 80)]]. Qed.
Lemma r_A21_618 : rio_reads A21_c A21_e A21_lo A21_hi floor_volts ctol (Build_rio (Fin (5 / 2)) (Fin (4653 / 1024)) (Fin (3283 / 1024)) (Fin (7867 / 1024)) (Fin (5425 / 512)) false true false ((Fin (145 / 1024)) :: (Fin (45 / 1024)) :: (Fin (1599 / 1024)) :: (Fin (93175 / 512)) :: (Fin (5907 / 1024)) :: (Fin ((-2515) / 256)) :: nil)) (10 / 1).
Proof. apply (A21_rio_fin _ (5 / 2)); [reflexivity | apply (A21_q_lo 5 2 10 1); [vm_compute; reflexivity | unfold fr, ctol, A21_lo, A21_c, A21_e; interval with (i_prec 80)]]. Qed.
Lemma r_A21_634 : rio_reads A21_c A21_e A21_lo A21_hi floor_volts ctol (Build_rio (Fin (45 / 16)) (Fin (8719 / 1024)) (Fin (829 / 256)) (Fin (1899 / 512)) (Fin (5605 / 512)) true true false ((Fin (1009 / 512)) :: (Fin (129 / 512)) :: (Fin (1237 / 1024)) :: (Fin (127185 / 1024)) :: (Fin (5463 / 1024)) :: (Fin (2699 / 32)) :: nil)) (10 / 1).
Proof. apply (A21_rio_fin _ (45 / 16)); [reflexivity | apply (A21_q_lo 45 16 10 1); [vm_compute; reflexivity | unfold fr, ctol, A21_lo, A21_c, A21_e; interval with (i_prec 80)]]. Qed.
Lemma r_A21_650 : rio_reads A21_c A21_e A21_lo A21_hi floor_volts ctol (Build_rio (Fin (25 / 8)) (Fin (5289 / 1024)) (Fin (2855 / 1024)) (Fin (6 / 1)) (Fin (789 / 64)) true true true ((Fin (277 / 128)) :: (Fin (513 / 1024)) :: (Fin (989 / 512)) :: (Fin (73565 / 512)) :: (Fin (7773 / 1024)) :: (Fin ((-5849) / 512)) :: nil)) (10 / 1).
Proof. apply (A21_rio_fin _ (25 / 8)); [reflexivity | apply (A21_q_lo 25 8 10 1); [vm_compute; reflexivity | unfold fr, ctol, A21_lo, A21_c, A21_e; interval with (i_prec 80)]]. Qed.
Lemma r_A21_666 : rio_reads A21_c A21_e A21_lo A21_hi floor_volts ctol (Build_rio (Fin (55 / 16)) (Fin (2505 / 512)) (Fin (3297 / 1024)) (Fin ((-12) / 1)) (Fin (12585 / 1024)) true false true ((Fin (703 / 256)) :: (Fin (195 / 512)) :: (Fin (1411 / 1024)) :: (Fin (78437 / 1024)) :: (Fin (2411 / 512)) :: (Fin (74413 / 1024)) :: nil)) (10 / 1).
Proof. apply (A21_rio_fin _ (55 / 16)); [reflexivity | apply (A21_q_lo 55 16 10 1); [vm_compute; reflexivity | unfold fr, ctol, A21_lo, A21_c, A21_e; interval with (i_prec 80)]]. Qed.
Lemma r_A21_682 : rio_reads A21_c A21_e A21_lo A21_hi floor_volts ctol (Build_rio (Fin (15 / 4)) (Fin (5163 / 1024)) (Fin (3183 / 1024)) (Fin (3019 / 512)) (Fin (12 / 1)) false false false ((Fin (1029 / 1024)) :: (Fin (479 / 512)) :: (Fin (2007 / 1024)) :: (Fin (23031 / 256)) :: (Fin (3653 / 512)) :: (Fin (71615 / 1024)) :: nil)) (10 / 1).
Proof. apply (A21_rio_fin _ (15 / 4)); [reflexivity | apply (A21_q_lo 15 4 10 1); [vm_compute; reflexivity | unfold fr, ctol, A21_lo, A21_c, A21_e; interval with (i_prec 80)]]. Qed.
Lemma r_A21_698 : rio_reads A21_c A21_e A21_lo A21_hi floor_volts ctol (Build_rio (Fin (65 / 16)) (Fin (4911 / 1024)) (Fin (3715469692580659 / 1125899906842624)) (Fin (6 / 1)) (Fin (5555 / 512)) false true true ((Fin (2919 / 1024)) :: (Fin (307 / 1024)) :: (Fin (1045 / 1024)) :: (Fin (98945 / 1024)) :: (Fin (3689 / 512)) :: (Fin (22479 / 256)) :: nil)) (10 / 1).
Proof. apply (A21_rio_fin _ (65 / 16)); [reflexivity | apply (A21_q_lo 65 16 10 1); [vm_compute; reflexivity | unfold fr, ctol, A21_lo, A21_c, A21_e; interval with (i_prec 80)]]. Qed.
Lemma r_A21_714 : rio_reads A21_c A21_e A21_lo A21_hi floor_volts ctol (Build_rio (Fin (35 / 8)) (Fin (5 / 1)) (Fin (3715469692580659 / 1125899906842624)) (Fin (793 / 128)) (Fin (10109 / 1024)) true false true ((Fin (801 / 1024)) :: (Fin (497 / 1024)) :: (Fin (1495 / 1024)) :: (Fin (164355 / 1024)) :: (Fin (3291 / 1024)) :: (Fin (65607 / 1024)) :: nil)) (10 / 1).
Proof. apply (A21_rio_fin _ (35 / 8)); [reflexivity | apply (A21_q_lo 35 8 10 1); [vm_compute; reflexivity | unfold fr, ctol, A21_lo, A21_c, A21_e; interval with (i_prec 80)]]. Qed.
Lemma r_A21_730 : rio_reads A21_c A21_e A21_lo A21_hi floor_volts ctol (Build_rio (Fin (75 / 16)) (Fin (2525 / 512)) (Fin (1425 / 512)) (Fin (6 / 1)) (Fin ((-12) / 1)) true true true ((Fin (415 / 256)) :: (Fin (199 / 256)) :: (Fin (655 / 256)) :: (Fin (199477 / 1024)) :: (Fin (8043 / 1024)) :: (Fin (25221 / 256)) :: nil)) (10 / 1).
Proof. apply (A21_rio_fin _ (75 / 16)); [reflexivity | apply (A21_q_lo 75 16 10 1); [vm_compute; reflexivity | unfold fr, ctol, A21_lo, A21_c, A21_e; interval with (i_prec 80)]]. Qed.
Lemma r_A21_746 : rio_reads A21_c A21_e A21_lo A21_hi floor_volts ctol (Build_rio (Fin (4022341244311721 / 2251799813685248)) (Fin (5 / 1)) (Fin (3715469692580659 / 1125899906842624)) (Fin (6 / 1)) PInf true true true ((Fin (1003 / 1024)) :: (Fin (121 / 256)) :: (Fin (1113 / 1024)) :: (Fin (29067 / 256)) :: (Fin (471 / 128)) :: (Fin (1651 / 64)) :: nil)) (7311212497987561 / 562949953421312).
Proof. apply (A21_rio_fin _ (4022341244311721 / 2251799813685248)); [reflexivity | apply (A21_q_mid 4022341244311721 2251799813685248 7311212497987561 562949953421312); [vm_compute; reflexivity | unfold fr, close, ctol, A21_c, A21_e; interval with (i_prec 80)]]. Qed.
Lemma r_A21_762 : rio_reads A21_c A21_e A21_lo A21_hi floor_volts ctol (Build_rio (Fin (8914674670904395 / 2251799813685248)) (Fin (5902958103587057 / 590295810358705651712)) (Fin (3385 / 1024)) (Fin (2991 / 512)) (Fin (5899 / 512)) true true false ((Fin (1087 / 512)) :: (Fin (31 / 128)) :: (Fin (1275 / 1024)) :: (Fin (134313 / 1024)) :: (Fin (1655 / 512)) :: (Fin ((-2857) / 512)) :: nil)) (10 / 1).
Proof. apply (A21_rio_fin _ (8914674670904395 / 2251799813685248)); [reflexivity | apply (A21_q_lo 8914674670904395 2251799813685248 10 1); [vm_compute; reflexivity | unfold fr, ctol, A21_lo, A21_c, A21_e; interval with (i_prec 80)]]. Qed.
Lemma r_A21_778 : rio_reads A21_c A21_e A21_lo A21_hi floor_volts ctol (Build_rio (Fin (964794687392015 / 9007199254740992)) (Fin (1349 / 256)) (Fin (1461 / 512)) (Fin (6289 / 1024)) (Fin (5987 / 512)) false false false ((Fin (303 / 1024)) :: (Fin (1999 / 1024)) :: (Fin (2169 / 1024)) :: (Fin (88655 / 1024)) :: (Fin (4335 / 1024)) :: (Fin (1781 / 512)) :: nil)) (80 / 1).
Proof. apply (A21_rio_fin _ (964794687392015 / 9007199254740992)); [reflexivity | apply (A21_q_hi 964794687392015 9007199254740992 80 1); [vm_compute; reflexivity | unfold fr, ctol, A21_hi, A21_c, A21_e; interval with (i_prec 80)]]. Qed.
Lemma r_A21_794 : rio_reads A21_c A21_e A21_lo A21_hi floor_volts ctol (Build_rio (Fin (5565438890597455 / 9007199254740992)) (Fin (2569 / 512)) (Fin (1699 / 512)) (Fin (1317 / 256)) (Fin (6241 / 512)) true true true ((Fin (1253 / 512)) :: (Fin (25 / 1024)) :: (Fin (1529 / 512)) :: (Fin (87685 / 512)) :: (Fin (8935 / 1024)) :: (Fin (25073 / 1024)) :: nil)) (6716821762232509 / 140737488355328).
Proof. apply (A21_rio_fin _ (5565438890597455 / 9007199254740992)); [reflexivity | apply (A21_q_mid 5565438890597455 9007199254740992 6716821762232509 140737488355328); [vm_compute; reflexivity | unfold fr, close, ctol, A21_c, A21_e; interval with (i_prec 80)]]. Qed.
Lemma r_A21_810 : rio_reads A21_c A21_e A21_lo A21_hi floor_volts ctol (Build_rio (Fin (6223579959182043 / 2305843009213693952)) (Fin (2283 / 512)) (Fin (791 / 256)) (Fin (6 / 1)) (Fin (2519 / 256)) true false true ((Fin (2729 / 1024)) :: (Fin (413 / 512)) :: (Fin (927 / 512)) :: (Fin (113979 / 1024)) :: (Fin (293 / 64)) :: (Fin ((-14107) / 1024)) :: nil)) (80 / 1).
Proof. apply (A21_rio_fin _ (6223579959182043 / 2305843009213693952)); [reflexivity | apply (A21_q_hi 6223579959182043 2305843009213693952 80 1); [vm_compute; reflexivity | unfold fr, ctol, A21_hi, A21_c, A21_e; interval with (i_prec 80)]]. Qed.
Lemma r_A21_833 : rio_reads A21_c A21_e A21_lo A21_hi floor_volts ctol (Build_rio (Fin (3419875224559237 / 147573952589676412928)) (Fin (2201 / 512)) (Fin (3715469692580659 / 1125899906842624)) (Fin (5915 / 1024)) (Fin (10587 / 1024)) true false true ((Fin (25 / 16)) :: (Fin (833 / 512)) :: (Fin (859 / 512)) :: (Fin (202109 / 1024)) :: (Fin (1791 / 256)) :: (Fin (46563 / 512)) :: nil)) (80 / 1).
Proof. apply (A21_rio_fin _ (3419875224559237 / 147573952589676412928)); [reflexivity | apply (A21_q_hi 3419875224559237 147573952589676412928 80 1); [vm_compute; reflexivity | unfold fr, ctol, A21_hi, A21_c, A21_e; interval with (i_prec 80)]]. Qed.
Lemma d_A21_669r : rio_reads A21_c A21_e A21_lo A21_hi floor_volts ctol (Build_rio (Fin (2489100355631953 / 1125899906842624)) PInf PInf PInf PInf true true true ((Fin (0 / 1)) :: (Fin (0 / 1)) :: (Fin (0 / 1)) :: (Fin (0 / 1)) :: (Fin (27 / 4)) :: (Fin (45 / 1)) :: nil)) (10 / 1).
Proof. apply (A21_rio_fin _ (2489100355631953 / 1125899906842624)); [reflexivity | apply (A21_q_lo 2489100355631953 1125899906842624 10 1); [vm_compute; reflexivity | unfold fr, ctol, A21_lo, A21_c, A21_e; interval with (i_prec 80)]]. Qed.
Lemma d_A21_677r : rio_reads A21_c A21_e A21_lo A21_hi floor_volts ctol (Build_rio (Fin (2357699125463541 / 2251799813685248)) (Fin (21 / 4)) (Fin (3715469692580659 / 1125899906842624)) (Fin (6 / 1)) (Fin (12 / 1)) true true true ((Fin (0 / 1)) :: (Fin (0 / 1)) :: (Fin (0 / 1)) :: (Fin (0 / 1)) :: (Fin (27 / 4)) :: (Fin (45 / 1)) :: nil)) (25 / 1).
Proof. apply (A21_rio_fin _ (2357699125463541 / 2251799813685248)); [reflexivity | apply (A21_q_mid 2357699125463541 2251799813685248 25 1); [vm_compute; reflexivity | unfold fr, close, ctol, A21_c, A21_e; interval with (i_prec 80)]]. Qed.
Lemma d_A21_685r : rio_reads A21_c A21_e A21_lo A21_hi floor_volts ctol (Build_rio (Fin (2489100355631953 / 1125899906842624)) (Fin (5902958103587057 / 590295810358705651712)) (Fin (3715469692580659 / 1125899906842624)) (Fin (6 / 1)) (Fin (12 / 1)) true true true ((Fin (0 / 1)) :: (Fin (0 / 1)) :: (Fin (0 / 1)) :: (Fin (0 / 1)) :: (Fin (27 / 4)) :: (Fin (45 / 1)) :: nil)) (10 / 1).
Proof. apply (A21_rio_fin _ (2489100355631953 / 1125899906842624)); [reflexivity | apply (A21_q_lo 2489100355631953 1125899906842624 10 1); [vm_compute; reflexivity | unfold fr, ctol, A21_lo, A21_c, A21_e; interval with (i_prec 80)]]. Qed.
Lemma d_A21_693r : rio_reads A21_c A21_e A21_lo A21_hi floor_volts ctol (Build_rio (Fin (2489100355631953 / 1125899906842624)) (Fin (5 / 1)) (Fin (3715469692580659 / 1125899906842624)) (Fin (6 / 1)) (Fin (3715469692580659 / 281474976710656)) true true true ((Fin (0 / 1)) :: (Fin (0 / 1)) :: (Fin (0 / 1)) :: (Fin (0 / 1)) :: (Fin (27 / 4)) :: (Fin (45 / 1)) :: nil)) (10 / 1).
Proof. apply (A21_rio_fin _ (2489100355631953 / 1125899906842624)); [reflexivity | apply (A21_q_lo 2489100355631953 1125899906842624 10 1); [vm_compute; reflexivity | unfold fr, ctol, A21_lo, A21_c, A21_e; interval with (i_prec 80)]]. Qed.
Lemma d_A21_701r : rio_reads A21_c A21_e A21_lo A21_hi floor_volts ctol (Build_rio (Fin (7303775102731699 / 18014398509481984)) (Fin (5 / 1)) (Fin (8106479329266893 / 2251799813685248)) (Fin (6 / 1)) (Fin (12 / 1)) true true true ((Fin (0 / 1)) :: (Fin (0 / 1)) :: (Fin (0 / 1)) :: (Fin (0 / 1)) :: (Fin (27 / 4)) :: (Fin (45 / 1)) :: nil)) (80 / 1).
Proof. apply (A21_rio_fin _ (7303775102731699 / 18014398509481984)); [reflexivity | apply (A21_q_hi 7303775102731699 18014398509481984 80 1); [vm_compute; reflexivity | unfold fr, ctol, A21_hi, A21_c, A21_e; interval with (i_prec 80)]]. Qed.
Lemma d_A21_709r : rio_reads A21_c A21_e A21_lo A21_hi floor_volts ctol (Build_rio (Fin (2489100355631953 / 1125899906842624)) (Fin (5 / 1)) (Fin (3715469692580659 / 1125899906842624)) (Fin (0 / 1)) (Fin (12 / 1)) true true true ((Fin (0 / 1)) :: (Fin (0 / 1)) :: (Fin (0 / 1)) :: (Fin (0 / 1)) :: (Fin (27 / 4)) :: (Fin (45 / 1)) :: nil)) (10 / 1).
Proof. apply (A21_rio_fin _ (2489100355631953 / 1125899906842624)); [reflexivity | apply (A21_q_lo 2489100355631953 1125899906842624 10 1); [vm_compute; reflexivity | unfold fr, ctol, A21_lo, A21_c, A21_e; interval with (i_prec 80)]]. Qed.
Lemma d_A21_717r : rio_reads A21_c A21_e A21_lo A21_hi floor_volts ctol (Build_rio (Fin (7303775108689101 / 18014398509481984)) (Fin (5 / 1)) (Fin (3715469692580659 / 1125899906842624)) (Fin (6 / 1)) (Fin (12 / 1)) true true true (PInf :: (Fin (0 / 1)) :: (Fin (0 / 1)) :: (Fin (0 / 1)) :: (Fin (27 / 4)) :: (Fin (45 / 1)) :: nil)) (2814749764291811 / 35184372088832).
Proof. apply (A21_rio_fin _ (7303775108689101 / 18014398509481984)); [reflexivity | apply (A21_q_mid 7303775108689101 18014398509481984 2814749764291811 35184372088832); [vm_compute; reflexivity | unfold fr, close, ctol, A21_c, A21_e; interval with (i_prec 80)]]. Qed.
Lemma d_A21_726u : close ctol (8395467492191921 / 18014398509481984) (volts_A21 (1186423855655219 / 17592186044416)).
Proof. apply (A21_q_volts_mid 1186423855655219 17592186044416 8395467492191921 18014398509481984); [vm_compute; reflexivity | unfold fr, close, ctol, A21_lo, A21_hi, A21_c, A21_e; interval with (i_prec 80)]. Qed.
Lemma d_A21_739u : close ctol (7303775102731699 / 18014398509481984) (volts_A21 (8340550287525921 / 70368744177664)).
Proof. apply (A21_q_volts_hi 8340550287525921 70368744177664 7303775102731699 18014398509481984); [vm_compute; reflexivity | unfold fr, close, ctol, A21_lo, A21_hi, A21_c, A21_e; interval with (i_prec 80)]. Qed.
Lemma d_A21_752u : close ctol (1326080900781185 / 1125899906842624) (volts_A21 (3045698731436681 / 140737488355328)).
Proof. apply (A21_q_volts_mid 3045698731436681 140737488355328 1326080900781185 1125899906842624); [vm_compute; reflexivity | unfold fr, close, ctol, A21_lo, A21_hi, A21_c, A21_e; interval with (i_prec 80)]. Qed.
Lemma d_A21_764r : rio_reads A21_c A21_e A21_lo A21_hi floor_volts ctol (Build_rio (Fin (7117700504250155 / 4503599627370496)) (Fin (6623 / 1024)) NInf (Fin (2997 / 512)) (Fin (2907 / 256)) true true true ((Fin (253 / 256)) :: (Fin (217 / 128)) :: (Fin (2621 / 1024)) :: (Fin (117163 / 1024)) :: (Fin (75 / 16)) :: (Fin (7279 / 1024)) :: nil)) (2123806041803479 / 140737488355328).
Proof. apply (A21_rio_fin _ (7117700504250155 / 4503599627370496)); [reflexivity | apply (A21_q_mid 7117700504250155 4503599627370496 2123806041803479 140737488355328); [vm_compute; reflexivity | unfold fr, close, ctol, A21_c, A21_e; interval with (i_prec 80)]]. Qed.
Lemma d_A21_777u : close ctol (2483962790845233 / 4503599627370496) (volts_A21 (7720322830627997 / 140737488355328)).
Proof. apply (A21_q_volts_mid 7720322830627997 140737488355328 2483962790845233 4503599627370496); [vm_compute; reflexivity | unfold fr, close, ctol, A21_lo, A21_hi, A21_c, A21_e; interval with (i_prec 80)]. Qed.
Lemma d_A21_790u : close ctol (1670528576127315 / 1125899906842624) (volts_A21 (2294768577787947 / 140737488355328)).
Proof. apply (A21_q_volts_mid 2294768577787947 140737488355328 1670528576127315 1125899906842624); [vm_compute; reflexivity | unfold fr, close, ctol, A21_lo, A21_hi, A21_c, A21_e; interval with (i_prec 80)]. Qed.
Lemma d_A21_803u : close ctol (4925085850070495 / 9007199254740992) (volts_A21 (7802733714971339 / 140737488355328)).
Proof. apply (A21_q_volts_mid 7802733714971339 140737488355328 4925085850070495 9007199254740992); [vm_compute; reflexivity | unfold fr, close, ctol, A21_lo, A21_hi, A21_c, A21_e; interval with (i_prec 80)]. Qed.
Lemma d_A21_816u : close ctol (2389393134546625 / 4503599627370496) (volts_A21 (4048300377809347 / 70368744177664)).
Proof. apply (A21_q_volts_mid 4048300377809347 70368744177664 2389393134546625 4503599627370496); [vm_compute; reflexivity | unfold fr, close, ctol, A21_lo, A21_hi, A21_c, A21_e; interval with (i_prec 80)]. Qed.
Lemma d_A21_828r : rio_reads A21_c A21_e A21_lo A21_hi floor_volts ctol (Build_rio (Fin (4018616892853445 / 9007199254740992)) (Fin (547 / 512)) (Fin (1 / 1)) (Fin (5975 / 1024)) (Fin (9979 / 1024)) true true true ((Fin (1777 / 1024)) :: (Fin (681 / 1024)) :: (Fin (1687 / 1024)) :: (Fin (120633 / 1024)) :: (Fin (8233 / 1024)) :: (Fin (2599 / 64)) :: nil)) (5006315286486913 / 70368744177664).
Proof. apply (A21_rio_fin _ (4018616892853445 / 9007199254740992)); [reflexivity | apply (A21_q_mid 4018616892853445 9007199254740992 5006315286486913 70368744177664); [vm_compute; reflexivity | unfold fr, close, ctol, A21_c, A21_e; interval with (i_prec 80)]]. Qed.
Lemma d_A21_841u : close ctol (4814985583922189 / 9007199254740992) (volts_A21 (57 / 1)).
Proof. apply (A21_q_volts_mid 57 1 4814985583922189 9007199254740992); [vm_compute; reflexivity | unfold fr, close, ctol, A21_lo, A21_hi, A21_c, A21_e; interval with (i_prec 80)]. Qed.
Lemma d_A21_854u : close ctol (8398529604550595 / 4503599627370496) (volts_A21 (1733844490552761 / 140737488355328)).
Proof. apply (A21_q_volts_mid 1733844490552761 140737488355328 8398529604550595 4503599627370496); [vm_compute; reflexivity | unfold fr, close, ctol, A21_lo, A21_hi, A21_c, A21_e; interval with (i_prec 80)]. Qed.
Lemma d_A21_867u : close ctol (2613817688866625 / 4503599627370496) (volts_A21 (7252768700919171 / 140737488355328)).
Proof. apply (A21_q_volts_mid 7252768700919171 140737488355328 2613817688866625 4503599627370496); [vm_compute; reflexivity | unfold fr, close, ctol, A21_lo, A21_hi, A21_c, A21_e; interval with (i_prec 80)]. Qed.
Lemma d_A21_880u : close ctol (4471938619480105 / 2251799813685248) (volts_A21 (6420556331276065 / 562949953421312)).
Proof. apply (A21_q_volts_mid 6420556331276065 562949953421312 4471938619480105 2251799813685248); [vm_compute; reflexivity | unfold fr, close, ctol, A21_lo, A21_hi, A21_c, A21_e; interval with (i_prec 80)]. Qed.
Lemma d_A21_892r : rio_reads A21_c A21_e A21_lo A21_hi floor_volts ctol (Build_rio (Fin (5041185825963405 / 9007199254740992)) (Fin (2715 / 512)) (Fin (3715469692580659 / 1125899906842624)) (Fin (3211 / 512)) (Fin (12555 / 1024)) true true false ((Fin (191 / 1024)) :: (Fin (3 / 512)) :: (Fin (2957 / 1024)) :: (Fin (141593 / 1024)) :: (Fin (1433 / 256)) :: (Fin (7087 / 128)) :: nil)) (947874905953381 / 17592186044416).
Proof. apply (A21_rio_fin _ (5041185825963405 / 9007199254740992)); [reflexivity | apply (A21_q_mid 5041185825963405 9007199254740992 947874905953381 17592186044416); [vm_compute; reflexivity | unfold fr, close, ctol, A21_c, A21_e; interval with (i_prec 80)]]. Qed.
Lemma d_A21_905u : close ctol (7303775102731699 / 18014398509481984) (volts_A21 (5328878837149031 / 35184372088832)).
Proof. apply (A21_q_volts_hi 5328878837149031 35184372088832 7303775102731699 18014398509481984); [vm_compute; reflexivity | unfold fr, close, ctol, A21_lo, A21_hi, A21_c, A21_e; interval with (i_prec 80)]. Qed.
Lemma d_A21_918u : close ctol (1303572108968615 / 2251799813685248) (volts_A21 (3637767869436039 / 70368744177664)).
Proof. apply (A21_q_volts_mid 3637767869436039 70368744177664 1303572108968615 2251799813685248); [vm_compute; reflexivity | unfold fr, close, ctol, A21_lo, A21_hi, A21_c, A21_e; interval with (i_prec 80)]. Qed.
Lemma d_A21_931u : close ctol (3382662291216177 / 4503599627370496) (volts_A21 (5287035678995077 / 140737488355328)).
Proof. apply (A21_q_volts_mid 5287035678995077 140737488355328 3382662291216177 4503599627370496); [vm_compute; reflexivity | unfold fr, close, ctol, A21_lo, A21_hi, A21_c, A21_e; interval with (i_prec 80)]. Qed.
Lemma d_A21_944u : close ctol (6270201302349295 / 9007199254740992) (volts_A21 (5803353315926825 / 140737488355328)).
Proof. apply (A21_q_volts_mid 5803353315926825 140737488355328 6270201302349295 9007199254740992); [vm_compute; reflexivity | unfold fr, close, ctol, A21_lo, A21_hi, A21_c, A21_e; interval with (i_prec 80)]. Qed.
Lemma d_A21_956r : rio_reads A21_c A21_e A21_lo A21_hi floor_volts ctol (Build_rio (Fin (1239336777930395 / 1125899906842624)) (Fin (295 / 64)) (Fin (3543 / 1024)) (Fin (6 / 1)) (Fin (521 / 256)) true true true ((Fin (221 / 512)) :: (Fin (883 / 512)) :: (Fin (2541 / 1024)) :: (Fin (48849 / 1024)) :: (Fin (7109 / 1024)) :: (Fin (35055 / 1024)) :: nil)) (6618165975764559 / 281474976710656).
Proof. apply (A21_rio_fin _ (1239336777930395 / 1125899906842624)); [reflexivity | apply (A21_q_mid 1239336777930395 1125899906842624 6618165975764559 281474976710656); [vm_compute; reflexivity | unfold fr, close, ctol, A21_c, A21_e; interval with (i_prec 80)]]. Qed.
Lemma d_A21_969u : close ctol (2513812542771089 / 4503599627370496) (volts_A21 (3804041261826761 / 70368744177664)).
Proof. apply (A21_q_volts_mid 3804041261826761 70368744177664 2513812542771089 4503599627370496); [vm_compute; reflexivity | unfold fr, close, ctol, A21_lo, A21_hi, A21_c, A21_e; interval with (i_prec 80)]. Qed.
Lemma d_A21_982u : close ctol (7303775102731699 / 18014398509481984) (volts_A21 (870885865605885 / 4398046511104)).
Proof. apply (A21_q_volts_hi 870885865605885 4398046511104 7303775102731699 18014398509481984); [vm_compute; reflexivity | unfold fr, close, ctol, A21_lo, A21_hi, A21_c, A21_e; interval with (i_prec 80)]. Qed.
Lemma d_A21_995u : close ctol (7303775102731699 / 18014398509481984) (volts_A21 (2571795361729147 / 17592186044416)).
Proof. apply (A21_q_volts_hi 2571795361729147 17592186044416 7303775102731699 18014398509481984); [vm_compute; reflexivity | unfold fr, close, ctol, A21_lo, A21_hi, A21_c, A21_e; interval with (i_prec 80)]. Qed.
Lemma d_A21_1008u : close ctol (6564478599784363 / 4503599627370496) (volts_A21 (1172643094263907 / 70368744177664)).
Proof. apply (A21_q_volts_mid 1172643094263907 70368744177664 6564478599784363 4503599627370496); [vm_compute; reflexivity | unfold fr, close, ctol, A21_lo, A21_hi, A21_c, A21_e; interval with (i_prec 80)]. Qed.
Lemma d_A21_1020r : rio_reads A21_c A21_e A21_lo A21_hi floor_volts ctol (Build_rio (Fin (920045809052963 / 1125899906842624)) (Fin (1523 / 256)) (Fin (3471 / 1024)) (Fin (2571 / 512)) (Fin (12 / 1)) true false true ((Fin (1111 / 1024)) :: (Fin (511 / 1024)) :: (Fin (2513 / 1024)) :: (Fin (105031 / 1024)) :: (Fin (3547 / 512)) :: (Fin ((-9705) / 1024)) :: nil)) (1191975717718271 / 35184372088832).
Proof. apply (A21_rio_fin _ (920045809052963 / 1125899906842624)); [reflexivity | apply (A21_q_mid 920045809052963 1125899906842624 1191975717718271 35184372088832); [vm_compute; reflexivity | unfold fr, close, ctol, A21_c, A21_e; interval with (i_prec 80)]]. Qed.
Lemma d_A21_1033u : close ctol (3903314119921967 / 9007199254740992) (volts_A21 (1297055769586045 / 17592186044416)).
Proof. apply (A21_q_volts_mid 1297055769586045 17592186044416 3903314119921967 9007199254740992); [vm_compute; reflexivity | unfold fr, close, ctol, A21_lo, A21_hi, A21_c, A21_e; interval with (i_prec 80)]. Qed.
Lemma d_A21_1046u : close ctol (2489100355631953 / 1125899906842624) (volts_A21 (688411076412759 / 72057594037927936)).
Proof. apply (A21_q_volts_lo 688411076412759 72057594037927936 2489100355631953 1125899906842624); [vm_compute; reflexivity | unfold fr, close, ctol, A21_lo, A21_hi, A21_c, A21_e; interval with (i_prec 80)]. Qed.
Lemma d_A21_1059u : close ctol (2489100355631953 / 1125899906842624) (volts_A21 ((-5324046514016459) / 1125899906842624)).
Proof. apply (A21_q_volts_lo (-5324046514016459) 1125899906842624 2489100355631953 1125899906842624); [vm_compute; reflexivity | unfold fr, close, ctol, A21_lo, A21_hi, A21_c, A21_e; interval with (i_prec 80)]. Qed.
Lemma d_A21_1072u : close ctol (7353530520850023 / 18014398509481984) (volts_A21 (5582836607234385 / 70368744177664)).
Proof. apply (A21_q_volts_mid 5582836607234385 70368744177664 7353530520850023 18014398509481984); [vm_compute; reflexivity | unfold fr, close, ctol, A21_lo, A21_hi, A21_c, A21_e; interval with (i_prec 80)]. Qed.
Lemma d_A21_1084r : rio_reads A21_c A21_e A21_lo A21_hi floor_volts ctol (Build_rio (Fin (8486411961356645 / 18014398509481984)) (Fin (2209 / 512)) (Fin (3237 / 1024)) (Fin (4947 / 512)) (Fin (12 / 1)) true true true ((Fin (447 / 256)) :: (Fin (1371 / 1024)) :: (Fin (1503 / 512)) :: (Fin (130195 / 1024)) :: (Fin (509 / 64)) :: (Fin (32877 / 1024)) :: nil)) (2341710133713361 / 35184372088832).
Proof. apply (A21_rio_fin _ (8486411961356645 / 18014398509481984)); [reflexivity | apply (A21_q_mid 8486411961356645 18014398509481984 2341710133713361 35184372088832); [vm_compute; reflexivity | unfold fr, close, ctol, A21_c, A21_e; interval with (i_prec 80)]]. Qed.
Lemma d_A21_1097u : close ctol (7364724635440183 / 18014398509481984) (volts_A21 (696554364391019 / 8796093022208)).
Proof. apply (A21_q_volts_mid 696554364391019 8796093022208 7364724635440183 18014398509481984); [vm_compute; reflexivity | unfold fr, close, ctol, A21_lo, A21_hi, A21_c, A21_e; interval with (i_prec 80)]. Qed.
Lemma d_A21_1110u : close ctol (7303775102731699 / 18014398509481984) (volts_A21 (1828092138171553 / 8796093022208)).
Proof. apply (A21_q_volts_hi 1828092138171553 8796093022208 7303775102731699 18014398509481984); [vm_compute; reflexivity | unfold fr, close, ctol, A21_lo, A21_hi, A21_c, A21_e; interval with (i_prec 80)]. Qed.
Lemma d_A21_1123u : close ctol (47728713817423 / 35184372088832) (volts_A21 (1280648565642015 / 70368744177664)).
Proof. apply (A21_q_volts_mid 1280648565642015 70368744177664 47728713817423 35184372088832); [vm_compute; reflexivity | unfold fr, close, ctol, A21_lo, A21_hi, A21_c, A21_e; interval with (i_prec 80)]. Qed.
Lemma d_A21_1136u : close ctol (3002997909532405 / 4503599627370496) (volts_A21 (6117878810455391 / 140737488355328)).
Proof. apply (A21_q_volts_mid 6117878810455391 140737488355328 3002997909532405 4503599627370496); [vm_compute; reflexivity | unfold fr, close, ctol, A21_lo, A21_hi, A21_c, A21_e; interval with (i_prec 80)]. Qed.
Lemma d_A21_1148r : rio_reads A21_c A21_e A21_lo A21_hi floor_volts ctol (Build_rio (Fin (2280834764676667 / 4503599627370496)) (Fin (5902958103587057 / 590295810358705651712)) (Fin (1573 / 512)) (Fin (6 / 1)) (Fin (6223 / 512)) true true false ((Fin (2105 / 1024)) :: (Fin (1987 / 1024)) :: (Fin (53 / 256)) :: (Fin (30065 / 512)) :: (Fin (6065 / 1024)) :: (Fin (70869 / 1024)) :: nil)) (8571568660071523 / 140737488355328).
Proof. apply (A21_rio_fin _ (2280834764676667 / 4503599627370496)); [reflexivity | apply (A21_q_mid 2280834764676667 4503599627370496 8571568660071523 140737488355328); [vm_compute; reflexivity | unfold fr, close, ctol, A21_c, A21_e; interval with (i_prec 80)]]. Qed.
Lemma d_A21_1161u : close ctol (1404395467741359 / 2251799813685248) (volts_A21 (6640465637812195 / 140737488355328)).
Proof. apply (A21_q_volts_mid 6640465637812195 140737488355328 1404395467741359 2251799813685248); [vm_compute; reflexivity | unfold fr, close, ctol, A21_lo, A21_hi, A21_c, A21_e; interval with (i_prec 80)]. Qed.
Lemma d_A21_1174u : close ctol (3649654392039653 / 4503599627370496) (volts_A21 (301052834088225 / 8796093022208)).
Proof. apply (A21_q_volts_mid 301052834088225 8796093022208 3649654392039653 4503599627370496); [vm_compute; reflexivity | unfold fr, close, ctol, A21_lo, A21_hi, A21_c, A21_e; interval with (i_prec 80)]. Qed.
Lemma d_A21_1187u : close ctol (1165690763171975 / 1125899906842624) (volts_A21 (1783596444396137 / 70368744177664)).
Proof. apply (A21_q_volts_mid 1783596444396137 70368744177664 1165690763171975 1125899906842624); [vm_compute; reflexivity | unfold fr, close, ctol, A21_lo, A21_hi, A21_c, A21_e; interval with (i_prec 80)]. Qed.
Lemma d_A21_1200u : close ctol (5091032517380519 / 9007199254740992) (volts_A21 (7492074948285663 / 140737488355328)).
Proof. apply (A21_q_volts_mid 7492074948285663 140737488355328 5091032517380519 9007199254740992); [vm_compute; reflexivity | unfold fr, close, ctol, A21_lo, A21_hi, A21_c, A21_e; interval with (i_prec 80)]. Qed.
Lemma d_A21_1212r : rio_reads A21_c A21_e A21_lo A21_hi floor_volts ctol (Build_rio (Fin (2489100355631953 / 1125899906842624)) (Fin (5 / 1)) PInf (Fin (5489 / 1024)) (Fin (9891 / 1024)) true true true ((Fin (169 / 1024)) :: (Fin (831 / 1024)) :: (Fin (1513 / 512)) :: (Fin (54335 / 512)) :: (Fin (6539 / 1024)) :: (Fin (5115 / 256)) :: nil)) (10 / 1).
Proof. apply (A21_rio_fin _ (2489100355631953 / 1125899906842624)); [reflexivity | apply (A21_q_lo 2489100355631953 1125899906842624 10 1); [vm_compute; reflexivity | unfold fr, ctol, A21_lo, A21_c, A21_e; interval with (i_prec 80)]]. Qed.
Lemma d_A21_1225u : close ctol (1896397582024599 / 4503599627370496) (volts_A21 (335886015383283 / 4398046511104)).
Proof. apply (A21_q_volts_mid 335886015383283 4398046511104 1896397582024599 4503599627370496); [vm_compute; reflexivity | unfold fr, close, ctol, A21_lo, A21_hi, A21_c, A21_e; interval with (i_prec 80)]. Qed.
Lemma d_A21_1238u : close ctol (606723652492613 / 1125899906842624) (volts_A21 (7943481931052857 / 140737488355328)).
Proof. apply (A21_q_volts_mid 7943481931052857 140737488355328 606723652492613 1125899906842624); [vm_compute; reflexivity | unfold fr, close, ctol, A21_lo, A21_hi, A21_c, A21_e; interval with (i_prec 80)]. Qed.
Lemma d_A21_1251u : close ctol (8288407450623333 / 18014398509481984) (volts_A21 (1205239452278703 / 17592186044416)).
Proof. apply (A21_q_volts_mid 1205239452278703 17592186044416 8288407450623333 18014398509481984); [vm_compute; reflexivity | unfold fr, close, ctol, A21_lo, A21_hi, A21_c, A21_e; interval with (i_prec 80)]. Qed.
Lemma d_A21_1264u : close ctol (7153153442448603 / 9007199254740992) (volts_A21 (1234446106474565 / 35184372088832)).
Proof. apply (A21_q_volts_mid 1234446106474565 35184372088832 7153153442448603 9007199254740992); [vm_compute; reflexivity | unfold fr, close, ctol, A21_lo, A21_hi, A21_c, A21_e; interval with (i_prec 80)]. Qed.
Lemma d_A21_1276r : rio_reads A21_c A21_e A21_lo A21_hi floor_volts ctol (Build_rio (Fin (22417962217135 / 35184372088832)) (Fin (2099 / 512)) (Fin (3377 / 1024)) (Fin (2693 / 512)) (Fin (12 / 1)) true false true ((Fin (2565 / 1024)) :: (Fin (1251 / 1024)) :: (Fin (685 / 512)) :: (Fin (37795 / 1024)) :: (Fin (8627 / 1024)) :: (Fin ((-3367) / 256)) :: nil)) (404290067697909 / 8796093022208).
Proof. apply (A21_rio_fin _ (22417962217135 / 35184372088832)); [reflexivity | apply (A21_q_mid 22417962217135 35184372088832 404290067697909 8796093022208); [vm_compute; reflexivity | unfold fr, close, ctol, A21_c, A21_e; interval with (i_prec 80)]]. Qed.
Lemma d_A21_1289u : close ctol (2489100355631953 / 1125899906842624) (volts_A21 (1756552551190137 / 562949953421312)).
Proof. apply (A21_q_volts_lo 1756552551190137 562949953421312 2489100355631953 1125899906842624); [vm_compute; reflexivity | unfold fr, close, ctol, A21_lo, A21_hi, A21_c, A21_e; interval with (i_prec 80)]. Qed.
Lemma d_A21_1302u : close ctol (1156248298308721 / 1125899906842624) (volts_A21 (1801470416888669 / 70368744177664)).
Proof. apply (A21_q_volts_mid 1801470416888669 70368744177664 1156248298308721 1125899906842624); [vm_compute; reflexivity | unfold fr, close, ctol, A21_lo, A21_hi, A21_c, A21_e; interval with (i_prec 80)]. Qed.
Lemma d_A21_1315u : close ctol (2093436767613811 / 4503599627370496) (volts_A21 (1190197890856607 / 17592186044416)).
Proof. apply (A21_q_volts_mid 1190197890856607 17592186044416 2093436767613811 4503599627370496); [vm_compute; reflexivity | unfold fr, close, ctol, A21_lo, A21_hi, A21_c, A21_e; interval with (i_prec 80)]. Qed.
Lemma d_A21_1328u : close ctol (2489100355631953 / 1125899906842624) (volts_A21 (1042355077188173 / 562949953421312)).
Proof. apply (A21_q_volts_lo 1042355077188173 562949953421312 2489100355631953 1125899906842624); [vm_compute; reflexivity | unfold fr, close, ctol, A21_lo, A21_hi, A21_c, A21_e; interval with (i_prec 80)]. Qed.
Lemma r_A41_872 : rio_reads A41_c A41_e A41_lo A41_hi floor_volts ctol (Build_rio (Fin (2951479051793529 / 295147905179352825856)) (Fin (5902958103587057 / 590295810358705651712)) (Fin (3715469692580659 / 1125899906842624)) (Fin (6 / 1)) (Fin (12 / 1)) true true true ((Fin (0 / 1)) :: (Fin (0 / 1)) :: (Fin (0 / 1)) :: (Fin (0 / 1)) :: (Fin (27 / 4)) :: (Fin (45 / 1)) :: nil)) (35 / 1).
Proof. apply (A41_rio_fin _ (2951479051793529 / 295147905179352825856)); [reflexivity | apply (A41_q_hi 2951479051793529 295147905179352825856 35 1); [vm_compute; reflexivity | unfold fr, ctol, A41_hi, A41_c, A41_e; interval with (i_prec 80)]]. Qed.
Lemma r_A41_890 : rio_reads A41_c A41_e A41_lo A41_hi floor_volts ctol (Build_rio (Fin (6491044304710825 / 18014398509481984)) (Fin (5 / 1)) (Fin (0 / 1)) (Fin (6 / 1)) (Fin (12 / 1)) true true true ((Fin (0 / 1)) :: (Fin (0 / 1)) :: (Fin (0 / 1)) :: (Fin (0 / 1)) :: (Fin (27 / 4)) :: (Fin (45 / 1)) :: nil)) (35 / 1).
Proof. apply (A41_rio_fin _ (6491044304710825 / 18014398509481984)); [reflexivity | apply (A41_q_hi 6491044304710825 18014398509481984 35 1); [vm_compute; reflexivity | unfold fr, ctol, A41_hi, A41_c, A41_e; interval with (i_prec 80)]]. Qed.
Lemma r_A41_906 : rio_reads A41_c A41_e A41_lo A41_hi floor_volts ctol (Build_rio (Fin (745 / 2048)) (Fin (5 / 1)) (Fin (3715469692580659 / 1125899906842624)) (Fin (6 / 1)) (Fin (12 / 1)) true true true ((Fin (0 / 1)) :: (Fin (0 / 1)) :: (Fin (2476979795053773 / 1125899906842624)) :: (Fin (0 / 1)) :: (Fin (27 / 4)) :: (Fin (45 / 1)) :: nil)) (4879991243679493 / 140737488355328).
Proof. apply (A41_rio_fin _ (745 / 2048)); [reflexivity | apply (A41_q_mid 745 2048 4879991243679493 140737488355328); [vm_compute; reflexivity | unfold fr, close, ctol, A41_c, A41_e; interval with (i_prec 80)]]. Qed.
Lemma r_A41_922 : rio_reads A41_c A41_e A41_lo A41_hi floor_volts ctol (Build_rio (Fin (5 / 32)) (Fin (7761 / 1024)) (Fin (3095 / 1024)) (Fin (6 / 1)) (Fin (12 / 1)) true true true ((Fin (3 / 256)) :: (Fin (1 / 256)) :: (Fin (1107 / 1024)) :: (Fin (22511 / 1024)) :: (Fin (3913 / 512)) :: (Fin (31655 / 1024)) :: nil)) (35 / 1).
Proof. apply (A41_rio_fin _ (5 / 32)); [reflexivity | apply (A41_q_hi 5 32 35 1); [vm_compute; reflexivity | unfold fr, ctol, A41_hi, A41_c, A41_e; interval with (i_prec 80)]]. Qed.
Lemma r_A41_938 : rio_reads A41_c A41_e A41_lo A41_hi floor_volts ctol (Build_rio (Fin (15 / 32)) (Fin ((-1) / 1)) (Fin (3703 / 1024)) PInf (Fin (1351 / 128)) true true true ((Fin (961 / 512)) :: (Fin (187 / 256)) :: (Fin (2921 / 1024)) :: (Fin (31241 / 512)) :: (Fin (8109 / 1024)) :: (Fin (19095 / 1024)) :: nil)) (1902006996202339 / 70368744177664).
Proof. apply (A41_rio_fin _ (15 / 32)); [reflexivity | apply (A41_q_mid 15 32 1902006996202339 70368744177664); [vm_compute; reflexivity | unfold fr, close, ctol, A41_c, A41_e; interval with (i_prec 80)]]. Qed.
Lemma r_A41_954 : rio_reads A41_c A41_e A41_lo A41_hi floor_volts ctol (Build_rio (Fin (25 / 32)) (Fin (5013 / 1024)) (Fin (3715469692580659 / 1125899906842624)) PInf (Fin (12759 / 1024)) false false true ((Fin (699 / 256)) :: (Fin (413 / 512)) :: (Fin (391 / 256)) :: (Fin (32355 / 1024)) :: (Fin (1617 / 512)) :: (Fin (77837 / 1024)) :: nil)) (1151510489510295 / 70368744177664).
Proof. apply (A41_rio_fin _ (25 / 32)); [reflexivity | apply (A41_q_mid 25 32 1151510489510295 70368744177664); [vm_compute; reflexivity | unfold fr, close, ctol, A41_c, A41_e; interval with (i_prec 80)]]. Qed.
Lemma r_A41_970 : rio_reads A41_c A41_e A41_lo A41_hi floor_volts ctol (Build_rio (Fin (35 / 32)) (Fin (2773 / 512)) PInf (Fin (6395 / 1024)) (Fin (6205 / 512)) true false true ((Fin (1721 / 1024)) :: (Fin (383 / 512)) :: (Fin (887 / 512)) :: (Fin (47325 / 256)) :: (Fin (701 / 128)) :: (Fin (59643 / 1024)) :: nil)) (3309571039030715 / 281474976710656).
Proof. apply (A41_rio_fin _ (35 / 32)); [reflexivity | apply (A41_q_mid 35 32 3309571039030715 281474976710656); [vm_compute; reflexivity | unfold fr, close, ctol, A41_c, A41_e; interval with (i_prec 80)]]. Qed.
Lemma r_A41_986 : rio_reads A41_c A41_e A41_lo A41_hi floor_volts ctol (Build_rio (Fin (45 / 32)) (Fin (295 / 64)) (Fin (3387 / 1024)) (Fin (6643 / 1024)) (Fin (12 / 1)) false true true ((Fin (507 / 256)) :: (Fin (1355 / 1024)) :: (Fin (87 / 64)) :: (Fin (4481 / 128)) :: (Fin (4301 / 1024)) :: (Fin (40541 / 1024)) :: nil)) (5171043324548959 / 562949953421312).
Proof. apply (A41_rio_fin _ (45 / 32)); [reflexivity | apply (A41_q_mid 45 32 5171043324548959 562949953421312); [vm_compute; reflexivity | unfold fr, close, ctol, A41_c, A41_e; interval with (i_prec 80)]]. Qed.
Lemma r_A41_1002 : rio_reads A41_c A41_e A41_lo A41_hi floor_volts ctol (Build_rio (Fin (55 / 32)) (Fin (1171 / 256)) (Fin (3207 / 1024)) (Fin (697 / 128)) (Fin (579 / 64)) true true true ((Fin (2215 / 1024)) :: (Fin (669 / 512)) :: (Fin (1003 / 512)) :: (Fin (50797 / 256)) :: (Fin (3859 / 512)) :: (Fin (71591 / 1024)) :: nil)) (8491645188260983 / 1125899906842624).
Proof. apply (A41_rio_fin _ (55 / 32)); [reflexivity | apply (A41_q_mid 55 32 8491645188260983 1125899906842624); [vm_compute; reflexivity | unfold fr, close, ctol, A41_c, A41_e; interval with (i_prec 80)]]. Qed.
Lemma r_A41_1018 : rio_reads A41_c A41_e A41_lo A41_hi floor_volts ctol (Build_rio (Fin (65 / 32)) (Fin (1 / 1)) (Fin (3715469692580659 / 1125899906842624)) (Fin (841 / 128)) (Fin (13099 / 1024)) true true true ((Fin (833 / 512)) :: (Fin (1771 / 1024)) :: (Fin (363 / 1024)) :: (Fin (175281 / 1024)) :: (Fin (7467 / 1024)) :: (Fin (20735 / 512)) :: nil)) (7206395014832183 / 1125899906842624).
Proof. apply (A41_rio_fin _ (65 / 32)); [reflexivity | apply (A41_q_mid 65 32 7206395014832183 1125899906842624); [vm_compute; reflexivity | unfold fr, close, ctol, A41_c, A41_e; interval with (i_prec 80)]]. Qed.
Lemma r_A41_1034 : rio_reads A41_c A41_e A41_lo A41_hi floor_volts ctol (Build_rio (Fin (75 / 32)) (Fin (14263 / 1024)) (Fin (877 / 256)) (Fin (7315 / 512)) (Fin (11723 / 1024)) true false false ((Fin (467 / 256)) :: (Fin (1721 / 1024)) :: (Fin (87 / 1024)) :: (Fin (59129 / 512)) :: (Fin (1587 / 256)) :: (Fin ((-13723) / 1024)) :: nil)) (6261292037116001 / 1125899906842624).
Proof. apply (A41_rio_fin _ (75 / 32)); [reflexivity | apply (A41_q_mid 75 32 6261292037116001 1125899906842624); [vm_compute; reflexivity | unfold fr, close, ctol, A41_c, A41_e; interval with (i_prec 80)]]. Qed.
Lemma r_A41_1050 : rio_reads A41_c A41_e A41_lo A41_hi floor_volts ctol (Build_rio (Fin (85 / 32)) (Fin (5 / 1)) (Fin (1739 / 512)) (Fin (665 / 128)) (Fin (12 / 1)) false false true ((Fin (7 / 512)) :: (Fin (117 / 64)) :: (Fin (533 / 256)) :: (Fin (136965 / 1024)) :: (Fin (1771 / 256)) :: (Fin (41957 / 1024)) :: nil)) (5536852994833663 / 1125899906842624).
Proof. apply (A41_rio_fin _ (85 / 32)); [reflexivity | apply (A41_q_mid 85 32 5536852994833663 1125899906842624); [vm_compute; reflexivity | unfold fr, close, ctol, A41_c, A41_e; interval with (i_prec 80)]]. Qed.
Lemma r_A41_1066 : rio_reads A41_c A41_e A41_lo A41_hi floor_volts ctol (Build_rio (Fin (765 / 256)) (Fin (5347 / 1024)) (Fin (3153 / 1024)) (Fin (5633 / 1024)) (Fin (1423 / 256)) true true true ((Fin (1475 / 1024)) :: (Fin (307 / 1024)) :: (Fin (2263 / 1024)) :: (Fin (1831 / 512)) :: (Fin (9199 / 1024)) :: (Fin (78449 / 1024)) :: nil)) (9 / 2).
Proof. apply (A41_rio_fin _ (765 / 256)); [reflexivity | apply (A41_q_lo 765 256 9 2); [vm_compute; reflexivity | unfold fr, ctol, A41_lo, A41_c, A41_e; interval with (i_prec 80)]]. Qed.
Lemma r_A41_1082 : rio_reads A41_c A41_e A41_lo A41_hi floor_volts ctol (Build_rio (Fin (845 / 256)) (Fin (4847 / 1024)) (Fin (14783 / 1024)) (Fin ((-1) / 1)) (Fin (1 / 202402253307310618352495346718917307049556649764142118356901358027430339567995346891960383701437124495187077864316811911389808737385793476867013399940738509921517424276566361364466907742093216341239767678472745068562007483424692698618103355649159556340810056512358769552333414615230502532186327508646006263307707741093494784)) true true true ((Fin (3057 / 1024)) :: (Fin (439 / 1024)) :: (Fin (1183 / 1024)) :: (Fin (80541 / 1024)) :: (Fin (7191 / 1024)) :: (Fin (13611 / 256)) :: nil)) (9 / 2).
Proof. apply (A41_rio_fin _ (845 / 256)); [reflexivity | apply (A41_q_lo 845 256 9 2); [vm_compute; reflexivity | unfold fr, ctol, A41_lo, A41_c, A41_e; interval with (i_prec 80)]]. Qed.
Lemma r_A41_1098 : rio_reads A41_c A41_e A41_lo A41_hi floor_volts ctol (Build_rio (Fin (925 / 256)) (Fin (2091 / 512)) (Fin (7803 / 1024)) (Fin (5241 / 1024)) (Fin ((-12) / 1)) true true true ((Fin (403 / 256)) :: (Fin (51 / 64)) :: (Fin (2221 / 1024)) :: (Fin (155591 / 1024)) :: (Fin (81 / 16)) :: (Fin (51245 / 1024)) :: nil)) (9 / 2).
Proof. apply (A41_rio_fin _ (925 / 256)); [reflexivity | apply (A41_q_lo 925 256 9 2); [vm_compute; reflexivity | unfold fr, ctol, A41_lo, A41_c, A41_e; interval with (i_prec 80)]]. Qed.
Lemma r_A41_1114 : rio_reads A41_c A41_e A41_lo A41_hi floor_volts ctol (Build_rio (Fin (1005 / 256)) (Fin (13009 / 1024)) (Fin (1995 / 512)) (Fin (615 / 128)) (Fin (12 / 1)) false true true ((Fin (271 / 256)) :: (Fin (1063 / 1024)) :: (Fin (2125 / 1024)) :: (Fin (72779 / 1024)) :: (Fin (239 / 64)) :: (Fin (57821 / 1024)) :: nil)) (9 / 2).
Proof. apply (A41_rio_fin _ (1005 / 256)); [reflexivity | apply (A41_q_lo 1005 256 9 2); [vm_compute; reflexivity | unfold fr, ctol, A41_lo, A41_c, A41_e; interval with (i_prec 80)]]. Qed.
Lemma r_A41_1130 : rio_reads A41_c A41_e A41_lo A41_hi floor_volts ctol (Build_rio (Fin (1085 / 256)) (Fin (4187 / 1024)) (Fin ((-1) / 1)) (Fin (6183 / 1024)) (Fin (0 / 1)) false false true ((Fin (1413 / 512)) :: (Fin (157 / 1024)) :: (Fin (1485 / 512)) :: (Fin (47853 / 512)) :: (Fin (1119 / 256)) :: (Fin (5219 / 128)) :: nil)) (9 / 2).
Proof. apply (A41_rio_fin _ (1085 / 256)); [reflexivity | apply (A41_q_lo 1085 256 9 2); [vm_compute; reflexivity | unfold fr, ctol, A41_lo, A41_c, A41_e; interval with (i_prec 80)]]. Qed.
Lemma r_A41_1146 : rio_reads A41_c A41_e A41_lo A41_hi floor_volts ctol (Build_rio (Fin (1165 / 256)) (Fin (5 / 1)) (Fin (3541 / 1024)) (Fin (6 / 1)) (Fin (5751 / 512)) true false true ((Fin (431 / 512)) :: (Fin (517 / 1024)) :: (Fin (1551 / 1024)) :: (Fin (53649 / 512)) :: (Fin (1635 / 256)) :: (Fin (1199 / 256)) :: nil)) (9 / 2).
Proof. apply (A41_rio_fin _ (1165 / 256)); [reflexivity | apply (A41_q_lo 1165 256 9 2); [vm_compute; reflexivity | unfold fr, ctol, A41_lo, A41_c, A41_e; interval with (i_prec 80)]]. Qed.
Lemma r_A41_1162 : rio_reads A41_c A41_e A41_lo A41_hi floor_volts ctol (Build_rio (Fin (1245 / 256)) (Fin (0 / 1)) (Fin ((-1) / 1)) (Fin (13373 / 1024)) (Fin (12 / 1)) false true false ((Fin (1377 / 512)) :: (Fin (1477 / 1024)) :: (Fin (687 / 1024)) :: (Fin (3015 / 256)) :: (Fin (4221 / 1024)) :: (Fin (4691 / 256)) :: nil)) (9 / 2).
Proof. apply (A41_rio_fin _ (1245 / 256)); [reflexivity | apply (A41_q_lo 1245 256 9 2); [vm_compute; reflexivity | unfold fr, ctol, A41_lo, A41_c, A41_e; interval with (i_prec 80)]]. Qed.
Lemma r_A41_1178 : rio_reads A41_c A41_e A41_lo A41_hi floor_volts ctol (Build_rio (Fin (3369657595583015 / 4503599627370496)) (Fin (5 / 1)) (Fin (3715469692580659 / 1125899906842624)) (Fin (8453 / 1024)) (Fin (3063 / 256)) false true false ((Fin (273 / 128)) :: (Fin (1645 / 1024)) :: (Fin (2583 / 1024)) :: (Fin (135597 / 1024)) :: (Fin (2447 / 512)) :: (Fin ((-9341) / 1024)) :: nil)) (2402877768482483 / 140737488355328).
Proof. apply (A41_rio_fin _ (3369657595583015 / 4503599627370496)); [reflexivity | apply (A41_q_mid 3369657595583015 4503599627370496 2402877768482483 140737488355328); [vm_compute; reflexivity | unfold fr, close, ctol, A41_c, A41_e; interval with (i_prec 80)]]. Qed.
Lemma r_A41_1194 : rio_reads A41_c A41_e A41_lo A41_hi floor_volts ctol (Build_rio (Fin (2833427849092291 / 1125899906842624)) (Fin (2653 / 512)) (Fin (29 / 8)) (Fin (4955 / 1024)) (Fin (12 / 1)) true true true ((Fin (235 / 1024)) :: (Fin (1867 / 1024)) :: (Fin (2501 / 1024)) :: (Fin (21627 / 512)) :: (Fin (6633 / 1024)) :: (Fin (30155 / 512)) :: nil)) (2919286602022179 / 562949953421312).
Proof. apply (A41_rio_fin _ (2833427849092291 / 1125899906842624)); [reflexivity | apply (A41_q_mid 2833427849092291 1125899906842624 2919286602022179 562949953421312); [vm_compute; reflexivity | unfold fr, close, ctol, A41_c, A41_e; interval with (i_prec 80)]]. Qed.
Lemma r_A41_1210 : rio_reads A41_c A41_e A41_lo A41_hi floor_volts ctol (Build_rio (Fin (3252502387916325 / 1125899906842624)) (Fin (5555 / 1024)) (Fin (5902958103587057 / 590295810358705651712)) (Fin (1037 / 512)) (Fin (1515 / 128)) true true true ((Fin (1383 / 512)) :: (Fin (1681 / 1024)) :: (Fin (2645 / 1024)) :: (Fin (2609 / 256)) :: (Fin (747 / 128)) :: (Fin (17471 / 512)) :: nil)) (2549327344913005 / 562949953421312).
Proof. apply (A41_rio_fin _ (3252502387916325 / 1125899906842624)); [reflexivity | apply (A41_q_mid 3252502387916325 1125899906842624 2549327344913005 562949953421312); [vm_compute; reflexivity | unfold fr, close, ctol, A41_c, A41_e; interval with (i_prec 80)]]. Qed.
Lemma r_A41_1226 : rio_reads A41_c A41_e A41_lo A41_hi floor_volts ctol (Build_rio (Fin (273071643437159 / 140737488355328)) (Fin (4247 / 1024)) (Fin (17 / 64)) (Fin (5199 / 1024)) PInf true true true ((Fin (1347 / 1024)) :: (Fin (989 / 1024)) :: (Fin (2823 / 1024)) :: (Fin (5521 / 256)) :: (Fin (8023 / 1024)) :: (Fin (92681 / 1024)) :: nil)) (7538144441561665 / 1125899906842624).
Proof. apply (A41_rio_fin _ (273071643437159 / 140737488355328)); [reflexivity | apply (A41_q_mid 273071643437159 140737488355328 7538144441561665 1125899906842624); [vm_compute; reflexivity | unfold fr, close, ctol, A41_c, A41_e; interval with (i_prec 80)]]. Qed.
Lemma r_A41_1246 : rio_reads A41_c A41_e A41_lo A41_hi floor_volts ctol (Build_rio (Fin (4822031757783959 / 9223372036854775808)) (Fin (10091 / 1024)) (Fin (1365 / 512)) (Fin (5217 / 1024)) NInf true false true ((Fin (155 / 256)) :: (Fin (1663 / 1024)) :: (Fin (177 / 256)) :: (Fin (183379 / 1024)) :: (Fin (899 / 256)) :: (Fin ((-367) / 64)) :: nil)) (35 / 1).
Proof. apply (A41_rio_fin _ (4822031757783959 / 9223372036854775808)); [reflexivity | apply (A41_q_hi 4822031757783959 9223372036854775808 35 1); [vm_compute; reflexivity | unfold fr, ctol, A41_hi, A41_c, A41_e; interval with (i_prec 80)]]. Qed.
Lemma d_A41_1333u : close ctol (1636741441258383 / 562949953421312) (volts_A41 (0 / 1)).
Proof. apply (A41_q_volts_lo 0 1 1636741441258383 562949953421312); [vm_compute; reflexivity | unfold fr, close, ctol, A41_lo, A41_hi, A41_c, A41_e; interval with (i_prec 80)]. Qed.
Lemma d_A41_1341u : close ctol (6491044311201869 / 18014398509481984) (volts_A41 (60 / 1)).
Proof. apply (A41_q_volts_hi 60 1 6491044311201869 18014398509481984); [vm_compute; reflexivity | unfold fr, close, ctol, A41_lo, A41_hi, A41_c, A41_e; interval with (i_prec 80)]. Qed.
Lemma d_A41_1349u : close ctol (1636741441258383 / 562949953421312) (volts_A41 (9 / 2)).
Proof. apply (A41_q_volts_lo 9 2 1636741441258383 562949953421312); [vm_compute; reflexivity | unfold fr, close, ctol, A41_lo, A41_hi, A41_c, A41_e; interval with (i_prec 80)]. Qed.
Lemma d_A41_1357u : close ctol (1636741441258383 / 562949953421312) (volts_A41 (1 / 202402253307310618352495346718917307049556649764142118356901358027430339567995346891960383701437124495187077864316811911389808737385793476867013399940738509921517424276566361364466907742093216341239767678472745068562007483424692698618103355649159556340810056512358769552333414615230502532186327508646006263307707741093494784)).
Proof. apply (A41_q_volts_lo 1 202402253307310618352495346718917307049556649764142118356901358027430339567995346891960383701437124495187077864316811911389808737385793476867013399940738509921517424276566361364466907742093216341239767678472745068562007483424692698618103355649159556340810056512358769552333414615230502532186327508646006263307707741093494784 1636741441258383 562949953421312); [vm_compute; reflexivity | unfold fr, close, ctol, A41_lo, A41_hi, A41_c, A41_e; interval with (i_prec 80)]. Qed.
Lemma d_A41_1365u : close ctol (6491044311201869 / 18014398509481984) (volts_A41 (50 / 1)).
Proof. apply (A41_q_volts_hi 50 1 6491044311201869 18014398509481984); [vm_compute; reflexivity | unfold fr, close, ctol, A41_lo, A41_hi, A41_c, A41_e; interval with (i_prec 80)]. Qed.
Lemma d_A41_1373u : close ctol (6491044311201869 / 18014398509481984) (volts_x A41_c A41_e A41_lo A41_hi PInf).
Proof. apply (corr_volts_pinf _ _ _ _ _ A41_admissible _ ctol_ok); unfold fr, close, ctol, A41_lo, A41_hi, A41_c, A41_e; interval with (i_prec 80). Qed.
Lemma d_A41_1381u : close ctol (1636741441258383 / 562949953421312) (volts_A41 (5066549575725259 / 1125899906842624)).
Proof. apply (A41_q_volts_lo 5066549575725259 1125899906842624 1636741441258383 562949953421312); [vm_compute; reflexivity | unfold fr, close, ctol, A41_lo, A41_hi, A41_c, A41_e; interval with (i_prec 80)]. Qed.
Lemma d_A41_1389u : close ctol (5810820953442543 / 9007199254740992) (volts_A41 (79 / 4)).
Proof. apply (A41_q_volts_mid 79 4 5810820953442543 9007199254740992); [vm_compute; reflexivity | unfold fr, close, ctol, A41_lo, A41_hi, A41_c, A41_e; interval with (i_prec 80)]. Qed.
Lemma d_A41_1401u : close ctol (1458424749271919 / 2251799813685248) (volts_A41 (2768856241979979 / 140737488355328)).
Proof. apply (A41_q_volts_mid 2768856241979979 140737488355328 1458424749271919 2251799813685248); [vm_compute; reflexivity | unfold fr, close, ctol, A41_lo, A41_hi, A41_c, A41_e; interval with (i_prec 80)]. Qed.
Lemma d_A41_1414u : close ctol (6491044311201869 / 18014398509481984) (volts_A41 (8392006100922091 / 35184372088832)).
Proof. apply (A41_q_volts_hi 8392006100922091 35184372088832 6491044311201869 18014398509481984); [vm_compute; reflexivity | unfold fr, close, ctol, A41_lo, A41_hi, A41_c, A41_e; interval with (i_prec 80)]. Qed.
Lemma d_A41_1427u : close ctol (447820250302727 / 1125899906842624) (volts_A41 (2235084303194081 / 70368744177664)).
Proof. apply (A41_q_volts_mid 2235084303194081 70368744177664 447820250302727 1125899906842624); [vm_compute; reflexivity | unfold fr, close, ctol, A41_lo, A41_hi, A41_c, A41_e; interval with (i_prec 80)]. Qed.
Lemma d_A41_1440u : close ctol (936118023480091 / 1125899906842624) (volts_A41 (8665487696717757 / 562949953421312)).
Proof. apply (A41_q_volts_mid 8665487696717757 562949953421312 936118023480091 1125899906842624); [vm_compute; reflexivity | unfold fr, close, ctol, A41_lo, A41_hi, A41_c, A41_e; interval with (i_prec 80)]. Qed.
Lemma d_A41_1452r : rio_reads A41_c A41_e A41_lo A41_hi floor_volts ctol (Build_rio (Fin (439630346916553 / 1125899906842624)) (Fin (1 / 202402253307310618352495346718917307049556649764142118356901358027430339567995346891960383701437124495187077864316811911389808737385793476867013399940738509921517424276566361364466907742093216341239767678472745068562007483424692698618103355649159556340810056512358769552333414615230502532186327508646006263307707741093494784)) (Fin (853 / 256)) (Fin (5611 / 512)) (Fin (727 / 64)) true true false ((Fin (131 / 256)) :: (Fin (327 / 512)) :: (Fin (1277 / 512)) :: (Fin (61697 / 512)) :: (Fin (2151 / 512)) :: (Fin (14597 / 256)) :: nil)) (4551964710063201 / 140737488355328).
Proof. apply (A41_rio_fin _ (439630346916553 / 1125899906842624)); [reflexivity | apply (A41_q_mid 439630346916553 1125899906842624 4551964710063201 140737488355328); [vm_compute; reflexivity | unfold fr, close, ctol, A41_c, A41_e; interval with (i_prec 80)]]. Qed.
Lemma d_A41_1465u : close ctol (1513315897815719 / 2251799813685248) (volts_A41 (1335079862739137 / 70368744177664)).
Proof. apply (A41_q_volts_mid 1335079862739137 70368744177664 1513315897815719 2251799813685248); [vm_compute; reflexivity | unfold fr, close, ctol, A41_lo, A41_hi, A41_c, A41_e; interval with (i_prec 80)]. Qed.
Lemma d_A41_1478u : close ctol (1636741441258383 / 562949953421312) (volts_A41 ((-1711910997074369) / 2251799813685248)).
Proof. apply (A41_q_volts_lo (-1711910997074369) 2251799813685248 1636741441258383 562949953421312); [vm_compute; reflexivity | unfold fr, close, ctol, A41_lo, A41_hi, A41_c, A41_e; interval with (i_prec 80)]. Qed.
Lemma d_A41_1491u : close ctol (4901834339133709 / 4503599627370496) (volts_A41 (3325474485631095 / 281474976710656)).
Proof. apply (A41_q_volts_mid 3325474485631095 281474976710656 4901834339133709 4503599627370496); [vm_compute; reflexivity | unfold fr, close, ctol, A41_lo, A41_hi, A41_c, A41_e; interval with (i_prec 80)]. Qed.
Lemma d_A41_1504u : close ctol (6468108179933603 / 2251799813685248) (volts_A41 (5127226069948305 / 1125899906842624)).
Proof. apply (A41_q_volts_mid 5127226069948305 1125899906842624 6468108179933603 2251799813685248); [vm_compute; reflexivity | unfold fr, close, ctol, A41_lo, A41_hi, A41_c, A41_e; interval with (i_prec 80)]. Qed.
Lemma d_A41_1516r : rio_reads A41_c A41_e A41_lo A41_hi floor_volts ctol (Build_rio (Fin (8206400287298613 / 9007199254740992)) (Fin (5477 / 1024)) (Fin (3173 / 1024)) (Fin (5383 / 1024)) (Fin (12 / 1)) false false true ((Fin (253 / 512)) :: (Fin (1161 / 1024)) :: (Fin (21 / 8)) :: (Fin (77255 / 512)) :: (Fin (3033 / 512)) :: (Fin ((-7853) / 1024)) :: nil)) (7920638492967881 / 562949953421312).
Proof. apply (A41_rio_fin _ (8206400287298613 / 9007199254740992)); [reflexivity | apply (A41_q_mid 8206400287298613 9007199254740992 7920638492967881 562949953421312); [vm_compute; reflexivity | unfold fr, close, ctol, A41_c, A41_e; interval with (i_prec 80)]]. Qed.
Lemma d_A41_1529u : close ctol (4017251491434687 / 9007199254740992) (volts_A41 (499314241565751 / 17592186044416)).
Proof. apply (A41_q_volts_mid 499314241565751 17592186044416 4017251491434687 9007199254740992); [vm_compute; reflexivity | unfold fr, close, ctol, A41_lo, A41_hi, A41_c, A41_e; interval with (i_prec 80)]. Qed.
Lemma d_A41_1542u : close ctol (391437036224395 / 562949953421312) (volts_A41 (645572887960761 / 35184372088832)).
Proof. apply (A41_q_volts_mid 645572887960761 35184372088832 391437036224395 562949953421312); [vm_compute; reflexivity | unfold fr, close, ctol, A41_lo, A41_hi, A41_c, A41_e; interval with (i_prec 80)]. Qed.
Lemma d_A41_1555u : close ctol (6491044311201869 / 18014398509481984) (volts_A41 (6451599825685819 / 70368744177664)).
Proof. apply (A41_q_volts_hi 6451599825685819 70368744177664 6491044311201869 18014398509481984); [vm_compute; reflexivity | unfold fr, close, ctol, A41_lo, A41_hi, A41_c, A41_e; interval with (i_prec 80)]. Qed.
Lemma d_A41_1568u : close ctol (358022228676967 / 562949953421312) (volts_A41 (2818870751120815 / 140737488355328)).
Proof. apply (A41_q_volts_mid 2818870751120815 140737488355328 358022228676967 562949953421312); [vm_compute; reflexivity | unfold fr, close, ctol, A41_lo, A41_hi, A41_c, A41_e; interval with (i_prec 80)]. Qed.
Lemma d_A41_1580r : rio_reads A41_c A41_e A41_lo A41_hi floor_volts ctol (Build_rio (Fin (4490008642666541 / 4503599627370496)) (Fin (5 / 1)) (Fin (3715469692580659 / 1125899906842624)) (Fin (6 / 1)) (Fin (12 / 1)) true true true ((Fin (0 / 1)) :: (Fin (0 / 1)) :: (Fin (0 / 1)) :: (Fin (0 / 1)) :: (Fin (27 / 4)) :: (Fin (45 / 1)) :: nil)) (226555353388173 / 17592186044416).
Proof. apply (A41_rio_fin _ (4490008642666541 / 4503599627370496)); [reflexivity | apply (A41_q_mid 4490008642666541 4503599627370496 226555353388173 17592186044416); [vm_compute; reflexivity | unfold fr, close, ctol, A41_c, A41_e; interval with (i_prec 80)]]. Qed.
Lemma d_A41_1593u : close ctol (2799666750106783 / 1125899906842624) (volts_A41 (2953866954979931 / 562949953421312)).
Proof. apply (A41_q_volts_mid 2953866954979931 562949953421312 2799666750106783 1125899906842624); [vm_compute; reflexivity | unfold fr, close, ctol, A41_lo, A41_hi, A41_c, A41_e; interval with (i_prec 80)]. Qed.
Lemma d_A41_1606u : close ctol (1636741441258383 / 562949953421312) (volts_A41 (4285882953915229 / 1125899906842624)).
Proof. apply (A41_q_volts_lo 4285882953915229 1125899906842624 1636741441258383 562949953421312); [vm_compute; reflexivity | unfold fr, close, ctol, A41_lo, A41_hi, A41_c, A41_e; interval with (i_prec 80)]. Qed.
Lemma d_A41_1619u : close ctol (2668862834997673 / 4503599627370496) (volts_A41 (6042811209732495 / 281474976710656)).
Proof. apply (A41_q_volts_mid 6042811209732495 281474976710656 2668862834997673 4503599627370496); [vm_compute; reflexivity | unfold fr, close, ctol, A41_lo, A41_hi, A41_c, A41_e; interval with (i_prec 80)]. Qed.
Lemma d_A41_1632u : close ctol (6491044311201869 / 18014398509481984) (volts_A41 (52 / 1)).
Proof. apply (A41_q_volts_hi 52 1 6491044311201869 18014398509481984); [vm_compute; reflexivity | unfold fr, close, ctol, A41_lo, A41_hi, A41_c, A41_e; interval with (i_prec 80)]. Qed.
Lemma d_A41_1644r : rio_reads A41_c A41_e A41_lo A41_hi floor_volts ctol (Build_rio (Fin (6491044311201869 / 18014398509481984)) (Fin (2787 / 1024)) (Fin (361 / 128)) (Fin (15277 / 1024)) (Fin (13473 / 1024)) true true true ((Fin (751 / 1024)) :: (Fin (875 / 512)) :: (Fin (1395 / 1024)) :: (Fin (4613 / 32)) :: (Fin (8807 / 1024)) :: (Fin (5517 / 512)) :: nil)) (35 / 1).
Proof. apply (A41_rio_fin _ (6491044311201869 / 18014398509481984)); [reflexivity | apply (A41_q_hi 6491044311201869 18014398509481984 35 1); [vm_compute; reflexivity | unfold fr, ctol, A41_hi, A41_c, A41_e; interval with (i_prec 80)]]. Qed.
Lemma d_A41_1657u : close ctol (3317847344544659 / 4503599627370496) (volts_A41 (2439734766524855 / 140737488355328)).
Proof. apply (A41_q_volts_mid 2439734766524855 140737488355328 3317847344544659 4503599627370496); [vm_compute; reflexivity | unfold fr, close, ctol, A41_lo, A41_hi, A41_c, A41_e; interval with (i_prec 80)]. Qed.
Lemma d_A41_1670u : close ctol (7974119635980155 / 18014398509481984) (volts_A41 (8048455419234833 / 281474976710656)).
Proof. apply (A41_q_volts_mid 8048455419234833 281474976710656 7974119635980155 18014398509481984); [vm_compute; reflexivity | unfold fr, close, ctol, A41_lo, A41_hi, A41_c, A41_e; interval with (i_prec 80)]. Qed.
Lemma d_A41_1683u : close ctol (8180267253520263 / 9007199254740992) (volts_A41 (7945496063873385 / 562949953421312)).
Proof. apply (A41_q_volts_mid 7945496063873385 562949953421312 8180267253520263 9007199254740992); [vm_compute; reflexivity | unfold fr, close, ctol, A41_lo, A41_hi, A41_c, A41_e; interval with (i_prec 80)]. Qed.
Lemma d_A41_1696u : close ctol (5082982370654429 / 9007199254740992) (volts_A41 (6340199007490353 / 281474976710656)).
Proof. apply (A41_q_volts_mid 6340199007490353 281474976710656 5082982370654429 9007199254740992); [vm_compute; reflexivity | unfold fr, close, ctol, A41_lo, A41_hi, A41_c, A41_e; interval with (i_prec 80)]. Qed.
Lemma d_A41_1708r : rio_reads A41_c A41_e A41_lo A41_hi floor_volts ctol (Build_rio (Fin (3134471317644323 / 4503599627370496)) (Fin (619 / 128)) (Fin (1497 / 512)) (Fin (6 / 1)) (Fin (12 / 1)) false true true ((Fin (109 / 256)) :: (Fin (1643 / 1024)) :: (Fin (1501 / 1024)) :: (Fin (25399 / 256)) :: (Fin (4033 / 1024)) :: (Fin (9773 / 512)) :: nil)) (80621366624491 / 4398046511104).
Proof. apply (A41_rio_fin _ (3134471317644323 / 4503599627370496)); [reflexivity | apply (A41_q_mid 3134471317644323 4503599627370496 80621366624491 4398046511104); [vm_compute; reflexivity | unfold fr, close, ctol, A41_c, A41_e; interval with (i_prec 80)]]. Qed.
Lemma d_A41_1721u : close ctol (1636741441258383 / 562949953421312) (volts_A41 ((-415564093489679) / 2251799813685248)).
Proof. apply (A41_q_volts_lo (-415564093489679) 2251799813685248 1636741441258383 562949953421312); [vm_compute; reflexivity | unfold fr, close, ctol, A41_lo, A41_hi, A41_c, A41_e; interval with (i_prec 80)]. Qed.
Lemma d_A41_1734u : close ctol (6491044311201869 / 18014398509481984) (volts_A41 (66 / 1)).
Proof. apply (A41_q_volts_hi 66 1 6491044311201869 18014398509481984); [vm_compute; reflexivity | unfold fr, close, ctol, A41_lo, A41_hi, A41_c, A41_e; interval with (i_prec 80)]. Qed.
Lemma d_A41_1747u : close ctol (7279697364095269 / 18014398509481984) (volts_A41 (275065146759329 / 8796093022208)).
Proof. apply (A41_q_volts_mid 275065146759329 8796093022208 7279697364095269 18014398509481984); [vm_compute; reflexivity | unfold fr, close, ctol, A41_lo, A41_hi, A41_c, A41_e; interval with (i_prec 80)]. Qed.
Lemma d_A41_1760u : close ctol (2686141481086287 / 1125899906842624) (volts_A41 (6152930063260305 / 1125899906842624)).
Proof. apply (A41_q_volts_mid 6152930063260305 1125899906842624 2686141481086287 1125899906842624); [vm_compute; reflexivity | unfold fr, close, ctol, A41_lo, A41_hi, A41_c, A41_e; interval with (i_prec 80)]. Qed.
Lemma d_A41_1772r : rio_reads A41_c A41_e A41_lo A41_hi floor_volts ctol (Build_rio (Fin (6194273155745841 / 4503599627370496)) (Fin (5 / 1)) (Fin (3715469692580659 / 1125899906842624)) (Fin (6 / 1)) (Fin (12 / 1)) true true true ((Fin (0 / 1)) :: (Fin (0 / 1)) :: (Fin (0 / 1)) :: (Fin (0 / 1)) :: (Fin (27 / 4)) :: (Fin (45 / 1)) :: nil)) (2642473345552407 / 281474976710656).
Proof. apply (A41_rio_fin _ (6194273155745841 / 4503599627370496)); [reflexivity | apply (A41_q_mid 6194273155745841 4503599627370496 2642473345552407 281474976710656); [vm_compute; reflexivity | unfold fr, close, ctol, A41_c, A41_e; interval with (i_prec 80)]]. Qed.
Lemma d_A41_1785u : close ctol (5322716312175725 / 4503599627370496) (volts_A41 (766740799286449 / 70368744177664)).
Proof. apply (A41_q_volts_mid 766740799286449 70368744177664 5322716312175725 4503599627370496); [vm_compute; reflexivity | unfold fr, close, ctol, A41_lo, A41_hi, A41_c, A41_e; interval with (i_prec 80)]. Qed.
Lemma d_A41_1798u : close ctol (4686622211000841 / 2251799813685248) (volts_A41 (54970195392865 / 8796093022208)).
Proof. apply (A41_q_volts_mid 54970195392865 8796093022208 4686622211000841 2251799813685248); [vm_compute; reflexivity | unfold fr, close, ctol, A41_lo, A41_hi, A41_c, A41_e; interval with (i_prec 80)]. Qed.
Lemma d_A41_1811u : close ctol (1636741441258383 / 562949953421312) (volts_A41 (2933286205947147 / 36028797018963968)).
Proof. apply (A41_q_volts_lo 2933286205947147 36028797018963968 1636741441258383 562949953421312); [vm_compute; reflexivity | unfold fr, close, ctol, A41_lo, A41_hi, A41_c, A41_e; interval with (i_prec 80)]. Qed.
Lemma d_A41_1824u : close ctol (1636741441258383 / 562949953421312) (volts_A41 (5841361334899841 / 4503599627370496)).
Proof. apply (A41_q_volts_lo 5841361334899841 4503599627370496 1636741441258383 562949953421312); [vm_compute; reflexivity | unfold fr, close, ctol, A41_lo, A41_hi, A41_c, A41_e; interval with (i_prec 80)]. Qed.
Lemma d_A41_1836r : rio_reads A41_c A41_e A41_lo A41_hi floor_volts ctol (Build_rio (Fin (2394404038665597 / 2251799813685248)) (Fin (4363 / 1024)) (Fin (113 / 32)) (Fin (5979 / 1024)) NInf true true false ((Fin (541 / 512)) :: (Fin (307 / 1024)) :: (Fin (2961 / 1024)) :: (Fin (121789 / 1024)) :: (Fin (155 / 32)) :: (Fin (759 / 1024)) :: nil)) (6805131229937089 / 562949953421312).
Proof. apply (A41_rio_fin _ (2394404038665597 / 2251799813685248)); [reflexivity | apply (A41_q_mid 2394404038665597 2251799813685248 6805131229937089 562949953421312); [vm_compute; reflexivity | unfold fr, close, ctol, A41_c, A41_e; interval with (i_prec 80)]]. Qed.
Lemma d_A41_1849u : close ctol (377906087724547 / 562949953421312) (volts_A41 (1336547543133357 / 70368744177664)).
Proof. apply (A41_q_volts_mid 1336547543133357 70368744177664 377906087724547 562949953421312); [vm_compute; reflexivity | unfold fr, close, ctol, A41_lo, A41_hi, A41_c, A41_e; interval with (i_prec 80)]. Qed.
Lemma d_A41_1862u : close ctol (5732056110445055 / 9007199254740992) (volts_A41 (2817082986733599 / 140737488355328)).
Proof. apply (A41_q_volts_mid 2817082986733599 140737488355328 5732056110445055 9007199254740992); [vm_compute; reflexivity | unfold fr, close, ctol, A41_lo, A41_hi, A41_c, A41_e; interval with (i_prec 80)]. Qed.
Lemma d_A41_1875u : close ctol (5616295428362969 / 2251799813685248) (volts_A41 (5890205355247343 / 1125899906842624)).
Proof. apply (A41_q_volts_mid 5890205355247343 1125899906842624 5616295428362969 2251799813685248); [vm_compute; reflexivity | unfold fr, close, ctol, A41_lo, A41_hi, A41_c, A41_e; interval with (i_prec 80)]. Qed.
Lemma d_A41_1888u : close ctol (2242394507318245 / 2251799813685248) (volts_A41 (907257547172651 / 70368744177664)).
Proof. apply (A41_q_volts_mid 907257547172651 70368744177664 2242394507318245 2251799813685248); [vm_compute; reflexivity | unfold fr, close, ctol, A41_lo, A41_hi, A41_c, A41_e; interval with (i_prec 80)]. Qed.
Lemma d_A41_1900r : rio_reads A41_c A41_e A41_lo A41_hi floor_volts ctol (Build_rio (Fin (1289226956059693 / 2251799813685248)) (Fin (1203 / 256)) (Fin (4765 / 1024)) (Fin (3051 / 512)) (Fin (12 / 1)) true false true ((Fin (455 / 256)) :: (Fin (1079 / 1024)) :: (Fin (3023 / 1024)) :: (Fin (139827 / 1024)) :: (Fin (8393 / 1024)) :: (Fin (35663 / 1024)) :: nil)) (195340597422131 / 8796093022208).
Proof. apply (A41_rio_fin _ (1289226956059693 / 2251799813685248)); [reflexivity | apply (A41_q_mid 1289226956059693 2251799813685248 195340597422131 8796093022208); [vm_compute; reflexivity | unfold fr, close, ctol, A41_c, A41_e; interval with (i_prec 80)]]. Qed.
Lemma d_A41_1913u : close ctol (2075033001376403 / 2251799813685248) (volts_A41 (7832757805141005 / 562949953421312)).
Proof. apply (A41_q_volts_mid 7832757805141005 562949953421312 2075033001376403 2251799813685248); [vm_compute; reflexivity | unfold fr, close, ctol, A41_lo, A41_hi, A41_c, A41_e; interval with (i_prec 80)]. Qed.
Lemma d_A41_1926u : close ctol (577117171618289 / 1125899906842624) (volts_A41 (3484195028537459 / 140737488355328)).
Proof. apply (A41_q_volts_mid 3484195028537459 140737488355328 577117171618289 1125899906842624); [vm_compute; reflexivity | unfold fr, close, ctol, A41_lo, A41_hi, A41_c, A41_e; interval with (i_prec 80)]. Qed.
Lemma d_A41_1939u : close ctol (4530454182851043 / 4503599627370496) (volts_A41 (3593091609243271 / 281474976710656)).
Proof. apply (A41_q_volts_mid 3593091609243271 281474976710656 4530454182851043 4503599627370496); [vm_compute; reflexivity | unfold fr, close, ctol, A41_lo, A41_hi, A41_c, A41_e; interval with (i_prec 80)]. Qed.
Lemma d_A41_1952u : close ctol (2826221336000337 / 4503599627370496) (volts_A41 (2856057852881257 / 140737488355328)).
Proof. apply (A41_q_volts_mid 2856057852881257 140737488355328 2826221336000337 4503599627370496); [vm_compute; reflexivity | unfold fr, close, ctol, A41_lo, A41_hi, A41_c, A41_e; interval with (i_prec 80)]. Qed.
Lemma d_A41_1964r : rio_reads A41_c A41_e A41_lo A41_hi floor_volts ctol (Build_rio (Fin (5766607046346187 / 4503599627370496)) (Fin (5 / 1)) (Fin (3715469692580659 / 1125899906842624)) (Fin (6 / 1)) (Fin (12 / 1)) true true true ((Fin (0 / 1)) :: (Fin (0 / 1)) :: (Fin (0 / 1)) :: (Fin (0 / 1)) :: (Fin (27 / 4)) :: (Fin (45 / 1)) :: nil)) (2834874112752705 / 281474976710656).
Proof. apply (A41_rio_fin _ (5766607046346187 / 4503599627370496)); [reflexivity | apply (A41_q_mid 5766607046346187 4503599627370496 2834874112752705 281474976710656); [vm_compute; reflexivity | unfold fr, close, ctol, A41_c, A41_e; interval with (i_prec 80)]]. Qed.
Lemma d_A41_1977u : close ctol (2264360747228449 / 4503599627370496) (volts_A41 (7101717021574991 / 281474976710656)).
Proof. apply (A41_q_volts_mid 7101717021574991 281474976710656 2264360747228449 4503599627370496); [vm_compute; reflexivity | unfold fr, close, ctol, A41_lo, A41_hi, A41_c, A41_e; interval with (i_prec 80)]. Qed.
Lemma d_A41_1990u : close ctol (5316274220095173 / 4503599627370496) (volts_A41 (6141228394460183 / 562949953421312)).
Proof. apply (A41_q_volts_mid 6141228394460183 562949953421312 5316274220095173 4503599627370496); [vm_compute; reflexivity | unfold fr, close, ctol, A41_lo, A41_hi, A41_c, A41_e; interval with (i_prec 80)]. Qed.
Lemma r_A02_15 : rio_reads A02_c A02_e A02_lo A02_hi floor_volts ctol (Build_rio (Fin ((-1152921504606847) / 1152921504606846976)) (Fin (100000000000000001097906362944045541740492309677311846336810682903157585404911491537163328978494688899061249669721172515611590283743140088328307009198146046031271664502933027185697489699588559043338384466165001178426897626212945177628091195786707458122783970171784415105291802893207873272974885715430223118336 / 1)) (Fin (3715469692580659 / 1125899906842624)) (Fin (6 / 1)) (Fin (12 / 1)) true true true ((Fin (0 / 1)) :: (Fin (0 / 1)) :: (Fin (0 / 1)) :: (Fin (0 / 1)) :: (Fin (27 / 4)) :: (Fin (45 / 1)) :: nil)) (435215207548285 / 8796093022208).
Proof. apply (A02_rio_fin _ ((-1152921504606847) / 1152921504606846976)); [reflexivity | apply (A02_q_floor (-1152921504606847) 1152921504606846976 435215207548285 8796093022208); vm_compute; reflexivity]. Qed.
Lemma r_A02_41 : rio_distance_opt A02_c A02_e A02_lo A02_hi floor_volts (Build_rio NInf (Fin (5 / 1)) (Fin (3715469692580659 / 1125899906842624)) (Fin (6 / 1)) (Fin (12 / 1)) true false true ((Fin (0 / 1)) :: (Fin (0 / 1)) :: (Fin (0 / 1)) :: (Fin (0 / 1)) :: (Fin (27 / 4)) :: (Fin (45 / 1)) :: nil)) = Some (45 / 2).
Proof. apply (A02_rio_x _ NInf); [reflexivity | apply (corr_v_ninf _ _ _ _ _ A02_admissible _ A02_floor_reads_hi); unfold A02_hi; lra]. Qed.
Lemma d_A02_4c : close ctol (145 / 1) (clamp A02_lo A02_hi (200 / 1)).
Proof. apply (A02_q_clamp_hi 200 1 145 1); vm_compute; reflexivity. Qed.
Lemma d_A02_10g : get_distance (set_distance A02_c A02_e A02_lo A02_hi sim_init (2 / 1)) = (2 / 1).
Proof. cbn [get_distance set_distance sim_distance]. first [reflexivity | lra]. Qed.
Lemma d_A02_17c : close ctol (45 / 2) (clamp A02_lo A02_hi (9 / 2)).
Proof. apply (A02_q_clamp_lo 9 2 45 2); vm_compute; reflexivity. Qed.
Lemma d_A02_23g : get_distance (set_distance A02_c A02_e A02_lo A02_hi sim_init ((-5) / 1)) = ((-5) / 1).
Proof. cbn [get_distance set_distance sim_distance]. first [reflexivity | lra]. Qed.
Lemma d_A02_31g : get_distance (set_distance A02_c A02_e A02_lo A02_hi sim_init (25 / 1)) = (25 / 1).
Proof. cbn [get_distance set_distance sim_distance]. first [reflexivity | lra]. Qed.
Lemma d_A02_39g : get_distance (set_distance A02_c A02_e A02_lo A02_hi sim_init (1000000000000000052504760255204420248704468581108159154915854115511802457988908195786371375080447864043704443832883878176942523235360430575644792184786706982848387200926575803737830233794788090059368953234970799945081119038967640880074652742780142494579258788820056842838115669472196386865459400540160 / 1)) = (1000000000000000052504760255204420248704468581108159154915854115511802457988908195786371375080447864043704443832883878176942523235360430575644792184786706982848387200926575803737830233794788090059368953234970799945081119038967640880074652742780142494579258788820056842838115669472196386865459400540160 / 1).
Proof. cbn [get_distance set_distance sim_distance]. first [reflexivity | lra]. Qed.
Lemma d_A02_48g : get_distance (set_distance A02_c A02_e A02_lo A02_hi sim_init (5101733952880641 / 35184372088832)) = (5101733952880641 / 35184372088832).
Proof. cbn [get_distance set_distance sim_distance]. first [reflexivity | lra]. Qed.
Lemma d_A02_56g : get_distance (set_distance A02_c A02_e A02_lo A02_hi sim_init (23 / 1)) = (23 / 1).
Proof. cbn [get_distance set_distance sim_distance]. first [reflexivity | lra]. Qed.
Lemma d_A02_64g : get_distance (set_distance A02_c A02_e A02_lo A02_hi sim_init (1520714891776763 / 70368744177664)) = (1520714891776763 / 70368744177664).
Proof. cbn [get_distance set_distance sim_distance]. first [reflexivity | lra]. Qed.
Lemma d_A02_72g : get_distance (set_distance A02_c A02_e A02_lo A02_hi sim_init (4547646353728907 / 35184372088832)) = (4547646353728907 / 35184372088832).
Proof. cbn [get_distance set_distance sim_distance]. first [reflexivity | lra]. Qed.
Lemma d_A02_80g : get_distance (set_distance A02_c A02_e A02_lo A02_hi sim_init (4961442774403035 / 70368744177664)) = (4961442774403035 / 70368744177664).
Proof. cbn [get_distance set_distance sim_distance]. first [reflexivity | lra]. Qed.
Lemma d_A02_88g : get_distance (set_distance A02_c A02_e A02_lo A02_hi sim_init (3195280623261887 / 35184372088832)) = (3195280623261887 / 35184372088832).
Proof. cbn [get_distance set_distance sim_distance]. first [reflexivity | lra]. Qed.
Lemma d_A02_96g : get_distance (set_distance A02_c A02_e A02_lo A02_hi sim_init (2310114805181011 / 17592186044416)) = (2310114805181011 / 17592186044416).
Proof. cbn [get_distance set_distance sim_distance]. first [reflexivity | lra]. Qed.
Lemma d_A02_104g : get_distance (set_distance A02_c A02_e A02_lo A02_hi sim_init (3091860021043789 / 35184372088832)) = (3091860021043789 / 35184372088832).
Proof. cbn [get_distance set_distance sim_distance]. first [reflexivity | lra]. Qed.
Lemma d_A02_112g : get_distance (set_distance A02_c A02_e A02_lo A02_hi sim_init (8169799662753435 / 70368744177664)) = (8169799662753435 / 70368744177664).
Proof. cbn [get_distance set_distance sim_distance]. first [reflexivity | lra]. Qed.
Lemma d_A02_120g : get_distance (set_distance A02_c A02_e A02_lo A02_hi sim_init (8278385602375429 / 70368744177664)) = (8278385602375429 / 70368744177664).
Proof. cbn [get_distance set_distance sim_distance]. first [reflexivity | lra]. Qed.
Lemma d_A02_128g : get_distance (set_distance A02_c A02_e A02_lo A02_hi sim_init (3832226858477481 / 35184372088832)) = (3832226858477481 / 35184372088832).
Proof. cbn [get_distance set_distance sim_distance]. first [reflexivity | lra]. Qed.
Lemma d_A02_136g : get_distance (set_distance A02_c A02_e A02_lo A02_hi sim_init (1572550515779319 / 140737488355328)) = (1572550515779319 / 140737488355328).
Proof. cbn [get_distance set_distance sim_distance]. first [reflexivity | lra]. Qed.
Lemma d_A02_144g : get_distance (set_distance A02_c A02_e A02_lo A02_hi sim_init (2513889241963051 / 17592186044416)) = (2513889241963051 / 17592186044416).
Proof. cbn [get_distance set_distance sim_distance]. first [reflexivity | lra]. Qed.
Lemma d_A02_152g : get_distance (set_distance A02_c A02_e A02_lo A02_hi sim_init (5505154422276957 / 70368744177664)) = (5505154422276957 / 70368744177664).
Proof. cbn [get_distance set_distance sim_distance]. first [reflexivity | lra]. Qed.
Lemma d_A02_160g : get_distance (set_distance A02_c A02_e A02_lo A02_hi sim_init (2033236606442587 / 70368744177664)) = (2033236606442587 / 70368744177664).
Proof. cbn [get_distance set_distance sim_distance]. first [reflexivity | lra]. Qed.
Lemma d_A02_168g : get_distance (set_distance A02_c A02_e A02_lo A02_hi sim_init (7467596415660777 / 281474976710656)) = (7467596415660777 / 281474976710656).
Proof. cbn [get_distance set_distance sim_distance]. first [reflexivity | lra]. Qed.
Lemma d_A02_176g : get_distance (set_distance A02_c A02_e A02_lo A02_hi sim_init (1506468350337181 / 70368744177664)) = (1506468350337181 / 70368744177664).
Proof. cbn [get_distance set_distance sim_distance]. first [reflexivity | lra]. Qed.
Lemma d_A02_184g : get_distance (set_distance A02_c A02_e A02_lo A02_hi sim_init (6904745468762349 / 70368744177664)) = (6904745468762349 / 70368744177664).
Proof. cbn [get_distance set_distance sim_distance]. first [reflexivity | lra]. Qed.
Lemma d_A02_192g : get_distance (set_distance A02_c A02_e A02_lo A02_hi sim_init (2521151069651905 / 70368744177664)) = (2521151069651905 / 70368744177664).
Proof. cbn [get_distance set_distance sim_distance]. first [reflexivity | lra]. Qed.
Lemma d_A02_200g : get_distance (set_distance A02_c A02_e A02_lo A02_hi sim_init (2446964076672651 / 17592186044416)) = (2446964076672651 / 17592186044416).
Proof. cbn [get_distance set_distance sim_distance]. first [reflexivity | lra]. Qed.
Lemma d_A02_208g : get_distance (set_distance A02_c A02_e A02_lo A02_hi sim_init (4213024670005411 / 35184372088832)) = (4213024670005411 / 35184372088832).
Proof. cbn [get_distance set_distance sim_distance]. first [reflexivity | lra]. Qed.
Lemma d_A02_216g : get_distance (set_distance A02_c A02_e A02_lo A02_hi sim_init (302689291064039 / 8796093022208)) = (302689291064039 / 8796093022208).
Proof. cbn [get_distance set_distance sim_distance]. first [reflexivity | lra]. Qed.
Lemma d_A02_224g : get_distance (set_distance A02_c A02_e A02_lo A02_hi sim_init (5300957285498969 / 70368744177664)) = (5300957285498969 / 70368744177664).
Proof. cbn [get_distance set_distance sim_distance]. first [reflexivity | lra]. Qed.
Lemma d_A02_232g : get_distance (set_distance A02_c A02_e A02_lo A02_hi sim_init (281 / 1)) = (281 / 1).
Proof. cbn [get_distance set_distance sim_distance]. first [reflexivity | lra]. Qed.
Lemma d_A02_240g : get_distance (set_distance A02_c A02_e A02_lo A02_hi sim_init (3291832402975391 / 70368744177664)) = (3291832402975391 / 70368744177664).
Proof. cbn [get_distance set_distance sim_distance]. first [reflexivity | lra]. Qed.
Lemma d_A02_248g : get_distance (set_distance A02_c A02_e A02_lo A02_hi sim_init (2317063378199343 / 17592186044416)) = (2317063378199343 / 17592186044416).
Proof. cbn [get_distance set_distance sim_distance]. first [reflexivity | lra]. Qed.
Lemma d_A02_256g : get_distance (set_distance A02_c A02_e A02_lo A02_hi sim_init (1242826523318057 / 8796093022208)) = (1242826523318057 / 8796093022208).
Proof. cbn [get_distance set_distance sim_distance]. first [reflexivity | lra]. Qed.
Lemma d_A02_264g : get_distance (set_distance A02_c A02_e A02_lo A02_hi sim_init (6814141097399637 / 72057594037927936)) = (6814141097399637 / 72057594037927936).
Proof. cbn [get_distance set_distance sim_distance]. first [reflexivity | lra]. Qed.
Lemma d_A02_272g : get_distance (set_distance A02_c A02_e A02_lo A02_hi sim_init (6213447572515497 / 35184372088832)) = (6213447572515497 / 35184372088832).
Proof. cbn [get_distance set_distance sim_distance]. first [reflexivity | lra]. Qed.
Lemma d_A02_280g : get_distance (set_distance A02_c A02_e A02_lo A02_hi sim_init (1188695057746283 / 17592186044416)) = (1188695057746283 / 17592186044416).
Proof. cbn [get_distance set_distance sim_distance]. first [reflexivity | lra]. Qed.
Lemma d_A02_288g : get_distance (set_distance A02_c A02_e A02_lo A02_hi sim_init (2336670090453667 / 35184372088832)) = (2336670090453667 / 35184372088832).
Proof. cbn [get_distance set_distance sim_distance]. first [reflexivity | lra]. Qed.
Lemma d_A02_296g : get_distance (set_distance A02_c A02_e A02_lo A02_hi sim_init (85 / 1)) = (85 / 1).
Proof. cbn [get_distance set_distance sim_distance]. first [reflexivity | lra]. Qed.
Lemma d_A02_304g : get_distance (set_distance A02_c A02_e A02_lo A02_hi sim_init (50 / 1)) = (50 / 1).
Proof. cbn [get_distance set_distance sim_distance]. first [reflexivity | lra]. Qed.
Lemma d_A02_312g : get_distance (set_distance A02_c A02_e A02_lo A02_hi sim_init (4004626795477175 / 70368744177664)) = (4004626795477175 / 70368744177664).
Proof. cbn [get_distance set_distance sim_distance]. first [reflexivity | lra]. Qed.
Lemma d_A02_320g : get_distance (set_distance A02_c A02_e A02_lo A02_hi sim_init (963422414968807 / 35184372088832)) = (963422414968807 / 35184372088832).
Proof. cbn [get_distance set_distance sim_distance]. first [reflexivity | lra]. Qed.
Lemma d_A02_328g : get_distance (set_distance A02_c A02_e A02_lo A02_hi sim_init (4453707627531881 / 140737488355328)) = (4453707627531881 / 140737488355328).
Proof. cbn [get_distance set_distance sim_distance]. first [reflexivity | lra]. Qed.
Lemma d_A02_336g : get_distance (set_distance A02_c A02_e A02_lo A02_hi sim_init (2037375797505503 / 70368744177664)) = (2037375797505503 / 70368744177664).
Proof. cbn [get_distance set_distance sim_distance]. first [reflexivity | lra]. Qed.
Lemma d_A02_344g : get_distance (set_distance A02_c A02_e A02_lo A02_hi sim_init (468620551813179 / 1099511627776)) = (468620551813179 / 1099511627776).
Proof. cbn [get_distance set_distance sim_distance]. first [reflexivity | lra]. Qed.
Lemma d_A02_352g : get_distance (set_distance A02_c A02_e A02_lo A02_hi sim_init (1919630417079317 / 17592186044416)) = (1919630417079317 / 17592186044416).
Proof. cbn [get_distance set_distance sim_distance]. first [reflexivity | lra]. Qed.
Lemma d_A02_360g : get_distance (set_distance A02_c A02_e A02_lo A02_hi sim_init (137 / 1)) = (137 / 1).
Proof. cbn [get_distance set_distance sim_distance]. first [reflexivity | lra]. Qed.
Lemma d_A02_368g : get_distance (set_distance A02_c A02_e A02_lo A02_hi sim_init (2582047071092723 / 35184372088832)) = (2582047071092723 / 35184372088832).
Proof. cbn [get_distance set_distance sim_distance]. first [reflexivity | lra]. Qed.
Lemma d_A02_376g : get_distance (set_distance A02_c A02_e A02_lo A02_hi sim_init (3274783887682999 / 35184372088832)) = (3274783887682999 / 35184372088832).
Proof. cbn [get_distance set_distance sim_distance]. first [reflexivity | lra]. Qed.
Lemma d_A02_384g : get_distance (set_distance A02_c A02_e A02_lo A02_hi sim_init (5101018957307339 / 35184372088832)) = (5101018957307339 / 35184372088832).
Proof. cbn [get_distance set_distance sim_distance]. first [reflexivity | lra]. Qed.
Lemma d_A02_392g : get_distance (set_distance A02_c A02_e A02_lo A02_hi sim_init (4843857331943547 / 35184372088832)) = (4843857331943547 / 35184372088832).
Proof. cbn [get_distance set_distance sim_distance]. first [reflexivity | lra]. Qed.
Lemma d_A02_400g : get_distance (set_distance A02_c A02_e A02_lo A02_hi sim_init (7427494582221989 / 70368744177664)) = (7427494582221989 / 70368744177664).
Proof. cbn [get_distance set_distance sim_distance]. first [reflexivity | lra]. Qed.
Lemma d_A02_408g : get_distance (set_distance A02_c A02_e A02_lo A02_hi sim_init (1447444840270757 / 35184372088832)) = (1447444840270757 / 35184372088832).
Proof. cbn [get_distance set_distance sim_distance]. first [reflexivity | lra]. Qed.
Lemma d_A02_416g : get_distance (set_distance A02_c A02_e A02_lo A02_hi sim_init (863207982437921 / 70368744177664)) = (863207982437921 / 70368744177664).
Proof. cbn [get_distance set_distance sim_distance]. first [reflexivity | lra]. Qed.
Lemma d_A02_424g : get_distance (set_distance A02_c A02_e A02_lo A02_hi sim_init (5360812683506545 / 281474976710656)) = (5360812683506545 / 281474976710656).
Proof. cbn [get_distance set_distance sim_distance]. first [reflexivity | lra]. Qed.
Lemma d_A02_432g : get_distance (set_distance A02_c A02_e A02_lo A02_hi sim_init (157 / 1)) = (157 / 1).
Proof. cbn [get_distance set_distance sim_distance]. first [reflexivity | lra]. Qed.
Lemma d_A02_440g : get_distance (set_distance A02_c A02_e A02_lo A02_hi sim_init (1234106490354553 / 8796093022208)) = (1234106490354553 / 8796093022208).
Proof. cbn [get_distance set_distance sim_distance]. first [reflexivity | lra]. Qed.
Lemma d_A02_448g : get_distance (set_distance A02_c A02_e A02_lo A02_hi sim_init (3427586166617125 / 8796093022208)) = (3427586166617125 / 8796093022208).
Proof. cbn [get_distance set_distance sim_distance]. first [reflexivity | lra]. Qed.
Lemma d_A02_456g : get_distance (set_distance A02_c A02_e A02_lo A02_hi sim_init ((-5065308800661327) / 1125899906842624)) = ((-5065308800661327) / 1125899906842624).
Proof. cbn [get_distance set_distance sim_distance]. first [reflexivity | lra]. Qed.
Lemma d_A02_464g : get_distance (set_distance A02_c A02_e A02_lo A02_hi sim_init (8544395544200499 / 140737488355328)) = (8544395544200499 / 140737488355328).
Proof. cbn [get_distance set_distance sim_distance]. first [reflexivity | lra]. Qed.
Lemma d_A02_472g : get_distance (set_distance A02_c A02_e A02_lo A02_hi sim_init (2288912575498619 / 17592186044416)) = (2288912575498619 / 17592186044416).
Proof. cbn [get_distance set_distance sim_distance]. first [reflexivity | lra]. Qed.
Lemma d_A02_480g : get_distance (set_distance A02_c A02_e A02_lo A02_hi sim_init (1584342041456305 / 35184372088832)) = (1584342041456305 / 35184372088832).
Proof. cbn [get_distance set_distance sim_distance]. first [reflexivity | lra]. Qed.
Lemma d_A02_488g : get_distance (set_distance A02_c A02_e A02_lo A02_hi sim_init (4973964913062931 / 35184372088832)) = (4973964913062931 / 35184372088832).
Proof. cbn [get_distance set_distance sim_distance]. first [reflexivity | lra]. Qed.
Lemma d_A02_496g : get_distance (set_distance A02_c A02_e A02_lo A02_hi sim_init (698284810038327 / 17592186044416)) = (698284810038327 / 17592186044416).
Proof. cbn [get_distance set_distance sim_distance]. first [reflexivity | lra]. Qed.
Lemma d_A02_504g : get_distance (set_distance A02_c A02_e A02_lo A02_hi sim_init (7220188819568821 / 70368744177664)) = (7220188819568821 / 70368744177664).
Proof. cbn [get_distance set_distance sim_distance]. first [reflexivity | lra]. Qed.
Lemma d_A02_512g : get_distance (set_distance A02_c A02_e A02_lo A02_hi sim_init ((-156651652424873) / 70368744177664)) = ((-156651652424873) / 70368744177664).
Proof. cbn [get_distance set_distance sim_distance]. first [reflexivity | lra]. Qed.
Lemma d_A02_520g : get_distance (set_distance A02_c A02_e A02_lo A02_hi sim_init (2470079040209305 / 35184372088832)) = (2470079040209305 / 35184372088832).
Proof. cbn [get_distance set_distance sim_distance]. first [reflexivity | lra]. Qed.
Lemma d_A02_528g : get_distance (set_distance A02_c A02_e A02_lo A02_hi sim_init (742194923124983 / 35184372088832)) = (742194923124983 / 35184372088832).
Proof. cbn [get_distance set_distance sim_distance]. first [reflexivity | lra]. Qed.
Lemma d_A02_536g : get_distance (set_distance A02_c A02_e A02_lo A02_hi sim_init (8861045203707515 / 70368744177664)) = (8861045203707515 / 70368744177664).
Proof. cbn [get_distance set_distance sim_distance]. first [reflexivity | lra]. Qed.
Lemma d_A02_544g : get_distance (set_distance A02_c A02_e A02_lo A02_hi sim_init (8661810340251097 / 70368744177664)) = (8661810340251097 / 70368744177664).
Proof. cbn [get_distance set_distance sim_distance]. first [reflexivity | lra]. Qed.
Lemma d_A02_552g : get_distance (set_distance A02_c A02_e A02_lo A02_hi sim_init (1226421322355163 / 8796093022208)) = (1226421322355163 / 8796093022208).
Proof. cbn [get_distance set_distance sim_distance]. first [reflexivity | lra]. Qed.
Lemma d_A02_560g : get_distance (set_distance A02_c A02_e A02_lo A02_hi sim_init (6379610310684957 / 70368744177664)) = (6379610310684957 / 70368744177664).
Proof. cbn [get_distance set_distance sim_distance]. first [reflexivity | lra]. Qed.
Lemma d_A02_568g : get_distance (set_distance A02_c A02_e A02_lo A02_hi sim_init (2429570986297061 / 8796093022208)) = (2429570986297061 / 8796093022208).
Proof. cbn [get_distance set_distance sim_distance]. first [reflexivity | lra]. Qed.
Lemma d_A02_576g : get_distance (set_distance A02_c A02_e A02_lo A02_hi sim_init (6804273120635763 / 70368744177664)) = (6804273120635763 / 70368744177664).
Proof. cbn [get_distance set_distance sim_distance]. first [reflexivity | lra]. Qed.
Lemma d_A02_584g : get_distance (set_distance A02_c A02_e A02_lo A02_hi sim_init (9 / 1)) = (9 / 1).
Proof. cbn [get_distance set_distance sim_distance]. first [reflexivity | lra]. Qed.
Lemma d_A02_592g : get_distance (set_distance A02_c A02_e A02_lo A02_hi sim_init (742798619840089 / 8796093022208)) = (742798619840089 / 8796093022208).
Proof. cbn [get_distance set_distance sim_distance]. first [reflexivity | lra]. Qed.
Lemma d_A02_600g : get_distance (set_distance A02_c A02_e A02_lo A02_hi sim_init (1435511132273641 / 17592186044416)) = (1435511132273641 / 17592186044416).
Proof. cbn [get_distance set_distance sim_distance]. first [reflexivity | lra]. Qed.
Lemma d_A02_608g : get_distance (set_distance A02_c A02_e A02_lo A02_hi sim_init (6747328420787639 / 140737488355328)) = (6747328420787639 / 140737488355328).
Proof. cbn [get_distance set_distance sim_distance]. first [reflexivity | lra]. Qed.
Lemma d_A02_616g : get_distance (set_distance A02_c A02_e A02_lo A02_hi sim_init (6260387852955399 / 70368744177664)) = (6260387852955399 / 70368744177664).
Proof. cbn [get_distance set_distance sim_distance]. first [reflexivity | lra]. Qed.
Lemma d_A02_624g : get_distance (set_distance A02_c A02_e A02_lo A02_hi sim_init (2375218344453359 / 35184372088832)) = (2375218344453359 / 35184372088832).
Proof. cbn [get_distance set_distance sim_distance]. first [reflexivity | lra]. Qed.
Lemma d_A02_632g : get_distance (set_distance A02_c A02_e A02_lo A02_hi sim_init (4639440248091207 / 70368744177664)) = (4639440248091207 / 70368744177664).
Proof. cbn [get_distance set_distance sim_distance]. first [reflexivity | lra]. Qed.
Lemma d_A02_640g : get_distance (set_distance A02_c A02_e A02_lo A02_hi sim_init (293795420006053 / 2199023255552)) = (293795420006053 / 2199023255552).
Proof. cbn [get_distance set_distance sim_distance]. first [reflexivity | lra]. Qed.
Lemma d_A02_648g : get_distance (set_distance A02_c A02_e A02_lo A02_hi sim_init (3411016121513453 / 140737488355328)) = (3411016121513453 / 140737488355328).
Proof. cbn [get_distance set_distance sim_distance]. first [reflexivity | lra]. Qed.
Lemma d_A02_656g : get_distance (set_distance A02_c A02_e A02_lo A02_hi sim_init (1382211316022975 / 35184372088832)) = (1382211316022975 / 35184372088832).
Proof. cbn [get_distance set_distance sim_distance]. first [reflexivity | lra]. Qed.
Lemma d_A02_664g : get_distance (set_distance A02_c A02_e A02_lo A02_hi sim_init (3442602469171759 / 140737488355328)) = (3442602469171759 / 140737488355328).
Proof. cbn [get_distance set_distance sim_distance]. first [reflexivity | lra]. Qed.
Lemma r_A21_442 : rio_reads A21_c A21_e A21_lo A21_hi floor_volts ctol (Build_rio (Fin (1 / 44942328371557897693232629769725618340449424473557664318357520289433168951375240783177119330601884005280028469967848339414697442203604155623211857659868531094441973356216371319075554900311523529863270738021251442209537670585615720368478277635206809290837627671146574559986811484619929076208839082406056034304)) (Fin (5902958103587057 / 590295810358705651712)) (Fin (3715469692580659 / 1125899906842624)) (Fin (6 / 1)) (Fin (12 / 1)) true true true ((Fin (0 / 1)) :: (Fin (0 / 1)) :: (Fin (0 / 1)) :: (Fin (0 / 1)) :: (Fin (27 / 4)) :: (Fin (45 / 1)) :: nil)) (80 / 1).
Proof. apply (A21_rio_fin _ (1 / 44942328371557897693232629769725618340449424473557664318357520289433168951375240783177119330601884005280028469967848339414697442203604155623211857659868531094441973356216371319075554900311523529863270738021251442209537670585615720368478277635206809290837627671146574559986811484619929076208839082406056034304)); [reflexivity | apply (A21_q_floor 1 44942328371557897693232629769725618340449424473557664318357520289433168951375240783177119330601884005280028469967848339414697442203604155623211857659868531094441973356216371319075554900311523529863270738021251442209537670585615720368478277635206809290837627671146574559986811484619929076208839082406056034304 80 1); vm_compute; reflexivity]. Qed.
Lemma r_A21_840 : rio_reads A21_c A21_e A21_lo A21_hi floor_volts ctol (Build_rio (Fin (3614681899039443 / 1180591620717411303424)) (Fin (4187 / 1024)) (Fin (55 / 16)) (Fin (4423 / 512)) (Fin (5899 / 512)) true true true ((Fin (2109 / 1024)) :: (Fin (1583 / 1024)) :: (Fin (133 / 128)) :: (Fin (92071 / 1024)) :: (Fin (1741 / 256)) :: (Fin (18941 / 512)) :: nil)) (80 / 1).
Proof. apply (A21_rio_fin _ (3614681899039443 / 1180591620717411303424)); [reflexivity | apply (A21_q_floor 3614681899039443 1180591620717411303424 80 1); vm_compute; reflexivity]. Qed.
Lemma d_A21_674g : get_distance (set_distance A21_c A21_e A21_lo A21_hi sim_init (30 / 1)) = (30 / 1).
Proof. cbn [get_distance set_distance sim_distance]. first [reflexivity | lra]. Qed.
Lemma d_A21_682g : get_distance (set_distance A21_c A21_e A21_lo A21_hi sim_init (35 / 1)) = (35 / 1).
Proof. cbn [get_distance set_distance sim_distance]. first [reflexivity | lra]. Qed.
Lemma d_A21_690g : get_distance (set_distance A21_c A21_e A21_lo A21_hi sim_init ((-100000000000000001097906362944045541740492309677311846336810682903157585404911491537163328978494688899061249669721172515611590283743140088328307009198146046031271664502933027185697489699588559043338384466165001178426897626212945177628091195786707458122783970171784415105291802893207873272974885715430223118336) / 1)) = ((-100000000000000001097906362944045541740492309677311846336810682903157585404911491537163328978494688899061249669721172515611590283743140088328307009198146046031271664502933027185697489699588559043338384466165001178426897626212945177628091195786707458122783970171784415105291802893207873272974885715430223118336) / 1).
Proof. cbn [get_distance set_distance sim_distance]. first [reflexivity | lra]. Qed.
Lemma d_A21_698g : get_distance (set_distance A21_c A21_e A21_lo A21_hi sim_init (30 / 1)) = (30 / 1).
Proof. cbn [get_distance set_distance sim_distance]. first [reflexivity | lra]. Qed.
Lemma d_A21_706g : get_distance (set_distance A21_c A21_e A21_lo A21_hi sim_init (179769313486231570814527423731704356798070567525844996598917476803157260780028538760589558632766878171540458953514382464234321326889464182768467546703537516986049910576551282076245490090389328944075868508455133942304583236903222948165808559332123348274797826204144723168738177180919299881250404026184124858368 / 1)) = (179769313486231570814527423731704356798070567525844996598917476803157260780028538760589558632766878171540458953514382464234321326889464182768467546703537516986049910576551282076245490090389328944075868508455133942304583236903222948165808559332123348274797826204144723168738177180919299881250404026184124858368 / 1).
Proof. cbn [get_distance set_distance sim_distance]. first [reflexivity | lra]. Qed.
Lemma d_A21_715g : get_distance (set_distance A21_c A21_e A21_lo A21_hi sim_init (5629499528583621 / 562949953421312)) = (5629499528583621 / 562949953421312).
Proof. cbn [get_distance set_distance sim_distance]. first [reflexivity | lra]. Qed.
Lemma d_A21_723g : get_distance (set_distance A21_c A21_e A21_lo A21_hi sim_init (45 / 1)) = (45 / 1).
Proof. cbn [get_distance set_distance sim_distance]. first [reflexivity | lra]. Qed.
Lemma d_A21_731g : get_distance (set_distance A21_c A21_e A21_lo A21_hi sim_init (434863348010461 / 8796093022208)) = (434863348010461 / 8796093022208).
Proof. cbn [get_distance set_distance sim_distance]. first [reflexivity | lra]. Qed.
Lemma d_A21_739g : get_distance (set_distance A21_c A21_e A21_lo A21_hi sim_init (8340550287525921 / 70368744177664)) = (8340550287525921 / 70368744177664).
Proof. cbn [get_distance set_distance sim_distance]. first [reflexivity | lra]. Qed.
Lemma d_A21_747g : get_distance (set_distance A21_c A21_e A21_lo A21_hi sim_init (3526776897814947 / 140737488355328)) = (3526776897814947 / 140737488355328).
Proof. cbn [get_distance set_distance sim_distance]. first [reflexivity | lra]. Qed.
Lemma d_A21_755g : get_distance (set_distance A21_c A21_e A21_lo A21_hi sim_init (4696860173165913 / 140737488355328)) = (4696860173165913 / 140737488355328).
Proof. cbn [get_distance set_distance sim_distance]. first [reflexivity | lra]. Qed.
Lemma d_A21_763g : get_distance (set_distance A21_c A21_e A21_lo A21_hi sim_init (2743588131677841 / 35184372088832)) = (2743588131677841 / 35184372088832).
Proof. cbn [get_distance set_distance sim_distance]. first [reflexivity | lra]. Qed.
Lemma d_A21_771g : get_distance (set_distance A21_c A21_e A21_lo A21_hi sim_init (6683408637488185 / 35184372088832)) = (6683408637488185 / 35184372088832).
Proof. cbn [get_distance set_distance sim_distance]. first [reflexivity | lra]. Qed.
Lemma d_A21_779g : get_distance (set_distance A21_c A21_e A21_lo A21_hi sim_init (6206022901320445 / 140737488355328)) = (6206022901320445 / 140737488355328).
Proof. cbn [get_distance set_distance sim_distance]. first [reflexivity | lra]. Qed.
Lemma d_A21_787g : get_distance (set_distance A21_c A21_e A21_lo A21_hi sim_init (575324227234463 / 8796093022208)) = (575324227234463 / 8796093022208).
Proof. cbn [get_distance set_distance sim_distance]. first [reflexivity | lra]. Qed.
Lemma d_A21_795g : get_distance (set_distance A21_c A21_e A21_lo A21_hi sim_init (3520058548575201 / 140737488355328)) = (3520058548575201 / 140737488355328).
Proof. cbn [get_distance set_distance sim_distance]. first [reflexivity | lra]. Qed.
Lemma d_A21_803g : get_distance (set_distance A21_c A21_e A21_lo A21_hi sim_init (7802733714971339 / 140737488355328)) = (7802733714971339 / 140737488355328).
Proof. cbn [get_distance set_distance sim_distance]. first [reflexivity | lra]. Qed.
Lemma d_A21_811g : get_distance (set_distance A21_c A21_e A21_lo A21_hi sim_init (5348433104329171 / 70368744177664)) = (5348433104329171 / 70368744177664).
Proof. cbn [get_distance set_distance sim_distance]. first [reflexivity | lra]. Qed.
Lemma d_A21_819g : get_distance (set_distance A21_c A21_e A21_lo A21_hi sim_init (7676246624467467 / 2305843009213693952)) = (7676246624467467 / 2305843009213693952).
Proof. cbn [get_distance set_distance sim_distance]. first [reflexivity | lra]. Qed.
Lemma d_A21_827g : get_distance (set_distance A21_c A21_e A21_lo A21_hi sim_init (6807694445760437 / 140737488355328)) = (6807694445760437 / 140737488355328).
Proof. cbn [get_distance set_distance sim_distance]. first [reflexivity | lra]. Qed.
Lemma d_A21_835g : get_distance (set_distance A21_c A21_e A21_lo A21_hi sim_init (3252712401143039 / 70368744177664)) = (3252712401143039 / 70368744177664).
Proof. cbn [get_distance set_distance sim_distance]. first [reflexivity | lra]. Qed.
Lemma d_A21_843g : get_distance (set_distance A21_c A21_e A21_lo A21_hi sim_init (7926225971080611 / 1125899906842624)) = (7926225971080611 / 1125899906842624).
Proof. cbn [get_distance set_distance sim_distance]. first [reflexivity | lra]. Qed.
Lemma d_A21_851g : get_distance (set_distance A21_c A21_e A21_lo A21_hi sim_init ((-7398921979029561) / 2251799813685248)) = ((-7398921979029561) / 2251799813685248).
Proof. cbn [get_distance set_distance sim_distance]. first [reflexivity | lra]. Qed.
Lemma d_A21_859g : get_distance (set_distance A21_c A21_e A21_lo A21_hi sim_init (1749809662630103 / 140737488355328)) = (1749809662630103 / 140737488355328).
Proof. cbn [get_distance set_distance sim_distance]. first [reflexivity | lra]. Qed.
Lemma d_A21_867g : get_distance (set_distance A21_c A21_e A21_lo A21_hi sim_init (7252768700919171 / 140737488355328)) = (7252768700919171 / 140737488355328).
Proof. cbn [get_distance set_distance sim_distance]. first [reflexivity | lra]. Qed.
Lemma d_A21_875g : get_distance (set_distance A21_c A21_e A21_lo A21_hi sim_init ((-2387792246662981) / 1125899906842624)) = ((-2387792246662981) / 1125899906842624).
Proof. cbn [get_distance set_distance sim_distance]. first [reflexivity | lra]. Qed.
Lemma d_A21_883g : get_distance (set_distance A21_c A21_e A21_lo A21_hi sim_init (4802703620137735 / 281474976710656)) = (4802703620137735 / 281474976710656).
Proof. cbn [get_distance set_distance sim_distance]. first [reflexivity | lra]. Qed.
Lemma d_A21_891g : get_distance (set_distance A21_c A21_e A21_lo A21_hi sim_init (1245352249736201 / 35184372088832)) = (1245352249736201 / 35184372088832).
Proof. cbn [get_distance set_distance sim_distance]. first [reflexivity | lra]. Qed.
Lemma d_A21_899g : get_distance (set_distance A21_c A21_e A21_lo A21_hi sim_init (5124394658847159 / 562949953421312)) = (5124394658847159 / 562949953421312).
Proof. cbn [get_distance set_distance sim_distance]. first [reflexivity | lra]. Qed.
Lemma d_A21_907g : get_distance (set_distance A21_c A21_e A21_lo A21_hi sim_init (2324777365778969 / 17592186044416)) = (2324777365778969 / 17592186044416).
Proof. cbn [get_distance set_distance sim_distance]. first [reflexivity | lra]. Qed.
Lemma d_A21_915g : get_distance (set_distance A21_c A21_e A21_lo A21_hi sim_init (1201829641729735 / 17592186044416)) = (1201829641729735 / 17592186044416).
Proof. cbn [get_distance set_distance sim_distance]. first [reflexivity | lra]. Qed.
Lemma d_A21_923g : get_distance (set_distance A21_c A21_e A21_lo A21_hi sim_init (3751568303499561 / 140737488355328)) = (3751568303499561 / 140737488355328).
Proof. cbn [get_distance set_distance sim_distance]. first [reflexivity | lra]. Qed.
Lemma d_A21_931g : get_distance (set_distance A21_c A21_e A21_lo A21_hi sim_init (5287035678995077 / 140737488355328)) = (5287035678995077 / 140737488355328).
Proof. cbn [get_distance set_distance sim_distance]. first [reflexivity | lra]. Qed.
Lemma d_A21_939g : get_distance (set_distance A21_c A21_e A21_lo A21_hi sim_init (5245201744901659 / 4611686018427387904)) = (5245201744901659 / 4611686018427387904).
Proof. cbn [get_distance set_distance sim_distance]. first [reflexivity | lra]. Qed.
Lemma d_A21_947g : get_distance (set_distance A21_c A21_e A21_lo A21_hi sim_init (517104375310947 / 2199023255552)) = (517104375310947 / 2199023255552).
Proof. cbn [get_distance set_distance sim_distance]. first [reflexivity | lra]. Qed.
Lemma d_A21_955g : get_distance (set_distance A21_c A21_e A21_lo A21_hi sim_init (2304265651384399 / 35184372088832)) = (2304265651384399 / 35184372088832).
Proof. cbn [get_distance set_distance sim_distance]. first [reflexivity | lra]. Qed.
Lemma d_A21_963g : get_distance (set_distance A21_c A21_e A21_lo A21_hi sim_init (295047542140691 / 8796093022208)) = (295047542140691 / 8796093022208).
Proof. cbn [get_distance set_distance sim_distance]. first [reflexivity | lra]. Qed.
Lemma d_A21_971g : get_distance (set_distance A21_c A21_e A21_lo A21_hi sim_init (6047681779075541 / 140737488355328)) = (6047681779075541 / 140737488355328).
Proof. cbn [get_distance set_distance sim_distance]. first [reflexivity | lra]. Qed.
Lemma d_A21_979g : get_distance (set_distance A21_c A21_e A21_lo A21_hi sim_init (8263936480202961 / 70368744177664)) = (8263936480202961 / 70368744177664).
Proof. cbn [get_distance set_distance sim_distance]. first [reflexivity | lra]. Qed.
Lemma d_A21_987g : get_distance (set_distance A21_c A21_e A21_lo A21_hi sim_init (1591397923444039 / 140737488355328)) = (1591397923444039 / 140737488355328).
Proof. cbn [get_distance set_distance sim_distance]. first [reflexivity | lra]. Qed.
Lemma d_A21_995g : get_distance (set_distance A21_c A21_e A21_lo A21_hi sim_init (2571795361729147 / 17592186044416)) = (2571795361729147 / 17592186044416).
Proof. cbn [get_distance set_distance sim_distance]. first [reflexivity | lra]. Qed.
Lemma d_A21_1003g : get_distance (set_distance A21_c A21_e A21_lo A21_hi sim_init (2892056581724815 / 70368744177664)) = (2892056581724815 / 70368744177664).
Proof. cbn [get_distance set_distance sim_distance]. first [reflexivity | lra]. Qed.
Lemma d_A21_1011g : get_distance (set_distance A21_c A21_e A21_lo A21_hi sim_init (590519392205019 / 35184372088832)) = (590519392205019 / 35184372088832).
Proof. cbn [get_distance set_distance sim_distance]. first [reflexivity | lra]. Qed.
Lemma d_A21_1019g : get_distance (set_distance A21_c A21_e A21_lo A21_hi sim_init (2330562932581585 / 35184372088832)) = (2330562932581585 / 35184372088832).
Proof. cbn [get_distance set_distance sim_distance]. first [reflexivity | lra]. Qed.
Lemma d_A21_1027g : get_distance (set_distance A21_c A21_e A21_lo A21_hi sim_init (3885367720953037 / 70368744177664)) = (3885367720953037 / 70368744177664).
Proof. cbn [get_distance set_distance sim_distance]. first [reflexivity | lra]. Qed.
Lemma d_A21_1035g : get_distance (set_distance A21_c A21_e A21_lo A21_hi sim_init (2177487725785479 / 35184372088832)) = (2177487725785479 / 35184372088832).
Proof. cbn [get_distance set_distance sim_distance]. first [reflexivity | lra]. Qed.
Lemma d_A21_1043g : get_distance (set_distance A21_c A21_e A21_lo A21_hi sim_init (6276046922050143 / 140737488355328)) = (6276046922050143 / 140737488355328).
Proof. cbn [get_distance set_distance sim_distance]. first [reflexivity | lra]. Qed.
Lemma d_A21_1051g : get_distance (set_distance A21_c A21_e A21_lo A21_hi sim_init (116424777782257 / 562949953421312)) = (116424777782257 / 562949953421312).
Proof. cbn [get_distance set_distance sim_distance]. first [reflexivity | lra]. Qed.
Lemma d_A21_1059g : get_distance (set_distance A21_c A21_e A21_lo A21_hi sim_init ((-5324046514016459) / 1125899906842624)) = ((-5324046514016459) / 1125899906842624).
Proof. cbn [get_distance set_distance sim_distance]. first [reflexivity | lra]. Qed.
Lemma d_A21_1067g : get_distance (set_distance A21_c A21_e A21_lo A21_hi sim_init (4668794513237467 / 281474976710656)) = (4668794513237467 / 281474976710656).
Proof. cbn [get_distance set_distance sim_distance]. first [reflexivity | lra]. Qed.
Lemma d_A21_1075g : get_distance (set_distance A21_c A21_e A21_lo A21_hi sim_init (8055398482733847 / 140737488355328)) = (8055398482733847 / 140737488355328).
Proof. cbn [get_distance set_distance sim_distance]. first [reflexivity | lra]. Qed.
Lemma d_A21_1083g : get_distance (set_distance A21_c A21_e A21_lo A21_hi sim_init (5903997846979249 / 562949953421312)) = (5903997846979249 / 562949953421312).
Proof. cbn [get_distance set_distance sim_distance]. first [reflexivity | lra]. Qed.
Lemma d_A21_1091g : get_distance (set_distance A21_c A21_e A21_lo A21_hi sim_init (3364818485167473 / 70368744177664)) = (3364818485167473 / 70368744177664).
Proof. cbn [get_distance set_distance sim_distance]. first [reflexivity | lra]. Qed.
Lemma d_A21_1099g : get_distance (set_distance A21_c A21_e A21_lo A21_hi sim_init (6925503174689909 / 140737488355328)) = (6925503174689909 / 140737488355328).
Proof. cbn [get_distance set_distance sim_distance]. first [reflexivity | lra]. Qed.
Lemma d_A21_1107g : get_distance (set_distance A21_c A21_e A21_lo A21_hi sim_init (2487088007473649 / 1125899906842624)) = (2487088007473649 / 1125899906842624).
Proof. cbn [get_distance set_distance sim_distance]. first [reflexivity | lra]. Qed.
Lemma d_A21_1115g : get_distance (set_distance A21_c A21_e A21_lo A21_hi sim_init (4588100510728091 / 562949953421312)) = (4588100510728091 / 562949953421312).
Proof. cbn [get_distance set_distance sim_distance]. first [reflexivity | lra]. Qed.
Lemma d_A21_1123g : get_distance (set_distance A21_c A21_e A21_lo A21_hi sim_init (1280648565642015 / 70368744177664)) = (1280648565642015 / 70368744177664).
Proof. cbn [get_distance set_distance sim_distance]. first [reflexivity | lra]. Qed.
Lemma d_A21_1131g : get_distance (set_distance A21_c A21_e A21_lo A21_hi sim_init (2955303013384987 / 1099511627776)) = (2955303013384987 / 1099511627776).
Proof. cbn [get_distance set_distance sim_distance]. first [reflexivity | lra]. Qed.
Lemma d_A21_1139g : get_distance (set_distance A21_c A21_e A21_lo A21_hi sim_init (4591551189509913 / 562949953421312)) = (4591551189509913 / 562949953421312).
Proof. cbn [get_distance set_distance sim_distance]. first [reflexivity | lra]. Qed.
Lemma d_A21_1147g : get_distance (set_distance A21_c A21_e A21_lo A21_hi sim_init (7499693198476163 / 35184372088832)) = (7499693198476163 / 35184372088832).
Proof. cbn [get_distance set_distance sim_distance]. first [reflexivity | lra]. Qed.
Lemma d_A21_1155g : get_distance (set_distance A21_c A21_e A21_lo A21_hi sim_init (84 / 1)) = (84 / 1).
Proof. cbn [get_distance set_distance sim_distance]. first [reflexivity | lra]. Qed.
Lemma d_A21_1163g : get_distance (set_distance A21_c A21_e A21_lo A21_hi sim_init (6420521222124363 / 140737488355328)) = (6420521222124363 / 140737488355328).
Proof. cbn [get_distance set_distance sim_distance]. first [reflexivity | lra]. Qed.
Lemma d_A21_1171g : get_distance (set_distance A21_c A21_e A21_lo A21_hi sim_init (5096423517877405 / 70368744177664)) = (5096423517877405 / 70368744177664).
Proof. cbn [get_distance set_distance sim_distance]. first [reflexivity | lra]. Qed.
Lemma d_A21_1179g : get_distance (set_distance A21_c A21_e A21_lo A21_hi sim_init (2546561448433681 / 35184372088832)) = (2546561448433681 / 35184372088832).
Proof. cbn [get_distance set_distance sim_distance]. first [reflexivity | lra]. Qed.
Lemma d_A21_1187g : get_distance (set_distance A21_c A21_e A21_lo A21_hi sim_init (1783596444396137 / 70368744177664)) = (1783596444396137 / 70368744177664).
Proof. cbn [get_distance set_distance sim_distance]. first [reflexivity | lra]. Qed.
Lemma d_A21_1195g : get_distance (set_distance A21_c A21_e A21_lo A21_hi sim_init (2838150866814949 / 140737488355328)) = (2838150866814949 / 140737488355328).
Proof. cbn [get_distance set_distance sim_distance]. first [reflexivity | lra]. Qed.
Lemma d_A21_1203g : get_distance (set_distance A21_c A21_e A21_lo A21_hi sim_init (761800434560527 / 35184372088832)) = (761800434560527 / 35184372088832).
Proof. cbn [get_distance set_distance sim_distance]. first [reflexivity | lra]. Qed.
Lemma d_A21_1211g : get_distance (set_distance A21_c A21_e A21_lo A21_hi sim_init (8879153479997525 / 281474976710656)) = (8879153479997525 / 281474976710656).
Proof. cbn [get_distance set_distance sim_distance]. first [reflexivity | lra]. Qed.
Lemma d_A21_1219g : get_distance (set_distance A21_c A21_e A21_lo A21_hi sim_init (7561869417550663 / 18014398509481984)) = (7561869417550663 / 18014398509481984).
Proof. cbn [get_distance set_distance sim_distance]. first [reflexivity | lra]. Qed.
Lemma d_A21_1227g : get_distance (set_distance A21_c A21_e A21_lo A21_hi sim_init (7062516587267811 / 140737488355328)) = (7062516587267811 / 140737488355328).
Proof. cbn [get_distance set_distance sim_distance]. first [reflexivity | lra]. Qed.
Lemma d_A21_1235g : get_distance (set_distance A21_c A21_e A21_lo A21_hi sim_init (3327997155203299 / 70368744177664)) = (3327997155203299 / 70368744177664).
Proof. cbn [get_distance set_distance sim_distance]. first [reflexivity | lra]. Qed.
Lemma d_A21_1243g : get_distance (set_distance A21_c A21_e A21_lo A21_hi sim_init (4573782733827459 / 140737488355328)) = (4573782733827459 / 140737488355328).
Proof. cbn [get_distance set_distance sim_distance]. first [reflexivity | lra]. Qed.
Lemma d_A21_1251g : get_distance (set_distance A21_c A21_e A21_lo A21_hi sim_init (1205239452278703 / 17592186044416)) = (1205239452278703 / 17592186044416).
Proof. cbn [get_distance set_distance sim_distance]. first [reflexivity | lra]. Qed.
Lemma d_A21_1259g : get_distance (set_distance A21_c A21_e A21_lo A21_hi sim_init (3883243445384153 / 70368744177664)) = (3883243445384153 / 70368744177664).
Proof. cbn [get_distance set_distance sim_distance]. first [reflexivity | lra]. Qed.
Lemma d_A21_1267g : get_distance (set_distance A21_c A21_e A21_lo A21_hi sim_init (5992518918239703 / 140737488355328)) = (5992518918239703 / 140737488355328).
Proof. cbn [get_distance set_distance sim_distance]. first [reflexivity | lra]. Qed.
Lemma d_A21_1275g : get_distance (set_distance A21_c A21_e A21_lo A21_hi sim_init (753673425734333 / 4398046511104)) = (753673425734333 / 4398046511104).
Proof. cbn [get_distance set_distance sim_distance]. first [reflexivity | lra]. Qed.
Lemma d_A21_1283g : get_distance (set_distance A21_c A21_e A21_lo A21_hi sim_init (4745145564688715 / 2305843009213693952)) = (4745145564688715 / 2305843009213693952).
Proof. cbn [get_distance set_distance sim_distance]. first [reflexivity | lra]. Qed.
Lemma d_A21_1291g : get_distance (set_distance A21_c A21_e A21_lo A21_hi sim_init (2963726062079627 / 70368744177664)) = (2963726062079627 / 70368744177664).
Proof. cbn [get_distance set_distance sim_distance]. first [reflexivity | lra]. Qed.
Lemma d_A21_1299g : get_distance (set_distance A21_c A21_e A21_lo A21_hi sim_init (5552451936597621 / 4503599627370496)) = (5552451936597621 / 4503599627370496).
Proof. cbn [get_distance set_distance sim_distance]. first [reflexivity | lra]. Qed.
Lemma d_A21_1307g : get_distance (set_distance A21_c A21_e A21_lo A21_hi sim_init (660964963532321 / 281474976710656)) = (660964963532321 / 281474976710656).
Proof. cbn [get_distance set_distance sim_distance]. first [reflexivity | lra]. Qed.
Lemma d_A21_1315g : get_distance (set_distance A21_c A21_e A21_lo A21_hi sim_init (1190197890856607 / 17592186044416)) = (1190197890856607 / 17592186044416).
Proof. cbn [get_distance set_distance sim_distance]. first [reflexivity | lra]. Qed.
Lemma d_A21_1323g : get_distance (set_distance A21_c A21_e A21_lo A21_hi sim_init (124366425146769 / 2199023255552)) = (124366425146769 / 2199023255552).
Proof. cbn [get_distance set_distance sim_distance]. first [reflexivity | lra]. Qed.
Lemma d_A21_1331g : get_distance (set_distance A21_c A21_e A21_lo A21_hi sim_init (7464945290001091 / 562949953421312)) = (7464945290001091 / 562949953421312).
Proof. cbn [get_distance set_distance sim_distance]. first [reflexivity | lra]. Qed.
Lemma r_A41_868 : rio_reads A41_c A41_e A41_lo A41_hi floor_volts ctol (Build_rio (Fin (492525077454931 / 4925250774549309901534880012517951725634967408808180833493536675530715221437151326426783281860614455100828498788352)) (Fin (0 / 1)) (Fin (3715469692580659 / 1125899906842624)) (Fin (6 / 1)) (Fin (12 / 1)) true true true ((Fin (0 / 1)) :: (Fin (0 / 1)) :: (Fin (0 / 1)) :: (Fin (0 / 1)) :: (Fin (27 / 4)) :: (Fin (45 / 1)) :: nil)) (35 / 1).
Proof. apply (A41_rio_fin _ (492525077454931 / 4925250774549309901534880012517951725634967408808180833493536675530715221437151326426783281860614455100828498788352)); [reflexivity | apply (A41_q_floor 492525077454931 4925250774549309901534880012517951725634967408808180833493536675530715221437151326426783281860614455100828498788352 35 1); vm_compute; reflexivity]. Qed.
Lemma r_A41_1268 : rio_reads A41_c A41_e A41_lo A41_hi floor_volts ctol (Build_rio (Fin (5461180652555631 / 2361183241434822606848)) (Fin (1 / 1)) (Fin ((-1) / 1)) (Fin (5279 / 1024)) (Fin (12 / 1)) true true true ((Fin (1791 / 1024)) :: (Fin (113 / 1024)) :: (Fin (2761 / 1024)) :: (Fin (142617 / 1024)) :: (Fin (4397 / 512)) :: (Fin (25193 / 256)) :: nil)) (35 / 1).
Proof. apply (A41_rio_fin _ (5461180652555631 / 2361183241434822606848)); [reflexivity | apply (A41_q_floor 5461180652555631 2361183241434822606848 35 1); vm_compute; reflexivity]. Qed.
Lemma d_A41_1340g : get_distance (set_distance A41_c A41_e A41_lo A41_hi sim_init (30 / 1)) = (30 / 1).
Proof. cbn [get_distance set_distance sim_distance]. first [reflexivity | lra]. Qed.
Lemma d_A41_1348g : get_distance (set_distance A41_c A41_e A41_lo A41_hi sim_init (35 / 1)) = (35 / 1).
Proof. cbn [get_distance set_distance sim_distance]. first [reflexivity | lra]. Qed.
Lemma d_A41_1356g : get_distance (set_distance A41_c A41_e A41_lo A41_hi sim_init ((-100000000000000001097906362944045541740492309677311846336810682903157585404911491537163328978494688899061249669721172515611590283743140088328307009198146046031271664502933027185697489699588559043338384466165001178426897626212945177628091195786707458122783970171784415105291802893207873272974885715430223118336) / 1)) = ((-100000000000000001097906362944045541740492309677311846336810682903157585404911491537163328978494688899061249669721172515611590283743140088328307009198146046031271664502933027185697489699588559043338384466165001178426897626212945177628091195786707458122783970171784415105291802893207873272974885715430223118336) / 1).
Proof. cbn [get_distance set_distance sim_distance]. first [reflexivity | lra]. Qed.
Lemma d_A41_1364g : get_distance (set_distance A41_c A41_e A41_lo A41_hi sim_init (30 / 1)) = (30 / 1).
Proof. cbn [get_distance set_distance sim_distance]. first [reflexivity | lra]. Qed.
Lemma d_A41_1372g : get_distance (set_distance A41_c A41_e A41_lo A41_hi sim_init (179769313486231570814527423731704356798070567525844996598917476803157260780028538760589558632766878171540458953514382464234321326889464182768467546703537516986049910576551282076245490090389328944075868508455133942304583236903222948165808559332123348274797826204144723168738177180919299881250404026184124858368 / 1)) = (179769313486231570814527423731704356798070567525844996598917476803157260780028538760589558632766878171540458953514382464234321326889464182768467546703537516986049910576551282076245490090389328944075868508455133942304583236903222948165808559332123348274797826204144723168738177180919299881250404026184124858368 / 1).
Proof. cbn [get_distance set_distance sim_distance]. first [reflexivity | lra]. Qed.
Lemma d_A41_1381g : get_distance (set_distance A41_c A41_e A41_lo A41_hi sim_init (5066549575725259 / 1125899906842624)) = (5066549575725259 / 1125899906842624).
Proof. cbn [get_distance set_distance sim_distance]. first [reflexivity | lra]. Qed.
Lemma d_A41_1389g : get_distance (set_distance A41_c A41_e A41_lo A41_hi sim_init (79 / 4)) = (79 / 4).
Proof. cbn [get_distance set_distance sim_distance]. first [reflexivity | lra]. Qed.
Lemma d_A41_1397g : get_distance (set_distance A41_c A41_e A41_lo A41_hi sim_init (7318065612077031 / 1125899906842624)) = (7318065612077031 / 1125899906842624).
Proof. cbn [get_distance set_distance sim_distance]. first [reflexivity | lra]. Qed.
Lemma d_A41_1405g : get_distance (set_distance A41_c A41_e A41_lo A41_hi sim_init (3670038827391861 / 140737488355328)) = (3670038827391861 / 140737488355328).
Proof. cbn [get_distance set_distance sim_distance]. first [reflexivity | lra]. Qed.
Lemma d_A41_1413g : get_distance (set_distance A41_c A41_e A41_lo A41_hi sim_init (7982861496012883 / 281474976710656)) = (7982861496012883 / 281474976710656).
Proof. cbn [get_distance set_distance sim_distance]. first [reflexivity | lra]. Qed.
Lemma d_A41_1421g : get_distance (set_distance A41_c A41_e A41_lo A41_hi sim_init (8990059498308119 / 281474976710656)) = (8990059498308119 / 281474976710656).
Proof. cbn [get_distance set_distance sim_distance]. first [reflexivity | lra]. Qed.
Lemma d_A41_1429g : get_distance (set_distance A41_c A41_e A41_lo A41_hi sim_init (1134147548060299 / 35184372088832)) = (1134147548060299 / 35184372088832).
Proof. cbn [get_distance set_distance sim_distance]. first [reflexivity | lra]. Qed.
Lemma d_A41_1437g : get_distance (set_distance A41_c A41_e A41_lo A41_hi sim_init (8407292878914877 / 562949953421312)) = (8407292878914877 / 562949953421312).
Proof. cbn [get_distance set_distance sim_distance]. first [reflexivity | lra]. Qed.
Lemma d_A41_1445g : get_distance (set_distance A41_c A41_e A41_lo A41_hi sim_init (1638230211786777 / 70368744177664)) = (1638230211786777 / 70368744177664).
Proof. cbn [get_distance set_distance sim_distance]. first [reflexivity | lra]. Qed.
Lemma d_A41_1453g : get_distance (set_distance A41_c A41_e A41_lo A41_hi sim_init (1265721627819565 / 17592186044416)) = (1265721627819565 / 17592186044416).
Proof. cbn [get_distance set_distance sim_distance]. first [reflexivity | lra]. Qed.
Lemma d_A41_1461g : get_distance (set_distance A41_c A41_e A41_lo A41_hi sim_init ((-906826335249765) / 1125899906842624)) = ((-906826335249765) / 1125899906842624).
Proof. cbn [get_distance set_distance sim_distance]. first [reflexivity | lra]. Qed.
Lemma d_A41_1469g : get_distance (set_distance A41_c A41_e A41_lo A41_hi sim_init (1209242465232371 / 35184372088832)) = (1209242465232371 / 35184372088832).
Proof. cbn [get_distance set_distance sim_distance]. first [reflexivity | lra]. Qed.
Lemma d_A41_1477g : get_distance (set_distance A41_c A41_e A41_lo A41_hi sim_init (3710958847437813 / 281474976710656)) = (3710958847437813 / 281474976710656).
Proof. cbn [get_distance set_distance sim_distance]. first [reflexivity | lra]. Qed.
Lemma d_A41_1485g : get_distance (set_distance A41_c A41_e A41_lo A41_hi sim_init (5234389108061903 / 281474976710656)) = (5234389108061903 / 281474976710656).
Proof. cbn [get_distance set_distance sim_distance]. first [reflexivity | lra]. Qed.
Lemma d_A41_1493g : get_distance (set_distance A41_c A41_e A41_lo A41_hi sim_init (3447133459590943 / 140737488355328)) = (3447133459590943 / 140737488355328).
Proof. cbn [get_distance set_distance sim_distance]. first [reflexivity | lra]. Qed.
Lemma d_A41_1501g : get_distance (set_distance A41_c A41_e A41_lo A41_hi sim_init (1587296405053957 / 140737488355328)) = (1587296405053957 / 140737488355328).
Proof. cbn [get_distance set_distance sim_distance]. first [reflexivity | lra]. Qed.
Lemma d_A41_1509g : get_distance (set_distance A41_c A41_e A41_lo A41_hi sim_init (2781132601576767 / 562949953421312)) = (2781132601576767 / 562949953421312).
Proof. cbn [get_distance set_distance sim_distance]. first [reflexivity | lra]. Qed.
Lemma d_A41_1517g : get_distance (set_distance A41_c A41_e A41_lo A41_hi sim_init (2505920685181833 / 562949953421312)) = (2505920685181833 / 562949953421312).
Proof. cbn [get_distance set_distance sim_distance]. first [reflexivity | lra]. Qed.
Lemma d_A41_1525g : get_distance (set_distance A41_c A41_e A41_lo A41_hi sim_init (2258402179018505 / 140737488355328)) = (2258402179018505 / 140737488355328).
Proof. cbn [get_distance set_distance sim_distance]. first [reflexivity | lra]. Qed.
Lemma d_A41_1533g : get_distance (set_distance A41_c A41_e A41_lo A41_hi sim_init (4282805240930069 / 281474976710656)) = (4282805240930069 / 281474976710656).
Proof. cbn [get_distance set_distance sim_distance]. first [reflexivity | lra]. Qed.
Lemma d_A41_1541g : get_distance (set_distance A41_c A41_e A41_lo A41_hi sim_init (2378126425723785 / 70368744177664)) = (2378126425723785 / 70368744177664).
Proof. cbn [get_distance set_distance sim_distance]. first [reflexivity | lra]. Qed.
Lemma d_A41_1549g : get_distance (set_distance A41_c A41_e A41_lo A41_hi sim_init (4164206402451473 / 1125899906842624)) = (4164206402451473 / 1125899906842624).
Proof. cbn [get_distance set_distance sim_distance]. first [reflexivity | lra]. Qed.
Lemma d_A41_1557g : get_distance (set_distance A41_c A41_e A41_lo A41_hi sim_init (900780918159063 / 17592186044416)) = (900780918159063 / 17592186044416).
Proof. cbn [get_distance set_distance sim_distance]. first [reflexivity | lra]. Qed.
Lemma d_A41_1565g : get_distance (set_distance A41_c A41_e A41_lo A41_hi sim_init (6224469294799971 / 281474976710656)) = (6224469294799971 / 281474976710656).
Proof. cbn [get_distance set_distance sim_distance]. first [reflexivity | lra]. Qed.
Lemma d_A41_1573g : get_distance (set_distance A41_c A41_e A41_lo A41_hi sim_init (5309980560284811 / 562949953421312)) = (5309980560284811 / 562949953421312).
Proof. cbn [get_distance set_distance sim_distance]. first [reflexivity | lra]. Qed.
Lemma d_A41_1581g : get_distance (set_distance A41_c A41_e A41_lo A41_hi sim_init (8198130462769565 / 562949953421312)) = (8198130462769565 / 562949953421312).
Proof. cbn [get_distance set_distance sim_distance]. first [reflexivity | lra]. Qed.
Lemma d_A41_1589g : get_distance (set_distance A41_c A41_e A41_lo A41_hi sim_init (3892230759512529 / 36028797018963968)) = (3892230759512529 / 36028797018963968).
Proof. cbn [get_distance set_distance sim_distance]. first [reflexivity | lra]. Qed.
Lemma d_A41_1597g : get_distance (set_distance A41_c A41_e A41_lo A41_hi sim_init (346621755701677 / 1125899906842624)) = (346621755701677 / 1125899906842624).
Proof. cbn [get_distance set_distance sim_distance]. first [reflexivity | lra]. Qed.
Lemma d_A41_1605g : get_distance (set_distance A41_c A41_e A41_lo A41_hi sim_init (1342626024346911 / 70368744177664)) = (1342626024346911 / 70368744177664).
Proof. cbn [get_distance set_distance sim_distance]. first [reflexivity | lra]. Qed.
Lemma d_A41_1613g : get_distance (set_distance A41_c A41_e A41_lo A41_hi sim_init (6617576654015561 / 281474976710656)) = (6617576654015561 / 281474976710656).
Proof. cbn [get_distance set_distance sim_distance]. first [reflexivity | lra]. Qed.
Lemma d_A41_1621g : get_distance (set_distance A41_c A41_e A41_lo A41_hi sim_init (7274748214811001 / 562949953421312)) = (7274748214811001 / 562949953421312).
Proof. cbn [get_distance set_distance sim_distance]. first [reflexivity | lra]. Qed.
Lemma d_A41_1629g : get_distance (set_distance A41_c A41_e A41_lo A41_hi sim_init (67 / 1)) = (67 / 1).
Proof. cbn [get_distance set_distance sim_distance]. first [reflexivity | lra]. Qed.
Lemma d_A41_1637g : get_distance (set_distance A41_c A41_e A41_lo A41_hi sim_init (8971847583716145 / 281474976710656)) = (8971847583716145 / 281474976710656).
Proof. cbn [get_distance set_distance sim_distance]. first [reflexivity | lra]. Qed.
Lemma d_A41_1645g : get_distance (set_distance A41_c A41_e A41_lo A41_hi sim_init (8721287477986087 / 281474976710656)) = (8721287477986087 / 281474976710656).
Proof. cbn [get_distance set_distance sim_distance]. first [reflexivity | lra]. Qed.
Lemma d_A41_1653g : get_distance (set_distance A41_c A41_e A41_lo A41_hi sim_init (8022686517689539 / 137438953472)) = (8022686517689539 / 137438953472).
Proof. cbn [get_distance set_distance sim_distance]. first [reflexivity | lra]. Qed.
Lemma d_A41_1661g : get_distance (set_distance A41_c A41_e A41_lo A41_hi sim_init (7445158936997027 / 281474976710656)) = (7445158936997027 / 281474976710656).
Proof. cbn [get_distance set_distance sim_distance]. first [reflexivity | lra]. Qed.
Lemma d_A41_1669g : get_distance (set_distance A41_c A41_e A41_lo A41_hi sim_init (3082493013930081 / 140737488355328)) = (3082493013930081 / 140737488355328).
Proof. cbn [get_distance set_distance sim_distance]. first [reflexivity | lra]. Qed.
Lemma d_A41_1677g : get_distance (set_distance A41_c A41_e A41_lo A41_hi sim_init (1776645693509937 / 70368744177664)) = (1776645693509937 / 70368744177664).
Proof. cbn [get_distance set_distance sim_distance]. first [reflexivity | lra]. Qed.
Lemma d_A41_1685g : get_distance (set_distance A41_c A41_e A41_lo A41_hi sim_init (2281187733035171 / 140737488355328)) = (2281187733035171 / 140737488355328).
Proof. cbn [get_distance set_distance sim_distance]. first [reflexivity | lra]. Qed.
Lemma d_A41_1693g : get_distance (set_distance A41_c A41_e A41_lo A41_hi sim_init (3292493208773129 / 281474976710656)) = (3292493208773129 / 281474976710656).
Proof. cbn [get_distance set_distance sim_distance]. first [reflexivity | lra]. Qed.
Lemma d_A41_1701g : get_distance (set_distance A41_c A41_e A41_lo A41_hi sim_init (1814010409102541 / 17592186044416)) = (1814010409102541 / 17592186044416).
Proof. cbn [get_distance set_distance sim_distance]. first [reflexivity | lra]. Qed.
Lemma d_A41_1709g : get_distance (set_distance A41_c A41_e A41_lo A41_hi sim_init (6479860490575161 / 70368744177664)) = (6479860490575161 / 70368744177664).
Proof. cbn [get_distance set_distance sim_distance]. first [reflexivity | lra]. Qed.
Lemma d_A41_1717g : get_distance (set_distance A41_c A41_e A41_lo A41_hi sim_init (3237346645757831 / 281474976710656)) = (3237346645757831 / 281474976710656).
Proof. cbn [get_distance set_distance sim_distance]. first [reflexivity | lra]. Qed.
Lemma d_A41_1725g : get_distance (set_distance A41_c A41_e A41_lo A41_hi sim_init (424457612510219 / 17592186044416)) = (424457612510219 / 17592186044416).
Proof. cbn [get_distance set_distance sim_distance]. first [reflexivity | lra]. Qed.
Lemma d_A41_1733g : get_distance (set_distance A41_c A41_e A41_lo A41_hi sim_init (36 / 1)) = (36 / 1).
Proof. cbn [get_distance set_distance sim_distance]. first [reflexivity | lra]. Qed.
Lemma d_A41_1741g : get_distance (set_distance A41_c A41_e A41_lo A41_hi sim_init (7195309572463649 / 281474976710656)) = (7195309572463649 / 281474976710656).
Proof. cbn [get_distance set_distance sim_distance]. first [reflexivity | lra]. Qed.
Lemma d_A41_1749g : get_distance (set_distance A41_c A41_e A41_lo A41_hi sim_init (3142296707788645 / 281474976710656)) = (3142296707788645 / 281474976710656).
Proof. cbn [get_distance set_distance sim_distance]. first [reflexivity | lra]. Qed.
Lemma d_A41_1757g : get_distance (set_distance A41_c A41_e A41_lo A41_hi sim_init (6757104783389245 / 281474976710656)) = (6757104783389245 / 281474976710656).
Proof. cbn [get_distance set_distance sim_distance]. first [reflexivity | lra]. Qed.
Lemma d_A41_1765g : get_distance (set_distance A41_c A41_e A41_lo A41_hi sim_init (445894698493749 / 17592186044416)) = (445894698493749 / 17592186044416).
Proof. cbn [get_distance set_distance sim_distance]. first [reflexivity | lra]. Qed.
Lemma d_A41_1773g : get_distance (set_distance A41_c A41_e A41_lo A41_hi sim_init (5139852062274811 / 281474976710656)) = (5139852062274811 / 281474976710656).
Proof. cbn [get_distance set_distance sim_distance]. first [reflexivity | lra]. Qed.
Lemma d_A41_1781g : get_distance (set_distance A41_c A41_e A41_lo A41_hi sim_init (3647700276274329 / 140737488355328)) = (3647700276274329 / 140737488355328).
Proof. cbn [get_distance set_distance sim_distance]. first [reflexivity | lra]. Qed.
Lemma d_A41_1789g : get_distance (set_distance A41_c A41_e A41_lo A41_hi sim_init (3544854130437691 / 140737488355328)) = (3544854130437691 / 140737488355328).
Proof. cbn [get_distance set_distance sim_distance]. first [reflexivity | lra]. Qed.
Lemma d_A41_1797g : get_distance (set_distance A41_c A41_e A41_lo A41_hi sim_init (267966835778481 / 8796093022208)) = (267966835778481 / 8796093022208).
Proof. cbn [get_distance set_distance sim_distance]. first [reflexivity | lra]. Qed.
Lemma d_A41_1805g : get_distance (set_distance A41_c A41_e A41_lo A41_hi sim_init (38 / 1)) = (38 / 1).
Proof. cbn [get_distance set_distance sim_distance]. first [reflexivity | lra]. Qed.
Lemma d_A41_1813g : get_distance (set_distance A41_c A41_e A41_lo A41_hi sim_init (4880465415981109 / 281474976710656)) = (4880465415981109 / 281474976710656).
Proof. cbn [get_distance set_distance sim_distance]. first [reflexivity | lra]. Qed.
Lemma d_A41_1821g : get_distance (set_distance A41_c A41_e A41_lo A41_hi sim_init (4649593534892701 / 140737488355328)) = (4649593534892701 / 140737488355328).
Proof. cbn [get_distance set_distance sim_distance]. first [reflexivity | lra]. Qed.
Lemma d_A41_1829g : get_distance (set_distance A41_c A41_e A41_lo A41_hi sim_init (5216109570272091 / 1099511627776)) = (5216109570272091 / 1099511627776).
Proof. cbn [get_distance set_distance sim_distance]. first [reflexivity | lra]. Qed.
Lemma d_A41_1837g : get_distance (set_distance A41_c A41_e A41_lo A41_hi sim_init (6963728569797987 / 562949953421312)) = (6963728569797987 / 562949953421312).
Proof. cbn [get_distance set_distance sim_distance]. first [reflexivity | lra]. Qed.
Lemma d_A41_1845g : get_distance (set_distance A41_c A41_e A41_lo A41_hi sim_init (6097745308339431 / 549755813888)) = (6097745308339431 / 549755813888).
Proof. cbn [get_distance set_distance sim_distance]. first [reflexivity | lra]. Qed.
Lemma d_A41_1853g : get_distance (set_distance A41_c A41_e A41_lo A41_hi sim_init (6584708332136561 / 70368744177664)) = (6584708332136561 / 70368744177664).
Proof. cbn [get_distance set_distance sim_distance]. first [reflexivity | lra]. Qed.
Lemma d_A41_1861g : get_distance (set_distance A41_c A41_e A41_lo A41_hi sim_init ((-2167412493919607) / 2251799813685248)) = ((-2167412493919607) / 2251799813685248).
Proof. cbn [get_distance set_distance sim_distance]. first [reflexivity | lra]. Qed.
Lemma d_A41_1869g : get_distance (set_distance A41_c A41_e A41_lo A41_hi sim_init (4648686628912679 / 562949953421312)) = (4648686628912679 / 562949953421312).
Proof. cbn [get_distance set_distance sim_distance]. first [reflexivity | lra]. Qed.
Lemma d_A41_1877g : get_distance (set_distance A41_c A41_e A41_lo A41_hi sim_init (7543327688131869 / 281474976710656)) = (7543327688131869 / 281474976710656).
Proof. cbn [get_distance set_distance sim_distance]. first [reflexivity | lra]. Qed.
Lemma d_A41_1885g : get_distance (set_distance A41_c A41_e A41_lo A41_hi sim_init (1174612673192003 / 70368744177664)) = (1174612673192003 / 70368744177664).
Proof. cbn [get_distance set_distance sim_distance]. first [reflexivity | lra]. Qed.
Lemma d_A41_1893g : get_distance (set_distance A41_c A41_e A41_lo A41_hi sim_init (40 / 1)) = (40 / 1).
Proof. cbn [get_distance set_distance sim_distance]. first [reflexivity | lra]. Qed.
Lemma d_A41_1901g : get_distance (set_distance A41_c A41_e A41_lo A41_hi sim_init (5280639585560391 / 8796093022208)) = (5280639585560391 / 8796093022208).
Proof. cbn [get_distance set_distance sim_distance]. first [reflexivity | lra]. Qed.
Lemma d_A41_1909g : get_distance (set_distance A41_c A41_e A41_lo A41_hi sim_init (5628834529867057 / 36028797018963968)) = (5628834529867057 / 36028797018963968).
Proof. cbn [get_distance set_distance sim_distance]. first [reflexivity | lra]. Qed.
Lemma d_A41_1917g : get_distance (set_distance A41_c A41_e A41_lo A41_hi sim_init ((-751590055063515) / 2251799813685248)) = ((-751590055063515) / 2251799813685248).
Proof. cbn [get_distance set_distance sim_distance]. first [reflexivity | lra]. Qed.
Lemma d_A41_1925g : get_distance (set_distance A41_c A41_e A41_lo A41_hi sim_init (2317586161548337 / 35184372088832)) = (2317586161548337 / 35184372088832).
Proof. cbn [get_distance set_distance sim_distance]. first [reflexivity | lra]. Qed.
Lemma d_A41_1933g : get_distance (set_distance A41_c A41_e A41_lo A41_hi sim_init (1830968579742101 / 140737488355328)) = (1830968579742101 / 140737488355328).
Proof. cbn [get_distance set_distance sim_distance]. first [reflexivity | lra]. Qed.
Lemma d_A41_1941g : get_distance (set_distance A41_c A41_e A41_lo A41_hi sim_init (1433877040400965 / 70368744177664)) = (1433877040400965 / 70368744177664).
Proof. cbn [get_distance set_distance sim_distance]. first [reflexivity | lra]. Qed.
Lemma d_A41_1949g : get_distance (set_distance A41_c A41_e A41_lo A41_hi sim_init (4738978608930827 / 281474976710656)) = (4738978608930827 / 281474976710656).
Proof. cbn [get_distance set_distance sim_distance]. first [reflexivity | lra]. Qed.
Lemma d_A41_1957g : get_distance (set_distance A41_c A41_e A41_lo A41_hi sim_init (2484975625987223 / 140737488355328)) = (2484975625987223 / 140737488355328).
Proof. cbn [get_distance set_distance sim_distance]. first [reflexivity | lra]. Qed.
Lemma d_A41_1965g : get_distance (set_distance A41_c A41_e A41_lo A41_hi sim_init (6209252246829459 / 281474976710656)) = (6209252246829459 / 281474976710656).
Proof. cbn [get_distance set_distance sim_distance]. first [reflexivity | lra]. Qed.
Lemma d_A41_1973g : get_distance (set_distance A41_c A41_e A41_lo A41_hi sim_init (1563824029086007 / 70368744177664)) = (1563824029086007 / 70368744177664).
Proof. cbn [get_distance set_distance sim_distance]. first [reflexivity | lra]. Qed.
Lemma d_A41_1981g : get_distance (set_distance A41_c A41_e A41_lo A41_hi sim_init (7181166669597611 / 562949953421312)) = (7181166669597611 / 562949953421312).
Proof. cbn [get_distance set_distance sim_distance]. first [reflexivity | lra]. Qed.
Lemma d_A41_1989g : get_distance (set_distance A41_c A41_e A41_lo A41_hi sim_init (3194920628263851 / 140737488355328)) = (3194920628263851 / 140737488355328).
Proof. cbn [get_distance set_distance sim_distance]. first [reflexivity | lra]. Qed.
Lemma d_A41_1997g : get_distance (set_distance A41_c A41_e A41_lo A41_hi sim_init (2299179338425331 / 140737488355328)) = (2299179338425331 / 140737488355328).
Proof. cbn [get_distance set_distance sim_distance]. first [reflexivity | lra]. Qed.
Check d_A41_1997g.
