From Coq Require Import Reals Lra.
From Interval Require Import Tactic.
From RV Require Import IR.Model IR.Proofs.
Open Scope R_scope.
Lemma r_A02_5 : rio_reads A02_c A02_e A02_lo A02_hi floor_volts ctol (Build_rio (Fin (8308476880671015 / 18014398509481984)) (Fin (21 / 4)) (Fin (3715469692580659 / 1125899906842624)) (Fin (6 / 1)) (Fin (12 / 1)) true true true ((Fin (0 / 1)) :: (Fin (0 / 1)) :: (Fin (0 / 1)) :: (Fin (0 / 1)) :: (Fin (27 / 4)) :: (Fin (45 / 1)) :: nil)) (145 / 1).
Proof. apply (A02_rio_fin _ (8308476880671015 / 18014398509481984)); [reflexivity | apply (A02_q_hi 8308476880671015 18014398509481984 145 1); [vm_compute; reflexivity | unfold fr, ctol, A02_hi, A02_c, A02_e; interval with (i_prec 80)]]. Qed.
Lemma r_A02_36 : rio_reads A02_c A02_e A02_lo A02_hi floor_volts ctol (Build_rio (Fin (1000000 / 1)) (Fin (5 / 1)) (Fin (3715469692580659 / 1125899906842624)) (Fin (5 / 1)) (Fin (12 / 1)) true true true ((Fin (0 / 1)) :: (Fin (0 / 1)) :: (Fin (0 / 1)) :: (Fin (0 / 1)) :: (Fin (27 / 4)) :: (Fin (45 / 1)) :: nil)) (45 / 2).
Proof. apply (A02_rio_fin _ (1000000 / 1)); [reflexivity | apply (A02_q_lo 1000000 1 45 2); [vm_compute; reflexivity | unfold fr, ctol, A02_lo, A02_c, A02_e; interval with (i_prec 80)]]. Qed.
Lemma r_A02_54 : rio_reads A02_c A02_e A02_lo A02_hi floor_volts ctol (Build_rio (Fin (1875 / 4096)) (Fin (5 / 1)) (Fin (3715469692580659 / 1125899906842624)) (Fin (6 / 1)) (Fin (12 / 1)) true true true ((Fin (0 / 1)) :: (Fin (0 / 1)) :: (Fin (0 / 1)) :: (Fin (0 / 1)) :: (Fin (27 / 4)) :: (Fin (85 / 1)) :: nil)) (145 / 1).
Proof. apply (A02_rio_fin _ (1875 / 4096)); [reflexivity | apply (A02_q_hi 1875 4096 145 1); [vm_compute; reflexivity | unfold fr, ctol, A02_hi, A02_c, A02_e; interval with (i_prec 80)]]. Qed.
Lemma r_A02_70 : rio_reads A02_c A02_e A02_lo A02_hi floor_volts ctol (Build_rio (Fin (15 / 256)) (Fin (1189 / 256)) (Fin (1381 / 512)) (Fin ((-12) / 1)) (Fin (6325 / 1024)) true true true ((Fin (701 / 512)) :: (Fin (485 / 512)) :: (Fin (1303 / 1024)) :: (Fin (49617 / 512)) :: (Fin (4807 / 1024)) :: (Fin (84063 / 1024)) :: nil)) (145 / 1).
Proof. apply (A02_rio_fin _ (15 / 256)); [reflexivity | apply (A02_q_hi 15 256 145 1); [vm_compute; reflexivity | unfold fr, ctol, A02_hi, A02_c, A02_e; interval with (i_prec 80)]]. Qed.
Lemma r_A02_86 : rio_reads A02_c A02_e A02_lo A02_hi floor_volts ctol (Build_rio (Fin (95 / 256)) (Fin (5 / 1)) (Fin (133 / 128)) (Fin (1089 / 1024)) (Fin (12 / 1)) false true true ((Fin (2923 / 1024)) :: (Fin (1019 / 512)) :: (Fin (371 / 256)) :: (Fin (92829 / 1024)) :: (Fin (6987 / 1024)) :: (Fin (67683 / 1024)) :: nil)) (145 / 1).
Proof. apply (A02_rio_fin _ (95 / 256)); [reflexivity | apply (A02_q_hi 95 256 145 1); [vm_compute; reflexivity | unfold fr, ctol, A02_hi, A02_c, A02_e; interval with (i_prec 80)]]. Qed.
Lemma r_A02_102 : rio_reads A02_c A02_e A02_lo A02_hi floor_volts ctol (Build_rio (Fin (175 / 256)) NInf (Fin (1757 / 512)) (Fin (10867 / 1024)) (Fin (13505 / 1024)) true false true ((Fin (1323 / 1024)) :: (Fin (447 / 1024)) :: (Fin (745 / 256)) :: (Fin (127941 / 1024)) :: (Fin (4447 / 1024)) :: (Fin ((-5731) / 1024)) :: nil)) (6639400967361205 / 70368744177664).
Proof. apply (A02_rio_fin _ (175 / 256)); [reflexivity | apply (A02_q_mid 175 256 6639400967361205 70368744177664); [vm_compute; reflexivity | unfold fr, close, ctol, A02_c, A02_e; interval with (i_prec 80)]]. Qed.
Lemma r_A02_118 : rio_reads A02_c A02_e A02_lo A02_hi floor_volts ctol (Build_rio (Fin (255 / 256)) (Fin (1203 / 256)) (Fin (341 / 128)) (Fin (9783 / 1024)) (Fin (2827 / 256)) true false true ((Fin (217 / 256)) :: (Fin (1555 / 1024)) :: (Fin (1307 / 512)) :: (Fin (1741 / 32)) :: (Fin (1167 / 256)) :: (Fin (47147 / 512)) :: nil)) (4401336460694981 / 70368744177664).
Proof. apply (A02_rio_fin _ (255 / 256)); [reflexivity | apply (A02_q_mid 255 256 4401336460694981 70368744177664); [vm_compute; reflexivity | unfold fr, close, ctol, A02_c, A02_e; interval with (i_prec 80)]]. Qed.
Lemma r_A02_134 : rio_reads A02_c A02_e A02_lo A02_hi floor_volts ctol (Build_rio (Fin (335 / 256)) (Fin (5361 / 1024)) (Fin (219 / 64)) (Fin (6097 / 1024)) (Fin (1235 / 128)) false true true ((Fin (2735 / 1024)) :: (Fin (285 / 256)) :: (Fin (1413 / 512)) :: (Fin (57905 / 512)) :: (Fin (1163 / 256)) :: (Fin (75771 / 1024)) :: nil)) (3267213517882051 / 70368744177664).
Proof. apply (A02_rio_fin _ (335 / 256)); [reflexivity | apply (A02_q_mid 335 256 3267213517882051 70368744177664); [vm_compute; reflexivity | unfold fr, close, ctol, A02_c, A02_e; interval with (i_prec 80)]]. Qed.
Lemma r_A02_150 : rio_reads A02_c A02_e A02_lo A02_hi floor_volts ctol (Build_rio (Fin (415 / 256)) (Fin (1187 / 256)) (Fin (1391 / 512)) (Fin (1689 / 256)) (Fin (12 / 1)) true true true ((Fin (1491 / 1024)) :: (Fin (573 / 1024)) :: (Fin (1991 / 1024)) :: (Fin (22639 / 512)) :: (Fin (7499 / 1024)) :: (Fin (66979 / 1024)) :: nil)) (2585936909462219 / 70368744177664).
Proof. apply (A02_rio_fin _ (415 / 256)); [reflexivity | apply (A02_q_mid 415 256 2585936909462219 70368744177664); [vm_compute; reflexivity | unfold fr, close, ctol, A02_c, A02_e; interval with (i_prec 80)]]. Qed.
Lemma r_A02_166 : rio_reads A02_c A02_e A02_lo A02_hi floor_volts ctol (Build_rio (Fin (495 / 256)) (Fin (2331 / 512)) (Fin (815 / 256)) (Fin (6323 / 1024)) (Fin (2187 / 512)) true true true ((Fin (143 / 512)) :: (Fin (369 / 512)) :: (Fin (2123 / 1024)) :: (Fin (16867 / 512)) :: (Fin (7461 / 1024)) :: (Fin (2171 / 32)) :: nil)) (8532524827737679 / 281474976710656).
Proof. apply (A02_rio_fin _ (495 / 256)); [reflexivity | apply (A02_q_mid 495 256 8532524827737679 281474976710656); [vm_compute; reflexivity | unfold fr, close, ctol, A02_c, A02_e; interval with (i_prec 80)]]. Qed.
Lemma r_A02_182 : rio_reads A02_c A02_e A02_lo A02_hi floor_volts ctol (Build_rio (Fin (575 / 256)) (Fin (2081 / 512)) (Fin (801 / 256)) (Fin (381 / 64)) (Fin (6043 / 512)) true true false ((Fin (1147 / 512)) :: (Fin (123 / 64)) :: (Fin (1243 / 512)) :: (Fin (27137 / 512)) :: (Fin (4905 / 1024)) :: (Fin (57615 / 1024)) :: nil)) (905605735732523 / 35184372088832).
Proof. apply (A02_rio_fin _ (575 / 256)); [reflexivity | apply (A02_q_mid 575 256 905605735732523 35184372088832); [vm_compute; reflexivity | unfold fr, close, ctol, A02_c, A02_e; interval with (i_prec 80)]]. Qed.
Lemma r_A02_198 : rio_reads A02_c A02_e A02_lo A02_hi floor_volts ctol (Build_rio (Fin (165 / 64)) NInf (Fin (2847 / 1024)) (Fin (373 / 64)) (Fin (2545 / 256)) false true true ((Fin (659 / 512)) :: (Fin (393 / 512)) :: (Fin (1465 / 512)) :: (Fin (197575 / 1024)) :: (Fin (201 / 32)) :: (Fin ((-7553) / 512)) :: nil)) (45 / 2).
Proof. apply (A02_rio_fin _ (165 / 64)); [reflexivity | apply (A02_q_lo 165 64 45 2); [vm_compute; reflexivity | unfold fr, ctol, A02_lo, A02_c, A02_e; interval with (i_prec 80)]]. Qed.
Lemma r_A02_214 : rio_reads A02_c A02_e A02_lo A02_hi floor_volts ctol (Build_rio (Fin (185 / 64)) (Fin (4333 / 1024)) (Fin (2763 / 1024)) (Fin ((-12) / 1)) (Fin (373 / 1024)) true true true ((Fin (39 / 256)) :: (Fin (65 / 64)) :: (Fin (153 / 1024)) :: (Fin (30317 / 256)) :: (Fin (3533 / 512)) :: (Fin (7703 / 1024)) :: nil)) (45 / 2).
Proof. apply (A02_rio_fin _ (185 / 64)); [reflexivity | apply (A02_q_lo 185 64 45 2); [vm_compute; reflexivity | unfold fr, ctol, A02_lo, A02_c, A02_e; interval with (i_prec 80)]]. Qed.
Lemma r_A02_230 : rio_reads A02_c A02_e A02_lo A02_hi floor_volts ctol (Build_rio (Fin (205 / 64)) (Fin (5 / 1)) (Fin (0 / 1)) (Fin (0 / 1)) (Fin (100000000000000001097906362944045541740492309677311846336810682903157585404911491537163328978494688899061249669721172515611590283743140088328307009198146046031271664502933027185697489699588559043338384466165001178426897626212945177628091195786707458122783970171784415105291802893207873272974885715430223118336 / 1)) false false true ((Fin (729 / 256)) :: (Fin (1465 / 1024)) :: (Fin (1951 / 1024)) :: (Fin (196649 / 1024)) :: (Fin (4213 / 512)) :: (Fin (32285 / 1024)) :: nil)) (45 / 2).
Proof. apply (A02_rio_fin _ (205 / 64)); [reflexivity | apply (A02_q_lo 205 64 45 2); [vm_compute; reflexivity | unfold fr, ctol, A02_lo, A02_c, A02_e; interval with (i_prec 80)]]. Qed.
Lemma r_A02_246 : rio_reads A02_c A02_e A02_lo A02_hi floor_volts ctol (Build_rio (Fin (225 / 64)) (Fin (5419 / 1024)) (Fin (3047 / 256)) (Fin (5883 / 1024)) (Fin (5103 / 512)) true false true ((Fin (899 / 1024)) :: (Fin (389 / 256)) :: (Fin (157 / 128)) :: (Fin (86055 / 512)) :: (Fin (3427 / 512)) :: (Fin (5985 / 64)) :: nil)) (45 / 2).
Proof. apply (A02_rio_fin _ (225 / 64)); [reflexivity | apply (A02_q_lo 225 64 45 2); [vm_compute; reflexivity | unfold fr, ctol, A02_lo, A02_c, A02_e; interval with (i_prec 80)]]. Qed.
Lemma r_A02_262 : rio_reads A02_c A02_e A02_lo A02_hi floor_volts ctol (Build_rio (Fin (245 / 64)) (Fin (4831 / 1024)) (Fin (3343 / 1024)) (Fin (1593 / 256)) (Fin (0 / 1)) false true true ((Fin (137 / 256)) :: (Fin (89 / 128)) :: (Fin (2415 / 1024)) :: (Fin (32749 / 512)) :: (Fin (4529 / 1024)) :: (Fin (10105 / 128)) :: nil)) (45 / 2).
Proof. apply (A02_rio_fin _ (245 / 64)); [reflexivity | apply (A02_q_lo 245 64 45 2); [vm_compute; reflexivity | unfold fr, ctol, A02_lo, A02_c, A02_e; interval with (i_prec 80)]]. Qed.
Lemma r_A02_278 : rio_reads A02_c A02_e A02_lo A02_hi floor_volts ctol (Build_rio (Fin (265 / 64)) (Fin (4901 / 1024)) (Fin (3715469692580659 / 1125899906842624)) (Fin (1211 / 128)) (Fin (1235 / 128)) true false true ((Fin (927 / 512)) :: (Fin (695 / 1024)) :: (Fin (1071 / 512)) :: (Fin (2397 / 256)) :: (Fin (4341 / 512)) :: (Fin (47349 / 1024)) :: nil)) (45 / 2).
Proof. apply (A02_rio_fin _ (265 / 64)); [reflexivity | apply (A02_q_lo 265 64 45 2); [vm_compute; reflexivity | unfold fr, ctol, A02_lo, A02_c, A02_e; interval with (i_prec 80)]]. Qed.
Lemma r_A02_294 : rio_reads A02_c A02_e A02_lo A02_hi floor_volts ctol (Build_rio (Fin (285 / 64)) (Fin (5 / 1)) (Fin (1809 / 512)) (Fin (993 / 128)) (Fin (197 / 16)) true false true ((Fin (2787 / 1024)) :: (Fin (1451 / 1024)) :: (Fin (313 / 1024)) :: (Fin (197759 / 1024)) :: (Fin (3551 / 512)) :: (Fin (98767 / 1024)) :: nil)) (45 / 2).
Proof. apply (A02_rio_fin _ (285 / 64)); [reflexivity | apply (A02_q_lo 285 64 45 2); [vm_compute; reflexivity | unfold fr, ctol, A02_lo, A02_c, A02_e; interval with (i_prec 80)]]. Qed.
Lemma r_A02_310 : rio_reads A02_c A02_e A02_lo A02_hi floor_volts ctol (Build_rio (Fin (305 / 64)) (Fin (5 / 1)) (Fin (3031 / 1024)) (Fin (6 / 1)) (Fin (5667 / 512)) true false true ((Fin (1395 / 1024)) :: (Fin (251 / 128)) :: (Fin (2599 / 1024)) :: (Fin (145633 / 1024)) :: (Fin (989 / 256)) :: (Fin (57923 / 1024)) :: nil)) (45 / 2).
Proof. apply (A02_rio_fin _ (305 / 64)); [reflexivity | apply (A02_q_lo 305 64 45 2); [vm_compute; reflexivity | unfold fr, ctol, A02_lo, A02_c, A02_e; interval with (i_prec 80)]]. Qed.
Lemma r_A02_326 : rio_reads A02_c A02_e A02_lo A02_hi floor_volts ctol (Build_rio (Fin (2669052229189479 / 2251799813685248)) (Fin (2321 / 512)) (Fin (3715469692580659 / 1125899906842624)) (Fin (2837 / 512)) (Fin (11613 / 1024)) true false true ((Fin (1429 / 1024)) :: (Fin (1283 / 1024)) :: (Fin (1835 / 1024)) :: (Fin (145585 / 1024)) :: (Fin (3247 / 512)) :: (Fin (6571 / 256)) :: nil)) (7280127672071693 / 140737488355328).
Proof. apply (A02_rio_fin _ (2669052229189479 / 2251799813685248)); [reflexivity | apply (A02_q_mid 2669052229189479 2251799813685248 7280127672071693 140737488355328); [vm_compute; reflexivity | unfold fr, close, ctol, A02_c, A02_e; interval with (i_prec 80)]]. Qed.
Lemma r_A02_342 : rio_reads A02_c A02_e A02_lo A02_hi floor_volts ctol (Build_rio (Fin (4660051424581513 / 1125899906842624)) (Fin (5 / 1)) (Fin (3715469692580659 / 1125899906842624)) (Fin (6555 / 1024)) (Fin (2353 / 512)) false true true ((Fin (1115 / 1024)) :: (Fin (1945 / 1024)) :: (Fin (419 / 256)) :: (Fin (164017 / 1024)) :: (Fin (3935 / 512)) :: (Fin (34017 / 1024)) :: nil)) (45 / 2).
Proof. apply (A02_rio_fin _ (4660051424581513 / 1125899906842624)); [reflexivity | apply (A02_q_lo 4660051424581513 1125899906842624 45 2); [vm_compute; reflexivity | unfold fr, ctol, A02_lo, A02_c, A02_e; interval with (i_prec 80)]]. Qed.
Lemma r_A02_358 : rio_reads A02_c A02_e A02_lo A02_hi floor_volts ctol (Build_rio (Fin (3093714427775073 / 1125899906842624)) (Fin (5405 / 1024)) (Fin (3021 / 1024)) PInf PInf true false true ((Fin (1701 / 1024)) :: (Fin (47 / 128)) :: (Fin (163 / 1024)) :: (Fin (19391 / 1024)) :: (Fin (4569 / 1024)) :: (Fin (45063 / 512)) :: nil)) (45 / 2).
Proof. apply (A02_rio_fin _ (3093714427775073 / 1125899906842624)); [reflexivity | apply (A02_q_lo 3093714427775073 1125899906842624 45 2); [vm_compute; reflexivity | unfold fr, ctol, A02_lo, A02_c, A02_e; interval with (i_prec 80)]]. Qed.
Lemma r_A02_374 : rio_reads A02_c A02_e A02_lo A02_hi floor_volts ctol (Build_rio (Fin (2724190296771889 / 1125899906842624)) (Fin (4359 / 1024)) (Fin (481 / 1024)) PInf (Fin (11289 / 1024)) true false true ((Fin (1361 / 512)) :: (Fin (455 / 512)) :: (Fin (317 / 128)) :: (Fin (92293 / 1024)) :: (Fin (1435 / 256)) :: (Fin (55139 / 1024)) :: nil)) (417471555440769 / 17592186044416).
Proof. apply (A02_rio_fin _ (2724190296771889 / 1125899906842624)); [reflexivity | apply (A02_q_mid 2724190296771889 1125899906842624 417471555440769 17592186044416); [vm_compute; reflexivity | unfold fr, close, ctol, A02_c, A02_e; interval with (i_prec 80)]]. Qed.
Lemma r_A02_392 : rio_reads A02_c A02_e A02_lo A02_hi floor_volts ctol (Build_rio (Fin (6677067418903421 / 281474976710656)) PInf (Fin (2921 / 1024)) (Fin (6577 / 1024)) (Fin (11579 / 1024)) false true false ((Fin (367 / 256)) :: (Fin (183 / 128)) :: (Fin (11 / 512)) :: (Fin (64219 / 1024)) :: (Fin (7827 / 1024)) :: (Fin (49161 / 1024)) :: nil)) (45 / 2).
Proof. apply (A02_rio_fin _ (6677067418903421 / 281474976710656)); [reflexivity | apply (A02_q_lo 6677067418903421 281474976710656 45 2); [vm_compute; reflexivity | unfold fr, ctol, A02_lo, A02_c, A02_e; interval with (i_prec 80)]]. Qed.
Lemma r_A02_410 : rio_reads A02_c A02_e A02_lo A02_hi floor_volts ctol (Build_rio (Fin (7250873652483849 / 1125899906842624)) (Fin (1357 / 256)) (Fin (705 / 256)) (Fin (6585 / 1024)) (Fin (12 / 1)) true true true ((Fin (101 / 256)) :: (Fin (45 / 1024)) :: (Fin (1953 / 1024)) :: (Fin (89313 / 1024)) :: (Fin (2187 / 256)) :: (Fin (10537 / 512)) :: nil)) (45 / 2).
Proof. apply (A02_rio_fin _ (7250873652483849 / 1125899906842624)); [reflexivity | apply (A02_q_lo 7250873652483849 1125899906842624 45 2); [vm_compute; reflexivity | unfold fr, ctol, A02_lo, A02_c, A02_e; interval with (i_prec 80)]]. Qed.
Lemma d_A02_4u : close ctol (8308476880671015 / 18014398509481984) (volts_A02 (200 / 1)).
Proof. apply (A02_q_volts_hi 200 1 8308476880671015 18014398509481984); [vm_compute; reflexivity | unfold fr, close, ctol, A02_lo, A02_hi, A02_c, A02_e; interval with (i_prec 80)]. Qed.
Lemma d_A02_12u : close ctol (8308476880671015 / 18014398509481984) (volts_A02 (145 / 1)).
Proof. apply (A02_q_volts_hi 145 1 8308476880671015 18014398509481984); [vm_compute; reflexivity | unfold fr, close, ctol, A02_lo, A02_hi, A02_c, A02_e; interval with (i_prec 80)]. Qed.
Lemma d_A02_20u : close ctol (357539307115111 / 140737488355328) (volts_A02 (0 / 1)).
Proof. apply (A02_q_volts_lo 0 1 357539307115111 140737488355328); [vm_compute; reflexivity | unfold fr, close, ctol, A02_lo, A02_hi, A02_c, A02_e; interval with (i_prec 80)]. Qed.
Lemma d_A02_28u : close ctol (357539307115111 / 140737488355328) (volts_A02 (2 / 1)).
Proof. apply (A02_q_volts_lo 2 1 357539307115111 140737488355328); [vm_compute; reflexivity | unfold fr, close, ctol, A02_lo, A02_hi, A02_c, A02_e; interval with (i_prec 80)]. Qed.
Lemma d_A02_36u : close ctol (8308476880671015 / 18014398509481984) (volts_A02 (200 / 1)).
Proof. apply (A02_q_volts_hi 200 1 8308476880671015 18014398509481984); [vm_compute; reflexivity | unfold fr, close, ctol, A02_lo, A02_hi, A02_c, A02_e; interval with (i_prec 80)]. Qed.
Lemma d_A02_44u : close ctol (8308476880671015 / 18014398509481984) (volts_A02 (145 / 1)).
Proof. apply (A02_q_volts_hi 145 1 8308476880671015 18014398509481984); [vm_compute; reflexivity | unfold fr, close, ctol, A02_lo, A02_hi, A02_c, A02_e; interval with (i_prec 80)]. Qed.
Lemma d_A02_52u : close ctol (8308476880671015 / 18014398509481984) (volts_A02 (2550866978991187 / 17592186044416)).
Proof. apply (A02_q_volts_hi 2550866978991187 17592186044416 8308476880671015 18014398509481984); [vm_compute; reflexivity | unfold fr, close, ctol, A02_lo, A02_hi, A02_c, A02_e; interval with (i_prec 80)]. Qed.
Lemma d_A02_61u : close ctol (357539307115111 / 140737488355328) (volts_A02 ((-325157656203077) / 35184372088832)).
Proof. apply (A02_q_volts_lo (-325157656203077) 35184372088832 357539307115111 140737488355328); [vm_compute; reflexivity | unfold fr, close, ctol, A02_lo, A02_hi, A02_c, A02_e; interval with (i_prec 80)]. Qed.
Lemma d_A02_74u : close ctol (8976832584016651 / 18014398509481984) (volts_A02 (4688400890467489 / 35184372088832)).
Proof. apply (A02_q_volts_mid 4688400890467489 35184372088832 8976832584016651 18014398509481984); [vm_compute; reflexivity | unfold fr, close, ctol, A02_lo, A02_hi, A02_c, A02_e; interval with (i_prec 80)]. Qed.
Lemma d_A02_87u : close ctol (8923173502996139 / 9007199254740992) (volts_A02 (8855300688341519 / 140737488355328)).
Proof. apply (A02_q_volts_mid 8855300688341519 140737488355328 8923173502996139 9007199254740992); [vm_compute; reflexivity | unfold fr, close, ctol, A02_lo, A02_hi, A02_c, A02_e; interval with (i_prec 80)]. Qed.
Lemma d_A02_100u : close ctol (4559035978104125 / 9007199254740992) (volts_A02 (131 / 1)).
Proof. apply (A02_q_volts_mid 131 1 4559035978104125 9007199254740992); [vm_compute; reflexivity | unfold fr, close, ctol, A02_lo, A02_hi, A02_c, A02_e; interval with (i_prec 80)]. Qed.
Lemma d_A02_112r : rio_reads A02_c A02_e A02_lo A02_hi floor_volts ctol (Build_rio (Fin (5092074076315337 / 9007199254740992)) (Fin (5 / 1)) (Fin (0 / 1)) (Fin (1081 / 128)) (Fin (12 / 1)) true false true ((Fin (261 / 128)) :: (Fin (593 / 1024)) :: (Fin (2971 / 1024)) :: (Fin (54561 / 512)) :: (Fin (3759 / 1024)) :: (Fin (40991 / 512)) :: nil)) (8169799662753435 / 70368744177664).
Proof. apply (A02_rio_fin _ (5092074076315337 / 9007199254740992)); [reflexivity | apply (A02_q_mid 5092074076315337 9007199254740992 8169799662753435 70368744177664); [vm_compute; reflexivity | unfold fr, close, ctol, A02_c, A02_e; interval with (i_prec 80)]]. Qed.
Lemma d_A02_125u : close ctol (8308476880671015 / 18014398509481984) (volts_A02 (5162785351907675 / 17592186044416)).
Proof. apply (A02_q_volts_hi 5162785351907675 17592186044416 8308476880671015 18014398509481984); [vm_compute; reflexivity | unfold fr, close, ctol, A02_lo, A02_hi, A02_c, A02_e; interval with (i_prec 80)]. Qed.
Lemma d_A02_138u : close ctol (7147390325839119 / 4503599627370496) (volts_A02 (2646589640640367 / 70368744177664)).
Proof. apply (A02_q_volts_mid 2646589640640367 70368744177664 7147390325839119 4503599627370496); [vm_compute; reflexivity | unfold fr, close, ctol, A02_lo, A02_hi, A02_c, A02_e; interval with (i_prec 80)]. Qed.
Lemma d_A02_151u : close ctol (4788048070401333 / 9007199254740992) (volts_A02 (8737905617830347 / 70368744177664)).
Proof. apply (A02_q_volts_mid 8737905617830347 70368744177664 4788048070401333 9007199254740992); [vm_compute; reflexivity | unfold fr, close, ctol, A02_lo, A02_hi, A02_c, A02_e; interval with (i_prec 80)]. Qed.
Lemma d_A02_164u : close ctol (5907217520181759 / 9007199254740992) (volts_A02 (3473443525787203 / 35184372088832)).
Proof. apply (A02_q_volts_mid 3473443525787203 35184372088832 5907217520181759 9007199254740992); [vm_compute; reflexivity | unfold fr, close, ctol, A02_lo, A02_hi, A02_c, A02_e; interval with (i_prec 80)]. Qed.
Lemma d_A02_176r : rio_reads A02_c A02_e A02_lo A02_hi floor_volts ctol (Build_rio (Fin (357539307115111 / 140737488355328)) (Fin (4513 / 1024)) (Fin (853 / 256)) (Fin (6 / 1)) (Fin (5107 / 512)) true true true ((Fin (2363 / 1024)) :: (Fin (587 / 1024)) :: (Fin (1271 / 1024)) :: (Fin (7883 / 1024)) :: (Fin (445 / 128)) :: (Fin (16327 / 512)) :: nil)) (45 / 2).
Proof. apply (A02_rio_fin _ (357539307115111 / 140737488355328)); [reflexivity | apply (A02_q_lo 357539307115111 140737488355328 45 2); [vm_compute; reflexivity | unfold fr, ctol, A02_lo, A02_c, A02_e; interval with (i_prec 80)]]. Qed.
Lemma d_A02_189u : close ctol (357539307115111 / 140737488355328) (volts_A02 ((-4507437465353697) / 1125899906842624)).
Proof. apply (A02_q_volts_lo (-4507437465353697) 1125899906842624 357539307115111 140737488355328); [vm_compute; reflexivity | unfold fr, close, ctol, A02_lo, A02_hi, A02_c, A02_e; interval with (i_prec 80)]. Qed.
Lemma d_A02_202u : close ctol (4797319739147181 / 9007199254740992) (volts_A02 (8719466056070089 / 70368744177664)).
Proof. apply (A02_q_volts_mid 8719466056070089 70368744177664 4797319739147181 9007199254740992); [vm_compute; reflexivity | unfold fr, close, ctol, A02_lo, A02_hi, A02_c, A02_e; interval with (i_prec 80)]. Qed.
Lemma d_A02_215u : close ctol (7010014742718291 / 9007199254740992) (volts_A02 (5762558675290613 / 70368744177664)).
Proof. apply (A02_q_volts_mid 5762558675290613 70368744177664 7010014742718291 9007199254740992); [vm_compute; reflexivity | unfold fr, close, ctol, A02_lo, A02_hi, A02_c, A02_e; interval with (i_prec 80)]. Qed.
Lemma d_A02_228u : close ctol (4619679162339805 / 4503599627370496) (volts_A02 (4262452737250719 / 70368744177664)).
Proof. apply (A02_q_volts_mid 4262452737250719 70368744177664 4619679162339805 4503599627370496); [vm_compute; reflexivity | unfold fr, close, ctol, A02_lo, A02_hi, A02_c, A02_e; interval with (i_prec 80)]. Qed.
Lemma d_A02_240r : rio_reads A02_c A02_e A02_lo A02_hi floor_volts ctol (Build_rio (Fin (731625947244609 / 562949953421312)) (Fin (2175 / 512)) (Fin (1565 / 512)) (Fin (381 / 64)) PInf true true false ((Fin (139 / 64)) :: (Fin (1337 / 1024)) :: (Fin (633 / 512)) :: (Fin (4993 / 512)) :: (Fin (2787 / 512)) :: (Fin (2365 / 64)) :: nil)) (3291832402975391 / 70368744177664).
Proof. apply (A02_rio_fin _ (731625947244609 / 562949953421312)); [reflexivity | apply (A02_q_mid 731625947244609 562949953421312 3291832402975391 70368744177664); [vm_compute; reflexivity | unfold fr, close, ctol, A02_c, A02_e; interval with (i_prec 80)]]. Qed.
Lemma d_A02_253u : close ctol (8944961399967637 / 18014398509481984) (volts_A02 (1176661413131113 / 8796093022208)).
Proof. apply (A02_q_volts_mid 1176661413131113 8796093022208 8944961399967637 18014398509481984); [vm_compute; reflexivity | unfold fr, close, ctol, A02_lo, A02_hi, A02_c, A02_e; interval with (i_prec 80)]. Qed.
Lemma d_A02_266u : close ctol (8308476880671015 / 18014398509481984) (volts_A02 (165 / 1)).
Proof. apply (A02_q_volts_hi 165 1 8308476880671015 18014398509481984); [vm_compute; reflexivity | unfold fr, close, ctol, A02_lo, A02_hi, A02_c, A02_e; interval with (i_prec 80)]. Qed.
Lemma d_A02_279u : close ctol (8534565211976113 / 18014398509481984) (volts_A02 (1238582990965757 / 8796093022208)).
Proof. apply (A02_q_volts_mid 1238582990965757 8796093022208 8534565211976113 18014398509481984); [vm_compute; reflexivity | unfold fr, close, ctol, A02_lo, A02_hi, A02_c, A02_e; interval with (i_prec 80)]. Qed.
Lemma d_A02_292u : close ctol (3052636506482061 / 2251799813685248) (volts_A02 (6287177424849927 / 140737488355328)).
Proof. apply (A02_q_volts_mid 6287177424849927 140737488355328 3052636506482061 2251799813685248); [vm_compute; reflexivity | unfold fr, close, ctol, A02_lo, A02_hi, A02_c, A02_e; interval with (i_prec 80)]. Qed.
Lemma d_A02_304r : rio_reads A02_c A02_e A02_lo A02_hi floor_volts ctol (Build_rio (Fin (5506844515100971 / 4503599627370496)) (Fin (5 / 1)) (Fin (825 / 256)) (Fin (1619 / 256)) (Fin (6219 / 512)) true true true ((Fin (133 / 256)) :: (Fin (757 / 512)) :: (Fin (13 / 8)) :: (Fin (55953 / 512)) :: (Fin (995 / 256)) :: (Fin (11171 / 128)) :: nil)) (7036874417766401 / 140737488355328).
Proof. apply (A02_rio_fin _ (5506844515100971 / 4503599627370496)); [reflexivity | apply (A02_q_mid 5506844515100971 4503599627370496 7036874417766401 140737488355328); [vm_compute; reflexivity | unfold fr, close, ctol, A02_c, A02_e; interval with (i_prec 80)]]. Qed.
Lemma d_A02_317u : close ctol (8308476880671015 / 18014398509481984) (volts_A02 (2334913803777945 / 8796093022208)).
Proof. apply (A02_q_volts_hi 2334913803777945 8796093022208 8308476880671015 18014398509481984); [vm_compute; reflexivity | unfold fr, close, ctol, A02_lo, A02_hi, A02_c, A02_e; interval with (i_prec 80)]. Qed.
Lemma d_A02_330u : close ctol (1856259756356329 / 2251799813685248) (volts_A02 (1352936512217653 / 17592186044416)).
Proof. apply (A02_q_volts_mid 1352936512217653 17592186044416 1856259756356329 2251799813685248); [vm_compute; reflexivity | unfold fr, close, ctol, A02_lo, A02_hi, A02_c, A02_e; interval with (i_prec 80)]. Qed.
Lemma d_A02_343u : close ctol (71720842489061 / 140737488355328) (volts_A02 (1143765933701875 / 8796093022208)).
Proof. apply (A02_q_volts_mid 1143765933701875 8796093022208 71720842489061 140737488355328); [vm_compute; reflexivity | unfold fr, close, ctol, A02_lo, A02_hi, A02_c, A02_e; interval with (i_prec 80)]. Qed.
Lemma d_A02_356u : close ctol (8308476880671015 / 18014398509481984) (volts_A02 (5252586402901421 / 35184372088832)).
Proof. apply (A02_q_volts_hi 5252586402901421 35184372088832 8308476880671015 18014398509481984); [vm_compute; reflexivity | unfold fr, close, ctol, A02_lo, A02_hi, A02_c, A02_e; interval with (i_prec 80)]. Qed.
Lemma d_A02_368r : rio_reads A02_c A02_e A02_lo A02_hi floor_volts ctol (Build_rio (Fin (1937617758879377 / 2251799813685248)) (Fin (5 / 1)) (Fin (1407 / 512)) (Fin (211 / 32)) (Fin (2477 / 512)) false true true ((Fin (5 / 2)) :: (Fin (95 / 1024)) :: (Fin (447 / 1024)) :: (Fin (7503 / 256)) :: (Fin (7663 / 1024)) :: (Fin ((-105) / 1024)) :: nil)) (2582047071092723 / 35184372088832).
Proof. apply (A02_rio_fin _ (1937617758879377 / 2251799813685248)); [reflexivity | apply (A02_q_mid 1937617758879377 2251799813685248 2582047071092723 35184372088832); [vm_compute; reflexivity | unfold fr, close, ctol, A02_c, A02_e; interval with (i_prec 80)]]. Qed.
Lemma d_A02_381u : close ctol (296010566078695 / 562949953421312) (volts_A02 (552654808029551 / 4398046511104)).
Proof. apply (A02_q_volts_mid 552654808029551 4398046511104 296010566078695 562949953421312); [vm_compute; reflexivity | unfold fr, close, ctol, A02_lo, A02_hi, A02_c, A02_e; interval with (i_prec 80)]. Qed.
Lemma d_A02_394u : close ctol (357539307115111 / 140737488355328) (volts_A02 (3119733867728325 / 18014398509481984)).
Proof. apply (A02_q_volts_lo 3119733867728325 18014398509481984 357539307115111 140737488355328); [vm_compute; reflexivity | unfold fr, close, ctol, A02_lo, A02_hi, A02_c, A02_e; interval with (i_prec 80)]. Qed.
Lemma d_A02_407u : close ctol (7481306317098847 / 9007199254740992) (volts_A02 (5367314853230835 / 70368744177664)).
Proof. apply (A02_q_volts_mid 5367314853230835 70368744177664 7481306317098847 9007199254740992); [vm_compute; reflexivity | unfold fr, close, ctol, A02_lo, A02_hi, A02_c, A02_e; interval with (i_prec 80)]. Qed.
Lemma d_A02_420u : close ctol (6239461031019835 / 9007199254740992) (volts_A02 (1635986947785193 / 17592186044416)).
Proof. apply (A02_q_volts_mid 1635986947785193 17592186044416 6239461031019835 9007199254740992); [vm_compute; reflexivity | unfold fr, close, ctol, A02_lo, A02_hi, A02_c, A02_e; interval with (i_prec 80)]. Qed.
Lemma d_A02_432r : rio_reads A02_c A02_e A02_lo A02_hi floor_volts ctol (Build_rio (Fin (8308476880671015 / 18014398509481984)) (Fin (12633 / 1024)) (Fin (2949 / 1024)) (Fin (6 / 1)) (Fin (10431 / 1024)) false false true ((Fin (799 / 512)) :: (Fin (1823 / 1024)) :: (Fin (1321 / 512)) :: (Fin (29495 / 512)) :: (Fin (5689 / 1024)) :: (Fin (837 / 32)) :: nil)) (145 / 1).
Proof. apply (A02_rio_fin _ (8308476880671015 / 18014398509481984)); [reflexivity | apply (A02_q_hi 8308476880671015 18014398509481984 145 1); [vm_compute; reflexivity | unfold fr, ctol, A02_hi, A02_c, A02_e; interval with (i_prec 80)]]. Qed.
Lemma d_A02_445u : close ctol (8308476880671015 / 18014398509481984) (volts_A02 (1907842558621637 / 8796093022208)).
Proof. apply (A02_q_volts_hi 1907842558621637 8796093022208 8308476880671015 18014398509481984); [vm_compute; reflexivity | unfold fr, close, ctol, A02_lo, A02_hi, A02_c, A02_e; interval with (i_prec 80)]. Qed.
Lemma d_A02_458u : close ctol (8786186317807117 / 9007199254740992) (volts_A02 (17590185605815 / 274877906944)).
Proof. apply (A02_q_volts_mid 17590185605815 274877906944 8786186317807117 9007199254740992); [vm_compute; reflexivity | unfold fr, close, ctol, A02_lo, A02_hi, A02_c, A02_e; interval with (i_prec 80)]. Qed.
Lemma d_A02_471u : close ctol (8308476880671015 / 18014398509481984) (volts_A02 (22041986973989 / 68719476736)).
Proof. apply (A02_q_volts_hi 22041986973989 68719476736 8308476880671015 18014398509481984); [vm_compute; reflexivity | unfold fr, close, ctol, A02_lo, A02_hi, A02_c, A02_e; interval with (i_prec 80)]. Qed.
Lemma d_A02_484u : close ctol (8308476880671015 / 18014398509481984) (volts_A02 (2040497486976761 / 8796093022208)).
Proof. apply (A02_q_volts_hi 2040497486976761 8796093022208 8308476880671015 18014398509481984); [vm_compute; reflexivity | unfold fr, close, ctol, A02_lo, A02_hi, A02_c, A02_e; interval with (i_prec 80)]. Qed.
Lemma d_A02_496r : rio_reads A02_c A02_e A02_lo A02_hi floor_volts ctol (Build_rio (Fin (6803203379958617 / 4503599627370496)) (Fin (5 / 1)) (Fin (3715469692580659 / 1125899906842624)) (Fin ((-12) / 1)) (Fin (13127 / 1024)) true true true ((Fin (2389 / 1024)) :: (Fin (157 / 512)) :: (Fin (173 / 256)) :: (Fin (53943 / 1024)) :: (Fin (8705 / 1024)) :: (Fin (60185 / 1024)) :: nil)) (698284810038327 / 17592186044416).
Proof. apply (A02_rio_fin _ (6803203379958617 / 4503599627370496)); [reflexivity | apply (A02_q_mid 6803203379958617 4503599627370496 698284810038327 17592186044416); [vm_compute; reflexivity | unfold fr, close, ctol, A02_c, A02_e; interval with (i_prec 80)]]. Qed.
Lemma d_A02_509u : close ctol (4202868579125609 / 4503599627370496) (volts_A02 (4726108127939725 / 70368744177664)).
Proof. apply (A02_q_volts_mid 4726108127939725 70368744177664 4202868579125609 4503599627370496); [vm_compute; reflexivity | unfold fr, close, ctol, A02_lo, A02_hi, A02_c, A02_e; interval with (i_prec 80)]. Qed.
Lemma d_A02_522u : close ctol (2923720534448481 / 2251799813685248) (volts_A02 (6590509064835029 / 140737488355328)).
Proof. apply (A02_q_volts_mid 6590509064835029 140737488355328 2923720534448481 2251799813685248); [vm_compute; reflexivity | unfold fr, close, ctol, A02_lo, A02_hi, A02_c, A02_e; interval with (i_prec 80)]. Qed.
Lemma d_A02_535u : close ctol (4550274116793507 / 9007199254740992) (volts_A02 (2309422679707467 / 17592186044416)).
Proof. apply (A02_q_volts_mid 2309422679707467 17592186044416 4550274116793507 9007199254740992); [vm_compute; reflexivity | unfold fr, close, ctol, A02_lo, A02_hi, A02_c, A02_e; interval with (i_prec 80)]. Qed.
Lemma d_A02_548u : close ctol (2553126805570065 / 2251799813685248) (volts_A02 (7641838827390671 / 140737488355328)).
Proof. apply (A02_q_volts_mid 7641838827390671 140737488355328 2553126805570065 2251799813685248); [vm_compute; reflexivity | unfold fr, close, ctol, A02_lo, A02_hi, A02_c, A02_e; interval with (i_prec 80)]. Qed.
Lemma d_A02_560r : rio_reads A02_c A02_e A02_lo A02_hi floor_volts ctol (Build_rio (Fin (3193244461077159 / 4503599627370496)) (Fin (321 / 64)) (Fin (3715469692580659 / 1125899906842624)) (Fin ((-1) / 1)) (Fin (8057 / 1024)) true true true ((Fin (445 / 1024)) :: (Fin (693 / 512)) :: (Fin (1695 / 1024)) :: (Fin (125977 / 1024)) :: (Fin (4131 / 512)) :: (Fin ((-3723) / 1024)) :: nil)) (6379610310684957 / 70368744177664).
Proof. apply (A02_rio_fin _ (3193244461077159 / 4503599627370496)); [reflexivity | apply (A02_q_mid 3193244461077159 4503599627370496 6379610310684957 70368744177664); [vm_compute; reflexivity | unfold fr, close, ctol, A02_c, A02_e; interval with (i_prec 80)]]. Qed.
Lemma d_A02_573u : close ctol (357539307115111 / 140737488355328) (volts_A02 ((-447939385014269) / 562949953421312)).
Proof. apply (A02_q_volts_lo (-447939385014269) 562949953421312 357539307115111 140737488355328); [vm_compute; reflexivity | unfold fr, close, ctol, A02_lo, A02_hi, A02_c, A02_e; interval with (i_prec 80)]. Qed.
Lemma d_A02_586u : close ctol (5035147356072019 / 2251799813685248) (volts_A02 (3640186315478883 / 140737488355328)).
Proof. apply (A02_q_volts_mid 3640186315478883 140737488355328 5035147356072019 2251799813685248); [vm_compute; reflexivity | unfold fr, close, ctol, A02_lo, A02_hi, A02_c, A02_e; interval with (i_prec 80)]. Qed.
Lemma d_A02_599u : close ctol (357539307115111 / 140737488355328) (volts_A02 (4390166793035091 / 2305843009213693952)).
Proof. apply (A02_q_volts_lo 4390166793035091 2305843009213693952 357539307115111 140737488355328); [vm_compute; reflexivity | unfold fr, close, ctol, A02_lo, A02_hi, A02_c, A02_e; interval with (i_prec 80)]. Qed.
Lemma d_A02_612u : close ctol (4958732054856497 / 4503599627370496) (volts_A02 (7890434754362081 / 140737488355328)).
Proof. apply (A02_q_volts_mid 7890434754362081 140737488355328 4958732054856497 4503599627370496); [vm_compute; reflexivity | unfold fr, close, ctol, A02_lo, A02_hi, A02_c, A02_e; interval with (i_prec 80)]. Qed.
Lemma d_A02_624r : rio_reads A02_c A02_e A02_lo A02_hi floor_volts ctol (Build_rio (Fin (522894179613687 / 562949953421312)) (Fin (1169 / 256)) (Fin (3715469692580659 / 1125899906842624)) (Fin (5645 / 1024)) (Fin (6509 / 512)) true true true ((Fin (2541 / 1024)) :: (Fin (2021 / 1024)) :: (Fin (1031 / 512)) :: (Fin (13603 / 256)) :: (Fin (283 / 32)) :: (Fin ((-5935) / 512)) :: nil)) (2375218344453359 / 35184372088832).
Proof. apply (A02_rio_fin _ (522894179613687 / 562949953421312)); [reflexivity | apply (A02_q_mid 522894179613687 562949953421312 2375218344453359 35184372088832); [vm_compute; reflexivity | unfold fr, close, ctol, A02_c, A02_e; interval with (i_prec 80)]]. Qed.
Lemma d_A02_637u : close ctol (593178914977125 / 281474976710656) (volts_A02 (1941770357518157 / 70368744177664)).
Proof. apply (A02_q_volts_mid 1941770357518157 70368744177664 593178914977125 281474976710656); [vm_compute; reflexivity | unfold fr, close, ctol, A02_lo, A02_hi, A02_c, A02_e; interval with (i_prec 80)]. Qed.
Lemma d_A02_650u : close ctol (2491853094365785 / 2251799813685248) (volts_A02 (122613544009767 / 2199023255552)).
Proof. apply (A02_q_volts_mid 122613544009767 2199023255552 2491853094365785 2251799813685248); [vm_compute; reflexivity | unfold fr, close, ctol, A02_lo, A02_hi, A02_c, A02_e; interval with (i_prec 80)]. Qed.
Lemma d_A02_663u : close ctol (357539307115111 / 140737488355328) (volts_A02 (780481830962773 / 35184372088832)).
Proof. apply (A02_q_volts_lo 780481830962773 35184372088832 357539307115111 140737488355328); [vm_compute; reflexivity | unfold fr, close, ctol, A02_lo, A02_hi, A02_c, A02_e; interval with (i_prec 80)]. Qed.
Lemma r_A21_450 : rio_reads A21_c A21_e A21_lo A21_hi floor_volts ctol (Build_rio (Fin (7378697629483821 / 73786976294838206464)) (Fin (5 / 1)) (Fin (3715469692580659 / 1125899906842624)) (Fin (6 / 1)) (Fin (3715469692580659 / 281474976710656)) true true true ((Fin (0 / 1)) :: (Fin (0 / 1)) :: (Fin (0 / 1)) :: (Fin (0 / 1)) :: (Fin (27 / 4)) :: (Fin (45 / 1)) :: nil)) (80 / 1).
Proof. apply (A21_rio_fin _ (7378697629483821 / 73786976294838206464)); [reflexivity | apply (A21_q_hi 7378697629483821 73786976294838206464 80 1); [vm_compute; reflexivity | unfold fr, ctol, A21_hi, A21_c, A21_e; interval with (i_prec 80)]]. Qed.
Lemma r_A21_468 : rio_reads A21_c A21_e A21_lo A21_hi floor_volts ctol (Build_rio (Fin (7296471327628967 / 18014398509481984)) (Fin (5 / 1)) (Fin (3715469692580659 / 1125899906842624)) PInf (Fin (12 / 1)) true true true ((Fin (0 / 1)) :: (Fin (0 / 1)) :: (Fin (0 / 1)) :: (Fin (0 / 1)) :: (Fin (27 / 4)) :: (Fin (45 / 1)) :: nil)) (80 / 1).
Proof. apply (A21_rio_fin _ (7296471327628967 / 18014398509481984)); [reflexivity | apply (A21_q_hi 7296471327628967 18014398509481984 80 1); [vm_compute; reflexivity | unfold fr, ctol, A21_hi, A21_c, A21_e; interval with (i_prec 80)]]. Qed.
Lemma r_A21_484 : rio_reads A21_c A21_e A21_lo A21_hi floor_volts ctol (Build_rio (Fin (4525 / 2048)) (Fin (5 / 1)) (Fin (3715469692580659 / 1125899906842624)) (Fin (6 / 1)) (Fin (12 / 1)) true true true ((Fin (0 / 1)) :: (Fin (0 / 1)) :: (Fin (0 / 1)) :: (Fin (0 / 1)) :: (Fin (27 / 4)) :: (Fin ((-40) / 1)) :: nil)) (2816768702498727 / 281474976710656).
Proof. apply (A21_rio_fin _ (4525 / 2048)); [reflexivity | apply (A21_q_mid 4525 2048 2816768702498727 281474976710656); [vm_compute; reflexivity | unfold fr, close, ctol, A21_c, A21_e; interval with (i_prec 80)]]. Qed.
Lemma r_A21_500 : rio_reads A21_c A21_e A21_lo A21_hi floor_volts ctol (Build_rio (Fin (25 / 128)) (Fin (1097 / 256)) (Fin (915 / 128)) (Fin (1589 / 1024)) (Fin (9967 / 1024)) true true true ((Fin (69 / 128)) :: (Fin (175 / 512)) :: (Fin (1513 / 512)) :: (Fin (42479 / 256)) :: (Fin (137 / 32)) :: (Fin (18403 / 512)) :: nil)) (80 / 1).
Proof. apply (A21_rio_fin _ (25 / 128)); [reflexivity | apply (A21_q_hi 25 128 80 1); [vm_compute; reflexivity | unfold fr, ctol, A21_hi, A21_c, A21_e; interval with (i_prec 80)]]. Qed.
Lemma r_A21_516 : rio_reads A21_c A21_e A21_lo A21_hi floor_volts ctol (Build_rio (Fin (65 / 128)) (Fin (4893 / 512)) (Fin (1775 / 512)) (Fin (10509 / 1024)) (Fin (12851 / 1024)) true true false ((Fin (563 / 512)) :: (Fin (265 / 256)) :: (Fin (293 / 1024)) :: (Fin (11899 / 1024)) :: (Fin (4247 / 1024)) :: (Fin (37157 / 1024)) :: nil)) (4271660262496993 / 70368744177664).
Proof. apply (A21_rio_fin _ (65 / 128)); [reflexivity | apply (A21_q_mid 65 128 4271660262496993 70368744177664); [vm_compute; reflexivity | unfold fr, close, ctol, A21_c, A21_e; interval with (i_prec 80)]]. Qed.
Lemma r_A21_532 : rio_reads A21_c A21_e A21_lo A21_hi floor_volts ctol (Build_rio (Fin (105 / 128)) (Fin (5902958103587057 / 590295810358705651712)) (Fin (3147 / 1024)) NInf (Fin (1657 / 128)) false true true ((Fin (67 / 1024)) :: (Fin (7 / 64)) :: (Fin (319 / 512)) :: (Fin (55849 / 512)) :: (Fin (8993 / 1024)) :: (Fin (13213 / 512)) :: nil)) (4745482705042033 / 140737488355328).
Proof. apply (A21_rio_fin _ (105 / 128)); [reflexivity | apply (A21_q_mid 105 128 4745482705042033 140737488355328); [vm_compute; reflexivity | unfold fr, close, ctol, A21_c, A21_e; interval with (i_prec 80)]]. Qed.
Lemma r_A21_548 : rio_reads A21_c A21_e A21_lo A21_hi floor_volts ctol (Build_rio (Fin (145 / 128)) (Fin ((-12) / 1)) (Fin (6819 / 512)) (Fin (5561 / 1024)) (Fin (6399 / 512)) true false true ((Fin (2381 / 1024)) :: (Fin (425 / 512)) :: (Fin (593 / 512)) :: (Fin (62063 / 512)) :: (Fin (3219 / 512)) :: (Fin (12135 / 256)) :: nil)) (1597317718623059 / 70368744177664).
Proof. apply (A21_rio_fin _ (145 / 128)); [reflexivity | apply (A21_q_mid 145 128 1597317718623059 70368744177664); [vm_compute; reflexivity | unfold fr, close, ctol, A21_c, A21_e; interval with (i_prec 80)]]. Qed.
Lemma r_A21_564 : rio_reads A21_c A21_e A21_lo A21_hi floor_volts ctol (Build_rio (Fin (185 / 128)) (Fin (5 / 1)) (Fin (3049 / 1024)) (Fin (5163 / 1024)) (Fin (100000000000000001097906362944045541740492309677311846336810682903157585404911491537163328978494688899061249669721172515611590283743140088328307009198146046031271664502933027185697489699588559043338384466165001178426897626212945177628091195786707458122783970171784415105291802893207873272974885715430223118336 / 1)) false true true ((Fin (459 / 1024)) :: (Fin (1993 / 1024)) :: (Fin (1717 / 1024)) :: (Fin (32387 / 1024)) :: (Fin (3175 / 1024)) :: (Fin (69181 / 1024)) :: nil)) (2369768577683841 / 140737488355328).
Proof. apply (A21_rio_fin _ (185 / 128)); [reflexivity | apply (A21_q_mid 185 128 2369768577683841 140737488355328); [vm_compute; reflexivity | unfold fr, close, ctol, A21_c, A21_e; interval with (i_prec 80)]]. Qed.
Lemma r_A21_580 : rio_reads A21_c A21_e A21_lo A21_hi floor_volts ctol (Build_rio (Fin (225 / 128)) (Fin (2533 / 512)) (Fin (3715469692580659 / 1125899906842624)) (Fin (6 / 1)) (Fin (12 / 1)) false true true ((Fin (15 / 256)) :: (Fin (445 / 1024)) :: (Fin (1569 / 1024)) :: (Fin (1259 / 32)) :: (Fin (7825 / 1024)) :: (Fin ((-865) / 64)) :: nil)) (1864157954619261 / 140737488355328).
Proof. apply (A21_rio_fin _ (225 / 128)); [reflexivity | apply (A21_q_mid 225 128 1864157954619261 140737488355328); [vm_compute; reflexivity | unfold fr, close, ctol, A21_c, A21_e; interval with (i_prec 80)]]. Qed.
Lemma r_A21_596 : rio_reads A21_c A21_e A21_lo A21_hi floor_volts ctol (Build_rio (Fin (265 / 128)) (Fin (4369 / 1024)) (Fin (1493 / 512)) (Fin (6913 / 512)) (Fin (1 / 1)) true false true ((Fin (275 / 512)) :: (Fin (1003 / 512)) :: (Fin (259 / 256)) :: (Fin (32837 / 1024)) :: (Fin (2417 / 512)) :: (Fin (17865 / 1024)) :: nil)) (1525313219368037 / 140737488355328).
Proof. apply (A21_rio_fin _ (265 / 128)); [reflexivity | apply (A21_q_mid 265 128 1525313219368037 140737488355328); [vm_compute; reflexivity | unfold fr, close, ctol, A21_c, A21_e; interval with (i_prec 80)]]. Qed.
Lemma r_A21_612 : rio_reads A21_c A21_e A21_lo A21_hi floor_volts ctol (Build_rio (Fin (305 / 128)) (Fin (1045 / 256)) (Fin (3313 / 1024)) (Fin ((-12) / 1)) (Fin (12983 / 1024)) true true false ((Fin (2557 / 1024)) :: (Fin (1615 / 1024)) :: (Fin (307 / 256)) :: (Fin (6373 / 1024)) :: (Fin (8513 / 1024)) :: (Fin (4079 / 64)) :: nil)) (10 / 1).
Proof. apply (A21_rio_fin _ (305 / 128)); [reflexivity | apply (A21_q_lo 305 128 10 1); [vm_compute; reflexivity | unfold fr, ctol, A21_lo, A21_c, A21_e; interval with (i_prec 80)]]. Qed.
Lemma r_A21_628 : rio_reads A21_c A21_e A21_lo A21_hi floor_volts ctol (Build_rio (Fin (345 / 128)) (Fin (0 / 1)) (Fin (283 / 256)) (Fin (3043 / 512)) (Fin (2931 / 256)) false true true ((Fin (215 / 256)) :: (Fin (993 / 1024)) :: (Fin (3 / 256)) :: (Fin (183469 / 1024)) :: (Fin (6615 / 1024)) :: (Fin (11923 / 512)) :: nil)) (10 / 1).
Proof. apply (A21_rio_fin _ (345 / 128)); [reflexivity | apply (A21_q_lo 345 128 10 1); [vm_compute; reflexivity | unfold fr, ctol, A21_lo, A21_c, A21_e; interval with (i_prec 80)]]. Qed.
Lemma r_A21_644 : rio_reads A21_c A21_e A21_lo A21_hi floor_volts ctol (Build_rio (Fin (385 / 128)) (Fin (4901 / 1024)) (Fin (3715469692580659 / 1125899906842624)) (Fin (1353 / 256)) (Fin (6953 / 512)) true true false ((Fin (631 / 256)) :: (Fin (459 / 256)) :: (Fin (281 / 1024)) :: (Fin (116631 / 1024)) :: (Fin (1581 / 512)) :: (Fin (13091 / 1024)) :: nil)) (10 / 1).
Proof. apply (A21_rio_fin _ (385 / 128)); [reflexivity | apply (A21_q_lo 385 128 10 1); [vm_compute; reflexivity | unfold fr, ctol, A21_lo, A21_c, A21_e; interval with (i_prec 80)]]. Qed.
Lemma r_A21_660 : rio_reads A21_c A21_e A21_lo A21_hi floor_volts ctol (Build_rio (Fin (425 / 128)) (Fin (100000000000000001097906362944045541740492309677311846336810682903157585404911491537163328978494688899061249669721172515611590283743140088328307009198146046031271664502933027185697489699588559043338384466165001178426897626212945177628091195786707458122783970171784415105291802893207873272974885715430223118336 / 1)) (Fin (2709 / 1024)) (Fin (4961 / 1024)) (Fin (11975 / 1024)) false false true ((Fin (2579 / 1024)) :: (Fin (5 / 128)) :: (Fin (2285 / 1024)) :: (Fin (171411 / 1024)) :: (Fin (2091 / 256)) :: (Fin (79065 / 1024)) :: nil)) (10 / 1).
Proof. apply (A21_rio_fin _ (425 / 128)); [reflexivity | apply (A21_q_lo 425 128 10 1); [vm_compute; reflexivity | unfold fr, ctol, A21_lo, A21_c, A21_e; interval with (i_prec 80)]]. Qed.
Lemma r_A21_676 : rio_reads A21_c A21_e A21_lo A21_hi floor_volts ctol (Build_rio (Fin (465 / 128)) (Fin (981 / 1024)) (Fin (1491 / 512)) (Fin (5431 / 1024)) (Fin (6133 / 512)) false true false ((Fin (2077 / 1024)) :: (Fin (1487 / 1024)) :: (Fin (1519 / 512)) :: (Fin (29427 / 512)) :: (Fin (9119 / 1024)) :: (Fin (14859 / 256)) :: nil)) (10 / 1).
Proof. apply (A21_rio_fin _ (465 / 128)); [reflexivity | apply (A21_q_lo 465 128 10 1); [vm_compute; reflexivity | unfold fr, ctol, A21_lo, A21_c, A21_e; interval with (i_prec 80)]]. Qed.
Lemma r_A21_692 : rio_reads A21_c A21_e A21_lo A21_hi floor_volts ctol (Build_rio (Fin (505 / 128)) (Fin (4451 / 1024)) (Fin (2997 / 1024)) (Fin (5913 / 1024)) (Fin (5805 / 512)) true false false ((Fin (2953 / 1024)) :: (Fin (487 / 1024)) :: (Fin (629 / 512)) :: (Fin (93495 / 1024)) :: (Fin (4841 / 1024)) :: (Fin (18909 / 256)) :: nil)) (10 / 1).
Proof. apply (A21_rio_fin _ (505 / 128)); [reflexivity | apply (A21_q_lo 505 128 10 1); [vm_compute; reflexivity | unfold fr, ctol, A21_lo, A21_c, A21_e; interval with (i_prec 80)]]. Qed.
Lemma r_A21_708 : rio_reads A21_c A21_e A21_lo A21_hi floor_volts ctol (Build_rio (Fin (545 / 128)) (Fin (5 / 1)) (Fin (1649 / 512)) (Fin (1319 / 256)) (Fin (2879 / 256)) true true true ((Fin (1355 / 1024)) :: (Fin (193 / 1024)) :: (Fin (2557 / 1024)) :: (Fin (10217 / 128)) :: (Fin (7991 / 1024)) :: (Fin (1137 / 256)) :: nil)) (10 / 1).
Proof. apply (A21_rio_fin _ (545 / 128)); [reflexivity | apply (A21_q_lo 545 128 10 1); [vm_compute; reflexivity | unfold fr, ctol, A21_lo, A21_c, A21_e; interval with (i_prec 80)]]. Qed.
Lemma r_A21_724 : rio_reads A21_c A21_e A21_lo A21_hi floor_volts ctol (Build_rio (Fin (585 / 128)) (Fin (0 / 1)) (Fin (1555 / 128)) (Fin (6 / 1)) (Fin (5835 / 512)) true true false ((Fin (133 / 128)) :: (Fin (271 / 256)) :: (Fin (1745 / 1024)) :: (Fin (2445 / 256)) :: (Fin (4111 / 1024)) :: (Fin (21989 / 1024)) :: nil)) (10 / 1).
Proof. apply (A21_rio_fin _ (585 / 128)); [reflexivity | apply (A21_q_lo 585 128 10 1); [vm_compute; reflexivity | unfold fr, ctol, A21_lo, A21_c, A21_e; interval with (i_prec 80)]]. Qed.
Lemma r_A21_740 : rio_reads A21_c A21_e A21_lo A21_hi floor_volts ctol (Build_rio (Fin (625 / 128)) (Fin (5 / 1)) (Fin (1 / 1)) (Fin (6277 / 1024)) (Fin (0 / 1)) true false true ((Fin (195 / 512)) :: (Fin (1343 / 1024)) :: (Fin (387 / 512)) :: (Fin (17879 / 512)) :: (Fin (2263 / 512)) :: (Fin (93101 / 1024)) :: nil)) (10 / 1).
Proof. apply (A21_rio_fin _ (625 / 128)); [reflexivity | apply (A21_q_lo 625 128 10 1); [vm_compute; reflexivity | unfold fr, ctol, A21_lo, A21_c, A21_e; interval with (i_prec 80)]]. Qed.
Lemma r_A21_756 : rio_reads A21_c A21_e A21_lo A21_hi floor_volts ctol (Build_rio (Fin (1680692260015367 / 562949953421312)) (Fin (4949 / 512)) (Fin (865 / 256)) (Fin (5357 / 1024)) (Fin (2517 / 256)) true true true ((Fin (1781 / 1024)) :: (Fin (367 / 512)) :: (Fin (2867 / 1024)) :: (Fin (130289 / 1024)) :: (Fin (3027 / 512)) :: (Fin (15109 / 256)) :: nil)) (10 / 1).
Proof. apply (A21_rio_fin _ (1680692260015367 / 562949953421312)); [reflexivity | apply (A21_q_lo 1680692260015367 562949953421312 10 1); [vm_compute; reflexivity | unfold fr, ctol, A21_lo, A21_c, A21_e; interval with (i_prec 80)]]. Qed.
Lemma r_A21_772 : rio_reads A21_c A21_e A21_lo A21_hi floor_volts ctol (Build_rio (Fin (902450313140801 / 281474976710656)) (Fin (0 / 1)) (Fin (1647 / 512)) (Fin (3597 / 512)) (Fin (13215 / 1024)) true true false ((Fin (1035 / 1024)) :: (Fin (139 / 256)) :: (Fin (1271 / 512)) :: (Fin (53583 / 512)) :: (Fin (5345 / 1024)) :: (Fin ((-8019) / 1024)) :: nil)) (10 / 1).
Proof. apply (A21_rio_fin _ (902450313140801 / 281474976710656)); [reflexivity | apply (A21_q_lo 902450313140801 281474976710656 10 1); [vm_compute; reflexivity | unfold fr, ctol, A21_lo, A21_c, A21_e; interval with (i_prec 80)]]. Qed.
Lemma r_A21_788 : rio_reads A21_c A21_e A21_lo A21_hi floor_volts ctol (Build_rio (Fin (4967796803385651 / 1125899906842624)) (Fin (2807 / 512)) (Fin (0 / 1)) NInf (Fin (100000000000000001097906362944045541740492309677311846336810682903157585404911491537163328978494688899061249669721172515611590283743140088328307009198146046031271664502933027185697489699588559043338384466165001178426897626212945177628091195786707458122783970171784415105291802893207873272974885715430223118336 / 1)) true true true ((Fin (175 / 128)) :: (Fin (77 / 64)) :: (Fin (1225 / 1024)) :: (Fin (204773 / 1024)) :: (Fin (6663 / 1024)) :: (Fin (90975 / 1024)) :: nil)) (10 / 1).
Proof. apply (A21_rio_fin _ (4967796803385651 / 1125899906842624)); [reflexivity | apply (A21_q_lo 4967796803385651 1125899906842624 10 1); [vm_compute; reflexivity | unfold fr, ctol, A21_lo, A21_c, A21_e; interval with (i_prec 80)]]. Qed.
Lemma r_A21_804 : rio_reads A21_c A21_e A21_lo A21_hi floor_volts ctol (Build_rio (Fin (2500786183337871 / 2251799813685248)) (Fin (4891 / 1024)) (Fin (749 / 256)) (Fin (6 / 1)) (Fin (12 / 1)) true true true ((Fin (35 / 1024)) :: (Fin (841 / 1024)) :: (Fin (251 / 1024)) :: (Fin (89335 / 512)) :: (Fin (9071 / 1024)) :: (Fin (65255 / 1024)) :: nil)) (6546492780787493 / 281474976710656).
Proof. apply (A21_rio_fin _ (2500786183337871 / 2251799813685248)); [reflexivity | apply (A21_q_mid 2500786183337871 2251799813685248 6546492780787493 281474976710656); [vm_compute; reflexivity | unfold fr, close, ctol, A21_c, A21_e; interval with (i_prec 80)]]. Qed.
Lemma r_A21_825 : rio_reads A21_c A21_e A21_lo A21_hi floor_volts ctol (Build_rio (Fin (6237942246457531 / 2251799813685248)) (Fin (5 / 1)) (Fin (3715469692580659 / 1125899906842624)) (Fin (6 / 1)) (Fin (12 / 1)) true true true ((Fin (0 / 1)) :: (Fin (0 / 1)) :: (Fin (0 / 1)) :: (Fin (0 / 1)) :: (Fin (27 / 4)) :: (Fin (45 / 1)) :: nil)) (10 / 1).
Proof. apply (A21_rio_fin _ (6237942246457531 / 2251799813685248)); [reflexivity | apply (A21_q_lo 6237942246457531 2251799813685248 10 1); [vm_compute; reflexivity | unfold fr, ctol, A21_lo, A21_c, A21_e; interval with (i_prec 80)]]. Qed.
Lemma r_A21_845 : rio_reads A21_c A21_e A21_lo A21_hi floor_volts ctol (Build_rio (Fin (6276597760244021 / 281474976710656)) (Fin (7425 / 1024)) (Fin (1189 / 256)) (Fin (4955 / 1024)) (Fin (5531 / 512)) true false false ((Fin (247 / 1024)) :: (Fin (921 / 1024)) :: (Fin (167 / 128)) :: (Fin (2133 / 64)) :: (Fin (5079 / 1024)) :: (Fin (24995 / 1024)) :: nil)) (10 / 1).
Proof. apply (A21_rio_fin _ (6276597760244021 / 281474976710656)); [reflexivity | apply (A21_q_lo 6276597760244021 281474976710656 10 1); [vm_compute; reflexivity | unfold fr, ctol, A21_lo, A21_c, A21_e; interval with (i_prec 80)]]. Qed.
Lemma d_A21_674r : rio_reads A21_c A21_e A21_lo A21_hi floor_volts ctol (Build_rio (Fin (2031904784704105 / 2251799813685248)) (Fin (2758454771764429 / 562949953421312)) (Fin (3715469692580659 / 1125899906842624)) (Fin (6 / 1)) (Fin (12 / 1)) true true true ((Fin (0 / 1)) :: (Fin (0 / 1)) :: (Fin (0 / 1)) :: (Fin (0 / 1)) :: (Fin (27 / 4)) :: (Fin (45 / 1)) :: nil)) (30 / 1).
Proof. apply (A21_rio_fin _ (2031904784704105 / 2251799813685248)); [reflexivity | apply (A21_q_mid 2031904784704105 2251799813685248 30 1); [vm_compute; reflexivity | unfold fr, close, ctol, A21_c, A21_e; interval with (i_prec 80)]]. Qed.
Lemma d_A21_682r : rio_reads A21_c A21_e A21_lo A21_hi floor_volts ctol (Build_rio (Fin (7167331307107829 / 9007199254740992)) (Fin ((-1) / 1)) (Fin (3715469692580659 / 1125899906842624)) (Fin (6 / 1)) (Fin (12 / 1)) true true true ((Fin (0 / 1)) :: (Fin (0 / 1)) :: (Fin (0 / 1)) :: (Fin (0 / 1)) :: (Fin (27 / 4)) :: (Fin (45 / 1)) :: nil)) (4925812092436481 / 140737488355328).
Proof. apply (A21_rio_fin _ (7167331307107829 / 9007199254740992)); [reflexivity | apply (A21_q_mid 7167331307107829 9007199254740992 4925812092436481 140737488355328); [vm_compute; reflexivity | unfold fr, close, ctol, A21_c, A21_e; interval with (i_prec 80)]]. Qed.
Lemma d_A21_690r : rio_reads A21_c A21_e A21_lo A21_hi floor_volts ctol (Build_rio (Fin (2489100355631953 / 1125899906842624)) (Fin (5 / 1)) (Fin (3715469692580659 / 1125899906842624)) (Fin (6 / 1)) (Fin (7093169413108531 / 1125899906842624)) true true true ((Fin (0 / 1)) :: (Fin (0 / 1)) :: (Fin (0 / 1)) :: (Fin (0 / 1)) :: (Fin (27 / 4)) :: (Fin (45 / 1)) :: nil)) (10 / 1).
Proof. apply (A21_rio_fin _ (2489100355631953 / 1125899906842624)); [reflexivity | apply (A21_q_lo 2489100355631953 1125899906842624 10 1); [vm_compute; reflexivity | unfold fr, ctol, A21_lo, A21_c, A21_e; interval with (i_prec 80)]]. Qed.
Lemma d_A21_698r : rio_reads A21_c A21_e A21_lo A21_hi floor_volts ctol (Build_rio (Fin (2031904784704105 / 2251799813685248)) (Fin (5 / 1)) (Fin (3715469692580659 / 1125899906842624)) (Fin (6 / 1)) PInf true true true ((Fin (0 / 1)) :: (Fin (0 / 1)) :: (Fin (0 / 1)) :: (Fin (0 / 1)) :: (Fin (27 / 4)) :: (Fin (45 / 1)) :: nil)) (30 / 1).
Proof. apply (A21_rio_fin _ (2031904784704105 / 2251799813685248)); [reflexivity | apply (A21_q_mid 2031904784704105 2251799813685248 30 1); [vm_compute; reflexivity | unfold fr, close, ctol, A21_c, A21_e; interval with (i_prec 80)]]. Qed.
Lemma d_A21_706r : rio_reads A21_c A21_e A21_lo A21_hi floor_volts ctol (Build_rio (Fin (7303775102731699 / 18014398509481984)) (Fin (5 / 1)) (Fin (3715469692580659 / 1125899906842624)) (Fin (11 / 2)) (Fin (12 / 1)) true true true ((Fin (0 / 1)) :: (Fin (0 / 1)) :: (Fin (0 / 1)) :: (Fin (0 / 1)) :: (Fin (27 / 4)) :: (Fin (45 / 1)) :: nil)) (80 / 1).
Proof. apply (A21_rio_fin _ (7303775102731699 / 18014398509481984)); [reflexivity | apply (A21_q_hi 7303775102731699 18014398509481984 80 1); [vm_compute; reflexivity | unfold fr, ctol, A21_hi, A21_c, A21_e; interval with (i_prec 80)]]. Qed.
Lemma d_A21_714r : rio_reads A21_c A21_e A21_lo A21_hi floor_volts ctol (Build_rio (Fin (7303775102731699 / 18014398509481984)) (Fin (5 / 1)) (Fin (3715469692580659 / 1125899906842624)) (Fin (6 / 1)) (Fin (12 / 1)) true true false ((Fin (0 / 1)) :: (Fin (0 / 1)) :: (Fin (0 / 1)) :: (Fin (0 / 1)) :: (Fin (27 / 4)) :: (Fin (45 / 1)) :: nil)) (80 / 1).
Proof. apply (A21_rio_fin _ (7303775102731699 / 18014398509481984)); [reflexivity | apply (A21_q_hi 7303775102731699 18014398509481984 80 1); [vm_compute; reflexivity | unfold fr, ctol, A21_hi, A21_c, A21_e; interval with (i_prec 80)]]. Qed.
Lemma d_A21_722r : rio_reads A21_c A21_e A21_lo A21_hi floor_volts ctol (Build_rio (Fin (1151463100580199 / 562949953421312)) (Fin (5 / 1)) (Fin (3715469692580659 / 1125899906842624)) (Fin (6 / 1)) (Fin (12 / 1)) true true true ((Fin (0 / 1)) :: (Fin (0 / 1)) :: (Fin (0 / 1)) :: (Fin (0 / 1)) :: (Fin (25 / 4)) :: (Fin (45 / 1)) :: nil)) (11 / 1).
Proof. apply (A21_rio_fin _ (1151463100580199 / 562949953421312)); [reflexivity | apply (A21_q_mid 1151463100580199 562949953421312 11 1); [vm_compute; reflexivity | unfold fr, close, ctol, A21_c, A21_e; interval with (i_prec 80)]]. Qed.
Lemma d_A21_734u : close ctol (4862423078625681 / 9007199254740992) (volts_A21 (1981548267479935 / 35184372088832)).
Proof. apply (A21_q_volts_mid 1981548267479935 35184372088832 4862423078625681 9007199254740992); [vm_compute; reflexivity | unfold fr, close, ctol, A21_lo, A21_hi, A21_c, A21_e; interval with (i_prec 80)]. Qed.
Lemma d_A21_747u : close ctol (2353150664099069 / 2251799813685248) (volts_A21 (3526776897814947 / 140737488355328)).
Proof. apply (A21_q_volts_mid 3526776897814947 140737488355328 2353150664099069 2251799813685248); [vm_compute; reflexivity | unfold fr, close, ctol, A21_lo, A21_hi, A21_c, A21_e; interval with (i_prec 80)]. Qed.
Lemma d_A21_760u : close ctol (7978849966501599 / 18014398509481984) (volts_A21 (2525632097262825 / 35184372088832)).
Proof. apply (A21_q_volts_mid 2525632097262825 35184372088832 7978849966501599 18014398509481984); [vm_compute; reflexivity | unfold fr, close, ctol, A21_lo, A21_hi, A21_c, A21_e; interval with (i_prec 80)]. Qed.
Lemma d_A21_772r : rio_reads A21_c A21_e A21_lo A21_hi floor_volts ctol (Build_rio (Fin (7303775102731699 / 18014398509481984)) (Fin (11191 / 1024)) (Fin (0 / 1)) (Fin (5821 / 1024)) (Fin (12 / 1)) true false true ((Fin (357 / 256)) :: (Fin (1201 / 1024)) :: (Fin (747 / 512)) :: (Fin (609 / 4)) :: (Fin (1711 / 512)) :: (Fin (49915 / 1024)) :: nil)) (80 / 1).
Proof. apply (A21_rio_fin _ (7303775102731699 / 18014398509481984)); [reflexivity | apply (A21_q_hi 7303775102731699 18014398509481984 80 1); [vm_compute; reflexivity | unfold fr, ctol, A21_hi, A21_c, A21_e; interval with (i_prec 80)]]. Qed.
Lemma d_A21_785u : close ctol (4290900492078587 / 9007199254740992) (volts_A21 (4619678197807663 / 70368744177664)).
Proof. apply (A21_q_volts_mid 4619678197807663 70368744177664 4290900492078587 9007199254740992); [vm_compute; reflexivity | unfold fr, close, ctol, A21_lo, A21_hi, A21_c, A21_e; interval with (i_prec 80)]. Qed.
Lemma d_A21_798u : close ctol (7303775102731699 / 18014398509481984) (volts_A21 (6527312601412363 / 35184372088832)).
Proof. apply (A21_q_volts_hi 6527312601412363 35184372088832 7303775102731699 18014398509481984); [vm_compute; reflexivity | unfold fr, close, ctol, A21_lo, A21_hi, A21_c, A21_e; interval with (i_prec 80)]. Qed.
Lemma d_A21_811u : close ctol (1903839443111805 / 4503599627370496) (volts_A21 (5348433104329171 / 70368744177664)).
Proof. apply (A21_q_volts_mid 5348433104329171 70368744177664 1903839443111805 4503599627370496); [vm_compute; reflexivity | unfold fr, close, ctol, A21_lo, A21_hi, A21_c, A21_e; interval with (i_prec 80)]. Qed.
Lemma d_A21_824u : close ctol (8466480930385959 / 18014398509481984) (volts_A21 (587117608075159 / 8796093022208)).
Proof. apply (A21_q_volts_mid 587117608075159 8796093022208 8466480930385959 18014398509481984); [vm_compute; reflexivity | unfold fr, close, ctol, A21_lo, A21_hi, A21_c, A21_e; interval with (i_prec 80)]. Qed.
Lemma d_A21_836r : rio_reads A21_c A21_e A21_lo A21_hi floor_volts ctol (Build_rio (Fin (2489100355631953 / 1125899906842624)) (Fin (2177 / 512)) (Fin (2977 / 1024)) (Fin (1567 / 256)) (Fin (12503 / 1024)) true true true ((Fin (2357 / 1024)) :: (Fin (17 / 128)) :: (Fin (577 / 512)) :: (Fin (13509 / 256)) :: (Fin (6993 / 1024)) :: (Fin (2245 / 64)) :: nil)) (10 / 1).
Proof. apply (A21_rio_fin _ (2489100355631953 / 1125899906842624)); [reflexivity | apply (A21_q_lo 2489100355631953 1125899906842624 10 1); [vm_compute; reflexivity | unfold fr, ctol, A21_lo, A21_c, A21_e; interval with (i_prec 80)]]. Qed.
Lemma d_A21_849u : close ctol (4569558583738437 / 9007199254740992) (volts_A21 (8553429519455665 / 140737488355328)).
Proof. apply (A21_q_volts_mid 8553429519455665 140737488355328 4569558583738437 9007199254740992); [vm_compute; reflexivity | unfold fr, close, ctol, A21_lo, A21_hi, A21_c, A21_e; interval with (i_prec 80)]. Qed.
Lemma d_A21_862u : close ctol (7392511245986443 / 4503599627370496) (volts_A21 (506855730014181 / 35184372088832)).
Proof. apply (A21_q_volts_mid 506855730014181 35184372088832 7392511245986443 4503599627370496); [vm_compute; reflexivity | unfold fr, close, ctol, A21_lo, A21_hi, A21_c, A21_e; interval with (i_prec 80)]. Qed.
Lemma d_A21_875u : close ctol (2489100355631953 / 1125899906842624) (volts_A21 ((-2387792246662981) / 1125899906842624)).
Proof. apply (A21_q_volts_lo (-2387792246662981) 1125899906842624 2489100355631953 1125899906842624); [vm_compute; reflexivity | unfold fr, close, ctol, A21_lo, A21_hi, A21_c, A21_e; interval with (i_prec 80)]. Qed.
Lemma d_A21_888u : close ctol (2547324602042423 / 2251799813685248) (volts_A21 (3200082848465039 / 140737488355328)).
Proof. apply (A21_q_volts_mid 3200082848465039 140737488355328 2547324602042423 2251799813685248); [vm_compute; reflexivity | unfold fr, close, ctol, A21_lo, A21_hi, A21_c, A21_e; interval with (i_prec 80)]. Qed.
Lemma d_A21_900r : rio_reads A21_c A21_e A21_lo A21_hi floor_volts ctol (Build_rio (Fin (6528892311847439 / 9007199254740992)) (Fin (5 / 1)) (Fin (1 / 1)) (Fin (2739 / 256)) (Fin (5833 / 512)) true true true ((Fin (1 / 512)) :: (Fin (369 / 1024)) :: (Fin (683 / 256)) :: (Fin (181783 / 1024)) :: (Fin (1155 / 256)) :: (Fin (70725 / 1024)) :: nil)) (1380679530396737 / 35184372088832).
Proof. apply (A21_rio_fin _ (6528892311847439 / 9007199254740992)); [reflexivity | apply (A21_q_mid 6528892311847439 9007199254740992 1380679530396737 35184372088832); [vm_compute; reflexivity | unfold fr, close, ctol, A21_c, A21_e; interval with (i_prec 80)]]. Qed.
Lemma d_A21_913u : close ctol (2489100355631953 / 1125899906842624) (volts_A21 (6128023599541429 / 9007199254740992)).
Proof. apply (A21_q_volts_lo 6128023599541429 9007199254740992 2489100355631953 1125899906842624); [vm_compute; reflexivity | unfold fr, close, ctol, A21_lo, A21_hi, A21_c, A21_e; interval with (i_prec 80)]. Qed.
Lemma d_A21_926u : close ctol (4055982043674671 / 9007199254740992) (volts_A21 (1237457804574133 / 17592186044416)).
Proof. apply (A21_q_volts_mid 1237457804574133 17592186044416 4055982043674671 9007199254740992); [vm_compute; reflexivity | unfold fr, close, ctol, A21_lo, A21_hi, A21_c, A21_e; interval with (i_prec 80)]. Qed.
Lemma d_A21_939u : close ctol (2489100355631953 / 1125899906842624) (volts_A21 (5245201744901659 / 4611686018427387904)).
Proof. apply (A21_q_volts_lo 5245201744901659 4611686018427387904 2489100355631953 1125899906842624); [vm_compute; reflexivity | unfold fr, close, ctol, A21_lo, A21_hi, A21_c, A21_e; interval with (i_prec 80)]. Qed.
Lemma d_A21_952u : close ctol (6237432911300137 / 9007199254740992) (volts_A21 (730094212957527 / 17592186044416)).
Proof. apply (A21_q_volts_mid 730094212957527 17592186044416 6237432911300137 9007199254740992); [vm_compute; reflexivity | unfold fr, close, ctol, A21_lo, A21_hi, A21_c, A21_e; interval with (i_prec 80)]. Qed.
Lemma d_A21_964r : rio_reads A21_c A21_e A21_lo A21_hi floor_volts ctol (Build_rio (Fin (2245681610659155 / 4503599627370496)) (Fin (295 / 64)) NInf (Fin (1411 / 256)) (Fin (4367 / 512)) true true false ((Fin (327 / 256)) :: (Fin (103 / 256)) :: (Fin (1425 / 1024)) :: (Fin (70943 / 1024)) :: (Fin (4541 / 512)) :: (Fin (73471 / 1024)) :: nil)) (8736358847026025 / 140737488355328).
Proof. apply (A21_rio_fin _ (2245681610659155 / 4503599627370496)); [reflexivity | apply (A21_q_mid 2245681610659155 4503599627370496 8736358847026025 140737488355328); [vm_compute; reflexivity | unfold fr, close, ctol, A21_c, A21_e; interval with (i_prec 80)]]. Qed.
Lemma d_A21_977u : close ctol (80733288632503 / 140737488355328) (volts_A21 (7357375501539357 / 140737488355328)).
Proof. apply (A21_q_volts_mid 7357375501539357 140737488355328 80733288632503 140737488355328); [vm_compute; reflexivity | unfold fr, close, ctol, A21_lo, A21_hi, A21_c, A21_e; interval with (i_prec 80)]. Qed.
Lemma d_A21_990u : close ctol (675098374046465 / 1125899906842624) (volts_A21 (6968732096897909 / 140737488355328)).
Proof. apply (A21_q_volts_mid 6968732096897909 140737488355328 675098374046465 1125899906842624); [vm_compute; reflexivity | unfold fr, close, ctol, A21_lo, A21_hi, A21_c, A21_e; interval with (i_prec 80)]. Qed.
Lemma d_A21_1003u : close ctol (3143604190993801 / 4503599627370496) (volts_A21 (2892056581724815 / 70368744177664)).
Proof. apply (A21_q_volts_mid 2892056581724815 70368744177664 3143604190993801 4503599627370496); [vm_compute; reflexivity | unfold fr, close, ctol, A21_lo, A21_hi, A21_c, A21_e; interval with (i_prec 80)]. Qed.
Lemma d_A21_1016u : close ctol (7413293585188633 / 18014398509481984) (volts_A21 (5527708838711509 / 70368744177664)).
Proof. apply (A21_q_volts_mid 5527708838711509 70368744177664 7413293585188633 18014398509481984); [vm_compute; reflexivity | unfold fr, close, ctol, A21_lo, A21_hi, A21_c, A21_e; interval with (i_prec 80)]. Qed.
Lemma d_A21_1028r : rio_reads A21_c A21_e A21_lo A21_hi floor_volts ctol (Build_rio (Fin (4482892889259921 / 9007199254740992)) (Fin (559 / 128)) (Fin (1657 / 512)) (Fin (6079 / 1024)) (Fin (0 / 1)) true false true ((Fin (3061 / 1024)) :: (Fin (863 / 1024)) :: (Fin (1771 / 1024)) :: (Fin (127419 / 1024)) :: (Fin (39 / 8)) :: (Fin (14923 / 1024)) :: nil)) (1094575119042667 / 17592186044416).
Proof. apply (A21_rio_fin _ (4482892889259921 / 9007199254740992)); [reflexivity | apply (A21_q_mid 4482892889259921 9007199254740992 1094575119042667 17592186044416); [vm_compute; reflexivity | unfold fr, close, ctol, A21_c, A21_e; interval with (i_prec 80)]]. Qed.
Lemma d_A21_1041u : close ctol (7311267292814725 / 9007199254740992) (volts_A21 (2403594005990779 / 70368744177664)).
Proof. apply (A21_q_volts_mid 2403594005990779 70368744177664 7311267292814725 9007199254740992); [vm_compute; reflexivity | unfold fr, close, ctol, A21_lo, A21_hi, A21_c, A21_e; interval with (i_prec 80)]. Qed.
Lemma d_A21_1054u : close ctol (5386794441118367 / 9007199254740992) (volts_A21 (6990931337308661 / 140737488355328)).
Proof. apply (A21_q_volts_mid 6990931337308661 140737488355328 5386794441118367 9007199254740992); [vm_compute; reflexivity | unfold fr, close, ctol, A21_lo, A21_hi, A21_c, A21_e; interval with (i_prec 80)]. Qed.
Lemma d_A21_1067u : close ctol (6589443732033195 / 4503599627370496) (volts_A21 (4668794513237467 / 281474976710656)).
Proof. apply (A21_q_volts_mid 4668794513237467 281474976710656 6589443732033195 4503599627370496); [vm_compute; reflexivity | unfold fr, close, ctol, A21_lo, A21_hi, A21_c, A21_e; interval with (i_prec 80)]. Qed.
Lemma d_A21_1080u : close ctol (2489100355631953 / 1125899906842624) (volts_A21 ((-3285772612974485) / 1125899906842624)).
Proof. apply (A21_q_volts_lo (-3285772612974485) 1125899906842624 2489100355631953 1125899906842624); [vm_compute; reflexivity | unfold fr, close, ctol, A21_lo, A21_hi, A21_c, A21_e; interval with (i_prec 80)]. Qed.
Lemma d_A21_1092r : rio_reads A21_c A21_e A21_lo A21_hi floor_volts ctol (Build_rio (Fin (8199088008737583 / 18014398509481984)) (Fin (161 / 32)) (Fin (3715469692580659 / 1125899906842624)) (Fin (2981 / 512)) (Fin ((-12) / 1)) false true true ((Fin (279 / 512)) :: (Fin (423 / 512)) :: (Fin (101 / 512)) :: (Fin (101007 / 1024)) :: (Fin (4707 / 1024)) :: (Fin (16571 / 256)) :: nil)) (4885424747973769 / 70368744177664).
Proof. apply (A21_rio_fin _ (8199088008737583 / 18014398509481984)); [reflexivity | apply (A21_q_mid 8199088008737583 18014398509481984 4885424747973769 70368744177664); [vm_compute; reflexivity | unfold fr, close, ctol, A21_c, A21_e; interval with (i_prec 80)]]. Qed.
Lemma d_A21_1105u : close ctol (4955796502974537 / 4503599627370496) (volts_A21 (413794049856595 / 17592186044416)).
Proof. apply (A21_q_volts_mid 413794049856595 17592186044416 4955796502974537 4503599627370496); [vm_compute; reflexivity | unfold fr, close, ctol, A21_lo, A21_hi, A21_c, A21_e; interval with (i_prec 80)]. Qed.
Lemma d_A21_1118u : close ctol (7303775102731699 / 18014398509481984) (volts_A21 (6165127141938329 / 70368744177664)).
Proof. apply (A21_q_volts_hi 6165127141938329 70368744177664 7303775102731699 18014398509481984); [vm_compute; reflexivity | unfold fr, close, ctol, A21_lo, A21_hi, A21_c, A21_e; interval with (i_prec 80)]. Qed.
Lemma d_A21_1131u : close ctol (7303775102731699 / 18014398509481984) (volts_A21 (2955303013384987 / 1099511627776)).
Proof. apply (A21_q_volts_hi 2955303013384987 1099511627776 7303775102731699 18014398509481984); [vm_compute; reflexivity | unfold fr, close, ctol, A21_lo, A21_hi, A21_c, A21_e; interval with (i_prec 80)]. Qed.
Lemma d_A21_1144u : close ctol (2489100355631953 / 1125899906842624) (volts_A21 ((-1000512026664335) / 281474976710656)).
Proof. apply (A21_q_volts_lo (-1000512026664335) 281474976710656 2489100355631953 1125899906842624); [vm_compute; reflexivity | unfold fr, close, ctol, A21_lo, A21_hi, A21_c, A21_e; interval with (i_prec 80)]. Qed.
Lemma d_A21_1156r : rio_reads A21_c A21_e A21_lo A21_hi floor_volts ctol (Build_rio (Fin (7438060393138797 / 9007199254740992)) (Fin (5 / 1)) (Fin (1403 / 512)) (Fin (6 / 1)) (Fin (0 / 1)) true true false ((Fin (1205 / 1024)) :: (Fin (971 / 1024)) :: (Fin (1655 / 1024)) :: (Fin (58349 / 512)) :: (Fin (2385 / 512)) :: (Fin (22671 / 256)) :: nil)) (2353458382616447 / 70368744177664).
Proof. apply (A21_rio_fin _ (7438060393138797 / 9007199254740992)); [reflexivity | apply (A21_q_mid 7438060393138797 9007199254740992 2353458382616447 70368744177664); [vm_compute; reflexivity | unfold fr, close, ctol, A21_c, A21_e; interval with (i_prec 80)]]. Qed.
Lemma d_A21_1169u : close ctol (1981526312434469 / 4503599627370496) (volts_A21 (2546252900621349 / 35184372088832)).
Proof. apply (A21_q_volts_mid 2546252900621349 35184372088832 1981526312434469 4503599627370496); [vm_compute; reflexivity | unfold fr, close, ctol, A21_lo, A21_hi, A21_c, A21_e; interval with (i_prec 80)]. Qed.
Lemma d_A21_1182u : close ctol (8714597445498509 / 9007199254740992) (volts_A21 (7752341212513539 / 281474976710656)).
Proof. apply (A21_q_volts_mid 7752341212513539 281474976710656 8714597445498509 9007199254740992); [vm_compute; reflexivity | unfold fr, close, ctol, A21_lo, A21_hi, A21_c, A21_e; interval with (i_prec 80)]. Qed.
Lemma d_A21_1195u : close ctol (2809319997846271 / 2251799813685248) (volts_A21 (2838150866814949 / 140737488355328)).
Proof. apply (A21_q_volts_mid 2838150866814949 140737488355328 2809319997846271 2251799813685248); [vm_compute; reflexivity | unfold fr, close, ctol, A21_lo, A21_hi, A21_c, A21_e; interval with (i_prec 80)]. Qed.
Lemma d_A21_1208u : close ctol (15459539532499 / 35184372088832) (volts_A21 (2550521253493433 / 35184372088832)).
Proof. apply (A21_q_volts_mid 2550521253493433 35184372088832 15459539532499 35184372088832); [vm_compute; reflexivity | unfold fr, close, ctol, A21_lo, A21_hi, A21_c, A21_e; interval with (i_prec 80)]. Qed.
Lemma d_A21_1220r : rio_reads A21_c A21_e A21_lo A21_hi floor_volts ctol (Build_rio (Fin (6057258843081819 / 9007199254740992)) (Fin (8841 / 1024)) (Fin (1703 / 512)) (Fin (3181 / 512)) (Fin (13037 / 1024)) true true true ((Fin (2857 / 1024)) :: (Fin (125 / 1024)) :: (Fin (2637 / 1024)) :: (Fin (36873 / 1024)) :: (Fin (4469 / 1024)) :: (Fin (53931 / 1024)) :: nil)) (3027231102501263 / 70368744177664).
Proof. apply (A21_rio_fin _ (6057258843081819 / 9007199254740992)); [reflexivity | apply (A21_q_mid 6057258843081819 9007199254740992 3027231102501263 70368744177664); [vm_compute; reflexivity | unfold fr, close, ctol, A21_c, A21_e; interval with (i_prec 80)]]. Qed.
Lemma d_A21_1233u : close ctol (7185034756247593 / 4503599627370496) (volts_A21 (4198861343185947 / 281474976710656)).
Proof. apply (A21_q_volts_mid 4198861343185947 281474976710656 7185034756247593 4503599627370496); [vm_compute; reflexivity | unfold fr, close, ctol, A21_lo, A21_hi, A21_c, A21_e; interval with (i_prec 80)]. Qed.
Lemma d_A21_1246u : close ctol (8086249942509295 / 9007199254740992) (volts_A21 (2124310990180273 / 70368744177664)).
Proof. apply (A21_q_volts_mid 2124310990180273 70368744177664 8086249942509295 9007199254740992); [vm_compute; reflexivity | unfold fr, close, ctol, A21_lo, A21_hi, A21_c, A21_e; interval with (i_prec 80)]. Qed.
Lemma d_A21_1259u : close ctol (4943826393003445 / 9007199254740992) (volts_A21 (3883243445384153 / 70368744177664)).
Proof. apply (A21_q_volts_mid 3883243445384153 70368744177664 4943826393003445 9007199254740992); [vm_compute; reflexivity | unfold fr, close, ctol, A21_lo, A21_hi, A21_c, A21_e; interval with (i_prec 80)]. Qed.
Lemma d_A21_1272u : close ctol (7303775102731699 / 18014398509481984) (volts_A21 (2031463087189129 / 8796093022208)).
Proof. apply (A21_q_volts_hi 2031463087189129 8796093022208 7303775102731699 18014398509481984); [vm_compute; reflexivity | unfold fr, close, ctol, A21_lo, A21_hi, A21_c, A21_e; interval with (i_prec 80)]. Qed.
Lemma d_A21_1284r : rio_reads A21_c A21_e A21_lo A21_hi floor_volts ctol (Build_rio (Fin (7303775102731699 / 18014398509481984)) (Fin (5391 / 1024)) (Fin (0 / 1)) (Fin (4461 / 512)) PInf true true true ((Fin (407 / 256)) :: (Fin (3 / 32)) :: (Fin (503 / 256)) :: (Fin (91847 / 512)) :: (Fin (6751 / 1024)) :: (Fin (5187 / 128)) :: nil)) (80 / 1).
Proof. apply (A21_rio_fin _ (7303775102731699 / 18014398509481984)); [reflexivity | apply (A21_q_hi 7303775102731699 18014398509481984 80 1); [vm_compute; reflexivity | unfold fr, ctol, A21_hi, A21_c, A21_e; interval with (i_prec 80)]]. Qed.
Lemma d_A21_1297u : close ctol (6595633785636895 / 9007199254740992) (volts_A21 (5454282152152183 / 140737488355328)).
Proof. apply (A21_q_volts_mid 5454282152152183 140737488355328 6595633785636895 9007199254740992); [vm_compute; reflexivity | unfold fr, close, ctol, A21_lo, A21_hi, A21_c, A21_e; interval with (i_prec 80)]. Qed.
Lemma d_A21_1310u : close ctol (4256389765661921 / 4503599627370496) (volts_A21 (3989133695597941 / 140737488355328)).
Proof. apply (A21_q_volts_mid 3989133695597941 140737488355328 4256389765661921 4503599627370496); [vm_compute; reflexivity | unfold fr, close, ctol, A21_lo, A21_hi, A21_c, A21_e; interval with (i_prec 80)]. Qed.
Lemma d_A21_1323u : close ctol (1211461150688687 / 2251799813685248) (volts_A21 (124366425146769 / 2199023255552)).
Proof. apply (A21_q_volts_mid 124366425146769 2199023255552 1211461150688687 2251799813685248); [vm_compute; reflexivity | unfold fr, close, ctol, A21_lo, A21_hi, A21_c, A21_e; interval with (i_prec 80)]. Qed.
Lemma r_A41_851 : rio_reads A41_c A41_e A41_lo A41_hi floor_volts ctol (Build_rio (Fin (1 / 2)) (Fin (0 / 1)) (Fin (0 / 1)) (Fin (0 / 1)) (Fin (12 / 1)) false false false ((Fin (0 / 1)) :: (Fin (0 / 1)) :: (Fin (0 / 1)) :: (Fin (0 / 1)) :: (Fin (27 / 4)) :: (Fin (45 / 1)) :: nil)) (7140632518197089 / 281474976710656).
Proof. apply (A41_rio_fin _ (1 / 2)); [reflexivity | apply (A41_q_mid 1 2 7140632518197089 281474976710656); [vm_compute; reflexivity | unfold fr, close, ctol, A41_c, A41_e; interval with (i_prec 80)]]. Qed.
Lemma r_A41_882 : rio_reads A41_c A41_e A41_lo A41_hi floor_volts ctol (Build_rio (Fin (10000000000000000159028911097599180468360808563945281389781327557747838772170381060813469985856815104 / 1)) (Fin (5 / 1)) (Fin (3715469692580659 / 1125899906842624)) (Fin (6 / 1)) (Fin (0 / 1)) true true true ((Fin (0 / 1)) :: (Fin (0 / 1)) :: (Fin (0 / 1)) :: (Fin (0 / 1)) :: (Fin (27 / 4)) :: (Fin (45 / 1)) :: nil)) (9 / 2).
Proof. apply (A41_rio_fin _ (10000000000000000159028911097599180468360808563945281389781327557747838772170381060813469985856815104 / 1)); [reflexivity | apply (A41_q_lo 10000000000000000159028911097599180468360808563945281389781327557747838772170381060813469985856815104 1 9 2); [vm_compute; reflexivity | unfold fr, ctol, A41_lo, A41_c, A41_e; interval with (i_prec 80)]]. Qed.
Lemma r_A41_900 : rio_reads A41_c A41_e A41_lo A41_hi floor_volts ctol (Build_rio (Fin (6553512730798565 / 2251799813685248)) (Fin (5 / 1)) (Fin (3715469692580659 / 1125899906842624)) (Fin (6 / 1)) (Fin (12 / 1)) true false true ((Fin (0 / 1)) :: (Fin (0 / 1)) :: (Fin (0 / 1)) :: (Fin (0 / 1)) :: (Fin (27 / 4)) :: (Fin (45 / 1)) :: nil)) (9 / 2).
Proof. apply (A41_rio_fin _ (6553512730798565 / 2251799813685248)); [reflexivity | apply (A41_q_lo 6553512730798565 2251799813685248 9 2); [vm_compute; reflexivity | unfold fr, ctol, A41_lo, A41_c, A41_e; interval with (i_prec 80)]]. Qed.
Lemma r_A41_916 : rio_reads A41_c A41_e A41_lo A41_hi floor_volts ctol (Build_rio (Fin (5 / 128)) (Fin (5 / 1)) (Fin (0 / 1)) (Fin (137 / 256)) (Fin (12 / 1)) true true false ((Fin (2141 / 1024)) :: (Fin (1811 / 1024)) :: (Fin (2511 / 1024)) :: (Fin (19863 / 1024)) :: (Fin (4671 / 1024)) :: (Fin (101205 / 1024)) :: nil)) (35 / 1).
Proof. apply (A41_rio_fin _ (5 / 128)); [reflexivity | apply (A41_q_hi 5 128 35 1); [vm_compute; reflexivity | unfold fr, ctol, A41_hi, A41_c, A41_e; interval with (i_prec 80)]]. Qed.
Lemma r_A41_932 : rio_reads A41_c A41_e A41_lo A41_hi floor_volts ctol (Build_rio (Fin (45 / 128)) (Fin (2141 / 512)) (Fin (4453 / 1024)) (Fin (2999 / 512)) (Fin (2869 / 256)) true true true ((Fin (1063 / 512)) :: (Fin (265 / 1024)) :: (Fin (295 / 1024)) :: (Fin (12699 / 1024)) :: (Fin (6099 / 1024)) :: (Fin (4085 / 128)) :: nil)) (35 / 1).
Proof. apply (A41_rio_fin _ (45 / 128)); [reflexivity | apply (A41_q_hi 45 128 35 1); [vm_compute; reflexivity | unfold fr, ctol, A41_hi, A41_c, A41_e; interval with (i_prec 80)]]. Qed.
Lemma r_A41_948 : rio_reads A41_c A41_e A41_lo A41_hi floor_volts ctol (Build_rio (Fin (85 / 128)) (Fin (4787 / 512)) (Fin (1373 / 512)) (Fin (1527 / 256)) (Fin (1411 / 128)) true true true ((Fin (1517 / 1024)) :: (Fin (361 / 256)) :: (Fin (0 / 1)) :: (Fin (25745 / 512)) :: (Fin (751 / 128)) :: (Fin (86573 / 1024)) :: nil)) (2701697628072607 / 140737488355328).
Proof. apply (A41_rio_fin _ (85 / 128)); [reflexivity | apply (A41_q_mid 85 128 2701697628072607 140737488355328); [vm_compute; reflexivity | unfold fr, close, ctol, A41_c, A41_e; interval with (i_prec 80)]]. Qed.
Lemma r_A41_964 : rio_reads A41_c A41_e A41_lo A41_hi floor_volts ctol (Build_rio (Fin (125 / 128)) (Fin (613 / 128)) (Fin (1 / 1)) (Fin (6 / 1)) (Fin (1315 / 128)) true true false ((Fin (1347 / 1024)) :: (Fin (1801 / 1024)) :: (Fin (209 / 512)) :: (Fin (31303 / 1024)) :: (Fin (1579 / 256)) :: (Fin (63393 / 1024)) :: nil)) (7398667130872021 / 562949953421312).
Proof. apply (A41_rio_fin _ (125 / 128)); [reflexivity | apply (A41_q_mid 125 128 7398667130872021 562949953421312); [vm_compute; reflexivity | unfold fr, close, ctol, A41_c, A41_e; interval with (i_prec 80)]]. Qed.
Lemma r_A41_980 : rio_reads A41_c A41_e A41_lo A41_hi floor_volts ctol (Build_rio (Fin (165 / 128)) (Fin (4125 / 1024)) (Fin ((-1) / 1)) (Fin (2543 / 512)) (Fin (10553 / 1024)) true true true ((Fin (1359 / 512)) :: (Fin (1579 / 1024)) :: (Fin (2993 / 1024)) :: (Fin (63733 / 512)) :: (Fin (1901 / 256)) :: (Fin (45065 / 1024)) :: nil)) (1408126485824557 / 140737488355328).
Proof. apply (A41_rio_fin _ (165 / 128)); [reflexivity | apply (A41_q_mid 165 128 1408126485824557 140737488355328); [vm_compute; reflexivity | unfold fr, close, ctol, A41_c, A41_e; interval with (i_prec 80)]]. Qed.
Lemma r_A41_996 : rio_reads A41_c A41_e A41_lo A41_hi floor_volts ctol (Build_rio (Fin (205 / 128)) (Fin (4817 / 1024)) (Fin (6259 / 512)) (Fin (1 / 202402253307310618352495346718917307049556649764142118356901358027430339567995346891960383701437124495187077864316811911389808737385793476867013399940738509921517424276566361364466907742093216341239767678472745068562007483424692698618103355649159556340810056512358769552333414615230502532186327508646006263307707741093494784)) (Fin (12 / 1)) false true true ((Fin (2105 / 1024)) :: (Fin (451 / 256)) :: (Fin (1069 / 1024)) :: (Fin (2119 / 32)) :: (Fin (8293 / 1024)) :: (Fin ((-919) / 256)) :: nil)) (1137708233421439 / 140737488355328).
Proof. apply (A41_rio_fin _ (205 / 128)); [reflexivity | apply (A41_q_mid 205 128 1137708233421439 140737488355328); [vm_compute; reflexivity | unfold fr, close, ctol, A41_c, A41_e; interval with (i_prec 80)]]. Qed.
Lemma r_A41_1012 : rio_reads A41_c A41_e A41_lo A41_hi floor_volts ctol (Build_rio (Fin (245 / 128)) (Fin (5902958103587057 / 590295810358705651712)) (Fin (813 / 256)) (Fin ((-1) / 1)) (Fin (14803 / 1024)) true false true ((Fin (1039 / 1024)) :: (Fin (597 / 1024)) :: (Fin (1195 / 512)) :: (Fin (73697 / 512)) :: (Fin (567 / 128)) :: (Fin (2295 / 32)) :: nil)) (7639608791634011 / 1125899906842624).
Proof. apply (A41_rio_fin _ (245 / 128)); [reflexivity | apply (A41_q_mid 245 128 7639608791634011 1125899906842624); [vm_compute; reflexivity | unfold fr, close, ctol, A41_c, A41_e; interval with (i_prec 80)]]. Qed.
Lemma r_A41_1028 : rio_reads A41_c A41_e A41_lo A41_hi floor_volts ctol (Build_rio (Fin (285 / 128)) (Fin (5391 / 1024)) (Fin (57 / 4)) (Fin (3085 / 512)) (Fin (873 / 128)) true true true ((Fin (1081 / 512)) :: (Fin (17 / 16)) :: (Fin (403 / 512)) :: (Fin (76015 / 1024)) :: (Fin (4363 / 1024)) :: (Fin (8479 / 1024)) :: nil)) (411555403378641 / 70368744177664).
Proof. apply (A41_rio_fin _ (285 / 128)); [reflexivity | apply (A41_q_mid 285 128 411555403378641 70368744177664); [vm_compute; reflexivity | unfold fr, close, ctol, A41_c, A41_e; interval with (i_prec 80)]]. Qed.
Lemma r_A41_1044 : rio_reads A41_c A41_e A41_lo A41_hi floor_volts ctol (Build_rio (Fin (325 / 128)) (Fin (1389 / 256)) (Fin (231 / 64)) (Fin (367 / 64)) (Fin (13471 / 1024)) false true false ((Fin (1491 / 1024)) :: (Fin (67 / 1024)) :: (Fin (2947 / 1024)) :: (Fin (3143 / 32)) :: (Fin (5031 / 1024)) :: (Fin (29 / 256)) :: nil)) (1446950505825217 / 281474976710656).
Proof. apply (A41_rio_fin _ (325 / 128)); [reflexivity | apply (A41_q_mid 325 128 1446950505825217 281474976710656); [vm_compute; reflexivity | unfold fr, close, ctol, A41_c, A41_e; interval with (i_prec 80)]]. Qed.
Lemma r_A41_1060 : rio_reads A41_c A41_e A41_lo A41_hi floor_volts ctol (Build_rio (Fin (365 / 128)) (Fin (2237 / 512)) (Fin (1471 / 512)) (Fin (6511 / 1024)) (Fin (12 / 1)) true true true ((Fin (1819 / 1024)) :: (Fin (615 / 512)) :: (Fin (9 / 16)) :: (Fin (18087 / 128)) :: (Fin (6617 / 1024)) :: (Fin (10673 / 512)) :: nil)) (5164061087791863 / 1125899906842624).
Proof. apply (A41_rio_fin _ (365 / 128)); [reflexivity | apply (A41_q_mid 365 128 5164061087791863 1125899906842624); [vm_compute; reflexivity | unfold fr, close, ctol, A41_c, A41_e; interval with (i_prec 80)]]. Qed.
Lemma r_A41_1076 : rio_reads A41_c A41_e A41_lo A41_hi floor_volts ctol (Build_rio (Fin (815 / 256)) (Fin (14943 / 1024)) (Fin (1 / 1)) (Fin (6705 / 1024)) (Fin (12 / 1)) true true true ((Fin (729 / 1024)) :: (Fin (753 / 1024)) :: (Fin (1115 / 512)) :: (Fin (28487 / 1024)) :: (Fin (3817 / 512)) :: (Fin (22369 / 256)) :: nil)) (9 / 2).
Proof. apply (A41_rio_fin _ (815 / 256)); [reflexivity | apply (A41_q_lo 815 256 9 2); [vm_compute; reflexivity | unfold fr, ctol, A41_lo, A41_c, A41_e; interval with (i_prec 80)]]. Qed.
Lemma r_A41_1092 : rio_reads A41_c A41_e A41_lo A41_hi floor_volts ctol (Build_rio (Fin (895 / 256)) (Fin (4439 / 1024)) (Fin (3715469692580659 / 1125899906842624)) (Fin ((-12) / 1)) (Fin (12 / 1)) false true true ((Fin (1161 / 1024)) :: (Fin (1851 / 1024)) :: (Fin (1851 / 1024)) :: (Fin (37195 / 1024)) :: (Fin (8955 / 1024)) :: (Fin ((-7353) / 1024)) :: nil)) (9 / 2).
Proof. apply (A41_rio_fin _ (895 / 256)); [reflexivity | apply (A41_q_lo 895 256 9 2); [vm_compute; reflexivity | unfold fr, ctol, A41_lo, A41_c, A41_e; interval with (i_prec 80)]]. Qed.
Lemma r_A41_1108 : rio_reads A41_c A41_e A41_lo A41_hi floor_volts ctol (Build_rio (Fin (975 / 256)) (Fin (5 / 1)) (Fin (1633 / 512)) (Fin (2723 / 512)) (Fin (13313 / 1024)) true true true ((Fin (1507 / 1024)) :: (Fin (123 / 512)) :: (Fin (83 / 512)) :: (Fin (50381 / 256)) :: (Fin (2107 / 256)) :: (Fin (83803 / 1024)) :: nil)) (9 / 2).
Proof. apply (A41_rio_fin _ (975 / 256)); [reflexivity | apply (A41_q_lo 975 256 9 2); [vm_compute; reflexivity | unfold fr, ctol, A41_lo, A41_c, A41_e; interval with (i_prec 80)]]. Qed.
Lemma r_A41_1124 : rio_reads A41_c A41_e A41_lo A41_hi floor_volts ctol (Build_rio (Fin (1055 / 256)) (Fin (7253 / 512)) (Fin (1807 / 512)) (Fin (4707 / 512)) (Fin (6713 / 512)) true false true ((Fin (327 / 1024)) :: (Fin (1341 / 1024)) :: (Fin (187 / 512)) :: (Fin (59147 / 1024)) :: (Fin (6587 / 1024)) :: (Fin (4767 / 128)) :: nil)) (9 / 2).
Proof. apply (A41_rio_fin _ (1055 / 256)); [reflexivity | apply (A41_q_lo 1055 256 9 2); [vm_compute; reflexivity | unfold fr, ctol, A41_lo, A41_c, A41_e; interval with (i_prec 80)]]. Qed.
Lemma r_A41_1140 : rio_reads A41_c A41_e A41_lo A41_hi floor_volts ctol (Build_rio (Fin (1135 / 256)) (Fin (100000000000000001097906362944045541740492309677311846336810682903157585404911491537163328978494688899061249669721172515611590283743140088328307009198146046031271664502933027185697489699588559043338384466165001178426897626212945177628091195786707458122783970171784415105291802893207873272974885715430223118336 / 1)) (Fin (183 / 64)) (Fin (6 / 1)) (Fin (91 / 8)) true true true ((Fin (859 / 1024)) :: (Fin (131 / 128)) :: (Fin (187 / 64)) :: (Fin (142101 / 1024)) :: (Fin (2551 / 512)) :: (Fin ((-2051) / 128)) :: nil)) (9 / 2).
Proof. apply (A41_rio_fin _ (1135 / 256)); [reflexivity | apply (A41_q_lo 1135 256 9 2); [vm_compute; reflexivity | unfold fr, ctol, A41_lo, A41_c, A41_e; interval with (i_prec 80)]]. Qed.
Lemma r_A41_1156 : rio_reads A41_c A41_e A41_lo A41_hi floor_volts ctol (Build_rio (Fin (1215 / 256)) (Fin (12767 / 1024)) (Fin (3091 / 1024)) PInf (Fin (1 / 1)) false true true ((Fin (205 / 1024)) :: (Fin (1407 / 1024)) :: (Fin (13 / 8)) :: (Fin (203009 / 1024)) :: (Fin (643 / 128)) :: (Fin (69231 / 1024)) :: nil)) (9 / 2).
Proof. apply (A41_rio_fin _ (1215 / 256)); [reflexivity | apply (A41_q_lo 1215 256 9 2); [vm_compute; reflexivity | unfold fr, ctol, A41_lo, A41_c, A41_e; interval with (i_prec 80)]]. Qed.
Lemma r_A41_1172 : rio_reads A41_c A41_e A41_lo A41_hi floor_volts ctol (Build_rio (Fin (2835013531480565 / 4503599627370496)) (Fin (5 / 1)) (Fin (2963 / 1024)) (Fin (6569 / 1024)) (Fin (11503 / 1024)) false true true ((Fin (293 / 128)) :: (Fin (1069 / 1024)) :: (Fin (235 / 128)) :: (Fin (8173 / 128)) :: (Fin (4695 / 1024)) :: (Fin ((-527) / 64)) :: nil)) (2847356046452753 / 140737488355328).
Proof. apply (A41_rio_fin _ (2835013531480565 / 4503599627370496)); [reflexivity | apply (A41_q_mid 2835013531480565 4503599627370496 2847356046452753 140737488355328); [vm_compute; reflexivity | unfold fr, close, ctol, A41_c, A41_e; interval with (i_prec 80)]]. Qed.
Lemma r_A41_1188 : rio_reads A41_c A41_e A41_lo A41_hi floor_volts ctol (Build_rio (Fin (1535188874760275 / 562949953421312)) (Fin (10411 / 1024)) (Fin (921 / 256)) (Fin (5 / 1)) (Fin (0 / 1)) true false false ((Fin (103 / 256)) :: (Fin (491 / 512)) :: (Fin (153 / 64)) :: (Fin (4129 / 1024)) :: (Fin (3993 / 1024)) :: (Fin (29971 / 1024)) :: nil)) (2697807539158245 / 562949953421312).
Proof. apply (A41_rio_fin _ (1535188874760275 / 562949953421312)); [reflexivity | apply (A41_q_mid 1535188874760275 562949953421312 2697807539158245 562949953421312); [vm_compute; reflexivity | unfold fr, close, ctol, A41_c, A41_e; interval with (i_prec 80)]]. Qed.
Lemma r_A41_1204 : rio_reads A41_c A41_e A41_lo A41_hi floor_volts ctol (Build_rio (Fin (641741734199613 / 140737488355328)) (Fin (4977 / 1024)) (Fin (3715469692580659 / 1125899906842624)) (Fin (6 / 1)) (Fin (13249 / 1024)) true true true ((Fin (329 / 512)) :: (Fin (501 / 1024)) :: (Fin (1379 / 512)) :: (Fin (196345 / 1024)) :: (Fin (5415 / 1024)) :: (Fin (17629 / 256)) :: nil)) (9 / 2).
Proof. apply (A41_rio_fin _ (641741734199613 / 140737488355328)); [reflexivity | apply (A41_q_lo 641741734199613 140737488355328 9 2); [vm_compute; reflexivity | unfold fr, ctol, A41_lo, A41_c, A41_e; interval with (i_prec 80)]]. Qed.
Lemma r_A41_1220 : rio_reads A41_c A41_e A41_lo A41_hi floor_volts ctol (Build_rio (Fin (3593408869904645 / 9007199254740992)) (Fin (4493 / 1024)) (Fin (3183 / 1024)) (Fin ((-12) / 1)) (Fin (4985 / 512)) false true false ((Fin (571 / 512)) :: (Fin (807 / 1024)) :: (Fin (1153 / 1024)) :: (Fin (45635 / 256)) :: (Fin (8499 / 1024)) :: (Fin (86713 / 1024)) :: nil)) (8913824662779835 / 281474976710656).
Proof. apply (A41_rio_fin _ (3593408869904645 / 9007199254740992)); [reflexivity | apply (A41_q_mid 3593408869904645 9007199254740992 8913824662779835 281474976710656); [vm_compute; reflexivity | unfold fr, close, ctol, A41_c, A41_e; interval with (i_prec 80)]]. Qed.
Lemma r_A41_1239 : rio_reads A41_c A41_e A41_lo A41_hi floor_volts ctol (Build_rio (Fin (4597705574943423 / 35184372088832)) (Fin (337 / 64)) (Fin (373 / 128)) (Fin (847 / 512)) (Fin (2945 / 256)) true true false ((Fin (1853 / 1024)) :: (Fin (1745 / 1024)) :: (Fin (87 / 64)) :: (Fin (160505 / 1024)) :: (Fin (1889 / 512)) :: (Fin (225 / 512)) :: nil)) (9 / 2).
Proof. apply (A41_rio_fin _ (4597705574943423 / 35184372088832)); [reflexivity | apply (A41_q_lo 4597705574943423 35184372088832 9 2); [vm_compute; reflexivity | unfold fr, ctol, A41_lo, A41_c, A41_e; interval with (i_prec 80)]]. Qed.
Lemma r_A41_1260 : rio_reads A41_c A41_e A41_lo A41_hi floor_volts ctol (Build_rio (Fin (5093348599010265 / 4503599627370496)) NInf (Fin (3227 / 1024)) (Fin (6 / 1)) (Fin (921 / 64)) true true true ((Fin (2883 / 1024)) :: (Fin (1485 / 1024)) :: (Fin (209 / 256)) :: (Fin (64325 / 1024)) :: (Fin (6461 / 1024)) :: (Fin (24563 / 1024)) :: nil)) (3202593344493987 / 281474976710656).
Proof. apply (A41_rio_fin _ (5093348599010265 / 4503599627370496)); [reflexivity | apply (A41_q_mid 5093348599010265 4503599627370496 3202593344493987 281474976710656); [vm_compute; reflexivity | unfold fr, close, ctol, A41_c, A41_e; interval with (i_prec 80)]]. Qed.
Lemma d_A41_1338u : close ctol (6491044311201869 / 18014398509481984) (volts_A41 (100 / 1)).
Proof. apply (A41_q_volts_hi 100 1 6491044311201869 18014398509481984); [vm_compute; reflexivity | unfold fr, close, ctol, A41_lo, A41_hi, A41_c, A41_e; interval with (i_prec 80)]. Qed.
Lemma d_A41_1346u : close ctol (6491044311201869 / 18014398509481984) (volts_A41 (150 / 1)).
Proof. apply (A41_q_volts_hi 150 1 6491044311201869 18014398509481984); [vm_compute; reflexivity | unfold fr, close, ctol, A41_lo, A41_hi, A41_c, A41_e; interval with (i_prec 80)]. Qed.
Lemma d_A41_1354u : close ctol (1636741441258383 / 562949953421312) (volts_A41 ((-1) / 1)).
Proof. apply (A41_q_volts_lo (-1) 1 1636741441258383 562949953421312); [vm_compute; reflexivity | unfold fr, close, ctol, A41_lo, A41_hi, A41_c, A41_e; interval with (i_prec 80)]. Qed.
Lemma d_A41_1362u : close ctol (2904288656509173 / 2251799813685248) (volts_A41 (10 / 1)).
Proof. apply (A41_q_volts_mid 10 1 2904288656509173 2251799813685248); [vm_compute; reflexivity | unfold fr, close, ctol, A41_lo, A41_hi, A41_c, A41_e; interval with (i_prec 80)]. Qed.
Lemma d_A41_1370u : close ctol (6491044311201869 / 18014398509481984) (volts_A41 (1000000 / 1)).
Proof. apply (A41_q_volts_hi 1000000 1 6491044311201869 18014398509481984); [vm_compute; reflexivity | unfold fr, close, ctol, A41_lo, A41_hi, A41_c, A41_e; interval with (i_prec 80)]. Qed.
Lemma d_A41_1378u : close ctol (3273482882516765 / 1125899906842624) (volts_A41 (5066549580791809 / 1125899906842624)).
Proof. apply (A41_q_volts_mid 5066549580791809 1125899906842624 3273482882516765 1125899906842624); [vm_compute; reflexivity | unfold fr, close, ctol, A41_lo, A41_hi, A41_c, A41_e; interval with (i_prec 80)]. Qed.
Lemma d_A41_1386u : close ctol (6491044311201869 / 18014398509481984) (volts_A41 (36 / 1)).
Proof. apply (A41_q_volts_hi 36 1 6491044311201869 18014398509481984); [vm_compute; reflexivity | unfold fr, close, ctol, A41_lo, A41_hi, A41_c, A41_e; interval with (i_prec 80)]. Qed.
Lemma d_A41_1396r : rio_reads A41_c A41_e A41_lo A41_hi floor_volts ctol (Build_rio (Fin (4720932275756473 / 9007199254740992)) (Fin (4313 / 1024)) (Fin (3715469692580659 / 1125899906842624)) (Fin (1373 / 256)) (Fin (11503 / 1024)) false true false ((Fin (247 / 512)) :: (Fin (473 / 256)) :: (Fin (971 / 1024)) :: (Fin (161317 / 1024)) :: (Fin (6953 / 1024)) :: (Fin (2903 / 64)) :: nil)) (6817559301938881 / 281474976710656).
Proof. apply (A41_rio_fin _ (4720932275756473 / 9007199254740992)); [reflexivity | apply (A41_q_mid 4720932275756473 9007199254740992 6817559301938881 281474976710656); [vm_compute; reflexivity | unfold fr, close, ctol, A41_c, A41_e; interval with (i_prec 80)]]. Qed.
Lemma d_A41_1409u : close ctol (5982512222921601 / 2251799813685248) (volts_A41 (2767895073544991 / 562949953421312)).
Proof. apply (A41_q_volts_mid 2767895073544991 562949953421312 5982512222921601 2251799813685248); [vm_compute; reflexivity | unfold fr, close, ctol, A41_lo, A41_hi, A41_c, A41_e; interval with (i_prec 80)]. Qed.
Lemma d_A41_1422u : close ctol (7600040818427463 / 9007199254740992) (volts_A41 (8541029796785527 / 562949953421312)).
Proof. apply (A41_q_volts_mid 8541029796785527 562949953421312 7600040818427463 9007199254740992); [vm_compute; reflexivity | unfold fr, close, ctol, A41_lo, A41_hi, A41_c, A41_e; interval with (i_prec 80)]. Qed.
Lemma d_A41_1435u : close ctol (3413088373861525 / 4503599627370496) (volts_A41 (2372836452621061 / 140737488355328)).
Proof. apply (A41_q_volts_mid 2372836452621061 140737488355328 3413088373861525 4503599627370496); [vm_compute; reflexivity | unfold fr, close, ctol, A41_lo, A41_hi, A41_c, A41_e; interval with (i_prec 80)]. Qed.
Lemma d_A41_1448u : close ctol (7017915568714227 / 18014398509481984) (volts_A41 (2281134046455155 / 70368744177664)).
Proof. apply (A41_q_volts_mid 2281134046455155 70368744177664 7017915568714227 18014398509481984); [vm_compute; reflexivity | unfold fr, close, ctol, A41_lo, A41_hi, A41_c, A41_e; interval with (i_prec 80)]. Qed.
Lemma d_A41_1460r : rio_reads A41_c A41_e A41_lo A41_hi floor_volts ctol (Build_rio (Fin (1721704564843881 / 4503599627370496)) (Fin (5 / 1)) (Fin (3715469692580659 / 1125899906842624)) (Fin (6 / 1)) (Fin (12 / 1)) true true true ((Fin (0 / 1)) :: (Fin (0 / 1)) :: (Fin (0 / 1)) :: (Fin (0 / 1)) :: (Fin (27 / 4)) :: (Fin (45 / 1)) :: nil)) (580946576027611 / 17592186044416).
Proof. apply (A41_rio_fin _ (1721704564843881 / 4503599627370496)); [reflexivity | apply (A41_q_mid 1721704564843881 4503599627370496 580946576027611 17592186044416); [vm_compute; reflexivity | unfold fr, close, ctol, A41_c, A41_e; interval with (i_prec 80)]]. Qed.
Lemma d_A41_1473u : close ctol (6491044311201869 / 18014398509481984) (volts_A41 (2514182122612107 / 70368744177664)).
Proof. apply (A41_q_volts_hi 2514182122612107 70368744177664 6491044311201869 18014398509481984); [vm_compute; reflexivity | unfold fr, close, ctol, A41_lo, A41_hi, A41_c, A41_e; interval with (i_prec 80)]. Qed.
Lemma d_A41_1486u : close ctol (5567595086635447 / 9007199254740992) (volts_A41 (5797622228783183 / 281474976710656)).
Proof. apply (A41_q_volts_mid 5797622228783183 281474976710656 5567595086635447 9007199254740992); [vm_compute; reflexivity | unfold fr, close, ctol, A41_lo, A41_hi, A41_c, A41_e; interval with (i_prec 80)]. Qed.
Lemma d_A41_1499u : close ctol (6491044311201869 / 18014398509481984) (volts_A41 (3608200080998225 / 70368744177664)).
Proof. apply (A41_q_volts_hi 3608200080998225 70368744177664 6491044311201869 18014398509481984); [vm_compute; reflexivity | unfold fr, close, ctol, A41_lo, A41_hi, A41_c, A41_e; interval with (i_prec 80)]. Qed.
Lemma d_A41_1512u : close ctol (6491044311201869 / 18014398509481984) (volts_A41 (1104545388868597 / 34359738368)).
Proof. apply (A41_q_volts_hi 1104545388868597 34359738368 6491044311201869 18014398509481984); [vm_compute; reflexivity | unfold fr, close, ctol, A41_lo, A41_hi, A41_c, A41_e; interval with (i_prec 80)]. Qed.
Lemma d_A41_1524r : rio_reads A41_c A41_e A41_lo A41_hi floor_volts ctol (Build_rio (Fin (6491044311201869 / 18014398509481984)) NInf (Fin (0 / 1)) (Fin (3227 / 512)) (Fin (5305 / 512)) true true false ((Fin (69 / 1024)) :: (Fin (771 / 512)) :: (Fin (2741 / 1024)) :: (Fin (16403 / 256)) :: (Fin (3353 / 1024)) :: (Fin ((-6627) / 1024)) :: nil)) (35 / 1).
Proof. apply (A41_rio_fin _ (6491044311201869 / 18014398509481984)); [reflexivity | apply (A41_q_hi 6491044311201869 18014398509481984 35 1); [vm_compute; reflexivity | unfold fr, ctol, A41_hi, A41_c, A41_e; interval with (i_prec 80)]]. Qed.
Lemma d_A41_1537u : close ctol (3835340335132689 / 2251799813685248) (volts_A41 (1070954735827735 / 140737488355328)).
Proof. apply (A41_q_volts_mid 1070954735827735 140737488355328 3835340335132689 2251799813685248); [vm_compute; reflexivity | unfold fr, close, ctol, A41_lo, A41_hi, A41_c, A41_e; interval with (i_prec 80)]. Qed.
Lemma d_A41_1550u : close ctol (7770529009182143 / 4503599627370496) (volts_A41 (8459472318455587 / 1125899906842624)).
Proof. apply (A41_q_volts_mid 8459472318455587 1125899906842624 7770529009182143 4503599627370496); [vm_compute; reflexivity | unfold fr, close, ctol, A41_lo, A41_hi, A41_c, A41_e; interval with (i_prec 80)]. Qed.
Lemma d_A41_1563u : close ctol (5871693237126083 / 9007199254740992) (volts_A41 (5502508003046197 / 281474976710656)).
Proof. apply (A41_q_volts_mid 5502508003046197 281474976710656 5871693237126083 9007199254740992); [vm_compute; reflexivity | unfold fr, close, ctol, A41_lo, A41_hi, A41_c, A41_e; interval with (i_prec 80)]. Qed.
Lemma d_A41_1576u : close ctol (1636741441258383 / 562949953421312) (volts_A41 (2809213783049059 / 1125899906842624)).
Proof. apply (A41_q_volts_lo 2809213783049059 1125899906842624 1636741441258383 562949953421312); [vm_compute; reflexivity | unfold fr, close, ctol, A41_lo, A41_hi, A41_c, A41_e; interval with (i_prec 80)]. Qed.
Lemma d_A41_1588r : rio_reads A41_c A41_e A41_lo A41_hi floor_volts ctol (Build_rio (Fin (3886328972406069 / 9007199254740992)) (Fin (7809 / 1024)) (Fin (5902958103587057 / 590295810358705651712)) (Fin (3007 / 512)) (Fin (6447 / 512)) true true true ((Fin (231 / 128)) :: (Fin (1025 / 1024)) :: (Fin (195 / 512)) :: (Fin (14865 / 512)) :: (Fin (1607 / 256)) :: (Fin (15419 / 256)) :: nil)) (4126673852283671 / 140737488355328).
Proof. apply (A41_rio_fin _ (3886328972406069 / 9007199254740992)); [reflexivity | apply (A41_q_mid 3886328972406069 9007199254740992 4126673852283671 140737488355328); [vm_compute; reflexivity | unfold fr, close, ctol, A41_c, A41_e; interval with (i_prec 80)]]. Qed.
Lemma d_A41_1601u : close ctol (6491044311201869 / 18014398509481984) (volts_A41 (7354799287847149 / 70368744177664)).
Proof. apply (A41_q_volts_hi 7354799287847149 70368744177664 6491044311201869 18014398509481984); [vm_compute; reflexivity | unfold fr, close, ctol, A41_lo, A41_hi, A41_c, A41_e; interval with (i_prec 80)]. Qed.
Lemma d_A41_1614u : close ctol (6491044311201869 / 18014398509481984) (volts_A41 (61 / 1)).
Proof. apply (A41_q_volts_hi 61 1 6491044311201869 18014398509481984); [vm_compute; reflexivity | unfold fr, close, ctol, A41_lo, A41_hi, A41_c, A41_e; interval with (i_prec 80)]. Qed.
Lemma d_A41_1627u : close ctol (1636741441258383 / 562949953421312) (volts_A41 (2340244350880711 / 2251799813685248)).
Proof. apply (A41_q_volts_lo 2340244350880711 2251799813685248 1636741441258383 562949953421312); [vm_compute; reflexivity | unfold fr, close, ctol, A41_lo, A41_hi, A41_c, A41_e; interval with (i_prec 80)]. Qed.
Lemma d_A41_1640u : close ctol (6751752033189263 / 18014398509481984) (volts_A41 (1184723308163149 / 35184372088832)).
Proof. apply (A41_q_volts_mid 1184723308163149 35184372088832 6751752033189263 18014398509481984); [vm_compute; reflexivity | unfold fr, close, ctol, A41_lo, A41_hi, A41_c, A41_e; interval with (i_prec 80)]. Qed.
Lemma d_A41_1652r : rio_reads A41_c A41_e A41_lo A41_hi floor_volts ctol (Build_rio (Fin (6491044311201869 / 18014398509481984)) (Fin (5 / 1)) (Fin (3715469692580659 / 1125899906842624)) (Fin (6 / 1)) (Fin (12 / 1)) true true true ((Fin (0 / 1)) :: (Fin (0 / 1)) :: (Fin (0 / 1)) :: (Fin (0 / 1)) :: (Fin (27 / 4)) :: (Fin (45 / 1)) :: nil)) (35 / 1).
Proof. apply (A41_rio_fin _ (6491044311201869 / 18014398509481984)); [reflexivity | apply (A41_q_hi 6491044311201869 18014398509481984 35 1); [vm_compute; reflexivity | unfold fr, ctol, A41_hi, A41_c, A41_e; interval with (i_prec 80)]]. Qed.
Lemma d_A41_1665u : close ctol (6491044311201869 / 18014398509481984) (volts_A41 (38 / 1)).
Proof. apply (A41_q_volts_hi 38 1 6491044311201869 18014398509481984); [vm_compute; reflexivity | unfold fr, close, ctol, A41_lo, A41_hi, A41_c, A41_e; interval with (i_prec 80)]. Qed.
Lemma d_A41_1678u : close ctol (4162590338474473 / 9007199254740992) (volts_A41 (482181953292621 / 17592186044416)).
Proof. apply (A41_q_volts_mid 482181953292621 17592186044416 4162590338474473 9007199254740992); [vm_compute; reflexivity | unfold fr, close, ctol, A41_lo, A41_hi, A41_c, A41_e; interval with (i_prec 80)]. Qed.
Lemma d_A41_1691u : close ctol (7291802567911531 / 18014398509481984) (volts_A41 (2196932306293507 / 70368744177664)).
Proof. apply (A41_q_volts_mid 2196932306293507 70368744177664 7291802567911531 18014398509481984); [vm_compute; reflexivity | unfold fr, close, ctol, A41_lo, A41_hi, A41_c, A41_e; interval with (i_prec 80)]. Qed.
Lemma d_A41_1704u : close ctol (1682814335183017 / 2251799813685248) (volts_A41 (2405703549267585 / 140737488355328)).
Proof. apply (A41_q_volts_mid 2405703549267585 140737488355328 1682814335183017 2251799813685248); [vm_compute; reflexivity | unfold fr, close, ctol, A41_lo, A41_hi, A41_c, A41_e; interval with (i_prec 80)]. Qed.
Lemma d_A41_1716r : rio_reads A41_c A41_e A41_lo A41_hi floor_volts ctol (Build_rio (Fin (1636741441258383 / 562949953421312)) (Fin (5 / 1)) (Fin (3373 / 1024)) (Fin (5057 / 1024)) (Fin (12 / 1)) false true true ((Fin (29 / 512)) :: (Fin (513 / 512)) :: (Fin (275 / 256)) :: (Fin (701 / 64)) :: (Fin (4647 / 1024)) :: (Fin (20455 / 256)) :: nil)) (9 / 2).
Proof. apply (A41_rio_fin _ (1636741441258383 / 562949953421312)); [reflexivity | apply (A41_q_lo 1636741441258383 562949953421312 9 2); [vm_compute; reflexivity | unfold fr, ctol, A41_lo, A41_c, A41_e; interval with (i_prec 80)]]. Qed.
Lemma d_A41_1729u : close ctol (1636741441258383 / 562949953421312) (volts_A41 (69126579002359 / 140737488355328)).
Proof. apply (A41_q_volts_lo 69126579002359 140737488355328 1636741441258383 562949953421312); [vm_compute; reflexivity | unfold fr, close, ctol, A41_lo, A41_hi, A41_c, A41_e; interval with (i_prec 80)]. Qed.
Lemma d_A41_1742u : close ctol (1636741441258383 / 562949953421312) (volts_A41 ((-158181378458301) / 2251799813685248)).
Proof. apply (A41_q_volts_lo (-158181378458301) 2251799813685248 1636741441258383 562949953421312); [vm_compute; reflexivity | unfold fr, close, ctol, A41_lo, A41_hi, A41_c, A41_e; interval with (i_prec 80)]. Qed.
Lemma d_A41_1755u : close ctol (4778164018281843 / 9007199254740992) (volts_A41 (6737328865483487 / 281474976710656)).
Proof. apply (A41_q_volts_mid 6737328865483487 281474976710656 4778164018281843 9007199254740992); [vm_compute; reflexivity | unfold fr, close, ctol, A41_lo, A41_hi, A41_c, A41_e; interval with (i_prec 80)]. Qed.
Lemma d_A41_1768u : close ctol (1169433819994481 / 1125899906842624) (volts_A41 (3481921090062211 / 281474976710656)).
Proof. apply (A41_q_volts_mid 3481921090062211 281474976710656 1169433819994481 1125899906842624); [vm_compute; reflexivity | unfold fr, close, ctol, A41_lo, A41_hi, A41_c, A41_e; interval with (i_prec 80)]. Qed.
Lemma d_A41_1780r : rio_reads A41_c A41_e A41_lo A41_hi floor_volts ctol (Build_rio (Fin (4266976190029495 / 9007199254740992)) (Fin (4283 / 1024)) (Fin (8395 / 1024)) (Fin (5885 / 1024)) (Fin (1405 / 128)) true false true ((Fin (129 / 64)) :: (Fin (183 / 512)) :: (Fin (1403 / 512)) :: (Fin (192085 / 1024)) :: (Fin (1857 / 256)) :: (Fin (945 / 64)) :: nil)) (7529457776754441 / 281474976710656).
Proof. apply (A41_rio_fin _ (4266976190029495 / 9007199254740992)); [reflexivity | apply (A41_q_mid 4266976190029495 9007199254740992 7529457776754441 281474976710656); [vm_compute; reflexivity | unfold fr, close, ctol, A41_c, A41_e; interval with (i_prec 80)]]. Qed.
Lemma d_A41_1793u : close ctol (5366037177567451 / 9007199254740992) (volts_A41 (6011488675084089 / 281474976710656)).
Proof. apply (A41_q_volts_mid 6011488675084089 281474976710656 5366037177567451 9007199254740992); [vm_compute; reflexivity | unfold fr, close, ctol, A41_lo, A41_hi, A41_c, A41_e; interval with (i_prec 80)]. Qed.
Lemma d_A41_1806u : close ctol (6491044311201869 / 18014398509481984) (volts_A41 (4007027452203691 / 1099511627776)).
Proof. apply (A41_q_volts_hi 4007027452203691 1099511627776 6491044311201869 18014398509481984); [vm_compute; reflexivity | unfold fr, close, ctol, A41_lo, A41_hi, A41_c, A41_e; interval with (i_prec 80)]. Qed.
Lemma d_A41_1819u : close ctol (6039749409324139 / 2251799813685248) (volts_A41 (5484247862703971 / 1125899906842624)).
Proof. apply (A41_q_volts_mid 5484247862703971 1125899906842624 6039749409324139 2251799813685248); [vm_compute; reflexivity | unfold fr, close, ctol, A41_lo, A41_hi, A41_c, A41_e; interval with (i_prec 80)]. Qed.
Lemma d_A41_1832u : close ctol (376992008676527 / 281474976710656) (volts_A41 (169521890092335 / 17592186044416)).
Proof. apply (A41_q_volts_mid 169521890092335 17592186044416 376992008676527 281474976710656); [vm_compute; reflexivity | unfold fr, close, ctol, A41_lo, A41_hi, A41_c, A41_e; interval with (i_prec 80)]. Qed.
Lemma d_A41_1844r : rio_reads A41_c A41_e A41_lo A41_hi floor_volts ctol (Build_rio (Fin (4366494573300145 / 2251799813685248)) (Fin (5 / 1)) (Fin (3715469692580659 / 1125899906842624)) (Fin (6 / 1)) (Fin (12 / 1)) true true true ((Fin (0 / 1)) :: (Fin (0 / 1)) :: (Fin (0 / 1)) :: (Fin (0 / 1)) :: (Fin (27 / 4)) :: (Fin (45 / 1)) :: nil)) (7542641675766977 / 1125899906842624).
Proof. apply (A41_rio_fin _ (4366494573300145 / 2251799813685248)); [reflexivity | apply (A41_q_mid 4366494573300145 2251799813685248 7542641675766977 1125899906842624); [vm_compute; reflexivity | unfold fr, close, ctol, A41_c, A41_e; interval with (i_prec 80)]]. Qed.
Lemma d_A41_1857u : close ctol (3125239700186165 / 4503599627370496) (volts_A41 (161710631793627 / 8796093022208)).
Proof. apply (A41_q_volts_mid 161710631793627 8796093022208 3125239700186165 4503599627370496); [vm_compute; reflexivity | unfold fr, close, ctol, A41_lo, A41_hi, A41_c, A41_e; interval with (i_prec 80)]. Qed.
Lemma d_A41_1870u : close ctol (1636741441258383 / 562949953421312) (volts_A41 ((-1214471501251013) / 1125899906842624)).
Proof. apply (A41_q_volts_lo (-1214471501251013) 1125899906842624 1636741441258383 562949953421312); [vm_compute; reflexivity | unfold fr, close, ctol, A41_lo, A41_hi, A41_c, A41_e; interval with (i_prec 80)]. Qed.
Lemma d_A41_1883u : close ctol (3609559309435603 / 4503599627370496) (volts_A41 (2245892443116261 / 140737488355328)).
Proof. apply (A41_q_volts_mid 2245892443116261 140737488355328 3609559309435603 4503599627370496); [vm_compute; reflexivity | unfold fr, close, ctol, A41_lo, A41_hi, A41_c, A41_e; interval with (i_prec 80)]. Qed.
Lemma d_A41_1896u : close ctol (1636741441258383 / 562949953421312) (volts_A41 (251842016699703 / 70368744177664)).
Proof. apply (A41_q_volts_lo 251842016699703 70368744177664 1636741441258383 562949953421312); [vm_compute; reflexivity | unfold fr, close, ctol, A41_lo, A41_hi, A41_c, A41_e; interval with (i_prec 80)]. Qed.
Lemma d_A41_1908r : rio_reads A41_c A41_e A41_lo A41_hi floor_volts ctol (Build_rio (Fin (6275480970865451 / 4503599627370496)) (Fin (585 / 128)) (Fin (3715469692580659 / 1125899906842624)) (Fin (0 / 1)) (Fin (11583 / 1024)) true true true ((Fin (7 / 256)) :: (Fin (445 / 1024)) :: (Fin (221 / 128)) :: (Fin (84865 / 512)) :: (Fin (1141 / 128)) :: (Fin (27229 / 512)) :: nil)) (2608876426756781 / 281474976710656).
Proof. apply (A41_rio_fin _ (6275480970865451 / 4503599627370496)); [reflexivity | apply (A41_q_mid 6275480970865451 4503599627370496 2608876426756781 281474976710656); [vm_compute; reflexivity | unfold fr, close, ctol, A41_c, A41_e; interval with (i_prec 80)]]. Qed.
Lemma d_A41_1921u : close ctol (4338427543669857 / 2251799813685248) (volts_A41 (7590576513696833 / 1125899906842624)).
Proof. apply (A41_q_volts_mid 7590576513696833 1125899906842624 4338427543669857 2251799813685248); [vm_compute; reflexivity | unfold fr, close, ctol, A41_lo, A41_hi, A41_c, A41_e; interval with (i_prec 80)]. Qed.
Lemma d_A41_1934u : close ctol (3463160275820127 / 9007199254740992) (volts_A41 (577691462803729 / 17592186044416)).
Proof. apply (A41_q_volts_mid 577691462803729 17592186044416 3463160275820127 9007199254740992); [vm_compute; reflexivity | unfold fr, close, ctol, A41_lo, A41_hi, A41_c, A41_e; interval with (i_prec 80)]. Qed.
Lemma d_A41_1947u : close ctol (766336061202307 / 1125899906842624) (volts_A41 (5274055785461131 / 281474976710656)).
Proof. apply (A41_q_volts_mid 5274055785461131 281474976710656 766336061202307 1125899906842624); [vm_compute; reflexivity | unfold fr, close, ctol, A41_lo, A41_hi, A41_c, A41_e; interval with (i_prec 80)]. Qed.
Lemma d_A41_1960u : close ctol (6793883615522849 / 9007199254740992) (volts_A41 (4767832411808173 / 281474976710656)).
Proof. apply (A41_q_volts_mid 4767832411808173 281474976710656 6793883615522849 9007199254740992); [vm_compute; reflexivity | unfold fr, close, ctol, A41_lo, A41_hi, A41_c, A41_e; interval with (i_prec 80)]. Qed.
Lemma d_A41_1972r : rio_reads A41_c A41_e A41_lo A41_hi floor_volts ctol (Build_rio (Fin (4172272160326413 / 9007199254740992)) (Fin (7181 / 512)) (Fin (3715469692580659 / 1125899906842624)) (Fin ((-12) / 1)) (Fin (0 / 1)) true true true ((Fin (455 / 256)) :: (Fin (5 / 8)) :: (Fin (1643 / 1024)) :: (Fin (31917 / 256)) :: (Fin (1659 / 512)) :: (Fin (13553 / 256)) :: nil)) (7697323408027619 / 281474976710656).
Proof. apply (A41_rio_fin _ (4172272160326413 / 9007199254740992)); [reflexivity | apply (A41_q_mid 4172272160326413 9007199254740992 7697323408027619 281474976710656); [vm_compute; reflexivity | unfold fr, close, ctol, A41_c, A41_e; interval with (i_prec 80)]]. Qed.
Lemma d_A41_1985u : close ctol (1702347262368893 / 2251799813685248) (volts_A41 (1189291650580619 / 70368744177664)).
Proof. apply (A41_q_volts_mid 1189291650580619 70368744177664 1702347262368893 2251799813685248); [vm_compute; reflexivity | unfold fr, close, ctol, A41_lo, A41_hi, A41_c, A41_e; interval with (i_prec 80)]. Qed.
Lemma d_A41_1998u : close ctol (1636741441258383 / 562949953421312) (volts_A41 (1564560426145441 / 562949953421312)).
Proof. apply (A41_q_volts_lo 1564560426145441 562949953421312 1636741441258383 562949953421312); [vm_compute; reflexivity | unfold fr, close, ctol, A41_lo, A41_hi, A41_c, A41_e; interval with (i_prec 80)]. Qed.
Lemma d_A02_28g : get_distance (set_distance A02_c A02_e A02_lo A02_hi sim_init (2 / 1)) = (2 / 1).
Proof. cbn [get_distance set_distance sim_distance]. first [reflexivity | lra]. Qed.
Lemma d_A02_36g : get_distance (set_distance A02_c A02_e A02_lo A02_hi sim_init (200 / 1)) = (200 / 1).
Proof. cbn [get_distance set_distance sim_distance]. first [reflexivity | lra]. Qed.
Lemma d_A02_45g : get_distance (set_distance A02_c A02_e A02_lo A02_hi sim_init (6333186975989759 / 281474976710656)) = (6333186975989759 / 281474976710656).
Proof. cbn [get_distance set_distance sim_distance]. first [reflexivity | lra]. Qed.
Lemma d_A02_53g : get_distance (set_distance A02_c A02_e A02_lo A02_hi sim_init (145 / 1)) = (145 / 1).
Proof. cbn [get_distance set_distance sim_distance]. first [reflexivity | lra]. Qed.
Lemma d_A02_61g : get_distance (set_distance A02_c A02_e A02_lo A02_hi sim_init ((-325157656203077) / 35184372088832)) = ((-325157656203077) / 35184372088832).
Proof. cbn [get_distance set_distance sim_distance]. first [reflexivity | lra]. Qed.
Lemma d_A02_69g : get_distance (set_distance A02_c A02_e A02_lo A02_hi sim_init (2975899612834297 / 70368744177664)) = (2975899612834297 / 70368744177664).
Proof. cbn [get_distance set_distance sim_distance]. first [reflexivity | lra]. Qed.
Lemma d_A02_77g : get_distance (set_distance A02_c A02_e A02_lo A02_hi sim_init (6472189996839281 / 17592186044416)) = (6472189996839281 / 17592186044416).
Proof. cbn [get_distance set_distance sim_distance]. first [reflexivity | lra]. Qed.
Lemma d_A02_85g : get_distance (set_distance A02_c A02_e A02_lo A02_hi sim_init (2099488422141961 / 17592186044416)) = (2099488422141961 / 17592186044416).
Proof. cbn [get_distance set_distance sim_distance]. first [reflexivity | lra]. Qed.
Lemma d_A02_93g : get_distance (set_distance A02_c A02_e A02_lo A02_hi sim_init (3991882648203779 / 140737488355328)) = (3991882648203779 / 140737488355328).
Proof. cbn [get_distance set_distance sim_distance]. first [reflexivity | lra]. Qed.
Lemma d_A02_101g : get_distance (set_distance A02_c A02_e A02_lo A02_hi sim_init (7676406352675931 / 70368744177664)) = (7676406352675931 / 70368744177664).
Proof. cbn [get_distance set_distance sim_distance]. first [reflexivity | lra]. Qed.
Lemma d_A02_109g : get_distance (set_distance A02_c A02_e A02_lo A02_hi sim_init (400839414438017 / 8796093022208)) = (400839414438017 / 8796093022208).
Proof. cbn [get_distance set_distance sim_distance]. first [reflexivity | lra]. Qed.
Lemma d_A02_117g : get_distance (set_distance A02_c A02_e A02_lo A02_hi sim_init (143 / 1)) = (143 / 1).
Proof. cbn [get_distance set_distance sim_distance]. first [reflexivity | lra]. Qed.
Lemma d_A02_125g : get_distance (set_distance A02_c A02_e A02_lo A02_hi sim_init (5162785351907675 / 17592186044416)) = (5162785351907675 / 17592186044416).
Proof. cbn [get_distance set_distance sim_distance]. first [reflexivity | lra]. Qed.
Lemma d_A02_133g : get_distance (set_distance A02_c A02_e A02_lo A02_hi sim_init (4994451581360871 / 35184372088832)) = (4994451581360871 / 35184372088832).
Proof. cbn [get_distance set_distance sim_distance]. first [reflexivity | lra]. Qed.
Lemma d_A02_141g : get_distance (set_distance A02_c A02_e A02_lo A02_hi sim_init (7733355264453317 / 70368744177664)) = (7733355264453317 / 70368744177664).
Proof. cbn [get_distance set_distance sim_distance]. first [reflexivity | lra]. Qed.
Lemma d_A02_149g : get_distance (set_distance A02_c A02_e A02_lo A02_hi sim_init (2530388282986339 / 281474976710656)) = (2530388282986339 / 281474976710656).
Proof. cbn [get_distance set_distance sim_distance]. first [reflexivity | lra]. Qed.
Lemma d_A02_157g : get_distance (set_distance A02_c A02_e A02_lo A02_hi sim_init (636093302123197 / 140737488355328)) = (636093302123197 / 140737488355328).
Proof. cbn [get_distance set_distance sim_distance]. first [reflexivity | lra]. Qed.
Lemma d_A02_165g : get_distance (set_distance A02_c A02_e A02_lo A02_hi sim_init (7187195672709091 / 17592186044416)) = (7187195672709091 / 17592186044416).
Proof. cbn [get_distance set_distance sim_distance]. first [reflexivity | lra]. Qed.
Lemma d_A02_173g : get_distance (set_distance A02_c A02_e A02_lo A02_hi sim_init (6153793420040153 / 140737488355328)) = (6153793420040153 / 140737488355328).
Proof. cbn [get_distance set_distance sim_distance]. first [reflexivity | lra]. Qed.
Lemma d_A02_181g : get_distance (set_distance A02_c A02_e A02_lo A02_hi sim_init (2267767757418099 / 17592186044416)) = (2267767757418099 / 17592186044416).
Proof. cbn [get_distance set_distance sim_distance]. first [reflexivity | lra]. Qed.
Lemma d_A02_189g : get_distance (set_distance A02_c A02_e A02_lo A02_hi sim_init ((-4507437465353697) / 1125899906842624)) = ((-4507437465353697) / 1125899906842624).
Proof. cbn [get_distance set_distance sim_distance]. first [reflexivity | lra]. Qed.
Lemma d_A02_197g : get_distance (set_distance A02_c A02_e A02_lo A02_hi sim_init (3256396125156907 / 4503599627370496)) = (3256396125156907 / 4503599627370496).
Proof. cbn [get_distance set_distance sim_distance]. first [reflexivity | lra]. Qed.
Lemma d_A02_205g : get_distance (set_distance A02_c A02_e A02_lo A02_hi sim_init (2357197531524031 / 17592186044416)) = (2357197531524031 / 17592186044416).
Proof. cbn [get_distance set_distance sim_distance]. first [reflexivity | lra]. Qed.
Lemma d_A02_213g : get_distance (set_distance A02_c A02_e A02_lo A02_hi sim_init (1792983921592549 / 70368744177664)) = (1792983921592549 / 70368744177664).
Proof. cbn [get_distance set_distance sim_distance]. first [reflexivity | lra]. Qed.
Lemma d_A02_221g : get_distance (set_distance A02_c A02_e A02_lo A02_hi sim_init (2375679931777185 / 35184372088832)) = (2375679931777185 / 35184372088832).
Proof. cbn [get_distance set_distance sim_distance]. first [reflexivity | lra]. Qed.
Lemma d_A02_229g : get_distance (set_distance A02_c A02_e A02_lo A02_hi sim_init (1290601168450207 / 17592186044416)) = (1290601168450207 / 17592186044416).
Proof. cbn [get_distance set_distance sim_distance]. first [reflexivity | lra]. Qed.
Lemma d_A02_237g : get_distance (set_distance A02_c A02_e A02_lo A02_hi sim_init (332343539976117 / 1099511627776)) = (332343539976117 / 1099511627776).
Proof. cbn [get_distance set_distance sim_distance]. first [reflexivity | lra]. Qed.
Lemma d_A02_245g : get_distance (set_distance A02_c A02_e A02_lo A02_hi sim_init (524635818838153 / 8796093022208)) = (524635818838153 / 8796093022208).
Proof. cbn [get_distance set_distance sim_distance]. first [reflexivity | lra]. Qed.
Lemma d_A02_253g : get_distance (set_distance A02_c A02_e A02_lo A02_hi sim_init (1176661413131113 / 8796093022208)) = (1176661413131113 / 8796093022208).
Proof. cbn [get_distance set_distance sim_distance]. first [reflexivity | lra]. Qed.
Lemma d_A02_261g : get_distance (set_distance A02_c A02_e A02_lo A02_hi sim_init (4125789951327509 / 17592186044416)) = (4125789951327509 / 17592186044416).
Proof. cbn [get_distance set_distance sim_distance]. first [reflexivity | lra]. Qed.
Lemma d_A02_269g : get_distance (set_distance A02_c A02_e A02_lo A02_hi sim_init (1645905840978793 / 8796093022208)) = (1645905840978793 / 8796093022208).
Proof. cbn [get_distance set_distance sim_distance]. first [reflexivity | lra]. Qed.
Lemma d_A02_277g : get_distance (set_distance A02_c A02_e A02_lo A02_hi sim_init (1277217457816487 / 17592186044416)) = (1277217457816487 / 17592186044416).
Proof. cbn [get_distance set_distance sim_distance]. first [reflexivity | lra]. Qed.
Lemma d_A02_285g : get_distance (set_distance A02_c A02_e A02_lo A02_hi sim_init ((-211919469381421) / 281474976710656)) = ((-211919469381421) / 281474976710656).
Proof. cbn [get_distance set_distance sim_distance]. first [reflexivity | lra]. Qed.
Lemma d_A02_293g : get_distance (set_distance A02_c A02_e A02_lo A02_hi sim_init (2084868772833983 / 35184372088832)) = (2084868772833983 / 35184372088832).
Proof. cbn [get_distance set_distance sim_distance]. first [reflexivity | lra]. Qed.
Lemma d_A02_301g : get_distance (set_distance A02_c A02_e A02_lo A02_hi sim_init (19082441512893 / 274877906944)) = (19082441512893 / 274877906944).
Proof. cbn [get_distance set_distance sim_distance]. first [reflexivity | lra]. Qed.
Lemma d_A02_309g : get_distance (set_distance A02_c A02_e A02_lo A02_hi sim_init (2169554346519917 / 35184372088832)) = (2169554346519917 / 35184372088832).
Proof. cbn [get_distance set_distance sim_distance]. first [reflexivity | lra]. Qed.
Lemma d_A02_317g : get_distance (set_distance A02_c A02_e A02_lo A02_hi sim_init (2334913803777945 / 8796093022208)) = (2334913803777945 / 8796093022208).
Proof. cbn [get_distance set_distance sim_distance]. first [reflexivity | lra]. Qed.
Lemma d_A02_325g : get_distance (set_distance A02_c A02_e A02_lo A02_hi sim_init (2579077112900815 / 35184372088832)) = (2579077112900815 / 35184372088832).
Proof. cbn [get_distance set_distance sim_distance]. first [reflexivity | lra]. Qed.
Lemma d_A02_333g : get_distance (set_distance A02_c A02_e A02_lo A02_hi sim_init (6737527294167665 / 70368744177664)) = (6737527294167665 / 70368744177664).
Proof. cbn [get_distance set_distance sim_distance]. first [reflexivity | lra]. Qed.
Lemma d_A02_341g : get_distance (set_distance A02_c A02_e A02_lo A02_hi sim_init (3521319035127335 / 140737488355328)) = (3521319035127335 / 140737488355328).
Proof. cbn [get_distance set_distance sim_distance]. first [reflexivity | lra]. Qed.
Lemma d_A02_349g : get_distance (set_distance A02_c A02_e A02_lo A02_hi sim_init ((-113369583416119) / 35184372088832)) = ((-113369583416119) / 35184372088832).
Proof. cbn [get_distance set_distance sim_distance]. first [reflexivity | lra]. Qed.
Lemma d_A02_357g : get_distance (set_distance A02_c A02_e A02_lo A02_hi sim_init (2670650937441015 / 8796093022208)) = (2670650937441015 / 8796093022208).
Proof. cbn [get_distance set_distance sim_distance]. first [reflexivity | lra]. Qed.
Lemma d_A02_365g : get_distance (set_distance A02_c A02_e A02_lo A02_hi sim_init (3824972219371587 / 70368744177664)) = (3824972219371587 / 70368744177664).
Proof. cbn [get_distance set_distance sim_distance]. first [reflexivity | lra]. Qed.
Lemma d_A02_373g : get_distance (set_distance A02_c A02_e A02_lo A02_hi sim_init (6260607438102903 / 70368744177664)) = (6260607438102903 / 70368744177664).
Proof. cbn [get_distance set_distance sim_distance]. first [reflexivity | lra]. Qed.
Lemma d_A02_381g : get_distance (set_distance A02_c A02_e A02_lo A02_hi sim_init (552654808029551 / 4398046511104)) = (552654808029551 / 4398046511104).
Proof. cbn [get_distance set_distance sim_distance]. first [reflexivity | lra]. Qed.
Lemma d_A02_389g : get_distance (set_distance A02_c A02_e A02_lo A02_hi sim_init (8753434705957161 / 70368744177664)) = (8753434705957161 / 70368744177664).
Proof. cbn [get_distance set_distance sim_distance]. first [reflexivity | lra]. Qed.
Lemma d_A02_397g : get_distance (set_distance A02_c A02_e A02_lo A02_hi sim_init (2495497848435751 / 17592186044416)) = (2495497848435751 / 17592186044416).
Proof. cbn [get_distance set_distance sim_distance]. first [reflexivity | lra]. Qed.
Lemma d_A02_405g : get_distance (set_distance A02_c A02_e A02_lo A02_hi sim_init (1461723317940919 / 70368744177664)) = (1461723317940919 / 70368744177664).
Proof. cbn [get_distance set_distance sim_distance]. first [reflexivity | lra]. Qed.
Lemma d_A02_413g : get_distance (set_distance A02_c A02_e A02_lo A02_hi sim_init (3852431448881297 / 562949953421312)) = (3852431448881297 / 562949953421312).
Proof. cbn [get_distance set_distance sim_distance]. first [reflexivity | lra]. Qed.
Lemma d_A02_421g : get_distance (set_distance A02_c A02_e A02_lo A02_hi sim_init (452677253881045 / 17592186044416)) = (452677253881045 / 17592186044416).
Proof. cbn [get_distance set_distance sim_distance]. first [reflexivity | lra]. Qed.
Lemma d_A02_429g : get_distance (set_distance A02_c A02_e A02_lo A02_hi sim_init (891348066167233 / 8796093022208)) = (891348066167233 / 8796093022208).
Proof. cbn [get_distance set_distance sim_distance]. first [reflexivity | lra]. Qed.
Lemma d_A02_437g : get_distance (set_distance A02_c A02_e A02_lo A02_hi sim_init (662862792209369 / 2199023255552)) = (662862792209369 / 2199023255552).
Proof. cbn [get_distance set_distance sim_distance]. first [reflexivity | lra]. Qed.
Lemma d_A02_445g : get_distance (set_distance A02_c A02_e A02_lo A02_hi sim_init (1907842558621637 / 8796093022208)) = (1907842558621637 / 8796093022208).
Proof. cbn [get_distance set_distance sim_distance]. first [reflexivity | lra]. Qed.
Lemma d_A02_453g : get_distance (set_distance A02_c A02_e A02_lo A02_hi sim_init (4597583226342411 / 35184372088832)) = (4597583226342411 / 35184372088832).
Proof. cbn [get_distance set_distance sim_distance]. first [reflexivity | lra]. Qed.
Lemma d_A02_461g : get_distance (set_distance A02_c A02_e A02_lo A02_hi sim_init (5426460537231565 / 17592186044416)) = (5426460537231565 / 17592186044416).
Proof. cbn [get_distance set_distance sim_distance]. first [reflexivity | lra]. Qed.
Lemma d_A02_469g : get_distance (set_distance A02_c A02_e A02_lo A02_hi sim_init (4307277488181595 / 35184372088832)) = (4307277488181595 / 35184372088832).
Proof. cbn [get_distance set_distance sim_distance]. first [reflexivity | lra]. Qed.
Lemma d_A02_477g : get_distance (set_distance A02_c A02_e A02_lo A02_hi sim_init (142532907501569 / 1099511627776)) = (142532907501569 / 1099511627776).
Proof. cbn [get_distance set_distance sim_distance]. first [reflexivity | lra]. Qed.
Lemma d_A02_485g : get_distance (set_distance A02_c A02_e A02_lo A02_hi sim_init (4055567601957879 / 35184372088832)) = (4055567601957879 / 35184372088832).
Proof. cbn [get_distance set_distance sim_distance]. first [reflexivity | lra]. Qed.
Lemma d_A02_493g : get_distance (set_distance A02_c A02_e A02_lo A02_hi sim_init (6333528050076271 / 70368744177664)) = (6333528050076271 / 70368744177664).
Proof. cbn [get_distance set_distance sim_distance]. first [reflexivity | lra]. Qed.
Lemma d_A02_501g : get_distance (set_distance A02_c A02_e A02_lo A02_hi sim_init (3309081019033911 / 35184372088832)) = (3309081019033911 / 35184372088832).
Proof. cbn [get_distance set_distance sim_distance]. first [reflexivity | lra]. Qed.
Lemma d_A02_509g : get_distance (set_distance A02_c A02_e A02_lo A02_hi sim_init (4726108127939725 / 70368744177664)) = (4726108127939725 / 70368744177664).
Proof. cbn [get_distance set_distance sim_distance]. first [reflexivity | lra]. Qed.
Lemma d_A02_517g : get_distance (set_distance A02_c A02_e A02_lo A02_hi sim_init (1600241497522495 / 140737488355328)) = (1600241497522495 / 140737488355328).
Proof. cbn [get_distance set_distance sim_distance]. first [reflexivity | lra]. Qed.
Lemma d_A02_525g : get_distance (set_distance A02_c A02_e A02_lo A02_hi sim_init (5990752168939059 / 140737488355328)) = (5990752168939059 / 140737488355328).
Proof. cbn [get_distance set_distance sim_distance]. first [reflexivity | lra]. Qed.
Lemma d_A02_533g : get_distance (set_distance A02_c A02_e A02_lo A02_hi sim_init (8229908989743865 / 281474976710656)) = (8229908989743865 / 281474976710656).
Proof. cbn [get_distance set_distance sim_distance]. first [reflexivity | lra]. Qed.
Lemma d_A02_541g : get_distance (set_distance A02_c A02_e A02_lo A02_hi sim_init (5062392862372767 / 35184372088832)) = (5062392862372767 / 35184372088832).
Proof. cbn [get_distance set_distance sim_distance]. first [reflexivity | lra]. Qed.
Lemma d_A02_549g : get_distance (set_distance A02_c A02_e A02_lo A02_hi sim_init (2312908012012967 / 17592186044416)) = (2312908012012967 / 17592186044416).
Proof. cbn [get_distance set_distance sim_distance]. first [reflexivity | lra]. Qed.
Lemma d_A02_557g : get_distance (set_distance A02_c A02_e A02_lo A02_hi sim_init (6992142814913097 / 281474976710656)) = (6992142814913097 / 281474976710656).
Proof. cbn [get_distance set_distance sim_distance]. first [reflexivity | lra]. Qed.
Lemma d_A02_565g : get_distance (set_distance A02_c A02_e A02_lo A02_hi sim_init (3912807494409493 / 17592186044416)) = (3912807494409493 / 17592186044416).
Proof. cbn [get_distance set_distance sim_distance]. first [reflexivity | lra]. Qed.
Lemma d_A02_573g : get_distance (set_distance A02_c A02_e A02_lo A02_hi sim_init ((-447939385014269) / 562949953421312)) = ((-447939385014269) / 562949953421312).
Proof. cbn [get_distance set_distance sim_distance]. first [reflexivity | lra]. Qed.
Lemma d_A02_581g : get_distance (set_distance A02_c A02_e A02_lo A02_hi sim_init (1060201282025541 / 17592186044416)) = (1060201282025541 / 17592186044416).
Proof. cbn [get_distance set_distance sim_distance]. first [reflexivity | lra]. Qed.
Lemma d_A02_589g : get_distance (set_distance A02_c A02_e A02_lo A02_hi sim_init (1905574694851483 / 35184372088832)) = (1905574694851483 / 35184372088832).
Proof. cbn [get_distance set_distance sim_distance]. first [reflexivity | lra]. Qed.
Lemma d_A02_597g : get_distance (set_distance A02_c A02_e A02_lo A02_hi sim_init (3113968554883079 / 140737488355328)) = (3113968554883079 / 140737488355328).
Proof. cbn [get_distance set_distance sim_distance]. first [reflexivity | lra]. Qed.
Lemma d_A02_605g : get_distance (set_distance A02_c A02_e A02_lo A02_hi sim_init (193 / 1)) = (193 / 1).
Proof. cbn [get_distance set_distance sim_distance]. first [reflexivity | lra]. Qed.
Lemma d_A02_613g : get_distance (set_distance A02_c A02_e A02_lo A02_hi sim_init (889208271023005 / 2199023255552)) = (889208271023005 / 2199023255552).
Proof. cbn [get_distance set_distance sim_distance]. first [reflexivity | lra]. Qed.
Lemma d_A02_621g : get_distance (set_distance A02_c A02_e A02_lo A02_hi sim_init (2726529220104211 / 35184372088832)) = (2726529220104211 / 35184372088832).
Proof. cbn [get_distance set_distance sim_distance]. first [reflexivity | lra]. Qed.
Lemma d_A02_629g : get_distance (set_distance A02_c A02_e A02_lo A02_hi sim_init (582587404863307 / 4398046511104)) = (582587404863307 / 4398046511104).
Proof. cbn [get_distance set_distance sim_distance]. first [reflexivity | lra]. Qed.
Lemma d_A02_637g : get_distance (set_distance A02_c A02_e A02_lo A02_hi sim_init (1941770357518157 / 70368744177664)) = (1941770357518157 / 70368744177664).
Proof. cbn [get_distance set_distance sim_distance]. first [reflexivity | lra]. Qed.
Lemma d_A02_645g : get_distance (set_distance A02_c A02_e A02_lo A02_hi sim_init (4612945570755249 / 35184372088832)) = (4612945570755249 / 35184372088832).
Proof. cbn [get_distance set_distance sim_distance]. first [reflexivity | lra]. Qed.
Lemma d_A02_653g : get_distance (set_distance A02_c A02_e A02_lo A02_hi sim_init (6141722874041763 / 70368744177664)) = (6141722874041763 / 70368744177664).
Proof. cbn [get_distance set_distance sim_distance]. first [reflexivity | lra]. Qed.
Lemma d_A02_661g : get_distance (set_distance A02_c A02_e A02_lo A02_hi sim_init (4120638898821079 / 35184372088832)) = (4120638898821079 / 35184372088832).
Proof. cbn [get_distance set_distance sim_distance]. first [reflexivity | lra]. Qed.
Lemma r_A21_436 : rio_reads A21_c A21_e A21_lo A21_hi floor_volts ctol (Build_rio (Fin ((-1152921504606847) / 1152921504606846976)) (Fin (10 / 1)) (Fin (3715469692580659 / 1125899906842624)) (Fin (6 / 1)) (Fin (12 / 1)) true true true ((Fin (0 / 1)) :: (Fin (0 / 1)) :: (Fin (0 / 1)) :: (Fin (0 / 1)) :: (Fin (27 / 4)) :: (Fin (45 / 1)) :: nil)) (5749786070656609 / 281474976710656).
Proof. apply (A21_rio_fin _ ((-1152921504606847) / 1152921504606846976)); [reflexivity | apply (A21_q_floor (-1152921504606847) 1152921504606846976 5749786070656609 281474976710656); vm_compute; reflexivity]. Qed.
Lemma r_A21_820 : rio_reads A21_c A21_e A21_lo A21_hi floor_volts ctol (Build_rio (Fin (166987172379091 / 36893488147419103232)) (Fin (4813 / 1024)) (Fin (95 / 32)) (Fin (1 / 202402253307310618352495346718917307049556649764142118356901358027430339567995346891960383701437124495187077864316811911389808737385793476867013399940738509921517424276566361364466907742093216341239767678472745068562007483424692698618103355649159556340810056512358769552333414615230502532186327508646006263307707741093494784)) (Fin (12221 / 1024)) true true false ((Fin (1051 / 1024)) :: (Fin (1893 / 1024)) :: (Fin (1967 / 1024)) :: (Fin (4621 / 1024)) :: (Fin (4067 / 512)) :: (Fin ((-829) / 1024)) :: nil)) (80 / 1).
Proof. apply (A21_rio_fin _ (166987172379091 / 36893488147419103232)); [reflexivity | apply (A21_q_floor 166987172379091 36893488147419103232 80 1); vm_compute; reflexivity]. Qed.
Lemma d_A21_671g : get_distance (set_distance A21_c A21_e A21_lo A21_hi sim_init (50 / 1)) = (50 / 1).
Proof. cbn [get_distance set_distance sim_distance]. first [reflexivity | lra]. Qed.
Lemma d_A21_679g : get_distance (set_distance A21_c A21_e A21_lo A21_hi sim_init (45 / 2)) = (45 / 2).
Proof. cbn [get_distance set_distance sim_distance]. first [reflexivity | lra]. Qed.
Lemma d_A21_687g : get_distance (set_distance A21_c A21_e A21_lo A21_hi sim_init (0 / 1)) = (0 / 1).
Proof. cbn [get_distance set_distance sim_distance]. first [reflexivity | lra]. Qed.
Lemma d_A21_695g : get_distance (set_distance A21_c A21_e A21_lo A21_hi sim_init (5 / 1)) = (5 / 1).
Proof. cbn [get_distance set_distance sim_distance]. first [reflexivity | lra]. Qed.
Lemma d_A21_703g : get_distance (set_distance A21_c A21_e A21_lo A21_hi sim_init (1000 / 1)) = (1000 / 1).
Proof. cbn [get_distance set_distance sim_distance]. first [reflexivity | lra]. Qed.
Lemma d_A21_712g : get_distance (set_distance A21_c A21_e A21_lo A21_hi sim_init (5629499534213121 / 562949953421312)) = (5629499534213121 / 562949953421312).
Proof. cbn [get_distance set_distance sim_distance]. first [reflexivity | lra]. Qed.
Lemma d_A21_720g : get_distance (set_distance A21_c A21_e A21_lo A21_hi sim_init (81 / 1)) = (81 / 1).
Proof. cbn [get_distance set_distance sim_distance]. first [reflexivity | lra]. Qed.
Lemma d_A21_728g : get_distance (set_distance A21_c A21_e A21_lo A21_hi sim_init (7741728042605739 / 70368744177664)) = (7741728042605739 / 70368744177664).
Proof. cbn [get_distance set_distance sim_distance]. first [reflexivity | lra]. Qed.
Lemma d_A21_736g : get_distance (set_distance A21_c A21_e A21_lo A21_hi sim_init (4986965913238729 / 70368744177664)) = (4986965913238729 / 70368744177664).
Proof. cbn [get_distance set_distance sim_distance]. first [reflexivity | lra]. Qed.
Lemma d_A21_744g : get_distance (set_distance A21_c A21_e A21_lo A21_hi sim_init (7503451077521231 / 281474976710656)) = (7503451077521231 / 281474976710656).
Proof. cbn [get_distance set_distance sim_distance]. first [reflexivity | lra]. Qed.
Lemma d_A21_752g : get_distance (set_distance A21_c A21_e A21_lo A21_hi sim_init (3045698731436681 / 140737488355328)) = (3045698731436681 / 140737488355328).
Proof. cbn [get_distance set_distance sim_distance]. first [reflexivity | lra]. Qed.
Lemma d_A21_760g : get_distance (set_distance A21_c A21_e A21_lo A21_hi sim_init (2525632097262825 / 35184372088832)) = (2525632097262825 / 35184372088832).
Proof. cbn [get_distance set_distance sim_distance]. first [reflexivity | lra]. Qed.
Lemma d_A21_768g : get_distance (set_distance A21_c A21_e A21_lo A21_hi sim_init (2753046924661741 / 35184372088832)) = (2753046924661741 / 35184372088832).
Proof. cbn [get_distance set_distance sim_distance]. first [reflexivity | lra]. Qed.
Lemma d_A21_776g : get_distance (set_distance A21_c A21_e A21_lo A21_hi sim_init (7583988962800821 / 70368744177664)) = (7583988962800821 / 70368744177664).
Proof. cbn [get_distance set_distance sim_distance]. first [reflexivity | lra]. Qed.
Lemma d_A21_784g : get_distance (set_distance A21_c A21_e A21_lo A21_hi sim_init (1088714296808819 / 140737488355328)) = (1088714296808819 / 140737488355328).
Proof. cbn [get_distance set_distance sim_distance]. first [reflexivity | lra]. Qed.
Lemma d_A21_792g : get_distance (set_distance A21_c A21_e A21_lo A21_hi sim_init (19 / 1)) = (19 / 1).
Proof. cbn [get_distance set_distance sim_distance]. first [reflexivity | lra]. Qed.
Lemma d_A21_800g : get_distance (set_distance A21_c A21_e A21_lo A21_hi sim_init (1103701987655783 / 35184372088832)) = (1103701987655783 / 35184372088832).
Proof. cbn [get_distance set_distance sim_distance]. first [reflexivity | lra]. Qed.
Lemma d_A21_808g : get_distance (set_distance A21_c A21_e A21_lo A21_hi sim_init (12 / 1)) = (12 / 1).
Proof. cbn [get_distance set_distance sim_distance]. first [reflexivity | lra]. Qed.
Lemma d_A21_816g : get_distance (set_distance A21_c A21_e A21_lo A21_hi sim_init (4048300377809347 / 70368744177664)) = (4048300377809347 / 70368744177664).
Proof. cbn [get_distance set_distance sim_distance]. first [reflexivity | lra]. Qed.
Lemma d_A21_824g : get_distance (set_distance A21_c A21_e A21_lo A21_hi sim_init (587117608075159 / 8796093022208)) = (587117608075159 / 8796093022208).
Proof. cbn [get_distance set_distance sim_distance]. first [reflexivity | lra]. Qed.
Lemma d_A21_832g : get_distance (set_distance A21_c A21_e A21_lo A21_hi sim_init (3686488376425845 / 70368744177664)) = (3686488376425845 / 70368744177664).
Proof. cbn [get_distance set_distance sim_distance]. first [reflexivity | lra]. Qed.
Lemma d_A21_840g : get_distance (set_distance A21_c A21_e A21_lo A21_hi sim_init (94185194789801 / 2199023255552)) = (94185194789801 / 2199023255552).
Proof. cbn [get_distance set_distance sim_distance]. first [reflexivity | lra]. Qed.
Lemma d_A21_848g : get_distance (set_distance A21_c A21_e A21_lo A21_hi sim_init (3415370136343353 / 562949953421312)) = (3415370136343353 / 562949953421312).
Proof. cbn [get_distance set_distance sim_distance]. first [reflexivity | lra]. Qed.
Lemma d_A21_856g : get_distance (set_distance A21_c A21_e A21_lo A21_hi sim_init (7724074721788083 / 281474976710656)) = (7724074721788083 / 281474976710656).
Proof. cbn [get_distance set_distance sim_distance]. first [reflexivity | lra]. Qed.
Lemma d_A21_864g : get_distance (set_distance A21_c A21_e A21_lo A21_hi sim_init (2979132562728465 / 70368744177664)) = (2979132562728465 / 70368744177664).
Proof. cbn [get_distance set_distance sim_distance]. first [reflexivity | lra]. Qed.
Lemma d_A21_872g : get_distance (set_distance A21_c A21_e A21_lo A21_hi sim_init (6469658578338843 / 140737488355328)) = (6469658578338843 / 140737488355328).
Proof. cbn [get_distance set_distance sim_distance]. first [reflexivity | lra]. Qed.
Lemma d_A21_880g : get_distance (set_distance A21_c A21_e A21_lo A21_hi sim_init (6420556331276065 / 562949953421312)) = (6420556331276065 / 562949953421312).
Proof. cbn [get_distance set_distance sim_distance]. first [reflexivity | lra]. Qed.
Lemma d_A21_888g : get_distance (set_distance A21_c A21_e A21_lo A21_hi sim_init (3200082848465039 / 140737488355328)) = (3200082848465039 / 140737488355328).
Proof. cbn [get_distance set_distance sim_distance]. first [reflexivity | lra]. Qed.
Lemma d_A21_896g : get_distance (set_distance A21_c A21_e A21_lo A21_hi sim_init (1197757341203871 / 17592186044416)) = (1197757341203871 / 17592186044416).
Proof. cbn [get_distance set_distance sim_distance]. first [reflexivity | lra]. Qed.
Lemma d_A21_904g : get_distance (set_distance A21_c A21_e A21_lo A21_hi sim_init (652100872193439 / 137438953472)) = (652100872193439 / 137438953472).
Proof. cbn [get_distance set_distance sim_distance]. first [reflexivity | lra]. Qed.
Lemma d_A21_912g : get_distance (set_distance A21_c A21_e A21_lo A21_hi sim_init (4582947291613791 / 70368744177664)) = (4582947291613791 / 70368744177664).
Proof. cbn [get_distance set_distance sim_distance]. first [reflexivity | lra]. Qed.
Lemma d_A21_920g : get_distance (set_distance A21_c A21_e A21_lo A21_hi sim_init ((-6762075422127779) / 2251799813685248)) = ((-6762075422127779) / 2251799813685248).
Proof. cbn [get_distance set_distance sim_distance]. first [reflexivity | lra]. Qed.
Lemma d_A21_928g : get_distance (set_distance A21_c A21_e A21_lo A21_hi sim_init (4710228520413477 / 70368744177664)) = (4710228520413477 / 70368744177664).
Proof. cbn [get_distance set_distance sim_distance]. first [reflexivity | lra]. Qed.
Lemma d_A21_936g : get_distance (set_distance A21_c A21_e A21_lo A21_hi sim_init (6400048594787809 / 562949953421312)) = (6400048594787809 / 562949953421312).
Proof. cbn [get_distance set_distance sim_distance]. first [reflexivity | lra]. Qed.
Lemma d_A21_944g : get_distance (set_distance A21_c A21_e A21_lo A21_hi sim_init (5803353315926825 / 140737488355328)) = (5803353315926825 / 140737488355328).
Proof. cbn [get_distance set_distance sim_distance]. first [reflexivity | lra]. Qed.
Lemma d_A21_952g : get_distance (set_distance A21_c A21_e A21_lo A21_hi sim_init (730094212957527 / 17592186044416)) = (730094212957527 / 17592186044416).
Proof. cbn [get_distance set_distance sim_distance]. first [reflexivity | lra]. Qed.
Lemma d_A21_960g : get_distance (set_distance A21_c A21_e A21_lo A21_hi sim_init (7297727695746655 / 562949953421312)) = (7297727695746655 / 562949953421312).
Proof. cbn [get_distance set_distance sim_distance]. first [reflexivity | lra]. Qed.
Lemma d_A21_968g : get_distance (set_distance A21_c A21_e A21_lo A21_hi sim_init (8284094635989193 / 35184372088832)) = (8284094635989193 / 35184372088832).
Proof. cbn [get_distance set_distance sim_distance]. first [reflexivity | lra]. Qed.
Lemma d_A21_976g : get_distance (set_distance A21_c A21_e A21_lo A21_hi sim_init (5959182926959265 / 140737488355328)) = (5959182926959265 / 140737488355328).
Proof. cbn [get_distance set_distance sim_distance]. first [reflexivity | lra]. Qed.
Lemma d_A21_984g : get_distance (set_distance A21_c A21_e A21_lo A21_hi sim_init (2520371219991577 / 70368744177664)) = (2520371219991577 / 70368744177664).
Proof. cbn [get_distance set_distance sim_distance]. first [reflexivity | lra]. Qed.
Lemma d_A21_992g : get_distance (set_distance A21_c A21_e A21_lo A21_hi sim_init (1614542943149799 / 8796093022208)) = (1614542943149799 / 8796093022208).
Proof. cbn [get_distance set_distance sim_distance]. first [reflexivity | lra]. Qed.
Lemma d_A21_1000g : get_distance (set_distance A21_c A21_e A21_lo A21_hi sim_init (6825579994405661 / 140737488355328)) = (6825579994405661 / 140737488355328).
Proof. cbn [get_distance set_distance sim_distance]. first [reflexivity | lra]. Qed.
Lemma d_A21_1008g : get_distance (set_distance A21_c A21_e A21_lo A21_hi sim_init (1172643094263907 / 70368744177664)) = (1172643094263907 / 70368744177664).
Proof. cbn [get_distance set_distance sim_distance]. first [reflexivity | lra]. Qed.
Lemma d_A21_1016g : get_distance (set_distance A21_c A21_e A21_lo A21_hi sim_init (5527708838711509 / 70368744177664)) = (5527708838711509 / 70368744177664).
Proof. cbn [get_distance set_distance sim_distance]. first [reflexivity | lra]. Qed.
Lemma d_A21_1024g : get_distance (set_distance A21_c A21_e A21_lo A21_hi sim_init (5952836897620715 / 140737488355328)) = (5952836897620715 / 140737488355328).
Proof. cbn [get_distance set_distance sim_distance]. first [reflexivity | lra]. Qed.
Lemma d_A21_1032g : get_distance (set_distance A21_c A21_e A21_lo A21_hi sim_init (1649564557349963 / 35184372088832)) = (1649564557349963 / 35184372088832).
Proof. cbn [get_distance set_distance sim_distance]. first [reflexivity | lra]. Qed.
Lemma d_A21_1040g : get_distance (set_distance A21_c A21_e A21_lo A21_hi sim_init (1149657185912693 / 35184372088832)) = (1149657185912693 / 35184372088832).
Proof. cbn [get_distance set_distance sim_distance]. first [reflexivity | lra]. Qed.
Lemma d_A21_1048g : get_distance (set_distance A21_c A21_e A21_lo A21_hi sim_init (2395331463557251 / 35184372088832)) = (2395331463557251 / 35184372088832).
Proof. cbn [get_distance set_distance sim_distance]. first [reflexivity | lra]. Qed.
Lemma d_A21_1056g : get_distance (set_distance A21_c A21_e A21_lo A21_hi sim_init (1534425892091985 / 281474976710656)) = (1534425892091985 / 281474976710656).
Proof. cbn [get_distance set_distance sim_distance]. first [reflexivity | lra]. Qed.
Lemma d_A21_1064g : get_distance (set_distance A21_c A21_e A21_lo A21_hi sim_init (2948832281692279 / 70368744177664)) = (2948832281692279 / 70368744177664).
Proof. cbn [get_distance set_distance sim_distance]. first [reflexivity | lra]. Qed.
Lemma d_A21_1072g : get_distance (set_distance A21_c A21_e A21_lo A21_hi sim_init (5582836607234385 / 70368744177664)) = (5582836607234385 / 70368744177664).
Proof. cbn [get_distance set_distance sim_distance]. first [reflexivity | lra]. Qed.
Lemma d_A21_1080g : get_distance (set_distance A21_c A21_e A21_lo A21_hi sim_init ((-3285772612974485) / 1125899906842624)) = ((-3285772612974485) / 1125899906842624).
Proof. cbn [get_distance set_distance sim_distance]. first [reflexivity | lra]. Qed.
Lemma d_A21_1088g : get_distance (set_distance A21_c A21_e A21_lo A21_hi sim_init (453755931552897 / 4398046511104)) = (453755931552897 / 4398046511104).
Proof. cbn [get_distance set_distance sim_distance]. first [reflexivity | lra]. Qed.
Lemma d_A21_1096g : get_distance (set_distance A21_c A21_e A21_lo A21_hi sim_init (1236044340564945 / 70368744177664)) = (1236044340564945 / 70368744177664).
Proof. cbn [get_distance set_distance sim_distance]. first [reflexivity | lra]. Qed.
Lemma d_A21_1104g : get_distance (set_distance A21_c A21_e A21_lo A21_hi sim_init (2397846996773647 / 70368744177664)) = (2397846996773647 / 70368744177664).
Proof. cbn [get_distance set_distance sim_distance]. first [reflexivity | lra]. Qed.
Lemma d_A21_1112g : get_distance (set_distance A21_c A21_e A21_lo A21_hi sim_init (136 / 1)) = (136 / 1).
Proof. cbn [get_distance set_distance sim_distance]. first [reflexivity | lra]. Qed.
Lemma d_A21_1120g : get_distance (set_distance A21_c A21_e A21_lo A21_hi sim_init (4988984222850639 / 140737488355328)) = (4988984222850639 / 140737488355328).
Proof. cbn [get_distance set_distance sim_distance]. first [reflexivity | lra]. Qed.
Lemma d_A21_1128g : get_distance (set_distance A21_c A21_e A21_lo A21_hi sim_init (2480866004526197 / 70368744177664)) = (2480866004526197 / 70368744177664).
Proof. cbn [get_distance set_distance sim_distance]. first [reflexivity | lra]. Qed.
Lemma d_A21_1136g : get_distance (set_distance A21_c A21_e A21_lo A21_hi sim_init (6117878810455391 / 140737488355328)) = (6117878810455391 / 140737488355328).
Proof. cbn [get_distance set_distance sim_distance]. first [reflexivity | lra]. Qed.
Lemma d_A21_1144g : get_distance (set_distance A21_c A21_e A21_lo A21_hi sim_init ((-1000512026664335) / 281474976710656)) = ((-1000512026664335) / 281474976710656).
Proof. cbn [get_distance set_distance sim_distance]. first [reflexivity | lra]. Qed.
Lemma d_A21_1152g : get_distance (set_distance A21_c A21_e A21_lo A21_hi sim_init (468217889474795 / 562949953421312)) = (468217889474795 / 562949953421312).
Proof. cbn [get_distance set_distance sim_distance]. first [reflexivity | lra]. Qed.
Lemma d_A21_1160g : get_distance (set_distance A21_c A21_e A21_lo A21_hi sim_init ((-1726624890811111) / 1125899906842624)) = ((-1726624890811111) / 1125899906842624).
Proof. cbn [get_distance set_distance sim_distance]. first [reflexivity | lra]. Qed.
Lemma d_A21_1168g : get_distance (set_distance A21_c A21_e A21_lo A21_hi sim_init (4093757207835149 / 140737488355328)) = (4093757207835149 / 140737488355328).
Proof. cbn [get_distance set_distance sim_distance]. first [reflexivity | lra]. Qed.
Lemma d_A21_1176g : get_distance (set_distance A21_c A21_e A21_lo A21_hi sim_init (3517119953331037 / 281474976710656)) = (3517119953331037 / 281474976710656).
Proof. cbn [get_distance set_distance sim_distance]. first [reflexivity | lra]. Qed.
Lemma d_A21_1184g : get_distance (set_distance A21_c A21_e A21_lo A21_hi sim_init (3599189084707059 / 140737488355328)) = (3599189084707059 / 140737488355328).
Proof. cbn [get_distance set_distance sim_distance]. first [reflexivity | lra]. Qed.
Lemma d_A21_1192g : get_distance (set_distance A21_c A21_e A21_lo A21_hi sim_init (4619571997793085 / 70368744177664)) = (4619571997793085 / 70368744177664).
Proof. cbn [get_distance set_distance sim_distance]. first [reflexivity | lra]. Qed.
Lemma d_A21_1200g : get_distance (set_distance A21_c A21_e A21_lo A21_hi sim_init (7492074948285663 / 140737488355328)) = (7492074948285663 / 140737488355328).
Proof. cbn [get_distance set_distance sim_distance]. first [reflexivity | lra]. Qed.
Lemma d_A21_1208g : get_distance (set_distance A21_c A21_e A21_lo A21_hi sim_init (2550521253493433 / 35184372088832)) = (2550521253493433 / 35184372088832).
Proof. cbn [get_distance set_distance sim_distance]. first [reflexivity | lra]. Qed.
Lemma d_A21_1216g : get_distance (set_distance A21_c A21_e A21_lo A21_hi sim_init (5545203880860017 / 70368744177664)) = (5545203880860017 / 70368744177664).
Proof. cbn [get_distance set_distance sim_distance]. first [reflexivity | lra]. Qed.
Lemma d_A21_1224g : get_distance (set_distance A21_c A21_e A21_lo A21_hi sim_init (5166014184164099 / 140737488355328)) = (5166014184164099 / 140737488355328).
Proof. cbn [get_distance set_distance sim_distance]. first [reflexivity | lra]. Qed.
Lemma d_A21_1232g : get_distance (set_distance A21_c A21_e A21_lo A21_hi sim_init (3416880814166255 / 140737488355328)) = (3416880814166255 / 140737488355328).
Proof. cbn [get_distance set_distance sim_distance]. first [reflexivity | lra]. Qed.
Lemma d_A21_1240g : get_distance (set_distance A21_c A21_e A21_lo A21_hi sim_init (47214268653967 / 4398046511104)) = (47214268653967 / 4398046511104).
Proof. cbn [get_distance set_distance sim_distance]. first [reflexivity | lra]. Qed.
Lemma d_A21_1248g : get_distance (set_distance A21_c A21_e A21_lo A21_hi sim_init (8197699569110929 / 140737488355328)) = (8197699569110929 / 140737488355328).
Proof. cbn [get_distance set_distance sim_distance]. first [reflexivity | lra]. Qed.
Lemma d_A21_1256g : get_distance (set_distance A21_c A21_e A21_lo A21_hi sim_init (1321061426917439 / 35184372088832)) = (1321061426917439 / 35184372088832).
Proof. cbn [get_distance set_distance sim_distance]. first [reflexivity | lra]. Qed.
Lemma d_A21_1264g : get_distance (set_distance A21_c A21_e A21_lo A21_hi sim_init (1234446106474565 / 35184372088832)) = (1234446106474565 / 35184372088832).
Proof. cbn [get_distance set_distance sim_distance]. first [reflexivity | lra]. Qed.
Lemma d_A21_1272g : get_distance (set_distance A21_c A21_e A21_lo A21_hi sim_init (2031463087189129 / 8796093022208)) = (2031463087189129 / 8796093022208).
Proof. cbn [get_distance set_distance sim_distance]. first [reflexivity | lra]. Qed.
Lemma d_A21_1280g : get_distance (set_distance A21_c A21_e A21_lo A21_hi sim_init (2074392667748477 / 140737488355328)) = (2074392667748477 / 140737488355328).
Proof. cbn [get_distance set_distance sim_distance]. first [reflexivity | lra]. Qed.
Lemma d_A21_1288g : get_distance (set_distance A21_c A21_e A21_lo A21_hi sim_init (4196073677161445 / 562949953421312)) = (4196073677161445 / 562949953421312).
Proof. cbn [get_distance set_distance sim_distance]. first [reflexivity | lra]. Qed.
Lemma d_A21_1296g : get_distance (set_distance A21_c A21_e A21_lo A21_hi sim_init (1424563828020111 / 35184372088832)) = (1424563828020111 / 35184372088832).
Proof. cbn [get_distance set_distance sim_distance]. first [reflexivity | lra]. Qed.
Lemma d_A21_1304g : get_distance (set_distance A21_c A21_e A21_lo A21_hi sim_init (109261895889923 / 562949953421312)) = (109261895889923 / 562949953421312).
Proof. cbn [get_distance set_distance sim_distance]. first [reflexivity | lra]. Qed.
Lemma d_A21_1312g : get_distance (set_distance A21_c A21_e A21_lo A21_hi sim_init (585814171385853 / 35184372088832)) = (585814171385853 / 35184372088832).
Proof. cbn [get_distance set_distance sim_distance]. first [reflexivity | lra]. Qed.
Lemma d_A21_1320g : get_distance (set_distance A21_c A21_e A21_lo A21_hi sim_init (2954070365781561 / 70368744177664)) = (2954070365781561 / 70368744177664).
Proof. cbn [get_distance set_distance sim_distance]. first [reflexivity | lra]. Qed.
Lemma d_A21_1328g : get_distance (set_distance A21_c A21_e A21_lo A21_hi sim_init (1042355077188173 / 562949953421312)) = (1042355077188173 / 562949953421312).
Proof. cbn [get_distance set_distance sim_distance]. first [reflexivity | lra]. Qed.
Lemma r_A41_862 : rio_reads A41_c A41_e A41_lo A41_hi floor_volts ctol (Build_rio (Fin ((-100000000000000001097906362944045541740492309677311846336810682903157585404911491537163328978494688899061249669721172515611590283743140088328307009198146046031271664502933027185697489699588559043338384466165001178426897626212945177628091195786707458122783970171784415105291802893207873272974885715430223118336) / 1)) (Fin (5854679515581645 / 1125899906842624)) (Fin (3715469692580659 / 1125899906842624)) (Fin (6 / 1)) (Fin (12 / 1)) true true true ((Fin (0 / 1)) :: (Fin (0 / 1)) :: (Fin (0 / 1)) :: (Fin (0 / 1)) :: (Fin (27 / 4)) :: (Fin (45 / 1)) :: nil)) (5876659090025575 / 562949953421312).
Proof. apply (A41_rio_fin _ ((-100000000000000001097906362944045541740492309677311846336810682903157585404911491537163328978494688899061249669721172515611590283743140088328307009198146046031271664502933027185697489699588559043338384466165001178426897626212945177628091195786707458122783970171784415105291802893207873272974885715430223118336) / 1)); [reflexivity | apply (A41_q_floor (-100000000000000001097906362944045541740492309677311846336810682903157585404911491537163328978494688899061249669721172515611590283743140088328307009198146046031271664502933027185697489699588559043338384466165001178426897626212945177628091195786707458122783970171784415105291802893207873272974885715430223118336) 1 5876659090025575 562949953421312); vm_compute; reflexivity]. Qed.
Lemma r_A41_1250 : rio_reads A41_c A41_e A41_lo A41_hi floor_volts ctol (Build_rio (Fin (1573944076407607 / 295147905179352825856)) (Fin (283 / 64)) (Fin (0 / 1)) (Fin (2675 / 512)) (Fin (3175 / 256)) true false true ((Fin (1969 / 1024)) :: (Fin (657 / 1024)) :: (Fin (1167 / 512)) :: (Fin (23205 / 512)) :: (Fin (5799 / 1024)) :: (Fin (35779 / 512)) :: nil)) (35 / 1).
Proof. apply (A41_rio_fin _ (1573944076407607 / 295147905179352825856)); [reflexivity | apply (A41_q_floor 1573944076407607 295147905179352825856 35 1); vm_compute; reflexivity]. Qed.
Lemma d_A41_1337g : get_distance (set_distance A41_c A41_e A41_lo A41_hi sim_init (50 / 1)) = (50 / 1).
Proof. cbn [get_distance set_distance sim_distance]. first [reflexivity | lra]. Qed.
Lemma d_A41_1345g : get_distance (set_distance A41_c A41_e A41_lo A41_hi sim_init (45 / 2)) = (45 / 2).
Proof. cbn [get_distance set_distance sim_distance]. first [reflexivity | lra]. Qed.
Lemma d_A41_1353g : get_distance (set_distance A41_c A41_e A41_lo A41_hi sim_init (0 / 1)) = (0 / 1).
Proof. cbn [get_distance set_distance sim_distance]. first [reflexivity | lra]. Qed.
Lemma d_A41_1361g : get_distance (set_distance A41_c A41_e A41_lo A41_hi sim_init (5 / 1)) = (5 / 1).
Proof. cbn [get_distance set_distance sim_distance]. first [reflexivity | lra]. Qed.
Lemma d_A41_1369g : get_distance (set_distance A41_c A41_e A41_lo A41_hi sim_init (1000 / 1)) = (1000 / 1).
Proof. cbn [get_distance set_distance sim_distance]. first [reflexivity | lra]. Qed.
Lemma d_A41_1378g : get_distance (set_distance A41_c A41_e A41_lo A41_hi sim_init (5066549580791809 / 1125899906842624)) = (5066549580791809 / 1125899906842624).
Proof. cbn [get_distance set_distance sim_distance]. first [reflexivity | lra]. Qed.
Lemma d_A41_1386g : get_distance (set_distance A41_c A41_e A41_lo A41_hi sim_init (36 / 1)) = (36 / 1).
Proof. cbn [get_distance set_distance sim_distance]. first [reflexivity | lra]. Qed.
Lemma d_A41_1394g : get_distance (set_distance A41_c A41_e A41_lo A41_hi sim_init (7209876733822039 / 1125899906842624)) = (7209876733822039 / 1125899906842624).
Proof. cbn [get_distance set_distance sim_distance]. first [reflexivity | lra]. Qed.
Lemma d_A41_1402g : get_distance (set_distance A41_c A41_e A41_lo A41_hi sim_init (3676638590989743 / 281474976710656)) = (3676638590989743 / 281474976710656).
Proof. cbn [get_distance set_distance sim_distance]. first [reflexivity | lra]. Qed.
Lemma d_A41_1410g : get_distance (set_distance A41_c A41_e A41_lo A41_hi sim_init (7612993019167093 / 281474976710656)) = (7612993019167093 / 281474976710656).
Proof. cbn [get_distance set_distance sim_distance]. first [reflexivity | lra]. Qed.
Lemma d_A41_1418g : get_distance (set_distance A41_c A41_e A41_lo A41_hi sim_init (4180052806255059 / 140737488355328)) = (4180052806255059 / 140737488355328).
Proof. cbn [get_distance set_distance sim_distance]. first [reflexivity | lra]. Qed.
Lemma d_A41_1426g : get_distance (set_distance A41_c A41_e A41_lo A41_hi sim_init (413571416639687 / 4398046511104)) = (413571416639687 / 4398046511104).
Proof. cbn [get_distance set_distance sim_distance]. first [reflexivity | lra]. Qed.
Lemma d_A41_1434g : get_distance (set_distance A41_c A41_e A41_lo A41_hi sim_init (1002183707843663 / 35184372088832)) = (1002183707843663 / 35184372088832).
Proof. cbn [get_distance set_distance sim_distance]. first [reflexivity | lra]. Qed.
Lemma d_A41_1442g : get_distance (set_distance A41_c A41_e A41_lo A41_hi sim_init (5047000315220149 / 281474976710656)) = (5047000315220149 / 281474976710656).
Proof. cbn [get_distance set_distance sim_distance]. first [reflexivity | lra]. Qed.
Lemma d_A41_1450g : get_distance (set_distance A41_c A41_e A41_lo A41_hi sim_init (2215950293071037 / 1125899906842624)) = (2215950293071037 / 1125899906842624).
Proof. cbn [get_distance set_distance sim_distance]. first [reflexivity | lra]. Qed.
Lemma d_A41_1458g : get_distance (set_distance A41_c A41_e A41_lo A41_hi sim_init (2335850383644685 / 70368744177664)) = (2335850383644685 / 70368744177664).
Proof. cbn [get_distance set_distance sim_distance]. first [reflexivity | lra]. Qed.
Lemma d_A41_1466g : get_distance (set_distance A41_c A41_e A41_lo A41_hi sim_init (592530790843909 / 17592186044416)) = (592530790843909 / 17592186044416).
Proof. cbn [get_distance set_distance sim_distance]. first [reflexivity | lra]. Qed.
Lemma d_A41_1474g : get_distance (set_distance A41_c A41_e A41_lo A41_hi sim_init (8081741944475951 / 281474976710656)) = (8081741944475951 / 281474976710656).
Proof. cbn [get_distance set_distance sim_distance]. first [reflexivity | lra]. Qed.
Lemma d_A41_1482g : get_distance (set_distance A41_c A41_e A41_lo A41_hi sim_init (2666960665643183 / 140737488355328)) = (2666960665643183 / 140737488355328).
Proof. cbn [get_distance set_distance sim_distance]. first [reflexivity | lra]. Qed.
Lemma d_A41_1490g : get_distance (set_distance A41_c A41_e A41_lo A41_hi sim_init ((-1) / 1)) = ((-1) / 1).
Proof. cbn [get_distance set_distance sim_distance]. first [reflexivity | lra]. Qed.
Lemma d_A41_1498g : get_distance (set_distance A41_c A41_e A41_lo A41_hi sim_init (301274305471575 / 70368744177664)) = (301274305471575 / 70368744177664).
Proof. cbn [get_distance set_distance sim_distance]. first [reflexivity | lra]. Qed.
Lemma d_A41_1506g : get_distance (set_distance A41_c A41_e A41_lo A41_hi sim_init ((-2010683417414379) / 1125899906842624)) = ((-2010683417414379) / 1125899906842624).
Proof. cbn [get_distance set_distance sim_distance]. first [reflexivity | lra]. Qed.
Lemma d_A41_1514g : get_distance (set_distance A41_c A41_e A41_lo A41_hi sim_init (2096864278420763 / 140737488355328)) = (2096864278420763 / 140737488355328).
Proof. cbn [get_distance set_distance sim_distance]. first [reflexivity | lra]. Qed.
Lemma d_A41_1522g : get_distance (set_distance A41_c A41_e A41_lo A41_hi sim_init (8771405804401775 / 1125899906842624)) = (8771405804401775 / 1125899906842624).
Proof. cbn [get_distance set_distance sim_distance]. first [reflexivity | lra]. Qed.
Lemma d_A41_1530g : get_distance (set_distance A41_c A41_e A41_lo A41_hi sim_init (8509377538253183 / 562949953421312)) = (8509377538253183 / 562949953421312).
Proof. cbn [get_distance set_distance sim_distance]. first [reflexivity | lra]. Qed.
Lemma d_A41_1538g : get_distance (set_distance A41_c A41_e A41_lo A41_hi sim_init (5108105832581033 / 281474976710656)) = (5108105832581033 / 281474976710656).
Proof. cbn [get_distance set_distance sim_distance]. first [reflexivity | lra]. Qed.
Lemma d_A41_1546g : get_distance (set_distance A41_c A41_e A41_lo A41_hi sim_init (6505276311273299 / 281474976710656)) = (6505276311273299 / 281474976710656).
Proof. cbn [get_distance set_distance sim_distance]. first [reflexivity | lra]. Qed.
Lemma d_A41_1554g : get_distance (set_distance A41_c A41_e A41_lo A41_hi sim_init ((-1043504368042367) / 562949953421312)) = ((-1043504368042367) / 562949953421312).
Proof. cbn [get_distance set_distance sim_distance]. first [reflexivity | lra]. Qed.
Lemma d_A41_1562g : get_distance (set_distance A41_c A41_e A41_lo A41_hi sim_init (2747172363486401 / 35184372088832)) = (2747172363486401 / 35184372088832).
Proof. cbn [get_distance set_distance sim_distance]. first [reflexivity | lra]. Qed.
Lemma d_A41_1570g : get_distance (set_distance A41_c A41_e A41_lo A41_hi sim_init (1735109829888681 / 70368744177664)) = (1735109829888681 / 70368744177664).
Proof. cbn [get_distance set_distance sim_distance]. first [reflexivity | lra]. Qed.
Lemma d_A41_1578g : get_distance (set_distance A41_c A41_e A41_lo A41_hi sim_init (2652757534920993 / 281474976710656)) = (2652757534920993 / 281474976710656).
Proof. cbn [get_distance set_distance sim_distance]. first [reflexivity | lra]. Qed.
Lemma d_A41_1586g : get_distance (set_distance A41_c A41_e A41_lo A41_hi sim_init (6236004009133301 / 562949953421312)) = (6236004009133301 / 562949953421312).
Proof. cbn [get_distance set_distance sim_distance]. first [reflexivity | lra]. Qed.
Lemma d_A41_1594g : get_distance (set_distance A41_c A41_e A41_lo A41_hi sim_init ((-3602367655334677) / 4503599627370496)) = ((-3602367655334677) / 4503599627370496).
Proof. cbn [get_distance set_distance sim_distance]. first [reflexivity | lra]. Qed.
Lemma d_A41_1602g : get_distance (set_distance A41_c A41_e A41_lo A41_hi sim_init (223295967828327 / 17592186044416)) = (223295967828327 / 17592186044416).
Proof. cbn [get_distance set_distance sim_distance]. first [reflexivity | lra]. Qed.
Lemma d_A41_1610g : get_distance (set_distance A41_c A41_e A41_lo A41_hi sim_init (3780897162236477 / 140737488355328)) = (3780897162236477 / 140737488355328).
Proof. cbn [get_distance set_distance sim_distance]. first [reflexivity | lra]. Qed.
Lemma d_A41_1618g : get_distance (set_distance A41_c A41_e A41_lo A41_hi sim_init (4885668629164507 / 281474976710656)) = (4885668629164507 / 281474976710656).
Proof. cbn [get_distance set_distance sim_distance]. first [reflexivity | lra]. Qed.
Lemma d_A41_1626g : get_distance (set_distance A41_c A41_e A41_lo A41_hi sim_init (4551563291280781 / 140737488355328)) = (4551563291280781 / 140737488355328).
Proof. cbn [get_distance set_distance sim_distance]. first [reflexivity | lra]. Qed.
Lemma d_A41_1634g : get_distance (set_distance A41_c A41_e A41_lo A41_hi sim_init (2943652162050507 / 281474976710656)) = (2943652162050507 / 281474976710656).
Proof. cbn [get_distance set_distance sim_distance]. first [reflexivity | lra]. Qed.
Lemma d_A41_1642g : get_distance (set_distance A41_c A41_e A41_lo A41_hi sim_init (4690828764778875 / 281474976710656)) = (4690828764778875 / 281474976710656).
Proof. cbn [get_distance set_distance sim_distance]. first [reflexivity | lra]. Qed.
Lemma d_A41_1650g : get_distance (set_distance A41_c A41_e A41_lo A41_hi sim_init (881921064730571 / 35184372088832)) = (881921064730571 / 35184372088832).
Proof. cbn [get_distance set_distance sim_distance]. first [reflexivity | lra]. Qed.
Lemma d_A41_1658g : get_distance (set_distance A41_c A41_e A41_lo A41_hi sim_init (3070980671118401 / 281474976710656)) = (3070980671118401 / 281474976710656).
Proof. cbn [get_distance set_distance sim_distance]. first [reflexivity | lra]. Qed.
Lemma d_A41_1666g : get_distance (set_distance A41_c A41_e A41_lo A41_hi sim_init (4567366827535067 / 140737488355328)) = (4567366827535067 / 140737488355328).
Proof. cbn [get_distance set_distance sim_distance]. first [reflexivity | lra]. Qed.
Lemma d_A41_1674g : get_distance (set_distance A41_c A41_e A41_lo A41_hi sim_init (2779889778702443 / 562949953421312)) = (2779889778702443 / 562949953421312).
Proof. cbn [get_distance set_distance sim_distance]. first [reflexivity | lra]. Qed.
Lemma d_A41_1682g : get_distance (set_distance A41_c A41_e A41_lo A41_hi sim_init (159678579891013 / 17592186044416)) = (159678579891013 / 17592186044416).
Proof. cbn [get_distance set_distance sim_distance]. first [reflexivity | lra]. Qed.
Lemma d_A41_1690g : get_distance (set_distance A41_c A41_e A41_lo A41_hi sim_init (7573915636476549 / 281474976710656)) = (7573915636476549 / 281474976710656).
Proof. cbn [get_distance set_distance sim_distance]. first [reflexivity | lra]. Qed.
Lemma d_A41_1698g : get_distance (set_distance A41_c A41_e A41_lo A41_hi sim_init (23 / 1)) = (23 / 1).
Proof. cbn [get_distance set_distance sim_distance]. first [reflexivity | lra]. Qed.
Lemma d_A41_1706g : get_distance (set_distance A41_c A41_e A41_lo A41_hi sim_init (5956553439750999 / 1152921504606846976)) = (5956553439750999 / 1152921504606846976).
Proof. cbn [get_distance set_distance sim_distance]. first [reflexivity | lra]. Qed.
Lemma d_A41_1714g : get_distance (set_distance A41_c A41_e A41_lo A41_hi sim_init (5036195630321185 / 140737488355328)) = (5036195630321185 / 140737488355328).
Proof. cbn [get_distance set_distance sim_distance]. first [reflexivity | lra]. Qed.
Lemma d_A41_1722g : get_distance (set_distance A41_c A41_e A41_lo A41_hi sim_init (3180684115224559 / 140737488355328)) = (3180684115224559 / 140737488355328).
Proof. cbn [get_distance set_distance sim_distance]. first [reflexivity | lra]. Qed.
Lemma d_A41_1730g : get_distance (set_distance A41_c A41_e A41_lo A41_hi sim_init (3229846721316067 / 281474976710656)) = (3229846721316067 / 281474976710656).
Proof. cbn [get_distance set_distance sim_distance]. first [reflexivity | lra]. Qed.
Lemma d_A41_1738g : get_distance (set_distance A41_c A41_e A41_lo A41_hi sim_init (1131788980838717 / 70368744177664)) = (1131788980838717 / 70368744177664).
Proof. cbn [get_distance set_distance sim_distance]. first [reflexivity | lra]. Qed.
Lemma d_A41_1746g : get_distance (set_distance A41_c A41_e A41_lo A41_hi sim_init (7461284886319065 / 1125899906842624)) = (7461284886319065 / 1125899906842624).
Proof. cbn [get_distance set_distance sim_distance]. first [reflexivity | lra]. Qed.
Lemma d_A41_1754g : get_distance (set_distance A41_c A41_e A41_lo A41_hi sim_init (8936530129197729 / 281474976710656)) = (8936530129197729 / 281474976710656).
Proof. cbn [get_distance set_distance sim_distance]. first [reflexivity | lra]. Qed.
Lemma d_A41_1762g : get_distance (set_distance A41_c A41_e A41_lo A41_hi sim_init (2338976113968887 / 35184372088832)) = (2338976113968887 / 35184372088832).
Proof. cbn [get_distance set_distance sim_distance]. first [reflexivity | lra]. Qed.
Lemma d_A41_1770g : get_distance (set_distance A41_c A41_e A41_lo A41_hi sim_init (3169836144675135 / 70368744177664)) = (3169836144675135 / 70368744177664).
Proof. cbn [get_distance set_distance sim_distance]. first [reflexivity | lra]. Qed.
Lemma d_A41_1778g : get_distance (set_distance A41_c A41_e A41_lo A41_hi sim_init (6085599893305443 / 281474976710656)) = (6085599893305443 / 281474976710656).
Proof. cbn [get_distance set_distance sim_distance]. first [reflexivity | lra]. Qed.
Lemma d_A41_1786g : get_distance (set_distance A41_c A41_e A41_lo A41_hi sim_init (5319490426964361 / 1125899906842624)) = (5319490426964361 / 1125899906842624).
Proof. cbn [get_distance set_distance sim_distance]. first [reflexivity | lra]. Qed.
Lemma d_A41_1794g : get_distance (set_distance A41_c A41_e A41_lo A41_hi sim_init (5995118474163501 / 70368744177664)) = (5995118474163501 / 70368744177664).
Proof. cbn [get_distance set_distance sim_distance]. first [reflexivity | lra]. Qed.
Lemma d_A41_1802g : get_distance (set_distance A41_c A41_e A41_lo A41_hi sim_init (3076451710015899 / 140737488355328)) = (3076451710015899 / 140737488355328).
Proof. cbn [get_distance set_distance sim_distance]. first [reflexivity | lra]. Qed.
Lemma d_A41_1810g : get_distance (set_distance A41_c A41_e A41_lo A41_hi sim_init (2875339115173647 / 140737488355328)) = (2875339115173647 / 140737488355328).
Proof. cbn [get_distance set_distance sim_distance]. first [reflexivity | lra]. Qed.
Lemma d_A41_1818g : get_distance (set_distance A41_c A41_e A41_lo A41_hi sim_init (20 / 1)) = (20 / 1).
Proof. cbn [get_distance set_distance sim_distance]. first [reflexivity | lra]. Qed.
Lemma d_A41_1826g : get_distance (set_distance A41_c A41_e A41_lo A41_hi sim_init (7997292431029995 / 1125899906842624)) = (7997292431029995 / 1125899906842624).
Proof. cbn [get_distance set_distance sim_distance]. first [reflexivity | lra]. Qed.
Lemma d_A41_1834g : get_distance (set_distance A41_c A41_e A41_lo A41_hi sim_init (1077144878075245 / 70368744177664)) = (1077144878075245 / 70368744177664).
Proof. cbn [get_distance set_distance sim_distance]. first [reflexivity | lra]. Qed.
Lemma d_A41_1842g : get_distance (set_distance A41_c A41_e A41_lo A41_hi sim_init (3182559223480863 / 70368744177664)) = (3182559223480863 / 70368744177664).
Proof. cbn [get_distance set_distance sim_distance]. first [reflexivity | lra]. Qed.
Lemma d_A41_1850g : get_distance (set_distance A41_c A41_e A41_lo A41_hi sim_init (1675969968286957 / 140737488355328)) = (1675969968286957 / 140737488355328).
Proof. cbn [get_distance set_distance sim_distance]. first [reflexivity | lra]. Qed.
Lemma d_A41_1858g : get_distance (set_distance A41_c A41_e A41_lo A41_hi sim_init (2302614524510863 / 2251799813685248)) = (2302614524510863 / 2251799813685248).
Proof. cbn [get_distance set_distance sim_distance]. first [reflexivity | lra]. Qed.
Lemma d_A41_1866g : get_distance (set_distance A41_c A41_e A41_lo A41_hi sim_init (1239236022117795 / 140737488355328)) = (1239236022117795 / 140737488355328).
Proof. cbn [get_distance set_distance sim_distance]. first [reflexivity | lra]. Qed.
Lemma d_A41_1874g : get_distance (set_distance A41_c A41_e A41_lo A41_hi sim_init (7419786936279577 / 281474976710656)) = (7419786936279577 / 281474976710656).
Proof. cbn [get_distance set_distance sim_distance]. first [reflexivity | lra]. Qed.
Lemma d_A41_1882g : get_distance (set_distance A41_c A41_e A41_lo A41_hi sim_init (5202974173723319 / 137438953472)) = (5202974173723319 / 137438953472).
Proof. cbn [get_distance set_distance sim_distance]. first [reflexivity | lra]. Qed.
Lemma d_A41_1890g : get_distance (set_distance A41_c A41_e A41_lo A41_hi sim_init (7576300665567611 / 281474976710656)) = (7576300665567611 / 281474976710656).
Proof. cbn [get_distance set_distance sim_distance]. first [reflexivity | lra]. Qed.
Lemma d_A41_1898g : get_distance (set_distance A41_c A41_e A41_lo A41_hi sim_init (2012197425411399 / 70368744177664)) = (2012197425411399 / 70368744177664).
Proof. cbn [get_distance set_distance sim_distance]. first [reflexivity | lra]. Qed.
Lemma d_A41_1906g : get_distance (set_distance A41_c A41_e A41_lo A41_hi sim_init (3505609458128401 / 140737488355328)) = (3505609458128401 / 140737488355328).
Proof. cbn [get_distance set_distance sim_distance]. first [reflexivity | lra]. Qed.
Lemma d_A41_1914g : get_distance (set_distance A41_c A41_e A41_lo A41_hi sim_init (1897492470807925 / 140737488355328)) = (1897492470807925 / 140737488355328).
Proof. cbn [get_distance set_distance sim_distance]. first [reflexivity | lra]. Qed.
Lemma d_A41_1922g : get_distance (set_distance A41_c A41_e A41_lo A41_hi sim_init (3986548432082797 / 1125899906842624)) = (3986548432082797 / 1125899906842624).
Proof. cbn [get_distance set_distance sim_distance]. first [reflexivity | lra]. Qed.
Lemma d_A41_1930g : get_distance (set_distance A41_c A41_e A41_lo A41_hi sim_init (1502113652240945 / 70368744177664)) = (1502113652240945 / 70368744177664).
Proof. cbn [get_distance set_distance sim_distance]. first [reflexivity | lra]. Qed.
Lemma d_A41_1938g : get_distance (set_distance A41_c A41_e A41_lo A41_hi sim_init (5218225794605553 / 562949953421312)) = (5218225794605553 / 562949953421312).
Proof. cbn [get_distance set_distance sim_distance]. first [reflexivity | lra]. Qed.
Lemma d_A41_1946g : get_distance (set_distance A41_c A41_e A41_lo A41_hi sim_init (305918065497467 / 8796093022208)) = (305918065497467 / 8796093022208).
Proof. cbn [get_distance set_distance sim_distance]. first [reflexivity | lra]. Qed.
Lemma d_A41_1954g : get_distance (set_distance A41_c A41_e A41_lo A41_hi sim_init (5682066935593221 / 281474976710656)) = (5682066935593221 / 281474976710656).
Proof. cbn [get_distance set_distance sim_distance]. first [reflexivity | lra]. Qed.
Lemma d_A41_1962g : get_distance (set_distance A41_c A41_e A41_lo A41_hi sim_init (4674956524835089 / 140737488355328)) = (4674956524835089 / 140737488355328).
Proof. cbn [get_distance set_distance sim_distance]. first [reflexivity | lra]. Qed.
Lemma d_A41_1970g : get_distance (set_distance A41_c A41_e A41_lo A41_hi sim_init (1868252811060219 / 8796093022208)) = (1868252811060219 / 8796093022208).
Proof. cbn [get_distance set_distance sim_distance]. first [reflexivity | lra]. Qed.
Lemma d_A41_1978g : get_distance (set_distance A41_c A41_e A41_lo A41_hi sim_init (6023921487530577 / 281474976710656)) = (6023921487530577 / 281474976710656).
Proof. cbn [get_distance set_distance sim_distance]. first [reflexivity | lra]. Qed.
Lemma d_A41_1986g : get_distance (set_distance A41_c A41_e A41_lo A41_hi sim_init (3236778576378517 / 35184372088832)) = (3236778576378517 / 35184372088832).
Proof. cbn [get_distance set_distance sim_distance]. first [reflexivity | lra]. Qed.
Lemma d_A41_1994g : get_distance (set_distance A41_c A41_e A41_lo A41_hi sim_init (7957469276363917 / 562949953421312)) = (7957469276363917 / 562949953421312).
Proof. cbn [get_distance set_distance sim_distance]. first [reflexivity | lra]. Qed.
Check d_A41_1994g.
